//! C19 — the output file holds one intact record per response under any parallelism.
//!
//! Entry points of the real code (all public, called in-process):
//!   `ResponseOutputFormat` (deserialised from the JSON form of the configuration) —
//!       `initial_file_contents`, `format_response`;
//!   `ResponseOutputPolicy::{File, Combined, None}::build` (always `WriteMode::Append`),
//!   `WriteMode::{Overwrite, Error}.open_file` + a hand-assembled `ResponseSink::File` (public fields) for the
//!       two modes `build` never selects, `ResponseSink::write_response`, `ResponseSink::close`;
//!   `CompassApp::run` on the repository's `speeds_test` network with a per-run `response_output_policy`
//!       (end to end: `run_batch_with_responses` / `run_batch_without_responses` on the rayon pool).
//! Case kinds (see lean/Compass/Drv/C19.lean): F one `format_response`; S one sink life cycle with 1..16 real
//! threads writing concurrently (chains of runs on one file); X a Combined sink, one response; B one sink life
//! cycle at a path of any kind (missing / file / directory / no parent directory / /dev/full) in each write
//! mode, with write failures and close; Y a Combined policy from build to close (build failures, failing
//! members, `ResponseSink::None`); A / A0 `CompassApp::run` (policies from the run configuration or from the
//! application's TOML, no policy, sinks that cannot be built or refuse writes); Z several sinks on ONE file
//! (separate mutexes: no common lock), many threads, long rows; P the model's JSON reader
//! against `serde_json::from_str`.  Sequential results are compared with the model textually, concurrent
//! ones as sorted records.
//! Oracle (independent of the model): the file is parsed back (serde_json per line / comma split), one intact
//! record per response, multiset equality with what the writers got back, single header, columns in header
//! order (reference evaluation of the mapping written here), nothing of the response lost by the write.
use crate::ctx::Ctx;
use crate::jsonproto::{enc, hex};
use crate::rng::Rng;
use routee_compass::app::compass::compass_app::CompassApp;
use routee_compass::app::compass::config::compass_app_builder::CompassAppBuilder;
use routee_compass::app::compass::response::{
    response_output_format::ResponseOutputFormat, response_output_policy::ResponseOutputPolicy,
    response_sink::ResponseSink, write_mode::WriteMode,
};
use serde_json::{json, Map, Value};
use std::panic::{catch_unwind, AssertUnwindSafe};
use std::path::Path;
use std::sync::{Arc, Barrier, Mutex};

const PROP: u64 = 19;
const DIR: &str = "work/C19_files";

// ---------------------------------------------------------------------------------------------------
// specifications of mappings / formats (what the user writes in the configuration)

#[derive(Clone, Debug)]
enum MapSpec {
    Path(String),
    Sum(Vec<MapSpec>),
    Optional(Box<MapSpec>),
}

impl MapSpec {
    fn config(&self) -> Value {
        match self {
            MapSpec::Path(p) => json!(p),
            MapSpec::Sum(ms) => json!({ "sum": ms.iter().map(|m| m.config()).collect::<Vec<_>>() }),
            MapSpec::Optional(m) => json!({ "optional": m.config() }),
        }
    }
    fn enc(&self) -> String {
        match self {
            MapSpec::Path(p) => format!("p {}", hex(p)),
            MapSpec::Sum(ms) => {
                let mut s = format!("u {}", ms.len());
                for m in ms {
                    s.push(' ');
                    s.push_str(&m.enc());
                }
                s
            }
            MapSpec::Optional(m) => format!("o {}", m.enc()),
        }
    }
    /// reference evaluation, written from the documentation of the mapping (not from the code):
    /// a dotted path walks object keys; a sum adds numbers (null counts as zero) and fails when a
    /// summand is missing or not a number; an optional mapping gives null instead of failing
    fn reference(&self, v: &Value) -> Option<Value> {
        match self {
            MapSpec::Path(p) => {
                let mut cur = v;
                for seg in p.split('.') {
                    cur = cur.as_object()?.get(seg)?;
                }
                Some(cur.clone())
            }
            MapSpec::Sum(ms) => {
                let mut acc: f64 = -0.0;
                let mut ok = true;
                for m in ms {
                    match m.reference(v) {
                        Some(Value::Null) => acc += 0.0,
                        Some(Value::Number(n)) => acc += n.as_f64()?,
                        _ => ok = false,
                    }
                }
                if !ok {
                    return None;
                }
                Some(serde_json::Number::from_f64(acc).map(Value::Number).unwrap_or(Value::Null))
            }
            MapSpec::Optional(m) => Some(m.reference(v).unwrap_or(Value::Null)),
        }
    }
}

#[derive(Clone, Debug)]
enum FmtSpec {
    Json(bool),
    Csv { cols: Vec<(String, MapSpec)>, sorted: bool },
}

impl FmtSpec {
    fn config(&self) -> Value {
        match self {
            FmtSpec::Json(nd) => json!({"type": "json", "newline_delimited": nd}),
            FmtSpec::Csv { cols, sorted } => {
                let mut m = Map::new();
                for (k, s) in cols {
                    m.insert(k.clone(), s.config());
                }
                json!({"type": "csv", "mapping": Value::Object(m), "sorted": sorted})
            }
        }
    }
    fn build(&self) -> ResponseOutputFormat {
        serde_json::from_value(self.config()).expect("format deserialises")
    }
    /// protocol text; CSV columns are listed in the order the real `OrderedHashMap` iterates them
    fn enc(&self) -> String {
        match self {
            FmtSpec::Json(nd) => format!("J {}", *nd as u8),
            FmtSpec::Csv { cols, sorted } => {
                let real = self.build();
                let keys: Vec<String> = match &real {
                    ResponseOutputFormat::Csv { mapping, .. } => mapping.keys().cloned().collect(),
                    _ => vec![],
                };
                let mut s = format!("C {} {}", *sorted as u8, keys.len());
                for k in keys {
                    let spec = &cols.iter().find(|(c, _)| *c == k).expect("key").1;
                    s.push_str(&format!(" {} {}", hex(&k), spec.enc()));
                }
                s
            }
        }
    }
    fn is_line_format(&self) -> bool {
        !matches!(self, FmtSpec::Json(false))
    }
    fn shape(&self) -> String {
        match self {
            FmtSpec::Json(nd) => format!("json{}", *nd as u8),
            FmtSpec::Csv { cols, sorted } => format!("csv{}x{}", *sorted as u8, cols.len()),
        }
    }
}

// ---------------------------------------------------------------------------------------------------
// generators

const NASTY: [&str; 14] = [
    "plain", "with, comma", "say \"hi\"", "quote\",then comma", "line\nbreak", "tab\there", "back\\slash",
    "caf\u{e9} \u{4e16}\u{754c}", "\u{1}\u{1f}ctl", "", " lead", "a,b,c", "{\"not\":\"json\"}", "\u{1F600} emoji\r\n",
];

fn gen_string(rng: &mut Rng) -> String {
    if rng.chance(2, 3) {
        rng.pick(&NASTY).to_string()
    } else {
        let n = rng.below(12);
        (0..n)
            .map(|_| match rng.below(12) {
                0 => ',',
                1 => '"',
                2 => '\n',
                3 => '\\',
                4 => ' ',
                5 => '\u{7f}',
                6 => '\u{e9}',
                _ => (b'a' + rng.below(26) as u8) as char,
            })
            .collect()
    }
}

fn gen_float(rng: &mut Rng) -> f64 {
    match rng.below(10) {
        0 => 0.0,
        1 => -0.0,
        2 => rng.small_decimal(1000, 2),
        3 => rng.uniform(-1.0, 1.0) * 1e-7,
        4 => rng.uniform(1.0, 10.0) * 1e20,
        5 => rng.uniform(1.0, 9.0) * 1e300,
        6 => rng.range(0, 1 << 20) as f64,
        7 => f64::from_bits(rng.next() % 0x7ff0_0000_0000_0000), // any finite positive pattern
        _ => rng.uniform(0.0, 1000.0),
    }
}

fn gen_number(rng: &mut Rng) -> Value {
    match rng.below(6) {
        0 => json!(rng.range(0, 100)),
        1 => json!(-rng.range(1, 1_000_000)),
        2 => json!(u64::MAX - rng.below(3) as u64),
        3 => json!(i64::MIN + rng.below(3) as i64),
        _ => json!(gen_float(rng)),
    }
}

fn gen_value(rng: &mut Rng, depth: usize) -> Value {
    let top = if depth == 0 { 5 } else { 7 };
    match rng.below(top) {
        0 => Value::Null,
        1 => Value::Bool(rng.chance(1, 2)),
        2 | 3 => gen_number(rng),
        4 => Value::String(gen_string(rng)),
        5 => Value::Array((0..rng.below(4)).map(|_| gen_value(rng, depth - 1)).collect()),
        _ => {
            let mut m = Map::new();
            for _ in 0..rng.below(4) {
                m.insert(gen_string(rng), gen_value(rng, depth - 1));
            }
            Value::Object(m)
        }
    }
}

fn gen_request(rng: &mut Rng) -> Value {
    let mut m = Map::new();
    m.insert("origin_vertex".into(), json!(rng.below(50)));
    m.insert("destination_vertex".into(), json!(rng.below(50)));
    if rng.chance(1, 2) {
        m.insert("name".into(), json!(gen_string(rng)));
    }
    if rng.chance(1, 2) {
        m.insert("weights".into(), json!({"distance": gen_float(rng), "time": rng.small_decimal(5, 1)}));
    }
    Value::Object(m)
}

/// a response as `apply_output_processing` shapes it: an object holding the request and either a route or
/// an error, plus whatever output plugins add
fn gen_response(rng: &mut Rng, big: bool) -> Value {
    let mut m = Map::new();
    m.insert("request".into(), gen_request(rng));
    if rng.chance(1, 3) {
        let e = match rng.below(4) {
            0 => json!("no path exists between vertices 0 and 7"),
            1 => json!(gen_string(rng)),
            2 => json!({"kind": "search", "msg": gen_string(rng)}),
            _ => json!("failure running search, query terminated due to runtime limit"),
        };
        m.insert("error".into(), e);
        if rng.chance(1, 12) {
            m.insert("csv_error".into(), json!(gen_string(rng)));
        }
    } else {
        let n = if big { 9000 + rng.below(4000) } else { rng.below(6) };
        let path: Vec<Value> = (0..n).map(|_| json!(rng.below(100000))).collect();
        let mut summary = Map::new();
        summary.insert("distance".into(), gen_number(rng));
        summary.insert("time".into(), json!(gen_float(rng)));
        if rng.chance(2, 3) {
            summary.insert("energy".into(), if rng.chance(1, 3) { Value::Null } else { json!(rng.small_decimal(50, 3)) });
        }
        let mut route = Map::new();
        route.insert("path".into(), Value::Array(path));
        route.insert("traversal_summary".into(), Value::Object(summary));
        if rng.chance(1, 2) {
            route.insert("cost".into(), json!({"total_cost": gen_float(rng)}));
        }
        m.insert("route".into(), Value::Object(route));
        if rng.chance(1, 3) {
            m.insert("tags".into(), Value::Array((0..rng.below(3)).map(|_| json!(gen_string(rng))).collect()));
        }
    }
    if rng.chance(1, 2) {
        m.insert("note".into(), json!(gen_string(rng)));
    }
    if big && rng.chance(1, 2) {
        let mut s = String::new();
        while s.len() < 70_000 {
            s.push_str(&gen_string(rng));
            s.push('|');
        }
        m.insert("blob".into(), json!(s));
    }
    if rng.chance(1, 3) {
        m.insert("result_memory_usage_bytes".into(), json!((1u64 << 53) + rng.below(1000) as u64));
    }
    for _ in 0..rng.below(3) {
        m.insert(gen_string(rng), gen_value(rng, 2));
    }
    Value::Object(m)
}

const PATHS: [&str; 24] = [
    "request.origin_vertex",
    "request.destination_vertex",
    "request.name",
    "request.weights.distance",
    "request.weights.time",
    "request.weights",
    "route.traversal_summary.distance",
    "route.traversal_summary.time",
    "route.traversal_summary.energy",
    "route.cost.total_cost",
    "route.path",
    "route",
    "tags",
    "note",
    "error",
    "error.msg",
    "result_memory_usage_bytes",
    "missing",
    "route.missing.deeper",
    "",
    "request..x",
    "route.path.0",
    "request.name.x",
    "plain",
];
const NUMERIC_PATHS: [&str; 8] = [
    "request.origin_vertex",
    "request.weights.distance",
    "request.weights.time",
    "route.traversal_summary.distance",
    "route.traversal_summary.time",
    "route.traversal_summary.energy",
    "route.cost.total_cost",
    "result_memory_usage_bytes",
];

fn gen_mapping(rng: &mut Rng, depth: usize) -> MapSpec {
    match rng.below(if depth == 0 { 5 } else { 8 }) {
        0..=4 => MapSpec::Path(rng.pick(&PATHS).to_string()),
        5 | 6 => {
            let n = rng.below(5);
            MapSpec::Sum(
                (0..n)
                    .map(|_| {
                        if rng.chance(4, 5) {
                            MapSpec::Path(rng.pick(&NUMERIC_PATHS).to_string())
                        } else {
                            gen_mapping(rng, depth - 1)
                        }
                    })
                    .collect(),
            )
        }
        _ => MapSpec::Optional(Box::new(gen_mapping(rng, depth - 1))),
    }
}

const COLS: [&str; 15] = [
    "origin", "destination", "distance", "time", "energy", "cost", "name", "path", "Zeta", "alpha col", "\u{e9}t\u{e9}", "err",
    "km, total", "the \"best\" one", "two\nlines",
];

fn gen_format(rng: &mut Rng, allow_array_json: bool) -> FmtSpec {
    match rng.below(10) {
        0..=3 => FmtSpec::Json(true),
        4 if allow_array_json => FmtSpec::Json(false),
        _ => {
            let mut names: Vec<&str> = COLS.to_vec();
            rng.shuffle(&mut names);
            let n = rng.below(7);
            let cols = names[..n].iter().map(|k| (k.to_string(), gen_mapping(rng, 2))).collect();
            FmtSpec::Csv { cols, sorted: rng.chance(1, 2) }
        }
    }
}

// ---------------------------------------------------------------------------------------------------
// canonical forms shared with the driver

/// the same on TEXT that prints such an object (`{"csv":{"column":"message",…}}`, compact JSON): the messages
/// blanked, the columns sorted.  For what a JSON member of a Combined policy writes after a CSV member.
fn mask_csv_errors(text: &str) -> String {
    fn string_lit(cs: &[char], mut i: usize) -> Option<(String, usize)> {
        if cs.get(i) != Some(&'"') {
            return None;
        }
        let mut lit = String::from("\"");
        i += 1;
        while i < cs.len() {
            match cs[i] {
                '\\' if i + 1 < cs.len() => {
                    lit.push(cs[i]);
                    lit.push(cs[i + 1]);
                    i += 2;
                }
                '"' => {
                    lit.push('"');
                    return Some((lit, i + 1));
                }
                c => {
                    lit.push(c);
                    i += 1;
                }
            }
        }
        None
    }
    fn entries(cs: &[char], mut i: usize) -> Option<(Vec<String>, usize)> {
        let mut keys = vec![];
        if cs.get(i) == Some(&'}') && cs.get(i + 1) == Some(&'}') {
            return Some((keys, i + 2));
        }
        loop {
            let (k, j) = string_lit(cs, i)?;
            if cs.get(j) != Some(&':') {
                return None;
            }
            let (_, j2) = string_lit(cs, j + 1)?;
            keys.push(k);
            if cs.get(j2) == Some(&',') {
                i = j2 + 1;
            } else if cs.get(j2) == Some(&'}') && cs.get(j2 + 1) == Some(&'}') {
                return Some((keys, j2 + 2));
            } else {
                return None;
            }
        }
    }
    let cs: Vec<char> = text.chars().collect();
    let pat: Vec<char> = "{\"csv\":{".chars().collect();
    let mut out = String::new();
    let mut i = 0;
    while i < cs.len() {
        if cs[i..].starts_with(&pat) {
            if let Some((mut keys, j)) = entries(&cs, i + pat.len()) {
                keys.sort();
                out.push_str("{\"csv\":{");
                out.push_str(&keys.iter().map(|k| format!("{}:\"\"", k)).collect::<Vec<_>>().join(","));
                out.push_str("}}");
                i = j;
                continue;
            }
        }
        out.push(cs[i]);
        i += 1;
    }
    out
}

/// blank the messages and sort the keys of a `{"csv": {column: message…}}` value
fn canon_csv_err(v: &Value) -> Value {
    if let Value::Object(o) = v {
        if o.len() == 1 {
            if let Some(Value::Object(inner)) = o.get("csv") {
                if inner.values().all(|x| x.is_string()) {
                    let mut keys: Vec<&String> = inner.keys().collect();
                    keys.sort();
                    let mut m = Map::new();
                    for k in keys {
                        m.insert(k.clone(), json!(""));
                    }
                    return json!({ "csv": Value::Object(m) });
                }
            }
        }
    }
    v.clone()
}

fn canon(v: &Value) -> Value {
    match v {
        Value::Object(o) => {
            let mut m = Map::new();
            for (k, x) in o {
                if k == "error" || k.starts_with("csv_error") {
                    m.insert(k.clone(), canon_csv_err(x));
                } else {
                    m.insert(k.clone(), x.clone());
                }
            }
            Value::Object(m)
        }
        _ => v.clone(),
    }
}

// ---------------------------------------------------------------------------------------------------
// oracle helpers (independent of the model)

/// numbers that went through serde_json's default (best-effort) float parser may be off in the last place
fn approx_eq(a: &Value, b: &Value) -> bool {
    match (a, b) {
        (Value::Number(x), Value::Number(y)) => {
            if x == y {
                return true;
            }
            if x.is_f64() && y.is_f64() {
                let (p, q) = (x.as_f64().unwrap(), y.as_f64().unwrap());
                return (p - q).abs() <= 4.0 * f64::EPSILON * p.abs().max(q.abs());
            }
            false
        }
        (Value::Array(x), Value::Array(y)) => x.len() == y.len() && x.iter().zip(y).all(|(p, q)| approx_eq(p, q)),
        (Value::Object(x), Value::Object(y)) => {
            x.len() == y.len() && x.iter().zip(y.iter()).all(|((k1, v1), (k2, v2))| k1 == k2 && approx_eq(v1, v2))
        }
        _ => a == b,
    }
}

/// RFC 4180 reader written for the oracle: the records of a text, each a list of unescaped fields.
/// A field in double quotes may hold commas, line breaks and `""` for a quote; a record ends at a line break
/// outside quotes.  Err: a quote that never closes, or text between a closing quote and the next comma.
fn csv_read(text: &str) -> Result<Vec<Vec<String>>, String> {
    let cs: Vec<char> = text.chars().collect();
    let mut records = vec![];
    let mut fields: Vec<String> = vec![];
    let mut i = 0;
    loop {
        // one field
        let mut field = String::new();
        if i < cs.len() && cs[i] == '"' {
            i += 1;
            loop {
                if i >= cs.len() {
                    return Err("a quoted field never closes".into());
                }
                if cs[i] == '"' {
                    if i + 1 < cs.len() && cs[i + 1] == '"' {
                        field.push('"');
                        i += 2;
                    } else {
                        i += 1;
                        break;
                    }
                } else {
                    field.push(cs[i]);
                    i += 1;
                }
            }
            if i < cs.len() && cs[i] != ',' && cs[i] != '\n' {
                return Err(format!("text after a closing quote at {}", i));
            }
        } else {
            while i < cs.len() && cs[i] != ',' && cs[i] != '\n' {
                field.push(cs[i]);
                i += 1;
            }
        }
        fields.push(field);
        if i >= cs.len() {
            records.push(std::mem::take(&mut fields));
            return Ok(records);
        }
        if cs[i] == '\n' {
            records.push(std::mem::take(&mut fields));
            i += 1;
            if i >= cs.len() {
                return Ok(records);
            }
        } else {
            i += 1; // the comma
        }
    }
}

/// the raw records of a CSV text, each with its terminating line break, and the unterminated rest
fn csv_raw_records(text: &str) -> (Vec<&str>, &str) {
    let mut out = vec![];
    let mut q = false;
    let mut start = 0;
    for (i, c) in text.char_indices() {
        if c == '"' {
            q = !q;
        } else if c == '\n' && !q {
            out.push(&text[start..=i]);
            start = i + 1;
        }
    }
    (out, &text[start..])
}

/// what a reader should get for `resp`, column by column in the header's order: a string's text, any other
/// value's JSON text, nothing when the mapping fails
fn reference_fields(cols: &[(String, MapSpec)], header: &[String], resp: &Value) -> Vec<String> {
    header
        .iter()
        .map(|h| match cols.iter().find(|(k, _)| k == h).and_then(|(_, spec)| spec.reference(resp)) {
            Some(Value::String(s)) => s,
            Some(v) => serde_json::to_string(&v).unwrap_or_default(),
            None => String::new(),
        })
        .collect()
}

/// the column names of a header line, read back
fn header_names(cols: &[(String, MapSpec)], header_line: &str) -> Option<Vec<String>> {
    if cols.is_empty() {
        return Some(vec![]);
    }
    let recs = csv_read(header_line.strip_suffix('\n')?).ok()?;
    if recs.len() != 1 {
        return None;
    }
    let names = recs.into_iter().next()?;
    let mut a = names.clone();
    a.sort();
    let mut b: Vec<String> = cols.iter().map(|(k, _)| k.clone()).collect();
    b.sort();
    if a == b {
        Some(names)
    } else {
        None
    }
}

/// the records of a CSV file (raw text, without their line break) against the responses they were written
/// for, as multisets: every record reads back into as many fields as the header has, holding the cells' values
fn check_csv_records(ctx: &mut Ctx, idx: usize, cols: &[(String, MapSpec)], names: &[String], records: &[&str], resps: &[&Value]) {
    if names.is_empty() {
        return;
    }
    // a failure is filed under the defect it points at: an array/object cell, a string cell that needs
    // escaping, or neither
    let nonscalar = resps.iter().any(|resp| cols.iter().any(|(_, m)| matches!(m.reference(resp), Some(Value::Array(_)) | Some(Value::Object(_)))));
    let tricky_string = resps.iter().any(|resp| {
        cols.iter().any(|(_, m)| matches!(m.reference(resp), Some(Value::String(s)) if s.chars().any(|c| c == '"' || c == ',' || c == '\\' || (c as u32) < 32)))
    });
    let key_for = |generic: &'static str| -> &'static str {
        if nonscalar {
            "sink/csv-nonscalar-cell-unquoted"
        } else if tricky_string {
            "sink/csv-string-cell-json-escaped"
        } else {
            generic
        }
    };
    let mut got: Vec<Vec<String>> = vec![];
    for r in records {
        match csv_read(r) {
            Ok(mut recs) if recs.len() == 1 => got.push(recs.remove(0)),
            Ok(recs) => {
                ctx.fail(idx, key_for("sink/csv-record-unreadable"), format!("a reader gets {} records from {:?}", recs.len(), clip(r)));
                return;
            }
            Err(e) => {
                ctx.fail(idx, key_for("sink/csv-record-unreadable"), format!("{}: {:?}", e, clip(r)));
                return;
            }
        }
    }
    if let Some(bad) = got.iter().find(|f| f.len() != names.len()) {
        ctx.fail(idx, key_for("sink/csv-column-count"), format!("header has {} columns, a reader gets {} fields: {:?}", names.len(), bad.len(), clip(&bad.join("|"))));
        return;
    }
    let mut want: Vec<Vec<String>> = resps.iter().map(|r| reference_fields(cols, names, r)).collect();
    got.sort();
    want.sort();
    if got != want {
        let k = got.iter().zip(&want).position(|(a, b)| a != b).unwrap_or(0);
        let (g, w) = (got.get(k).map(|f| f.join("|")).unwrap_or_default(), want.get(k).map(|f| f.join("|")).unwrap_or_default());
        ctx.fail(idx, key_for("sink/csv-row-mismatch"), format!("a reader gets fields {:?}, the mapping in header order {:?} says {:?}", clip(&g), names, clip(&w)));
    }
}

/// canonical text of a file written by several threads: what was there after open, then the records sorted
fn canonical_file(fmt: &FmtSpec, opened: &str, rest: &str) -> String {
    match fmt {
        FmtSpec::Csv { .. } => {
            let (mut recs, left) = csv_raw_records(rest);
            recs.sort();
            format!("{}{}{}", opened, recs.concat(), left)
        }
        _ => {
            let mut ls: Vec<&str> = rest.split('\n').collect();
            ls.sort();
            format!("{}{}", opened, ls.join("\n"))
        }
    }
}

/// the records of the text appended to a file, without their line breaks, and whether the text ends with one
fn appended_records<'a>(fmt: &FmtSpec, rest: &'a str) -> (Vec<&'a str>, bool) {
    match fmt {
        FmtSpec::Csv { .. } => {
            let (recs, left) = csv_raw_records(rest);
            (recs.into_iter().map(|r| &r[..r.len() - 1]).collect(), left.is_empty())
        }
        _ => {
            if rest.is_empty() {
                (vec![], true)
            } else {
                let ok = rest.ends_with('\n');
                (rest.strip_suffix('\n').unwrap_or(rest).split('\n').collect(), ok)
            }
        }
    }
}

/// every top-level key/value of `before` is still in `after`, unchanged; Some((key, kind)) otherwise
fn lost_information(before: &Value, after: &Value) -> Option<String> {
    match (before, after) {
        (Value::Object(b), Value::Object(a)) => {
            for (k, v) in b {
                match a.get(k) {
                    Some(v2) if v2 == v => {}
                    Some(_) => return Some(format!("{} replaced", k)),
                    None => return Some(format!("{} removed", k)),
                }
            }
            None
        }
        (Value::Null, _) => None,
        _ => {
            if before == after {
                None
            } else {
                Some("value replaced".into())
            }
        }
    }
}

fn check_preserved(ctx: &mut Ctx, idx: usize, before: &Value, after: &Value) {
    if let Some(what) = lost_information(before, after) {
        // an existing "csv_error" being replaced is its own (distinct) defect
        let key = if what.starts_with("csv_error ") && before.get("error").is_some() {
            "sink/csv-error-replaced"
        } else {
            "sink/response-information-preserved"
        };
        ctx.fail(idx, key, format!("{}: before {} after {}", what, clip(&before.to_string()), clip(&after.to_string())));
    }
}

fn clip(s: &str) -> String {
    if s.chars().count() > 300 {
        let t: String = s.chars().take(300).collect();
        format!("{}…", t)
    } else {
        s.to_string()
    }
}

// ---------------------------------------------------------------------------------------------------
// case kind F: one format_response

fn case_f(ctx: &mut Ctx, idx: usize, fmt: &FmtSpec, resp: &Value) {
    let real = fmt.build();
    // the mapping as loaded lists the columns under the configured names in the configured order (the
    // orientation of header and rows — reversed or sorted — is the model's to get right)
    if let (ResponseOutputFormat::Csv { mapping, .. }, FmtSpec::Csv { cols, .. }) = (&real, fmt) {
        let loaded: Vec<&String> = mapping.keys().collect();
        let configured: Vec<&String> = cols.iter().map(|(k, _)| k).collect();
        if loaded != configured {
            ctx.fail(idx, "sink/csv-column-order", format!("configured columns {:?}, loaded mapping iterates {:?}", configured, loaded));
        }
    }
    let line = format!("F {} {}", fmt.enc(), enc(resp));
    let header = real.initial_file_contents();
    let mut after = resp.clone();
    let res = catch_unwind(AssertUnwindSafe(|| real.format_response(&mut after)));
    let out = match &res {
        Ok(Ok(row)) => format!(
            "H {} R {} P {}",
            match &header {
                Some(h) => format!("some {}", hex(h)),
                None => "none".into(),
            },
            hex(row),
            enc(&canon(&after))
        ),
        Ok(Err(_)) => "error".to_string(),
        Err(_) => "panic".to_string(),
    };
    ctx.count(&format!("F/{}", match &res { Ok(Ok(_)) => "ok", Ok(Err(_)) => "error", Err(_) => "panic" }));
    // oracle
    if let Ok(Ok(row)) = &res {
        check_preserved(ctx, idx, resp, &after);
        match fmt {
            FmtSpec::Json(true) => {
                if row.contains('\n') {
                    ctx.fail(idx, "sink/record-not-one-line", clip(row));
                }
                match serde_json::from_str::<Value>(row) {
                    Ok(v) if approx_eq(&v, resp) => {}
                    Ok(_) => ctx.fail(idx, "sink/json-record-mismatch", format!("{} does not parse back to the response", clip(row))),
                    Err(e) => ctx.fail(idx, "sink/json-record-unparseable", format!("{}: {}", e, clip(row))),
                }
            }
            FmtSpec::Json(false) => {}
            FmtSpec::Csv { cols, .. } => {
                let h = header.clone().unwrap_or_default();
                match header_names(cols, &h) {
                    None => ctx.fail(idx, "sink/csv-header", format!("header {:?} does not read back into the mapping's columns", h)),
                    Some(names) => {
                        let terminated_row = format!("{}\n", row);
                        let (raw, left) = csv_raw_records(&terminated_row);
                        if (raw.len() != 1 || !left.is_empty()) && !cols.is_empty() {
                            // let the record check say what a reader makes of it
                            ctx.count("F/csv-row-not-one-record");
                        }
                        check_csv_records(ctx, idx, cols, &names, &[row.as_str()], &[resp]);
                    }
                }
                if row.contains('\n') {
                    ctx.count("F/csv-row-with-line-break");
                }
                let failing = cols.iter().filter(|(_, m)| m.reference(resp).is_none()).count();
                ctx.count(if failing == 0 { "F/csv-all-cells" } else if failing == cols.len() { "F/csv-no-cell" } else { "F/csv-some-cells-fail" });
                if failing > 0 && failing < cols.len() {
                    ctx.nontrivial(&format!("F {} {}", fmt.shape(), failing));
                }
            }
        }
    }
    ctx.emit(idx, line, out);
}

// ---------------------------------------------------------------------------------------------------
// case kind S: one sink life cycle

struct SinkCase {
    mode: char,
    existing: Option<String>,
    fmt: FmtSpec,
    rate: Option<i64>,
    close: bool,
    persist: bool,
    schedule: Vec<usize>,
    workers: Vec<Vec<Value>>,
}

fn file_path(idx: usize) -> String {
    format!("{}/{}_{}.out", DIR, std::process::id(), idx)
}

fn iterations_of(sink: &ResponseSink) -> u64 {
    match sink {
        ResponseSink::File { iterations, .. } => match iterations.lock() {
            Ok(g) => *g,
            Err(p) => *p.into_inner(),
        },
        _ => 0,
    }
}

/// returns the file as the run left it (None when the open was refused)
fn case_s(ctx: &mut Ctx, idx: usize, c: &SinkCase) -> Option<String> {
    let path = file_path(idx);
    let _ = std::fs::create_dir_all(DIR);
    let _ = std::fs::remove_file(&path);
    if let Some(e) = &c.existing {
        std::fs::write(&path, e).expect("write existing file");
    }
    let mut line = format!(
        "S {} {} {} {} {} {} {}",
        c.mode,
        match &c.existing {
            Some(e) => format!("s {}", hex(e)),
            None => "n".into(),
        },
        c.fmt.enc(),
        match c.rate {
            Some(r) => format!("s {}", r),
            None => "n".into(),
        },
        c.close as u8,
        c.persist as u8,
        c.schedule.len()
    );
    for w in &c.schedule {
        line.push_str(&format!(" {}", w));
    }
    line.push_str(&format!(" {}", c.workers.len()));
    for w in &c.workers {
        line.push_str(&format!(" {}", w.len()));
        for r in w {
            line.push(' ');
            line.push_str(&enc(r));
        }
    }
    let real_fmt = c.fmt.build();
    // open
    let sink: Result<ResponseSink, &'static str> = match c.mode {
        'a' => {
            let policy = ResponseOutputPolicy::File { filename: path.clone(), format: real_fmt.clone(), file_flush_rate: c.rate };
            policy.build().map_err(|_| if matches!(c.rate, Some(r) if r <= 0) { "badrate" } else { "refused" })
        }
        m => {
            let wm = if m == 'o' { WriteMode::Overwrite } else { WriteMode::Error };
            match wm.open_file(Path::new(&path), &real_fmt) {
                Err(_) => Err("refused"),
                Ok(file) => Ok(ResponseSink::File {
                    filename: path.clone(),
                    file: Arc::new(Mutex::new(file)),
                    format: real_fmt.clone(),
                    delimiter: real_fmt.delimiter(),
                    iterations_per_flush: c.rate.unwrap_or(1) as u64,
                    iterations: Arc::new(Mutex::new(0)),
                }),
            }
        }
    };
    let sink = match sink {
        Err("badrate") => {
            let f = std::fs::read_to_string(&path).unwrap_or_default();
            ctx.count("S/bad-flush-rate");
            ctx.emit(idx, line, format!("badrate {}", hex(&f)));
            let _ = std::fs::remove_file(&path);
            return None;
        }
        Err(_) => {
            ctx.count("S/open-refused");
            // a refused open must leave an existing file alone
            let now = std::fs::read_to_string(&path).ok();
            if now != c.existing {
                ctx.fail(idx, "sink/refused-open-changed-file", format!("{:?} -> {:?}", c.existing.as_deref().map(clip), now.as_deref().map(clip)));
            }
            ctx.emit(idx, line, "refused".into());
            let _ = std::fs::remove_file(&path);
            return None;
        }
        Ok(s) => s,
    };
    let opened = std::fs::read_to_string(&path).unwrap_or_default();
    // the writers: one real thread per worker, released together
    let t = c.workers.len();
    let barrier = Barrier::new(t.max(1));
    let results: Vec<Vec<(bool, Value)>> = std::thread::scope(|s| {
        let handles: Vec<_> = c
            .workers
            .iter()
            .map(|w| {
                let sink = &sink;
                let barrier = &barrier;
                s.spawn(move || {
                    barrier.wait();
                    w.iter()
                        .map(|r| {
                            let mut r = r.clone();
                            let ok = matches!(catch_unwind(AssertUnwindSafe(|| sink.write_response(&mut r))), Ok(Ok(())));
                            (ok, r)
                        })
                        .collect::<Vec<_>>()
                })
            })
            .collect();
        handles.into_iter().map(|h| h.join().expect("writer thread")).collect()
    });
    if c.close {
        let _ = sink.close();
    }
    let iterations = iterations_of(&sink);
    drop(sink);
    let file = std::fs::read_to_string(&path).unwrap_or_default();
    let _ = std::fs::remove_file(&path);
    let failed: usize = results.iter().map(|w| w.iter().filter(|(ok, _)| !ok).count()).sum();
    let n_ok: usize = results.iter().map(|w| w.iter().filter(|(ok, _)| *ok).count()).sum();
    // canonical file
    let prefix_ok = file.starts_with(&opened);
    let canonical = if !prefix_ok {
        file.clone()
    } else if t > 1 {
        canonical_file(&c.fmt, &opened, &file[opened.len()..])
    } else {
        file.clone()
    };
    let mut out = format!("ok {} {} {} {}", iterations, failed, hex(&canonical), t);
    for w in &results {
        if c.persist {
            let kept: Vec<&Value> = w.iter().filter(|(ok, _)| *ok).map(|(_, r)| r).collect();
            out.push_str(&format!(" {}", kept.len()));
            for r in kept {
                out.push(' ');
                out.push_str(&enc(&canon(r)));
            }
        } else {
            out.push_str(" 0");
        }
    }
    // statistics
    ctx.count(&format!("S/threads-{}", t));
    ctx.count(&format!("S/mode-{}{}", c.mode, if c.existing.is_some() { "-existing" } else { "-new" }));
    ctx.count(&format!("S/{}", c.fmt.shape().split('x').next().unwrap_or("")));
    ctx.count(if c.persist { "S/persist" } else { "S/discard" });
    ctx.count(&format!("S/flush-{}", match c.rate { None => "default".to_string(), Some(r) if r > 8 => "large".to_string(), Some(r) => r.to_string() }));
    if file.len() > 65536 {
        ctx.count("S/file-over-64KiB");
    }
    if failed > 0 {
        ctx.count("S/poisoned");
    }
    if n_ok >= 2 || t >= 2 {
        ctx.nontrivial(&format!("S {} {} {} {} {} {}", c.mode, c.fmt.shape(), t, n_ok, c.persist, c.existing.is_some()));
    }
    // ---- oracle
    if !prefix_ok {
        ctx.fail(idx, "sink/file-prefix-changed", format!("what the file held after open is gone: {:?} -> {:?}", clip(&opened), clip(&file)));
    } else if c.fmt.is_line_format() && failed == 0 {
        let all: Vec<&Value> = c.workers.iter().flatten().collect();
        let rest = &file[opened.len()..];
        let mut ok_shape = true;
        let (mut lines, terminated) = appended_records(&c.fmt, rest);
        if !terminated {
            ctx.fail(idx, "sink/record-truncated", format!("the file does not end with a complete record: {:?}", clip(rest)));
            ok_shape = false;
        }
        if c.close {
            // close() ends the file with one empty line
            if lines.last() == Some(&"") {
                lines.pop();
            } else {
                ctx.fail(idx, "sink/close-line", "close() did not append its (empty) final line".into());
            }
        }
        if lines.len() != all.len() {
            ctx.fail(idx, "sink/record-count", format!("{} responses written, {} records in the file", all.len(), lines.len()));
            ok_shape = false;
        }
        if iterations as usize != all.len() {
            ctx.fail(idx, "sink/counter", format!("{} writes, counter {}", all.len(), iterations));
        }
        // what the writers got back
        for (w, res) in c.workers.iter().zip(&results) {
            for (before, (_, after)) in w.iter().zip(res) {
                check_preserved(ctx, idx, before, after);
            }
        }
        if ok_shape {
            match &c.fmt {
                FmtSpec::Json(_) => {
                    let mut parsed = vec![];
                    for l in &lines {
                        match serde_json::from_str::<Value>(l) {
                            Ok(v) => parsed.push(v),
                            Err(e) => {
                                ctx.fail(idx, "sink/json-record-unparseable", format!("{}: {}", e, clip(l)));
                            }
                        }
                    }
                    // multiset equality with the responses handed back (JSON output does not touch them)
                    let mut got: Vec<(String, &Value)> = parsed.iter().map(|v| (v.to_string(), v)).collect();
                    let handed: Vec<&Value> = results.iter().flatten().map(|(_, r)| r).collect();
                    let mut want: Vec<(String, &Value)> = handed.iter().map(|v| (v.to_string(), *v)).collect();
                    got.sort_by(|a, b| a.0.cmp(&b.0));
                    want.sort_by(|a, b| a.0.cmp(&b.0));
                    let same = got.len() == want.len()
                        && (got.iter().zip(&want).all(|(a, b)| approx_eq(a.1, b.1)) || {
                            // sorting by text may pair differently when a float re-parsed one ulp off: fall back to matching
                            let mut used = vec![false; want.len()];
                            got.iter().all(|g| {
                                if let Some(j) = (0..want.len()).find(|&j| !used[j] && approx_eq(g.1, want[j].1)) {
                                    used[j] = true;
                                    true
                                } else {
                                    false
                                }
                            })
                        });
                    if !same && parsed.len() == lines.len() {
                        ctx.fail(idx, "sink/json-record-mismatch", format!("the records of the file are not the responses handed back ({} records)", lines.len()));
                    }
                }
                FmtSpec::Csv { cols, .. } => {
                    let header_line = real_fmt.initial_file_contents().unwrap_or_default();
                    let created = c.existing.is_none() || c.mode == 'o';
                    if created && opened != header_line {
                        ctx.fail(idx, "sink/csv-header", format!("a new file starts with {:?}, not with the header {:?}", clip(&opened), header_line));
                    }
                    match header_names(cols, &header_line) {
                        None => ctx.fail(idx, "sink/csv-header", format!("header {:?} does not read back into the mapping's columns", header_line)),
                        Some(names) => {
                            // exactly one header in a file this run created (or that a previous run of the same format created)
                            if !cols.is_empty() && file.starts_with(&header_line) {
                                let (all_records, _) = csv_raw_records(&file);
                                let count = all_records.iter().filter(|l| **l == header_line).count();
                                if count != 1 {
                                    ctx.fail(idx, "sink/csv-header-repeated", format!("{} header records in the file", count));
                                }
                            }
                            check_csv_records(ctx, idx, cols, &names, &lines, &all);
                        }
                    }
                }
            }
        }
    } else if !c.fmt.is_line_format() {
        // observation only (outside the property): is the "ECMA-404 JSON" file valid JSON?
        ctx.count(if serde_json::from_str::<Value>(&file).is_ok() { "S/json-array-file-parses" } else { "S/json-array-file-invalid" });
    }
    ctx.emit(idx, line, out);
    Some(file)
}

// ---------------------------------------------------------------------------------------------------
// case kind X: Combined sink, one response through every member

fn case_x(ctx: &mut Ctx, idx: usize, fmts: &[FmtSpec], nest: bool, resp: &Value) {
    let _ = std::fs::create_dir_all(DIR);
    let mut line = format!("X {}", fmts.len());
    for f in fmts {
        line.push(' ');
        line.push_str(&f.enc());
    }
    line.push(' ');
    line.push_str(&enc(resp));
    let paths: Vec<String> = (0..fmts.len()).map(|i| format!("{}/{}_{}_{}.out", DIR, std::process::id(), idx, i)).collect();
    for p in &paths {
        let _ = std::fs::remove_file(p);
    }
    let mut members: Vec<Box<ResponseOutputPolicy>> = fmts
        .iter()
        .zip(&paths)
        .map(|(f, p)| Box::new(ResponseOutputPolicy::File { filename: p.clone(), format: f.build(), file_flush_rate: None }))
        .collect();
    if nest && members.len() >= 2 {
        // [a, b, c…] -> [a, none, combined[b, c…]]: same files in the same depth-first order
        let tail = members.split_off(1);
        members.push(Box::new(ResponseOutputPolicy::None));
        members.push(Box::new(ResponseOutputPolicy::Combined { policies: tail }));
    }
    let policy = ResponseOutputPolicy::Combined { policies: members };
    let sink = policy.build().expect("combined sink builds");
    let mut after = resp.clone();
    let res = catch_unwind(AssertUnwindSafe(|| sink.write_response(&mut after)));
    drop(sink);
    let out = match res {
        Err(_) => "panic".to_string(),
        Ok(Err(_)) => "lock".to_string(),
        Ok(Ok(())) => {
            let mut s = format!("ok {}", fmts.len());
            for (f, p) in fmts.iter().zip(&paths) {
                let file = std::fs::read_to_string(p).unwrap_or_default();
                let header = f.build().initial_file_contents().unwrap_or_default();
                let rows = file.strip_prefix(header.as_str()).unwrap_or(&file);
                s.push(' ');
                s.push_str(&hex(&mask_csv_errors(rows)));
            }
            s.push_str(&format!(" P {}", enc(&canon(&after))));
            check_preserved(ctx, idx, resp, &after);
            // the same members one after the other, each judged on the response IT was handed: what an earlier
            // member reported (csv_error, csv_error_2, …) is information a later member must not replace
            let mut running = resp.clone();
            for f in fmts {
                let before = running.clone();
                let real = f.build();
                if catch_unwind(AssertUnwindSafe(|| real.format_response(&mut running))).is_err() {
                    break;
                }
                check_preserved(ctx, idx, &before, &running);
            }
            s
        }
    };
    for p in &paths {
        let _ = std::fs::remove_file(p);
    }
    ctx.count(&format!("X/members-{}", fmts.len()));
    ctx.nontrivial(&format!("X {}", fmts.iter().map(|f| f.shape()).collect::<Vec<_>>().join("+")));
    ctx.emit(idx, line, out);
}

// ---------------------------------------------------------------------------------------------------

// ---------------------------------------------------------------------------------------------------
// case kind A: CompassApp::run end to end on the repository's three-vertex test network

fn build_app(top_level: &str) -> Option<CompassApp> {
    let repo = std::env::var("VERIF_REPO").unwrap_or_else(|_| "/repo".to_string());
    let d = format!("{}/rust/routee-compass/src/app/compass/test/speeds_test", repo);
    let toml = format!(
        r#"
{top_level}
[graph]
edge_list_input_file = "{d}/test_edges.csv"
vertex_list_input_file = "{d}/test_vertices.csv"
verbose = false
[traversal]
type = "speed_table"
speed_table_input_file = "{d}/test_edge_speeds.csv"
speed_unit = "kilometers_per_hour"
output_time_unit = "hours"
[access]
type = "no_access_model"
[cost]
cost_aggregation = "sum"
[cost.weights]
distance = 0
time = 1
[cost.vehicle_rates.time]
type = "raw"
[cost.vehicle_rates.distance]
type = "raw"
[plugin]
input_plugins = [ {{ type = "grid_search" }} ]
output_plugins = [ {{ type = "summary" }}, {{ type = "traversal", route = "edge_id", geometry_input_file = "{d}/edge_geometries.txt" }} ]
"#
    );
    let _ = std::fs::create_dir_all(DIR);
    let cfg_path = format!("{}/{}_app.toml", DIR, std::process::id());
    let _ = std::fs::remove_file(&cfg_path);
    std::fs::write(&cfg_path, &toml).ok()?;
    let abs = std::fs::canonicalize(&cfg_path).ok()?;
    let app = CompassApp::try_from_config_toml_string(toml, abs.to_str()?.to_string(), &CompassAppBuilder::default()).ok();
    let _ = std::fs::remove_file(&cfg_path);
    app
}

struct AppCase {
    existing: Option<String>,
    /// the policies come from the application's own configuration (TOML) instead of the per-run configuration
    via_app_config: bool,
    fmt: FmtSpec,
    rate: Option<i64>,
    persist: bool,
    parallelism: usize,
    queries: Vec<Value>,
}

/// how many responses a query yields: 1, or the size of its grid; `bad`: it fails input processing
/// (not a JSON object, or a grid_search section that cannot be enumerated) and yields one error response
fn query_kind(q: &Value) -> (usize, bool) {
    let Some(o) = q.as_object() else { return (1, true) };
    match o.get("grid_search") {
        None => (1, false),
        Some(g) => {
            let Some(go) = g.as_object() else { return (1, true) };
            if g.to_string().contains("grid_search") {
                return (1, true);
            }
            let axes: Vec<usize> = go.values().filter_map(|v| v.as_array().map(|a| a.len())).collect();
            if axes.is_empty() || axes.iter().any(|n| *n == 0) {
                (1, true)
            } else {
                (axes.iter().product(), false)
            }
        }
    }
}

/// undo the CSV formatter's bookkeeping on a response handed back: it appended one key when a cell failed
fn before_csv_write(cols: &[(String, MapSpec)], post: &Value) -> Value {
    let mut probe = post.clone();
    if let Some(o) = probe.as_object_mut() {
        if o.contains_key("csv_error") {
            o.shift_remove("csv_error");
        } else {
            o.shift_remove("error");
        }
    }
    if cols.iter().any(|(_, m)| m.reference(&probe).is_none()) {
        probe
    } else {
        post.clone()
    }
}

/// the value with the keys of every object sorted (the application fills some of its objects from hash maps:
/// two runs of one query may order them differently)
fn sorted_keys(v: &Value) -> Value {
    match v {
        Value::Object(o) => {
            let mut ks: Vec<&String> = o.keys().collect();
            ks.sort();
            let mut m = Map::new();
            for k in ks {
                m.insert(k.clone(), sorted_keys(&o[k]));
            }
            Value::Object(m)
        }
        Value::Array(xs) => Value::Array(xs.iter().map(sorted_keys).collect()),
        other => other.clone(),
    }
}

/// returns the file the run left
fn case_a(ctx: &mut Ctx, idx: usize, app: &CompassApp, c0: &AppCase) -> Option<String> {
    let path = file_path(idx);
    // when the policies come from the application's own TOML, the `config` crate decides the order in which
    // the mapping's columns arrive: take the column order from the application that was built
    let mut own_app: Option<CompassApp> = None;
    let mut c_eff = AppCase { existing: c0.existing.clone(), via_app_config: c0.via_app_config, fmt: c0.fmt.clone(), rate: c0.rate, persist: c0.persist, parallelism: c0.parallelism, queries: c0.queries.clone() };
    if c0.via_app_config {
        let mut policy = json!({"type": "file", "filename": path, "format": c0.fmt.config()});
        if let Some(r) = c0.rate {
            policy["file_flush_rate"] = json!(r);
        }
        let top = format!(
            "parallelism = {}\nresponse_persistence_policy = \"{}\"\nresponse_output_policy = {}",
            c0.parallelism,
            if c0.persist { "persist_response_in_memory" } else { "discard_response_from_memory" },
            toml_inline(&policy)
        );
        own_app = build_app(&top);
        match &own_app {
            Some(own) => {
                if let (ResponseOutputPolicy::File { format: ResponseOutputFormat::Csv { mapping, .. }, .. }, FmtSpec::Csv { cols, sorted }) = (&own.response_output_policy, &c0.fmt) {
                    let order: Vec<String> = mapping.keys().cloned().collect();
                    let configured: Vec<String> = cols.iter().map(|(k, _)| k.clone()).collect();
                    if order == configured {
                        // as configured, in the configured order
                    } else if order.len() == configured.len() && order == configured.iter().map(|k| k.to_lowercase()).collect::<Vec<_>>() {
                        ctx.fail(idx, "app/toml-mapping-keys-lowercased", format!("the application configuration names the columns {:?}, the loaded mapping names them {:?}", configured, order));
                        // go on with the names the file will carry
                        c_eff.fmt = FmtSpec::Csv { cols: cols.iter().map(|(k, m)| (k.to_lowercase(), m.clone())).collect(), sorted: *sorted };
                    } else if order.len() < configured.len() {
                        ctx.fail(idx, "app/toml-mapping-columns-merged", format!("the application configuration has the {} columns {:?}, the loaded mapping only {:?}: names that differ in case only were merged", configured.len(), configured, order));
                        own_app = None;
                    } else {
                        ctx.fail(idx, "app/toml-mapping-order", format!("configured columns {:?}, loaded {:?}", configured, order));
                        own_app = None;
                    }
                }
            }
            None => ctx.count("A/app-config-did-not-build"),
        }
        if own_app.is_none() {
            c_eff.via_app_config = false;
        }
    }
    let c = &c_eff;
    let _ = std::fs::create_dir_all(DIR);
    let _ = std::fs::remove_file(&path);
    if let Some(e) = &c.existing {
        std::fs::write(&path, e).expect("write existing file");
    }
    let real_fmt = c.fmt.build();
    let mut policy = json!({"type": "file", "filename": path, "format": c.fmt.config()});
    if let Some(r) = c.rate {
        policy["file_flush_rate"] = json!(r);
    }
    let persistence = if c.persist { "persist_response_in_memory" } else { "discard_response_from_memory" };
    let cfg = json!({
        "parallelism": c.parallelism,
        "response_persistence_policy": persistence,
        "response_output_policy": policy,
    });
    let res = match &own_app {
        // the same three settings are defaults of the application built for this case: no run configuration
        Some(own) => catch_unwind(AssertUnwindSafe(|| own.run(c.queries.clone(), None))),
        None => catch_unwind(AssertUnwindSafe(|| app.run(c.queries.clone(), Some(&cfg)))),
    };
    if c.via_app_config {
        ctx.count("A/policies-from-app-config");
    }
    let file = std::fs::read_to_string(&path).unwrap_or_default();
    let _ = std::fs::remove_file(&path);
    let n_bad: usize = c.queries.iter().filter(|q| query_kind(q).1).count();
    let expected: usize = c.queries.iter().map(|q| query_kind(q).0).sum();
    let header = real_fmt.initial_file_contents().unwrap_or_default();
    let opened = c.existing.clone().unwrap_or(header.clone());
    let returned: Vec<Value> = match res {
        Ok(Ok(v)) => v,
        other => {
            ctx.count("A/run-failed");
            ctx.fail(idx, "app/run-failed", format!("CompassApp::run did not return responses: {}", match other { Ok(Err(e)) => clip(&e.to_string()), _ => "panic".into() }));
            ctx.emit(idx, format!("A m {} n {} 1 0 0", c.fmt.enc(), c.persist as u8), "apperr".into());
            return None;
        }
    };
    let prefix_ok = file.starts_with(&opened);
    let rest: &str = if prefix_ok { &file[opened.len()..] } else { "" };
    let (lines, terminated) = appended_records(&c.fmt, rest);
    // under the discard policy nothing but the file says what the searched responses were: get an independent
    // expectation from a second run of the same batch that keeps its responses and writes no file (they differ
    // from the first run's in their timestamps and runtimes only)
    let independent: Option<Vec<Value>> = if c.persist {
        None
    } else {
        let cfg2 = json!({"parallelism": c.parallelism, "response_persistence_policy": "persist_response_in_memory", "response_output_policy": {"type": "none"}});
        match catch_unwind(AssertUnwindSafe(|| app.run(c.queries.clone(), Some(&cfg2)))) {
            Ok(Ok(v)) => Some(v),
            _ => None,
        }
    };
    // the responses of queries that failed input processing come last in what is handed back (both policies)
    let split = returned.len().saturating_sub(n_bad);
    let errors_post: Vec<Value> = returned[split..].to_vec();
    let mut inexact = false;
    let searched_post: Vec<Value> = if c.persist {
        returned[..split].to_vec()
    } else if matches!(c.fmt, FmtSpec::Csv { .. }) {
        vec![] // rows are not responses: nothing of the searched responses comes back under discard
    } else {
        // nothing else is handed back: take the searched responses from the file (the main thread writes the
        // error responses first)
        lines
            .iter()
            .skip(n_bad.min(lines.len()))
            .filter_map(|l| {
                let v = serde_json::from_str::<Value>(l).ok()?;
                if serde_json::to_string(&v).ok()?.as_str() != *l {
                    inexact = true;
                }
                Some(v)
            })
            .collect()
    };
    let (searched_pre, errors_pre): (Vec<Value>, Vec<Value>) = match (&c.fmt, &independent) {
        // CSV under discard: the rows cannot be turned back into responses — the model gets the independent ones
        (FmtSpec::Csv { .. }, Some(ind)) => {
            let k = ind.len().saturating_sub(n_bad);
            (ind[..k].to_vec(), ind[k..].to_vec())
        }
        (FmtSpec::Csv { cols, .. }, None) => (
            searched_post.iter().map(|r| before_csv_write(cols, r)).collect(),
            errors_post.iter().map(|r| before_csv_write(cols, r)).collect(),
        ),
        _ => (searched_post.clone(), errors_post.clone()),
    };
    if let Some(ind) = &independent {
        ctx.count("A/discard-independent-expectation");
        // JSON under discard: the records of the file are the independent responses up to timestamps/runtimes
        if let FmtSpec::Json(true) = &c.fmt {
            // what two runs of one query certainly share (timestamps, runtimes, memory sizes and the order in
            // which the application fills some objects from hash maps differ from run to run)
            let strip = |v: &Value| -> String {
                sorted_keys(&json!({
                    "request": v.get("request"),
                    "error": v.get("error"),
                    "route_edges": v.get("route_edges"),
                    "path": v.get("route").and_then(|r| r.get("path")),
                    "keys": v.as_object().map(|o| { let mut k: Vec<&String> = o.keys().collect(); k.sort(); k }),
                }))
                .to_string()
            };
            let mut got: Vec<String> = lines.iter().filter_map(|l| serde_json::from_str::<Value>(l).ok()).map(|v| strip(&v)).collect();
            let mut want: Vec<String> = ind.iter().map(strip).collect();
            got.sort();
            want.sort();
            if got != want && lines.len() == ind.len() {
                let k = got.iter().zip(&want).position(|(a, b)| a != b).unwrap_or(0);
                let (a, b) = (&got[k], &want[k]);
                let d = a.chars().zip(b.chars()).position(|(x, y)| x != y).unwrap_or(0);
                let from = d.saturating_sub(60);
                let (sa, sb): (String, String) = (a.chars().skip(from).take(140).collect(), b.chars().skip(from).take(140).collect());
                ctx.fail(idx, "app/discard-records-differ", format!("under the discard policy the records of the file are not the responses an identical persisting run hands back, e.g. …{} vs …{}", sa, sb));
            }
        }
    }
    let canonical = if !prefix_ok {
        file.clone()
    } else if c.parallelism > 1 {
        canonical_file(&c.fmt, &opened, rest)
    } else {
        file.clone()
    };
    // the model's view: `parallelism` workers sharing the searched responses, and the error responses
    let mut workers: Vec<Vec<&Value>> = vec![vec![]; c.parallelism.max(1)];
    for (i, r) in searched_pre.iter().enumerate() {
        let k = workers.len();
        workers[i % k].push(r);
    }
    let mut line = format!(
        "A {} {} {} {} {}",
        match &c.existing {
            Some(e) => format!("f {}", hex(e)),
            None => "m".into(),
        },
        c.fmt.enc(),
        match c.rate {
            Some(r) => format!("s {}", r),
            None => "n".into(),
        },
        c.persist as u8,
        workers.len()
    );
    for w in &workers {
        line.push_str(&format!(" {}", w.len()));
        for r in w {
            line.push(' ');
            line.push_str(&enc(r));
        }
    }
    line.push_str(&format!(" {}", errors_pre.len()));
    for r in &errors_pre {
        line.push(' ');
        line.push_str(&enc(r));
    }
    let mut encs: Vec<String> = returned.iter().map(|r| enc(&canon(r))).collect();
    encs.sort();
    let mut out = format!("ok {} {}", hex(&canonical), returned.len());
    for e in &encs {
        out.push(' ');
        out.push_str(e);
    }
    ctx.count(&format!("A/parallelism-{}", c.parallelism));
    ctx.count(if c.persist { "A/persist" } else { "A/discard" });
    ctx.count(&format!("A/{}", c.fmt.shape().split('x').next().unwrap_or("")));
    if n_bad > 0 {
        ctx.count("A/with-input-plugin-errors");
        if n_bad == c.queries.len() {
            ctx.count("A/only-input-plugin-errors");
        }
    }
    if expected > c.queries.len() {
        ctx.count("A/with-grid-expansion");
    }
    if inexact {
        ctx.count("A/discard-reparse-inexact");
    }
    if c.queries.len() >= 2 {
        ctx.nontrivial(&format!("A {} {} {} {} {}", c.fmt.shape(), c.parallelism, c.queries.len(), c.persist, n_bad));
    }
    // ---- oracle: one record per response of the batch, error responses included
    if !prefix_ok {
        ctx.fail(idx, "sink/file-prefix-changed", format!("{:?} -> {:?}", clip(&opened), clip(&file)));
    } else {
        let handed_back = if c.persist { expected } else { n_bad };
        if returned.len() != handed_back {
            ctx.fail(idx, "app/response-count", format!("{} responses expected back, {} returned", handed_back, returned.len()));
        }
        if !terminated {
            ctx.fail(idx, "sink/record-truncated", "the file does not end with a complete record".into());
        }
        let count_ok = lines.len() == expected;
        if !count_ok {
            if n_bad > 0 && lines.len() + n_bad == expected {
                ctx.fail(
                    idx,
                    "app/input-error-response-not-written",
                    format!("{} responses in the batch, {} handed back, {} records in the file: the {} responses of queries that failed input processing are not written", expected, returned.len(), lines.len(), n_bad),
                );
            } else {
                ctx.fail(idx, "sink/record-count", format!("{} responses in the batch, {} records in the file", expected, lines.len()));
            }
        }
        let multiset_eq = |got: &[Value], want: &[Value]| -> bool {
            let mut used = vec![false; want.len()];
            got.len() == want.len()
                && got.iter().all(|g| {
                    if let Some(j) = (0..want.len()).find(|&j| !used[j] && approx_eq(g, &want[j])) {
                        used[j] = true;
                        true
                    } else {
                        false
                    }
                })
        };
        match &c.fmt {
            FmtSpec::Json(true) => {
                let mut parsed = vec![];
                for l in &lines {
                    match serde_json::from_str::<Value>(l) {
                        Ok(v) => parsed.push(v),
                        Err(e) => ctx.fail(idx, "sink/json-record-unparseable", format!("{}: {}", e, clip(l))),
                    }
                }
                if count_ok && parsed.len() == lines.len() {
                    if c.persist {
                        if !multiset_eq(&parsed, &returned) {
                            ctx.fail(idx, "sink/json-record-mismatch", "the records of the file are not the responses handed back".into());
                        }
                    } else {
                        // only the error responses are handed back: they are the first records; every other
                        // record must be an object holding its request
                        if !multiset_eq(&parsed[..n_bad.min(parsed.len())], &returned) {
                            ctx.fail(idx, "sink/json-record-mismatch", "the first records of the file are not the error responses handed back".into());
                        }
                        if parsed.iter().any(|v| v.get("request").is_none()) {
                            ctx.fail(idx, "sink/json-record-mismatch", "a record without its request".into());
                        }
                    }
                }
            }
            FmtSpec::Csv { cols, .. } if !cols.is_empty() && (c.persist || independent.is_some()) => {
                match header_names(cols, &header) {
                    None => ctx.fail(idx, "sink/csv-header", format!("header {:?} does not read back into the mapping's columns", header)),
                    Some(names) => {
                        if count_ok {
                            let all: Vec<&Value> = errors_pre.iter().chain(searched_pre.iter()).collect();
                            check_csv_records(ctx, idx, cols, &names, &lines, &all);
                        }
                    }
                }
                if file.split('\n').filter(|l| *l == header.trim_end_matches('\n')).count() != 1 && file.starts_with(&header) {
                    ctx.fail(idx, "sink/csv-header-repeated", "more than one header line".into());
                }
                for (pre, post) in searched_pre.iter().zip(&searched_post).chain(errors_pre.iter().zip(&errors_post)) {
                    check_preserved(ctx, idx, pre, post);
                }
            }
            _ => {}
        }
    }
    ctx.emit(idx, line, out);
    Some(file)
}

fn gen_query(rng: &mut Rng) -> Value {
    match rng.below(24) {
        0 => json!(rng.below(10)),
        1 => json!(gen_string(rng)),
        2 => if rng.chance(1, 2) { Value::Null } else { json!(true) },
        3 => json!({"origin_vertex": rng.below(3), "destination_vertex": rng.below(3), "grid_search": {}}),
        4 => json!({"origin_vertex": rng.below(3), "grid_search": {"destination_vertex": []}}),
        5 => json!({"origin_vertex": rng.below(3), "destination_vertex": 1, "grid_search": {"x": 1, "y": "z"}}),
        6 => json!({"origin_vertex": rng.below(3), "destination_vertex": 1, "grid_search": 7}),
        7 => json!({"origin_vertex": rng.below(3), "grid_search": {"destination_vertex": [0, 1, 2]}}),
        8 => json!({"grid_search": {"origin_vertex": [0, 1], "destination_vertex": [1, 2], "note": "kept"}}),
        9 | 10 => json!({"origin_vertex": rng.below(3), "destination_vertex": 99}),
        11 => json!({"origin_vertex": rng.below(3)}),
        12 => json!({"origin_vertex": rng.below(3), "destination_vertex": rng.below(3), "name": gen_string(rng)}),
        _ => json!({"origin_vertex": rng.below(3), "destination_vertex": rng.below(3)}),
    }
}

fn gen_app_format(rng: &mut Rng, _persist: bool) -> FmtSpec {
    if rng.chance(1, 2) {
        return FmtSpec::Json(true);
    }
    let pool: [(&str, MapSpec); 7] = [
        ("origin", p("request.origin_vertex")),
        ("destination", MapSpec::Optional(Box::new(p("request.destination_vertex")))),
        ("distance", p("route.traversal_summary.distance")),
        ("time", MapSpec::Optional(Box::new(p("route.traversal_summary.time")))),
        ("both", MapSpec::Sum(vec![p("route.traversal_summary.distance"), p("route.traversal_summary.time")])),
        ("edges", p("route_edges")),
        ("name", MapSpec::Optional(Box::new(p("request.name")))),
    ];
    let mut idxs: Vec<usize> = (0..pool.len()).collect();
    rng.shuffle(&mut idxs);
    let n = 1 + rng.below(5);
    let mut cols: Vec<(String, MapSpec)> = idxs[..n].iter().map(|&i| (pool[i].0.to_string(), pool[i].1.clone())).collect();
    // column names as people write them: capitals; now and then two names that differ in case only
    if rng.chance(1, 3) {
        for (k, _) in cols.iter_mut() {
            if rng.chance(1, 2) {
                let mut cs = k.chars();
                *k = match cs.next() {
                    Some(f) => f.to_uppercase().collect::<String>() + cs.as_str(),
                    None => String::new(),
                };
            }
        }
        if rng.chance(1, 4) {
            let twin = cols[0].0.to_lowercase();
            let twin = if twin == cols[0].0 { twin.to_uppercase() } else { twin };
            if !cols.iter().any(|(k, _)| *k == twin) {
                cols.push((twin, p("request.origin_vertex")));
            }
        }
    }
    FmtSpec::Csv { cols, sorted: rng.chance(1, 2) }
}

// ---------------------------------------------------------------------------------------------------
// case kind P: the model's reader against serde_json::from_str

/// protocol text of a value with every number's bits zeroed (the reader keeps lexemes only)
fn enc0(v: &Value, out: &mut String) {
    match v {
        Value::Number(n) => out.push_str(&format!("n {} 0", hex(&n.to_string()))),
        Value::Array(xs) => {
            out.push_str(&format!("a {}", xs.len()));
            for x in xs {
                out.push(' ');
                enc0(x, out);
            }
        }
        Value::Object(m) => {
            out.push_str(&format!("o {}", m.len()));
            for (k, x) in m {
                out.push(' ');
                out.push_str(&hex(k));
                out.push(' ');
                enc0(x, out);
            }
        }
        other => out.push_str(&enc(other)),
    }
}

fn case_p(ctx: &mut Ctx, idx: usize, rng: &mut Rng) {
    let mut v = if rng.chance(1, 6) { gen_value(rng, 3) } else { gen_response(rng, false) };
    // around serde_json's recursion limit: `from_str` refuses a text nested 128 deep or deeper
    if rng.chance(1, 6) {
        let d = 118 + rng.below(16);
        for _ in 0..d {
            v = if rng.chance(1, 2) { json!([v]) } else { json!({ "k": v }) };
        }
        ctx.count("P/deeply-nested");
    }
    // serde_json's default float parser may be off in the last place; the reader keeps lexemes, so use a
    // value whose text is a fixed point of parse-then-print
    let mut line = serde_json::to_string(&v).unwrap_or_default();
    for _ in 0..3 {
        match serde_json::from_str::<Value>(&line) {
            Ok(back) => {
                let again = serde_json::to_string(&back).unwrap_or_default();
                if again == line {
                    break;
                }
                ctx.count("P/serde-float-reparse-inexact");
                v = back;
                line = again;
            }
            Err(_) => break,
        }
    }
    let _ = v;
    match rng.below(6) {
        0 if line.len() > 2 && line.starts_with('{') => {
            // a truncated record
            let mut cut = 1 + rng.below(line.len() - 1);
            while !line.is_char_boundary(cut) {
                cut -= 1;
            }
            line.truncate(cut.max(1));
            ctx.count("P/truncated");
        }
        1 => {
            // two records run together / trailing garbage
            line.push_str(if rng.chance(1, 2) { "{}" } else { "x" });
            ctx.count("P/trailing");
        }
        _ => ctx.count("P/whole"),
    }
    let out = match serde_json::from_str::<Value>(&line) {
        Ok(back) if serde_json::to_string(&back).ok().as_deref() == Some(line.as_str()) => {
            let mut s = String::from("ok ");
            enc0(&back, &mut s);
            s
        }
        Ok(_) => {
            ctx.count("P/not-a-fixed-point");
            line = "null".into();
            "ok z".to_string()
        }
        Err(_) => "fail".to_string(),
    };
    ctx.emit(idx, format!("P {}", hex(&line)), out);
}

/// a JSON value as a TOML inline value (the policies of an application configuration)
fn toml_inline(v: &Value) -> String {
    fn s(t: &str) -> String {
        let mut o = String::from("\"");
        for c in t.chars() {
            match c {
                '"' => o.push_str("\\\""),
                '\\' => o.push_str("\\\\"),
                c if (c as u32) < 32 || c as u32 == 127 => o.push_str(&format!("\\u{:04X}", c as u32)),
                c => o.push(c),
            }
        }
        o.push('"');
        o
    }
    match v {
        Value::Null => "\"\"".into(),
        Value::Bool(b) => b.to_string(),
        Value::Number(n) => n.to_string(),
        Value::String(t) => s(t),
        Value::Array(xs) => format!("[{}]", xs.iter().map(toml_inline).collect::<Vec<_>>().join(", ")),
        Value::Object(m) => format!("{{ {} }}", m.iter().map(|(k, x)| format!("{} = {}", s(k), toml_inline(x))).collect::<Vec<_>>().join(", ")),
    }
}

// ---------------------------------------------------------------------------------------------------
// paths of every kind

#[derive(Clone, Debug)]
enum PathSpec {
    Missing,
    File(String),
    Directory,
    NoParent,
    /// /dev/full: exists, opens, refuses every write of at least one byte
    Full,
}

impl PathSpec {
    fn enc(&self) -> String {
        match self {
            PathSpec::Missing => "m".into(),
            PathSpec::File(c) => format!("f {}", hex(c)),
            PathSpec::Directory => "d".into(),
            PathSpec::NoParent => "p".into(),
            PathSpec::Full => "F".into(),
        }
    }
    /// put the thing in place; returns the path to configure
    fn setup(&self, idx: usize, tag: &str) -> String {
        let _ = std::fs::create_dir_all(DIR);
        let base = format!("{}/{}_{}_{}", DIR, std::process::id(), idx, tag);
        let _ = std::fs::remove_file(&base);
        let _ = std::fs::remove_dir_all(&base);
        match self {
            PathSpec::Missing => base,
            PathSpec::File(c) => {
                std::fs::write(&base, c).expect("write existing file");
                base
            }
            PathSpec::Directory => {
                std::fs::create_dir_all(&base).expect("create directory");
                base
            }
            PathSpec::NoParent => format!("{}/not-there/out", base),
            PathSpec::Full => "/dev/full".into(),
        }
    }
    /// what is at the path now, in the protocol's terms
    fn observe(&self, path: &str) -> String {
        if matches!(self, PathSpec::Full) {
            return "F".into();
        }
        let p = Path::new(path);
        if p.is_dir() {
            "d".into()
        } else if p.is_file() {
            format!("f {}", hex(&std::fs::read_to_string(p).unwrap_or_default()))
        } else if p.parent().map(|d| d.is_dir()).unwrap_or(false) {
            "m".into()
        } else {
            "p".into()
        }
    }
    fn cleanup(&self, path: &str) {
        if matches!(self, PathSpec::Full) {
            return;
        }
        let _ = std::fs::remove_file(path);
        let _ = std::fs::remove_dir_all(path);
        if let PathSpec::NoParent = self {
            if let Some(base) = Path::new(path).parent().and_then(|d| d.parent()) {
                let _ = std::fs::remove_dir_all(base);
            }
        }
    }
    fn name(&self) -> &'static str {
        match self {
            PathSpec::Missing => "missing",
            PathSpec::File(_) => "file",
            PathSpec::Directory => "directory",
            PathSpec::NoParent => "no-parent",
            PathSpec::Full => "dev-full",
        }
    }
}

fn gen_path(rng: &mut Rng, fmt: &FmtSpec) -> PathSpec {
    match rng.below(9) {
        0 | 1 => PathSpec::Missing,
        2 => PathSpec::File(String::new()),
        3 => PathSpec::File(fmt.build().initial_file_contents().unwrap_or_default()),
        4 => PathSpec::File(format!("{}\n", gen_string(rng).replace('"', "'"))),
        5 => PathSpec::Directory,
        6 => PathSpec::NoParent,
        _ => PathSpec::Full,
    }
}

fn opt_int(r: Option<i64>) -> String {
    match r {
        Some(r) => format!("s {}", r),
        None => "n".into(),
    }
}

// ---------------------------------------------------------------------------------------------------
// case kind B: one sink life cycle at a path of any kind (build failures, a device that refuses writes, close)

fn case_b(ctx: &mut Ctx, idx: usize, mode: char, spec: &PathSpec, fmt: &FmtSpec, rate: Option<i64>, close: bool, resps: &[Value]) {
    let path = spec.setup(idx, "b");
    let label = format!("member-{}", idx % 7);
    let mut line = format!("B {} {} {} {} {} {} {}", mode, hex(&label), spec.enc(), fmt.enc(), opt_int(rate), close as u8, resps.len());
    for r in resps {
        line.push(' ');
        line.push_str(&enc(r));
    }
    let real_fmt = fmt.build();
    let built: Result<ResponseSink, &'static str> = match mode {
        'a' => {
            let policy = ResponseOutputPolicy::File { filename: path.clone(), format: real_fmt.clone(), file_flush_rate: rate };
            policy.build().map_err(|e| classify_build_error(&e.to_string()))
        }
        m => {
            let wm = if m == 'o' { WriteMode::Overwrite } else { WriteMode::Error };
            match wm.open_file(Path::new(&path), &real_fmt) {
                Err(e) => Err(classify_build_error(&e.to_string())),
                Ok(file) => Ok(ResponseSink::File {
                    filename: path.clone(),
                    file: Arc::new(Mutex::new(file)),
                    format: real_fmt.clone(),
                    delimiter: real_fmt.delimiter(),
                    iterations_per_flush: rate.unwrap_or(1).max(1) as u64,
                    iterations: Arc::new(Mutex::new(0)),
                }),
            }
        }
    };
    ctx.count(&format!("B/{}-{}", spec.name(), mode));
    let out = match built {
        Err(kind) => {
            ctx.count(&format!("B/build-{}", kind));
            let after = spec.observe(&path);
            // a refused or failed open must leave what is at the path alone
            if kind != "badrate" && after != spec.enc() {
                ctx.fail(idx, "sink/failed-open-changed-path", format!("{} -> {}", clip(&spec.enc()), clip(&after)));
            }
            format!("{} {}", kind, after)
        }
        Ok(sink) => {
            let mut outs = vec![];
            let mut n_ok = 0;
            for r in resps {
                let mut after = r.clone();
                let res = catch_unwind(AssertUnwindSafe(|| sink.write_response(&mut after)));
                let tag = match &res {
                    Ok(Ok(())) => {
                        n_ok += 1;
                        "o"
                    }
                    Ok(Err(e)) => {
                        if e.to_string().contains("lock") {
                            "l"
                        } else {
                            "e"
                        }
                    }
                    Err(_) => "p",
                };
                ctx.count(&format!("B/write-{}", tag));
                if tag != "p" {
                    check_preserved(ctx, idx, r, &after);
                }
                outs.push(format!("{} {}", tag, enc(&canon(if tag == "p" { r } else { &after }))));
            }
            let closed = if close {
                match sink.close() {
                    Ok(name) => {
                        ctx.count("B/close-ok");
                        format!("some {}", hex(&if name == path { label.clone() } else { name }))
                    }
                    Err(_) => {
                        ctx.count("B/close-error");
                        "none".into()
                    }
                }
            } else {
                "skip".into()
            };
            let iterations = iterations_of(&sink);
            drop(sink);
            let file = if matches!(spec, PathSpec::Full) { "-".to_string() } else { hex(&mask_csv_errors(&std::fs::read_to_string(&path).unwrap_or_default())) };
            if iterations as usize != n_ok {
                ctx.fail(idx, "sink/counter", format!("{} successful writes, counter {}", n_ok, iterations));
            }
            ctx.nontrivial(&format!("B {} {} {} {} {}", mode, spec.name(), fmt.shape(), resps.len(), close));
            let mut o = format!("ok {} {} {} {}", iterations, closed, file, outs.len());
            for x in outs {
                o.push(' ');
                o.push_str(&x);
            }
            o
        }
    };
    spec.cleanup(&path);
    ctx.emit(idx, line, out);
}

fn classify_build_error(msg: &str) -> &'static str {
    if msg.contains("iterations_per_flush must be positive") {
        "badrate"
    } else if msg.contains("write mode is 'error'") {
        "refused"
    } else {
        "ioerr"
    }
}

// ---------------------------------------------------------------------------------------------------
// case kind Z: several sinks on ONE file — two members of a Combined policy with the same filename, or two
// `CompassApp::run` calls at the same time, each `build()`ing its own sink: every sink has its own mutex, so
// nothing in the process orders their writes; what keeps records whole is that a record reaches the file in one
// `write` call on a handle opened in append mode

fn case_z(ctx: &mut Ctx, idx: usize, fmt: &FmtSpec, handles: &[Vec<Vec<Value>>]) {
    let path = file_path(idx);
    let _ = std::fs::create_dir_all(DIR);
    let _ = std::fs::remove_file(&path);
    let mut line = format!("Z {} {}", fmt.enc(), handles.len());
    for h in handles {
        line.push_str(&format!(" {}", h.len()));
        for w in h {
            line.push_str(&format!(" {}", w.len()));
            for r in w {
                line.push(' ');
                line.push_str(&enc(r));
            }
        }
    }
    let real_fmt = fmt.build();
    // every sink is built by its own thread, all released together on the MISSING file: the builds race too
    // (each `build()` decides on its own whether the file is new and the header due)
    let header = real_fmt.initial_file_contents().unwrap_or_default();
    let n_threads: usize = handles.iter().map(|h| h.len()).sum();
    let barrier = Barrier::new(handles.len().max(1));
    std::thread::scope(|s| {
        for h in handles {
            let barrier = &barrier;
            let (path, real_fmt) = (&path, &real_fmt);
            s.spawn(move || {
                barrier.wait();
                let sink = ResponseOutputPolicy::File { filename: path.clone(), format: real_fmt.clone(), file_flush_rate: None }.build().expect("sink builds");
                let sink = &sink;
                std::thread::scope(|s2| {
                    for w in h {
                        s2.spawn(move || {
                            for r in w {
                                let mut r = r.clone();
                                let _ = sink.write_response(&mut r);
                            }
                        });
                    }
                });
            });
        }
    });
    let file = std::fs::read_to_string(&path).unwrap_or_default();
    let _ = std::fs::remove_file(&path);
    let all: Vec<&Value> = handles.iter().flatten().flatten().collect();
    // the header is due exactly once; the sink that creates the file writes it right after creating it, so in a
    // rare schedule another sink's first record may land before it (nothing is lost: counted, not a failure)
    let (mut raw, left) = match fmt {
        FmtSpec::Csv { .. } => {
            let (r, l) = csv_raw_records(&file);
            (r.into_iter().map(|x| x.to_string()).collect::<Vec<String>>(), l.to_string())
        }
        _ => {
            let mut v: Vec<String> = file.split_inclusive('\n').map(|x| x.to_string()).collect();
            let l = if file.ends_with('\n') || file.is_empty() { String::new() } else { v.pop().unwrap_or_default() };
            (v, l)
        }
    };
    let header_count = if header.is_empty() { 1 } else { raw.iter().filter(|r| **r == header).count() };
    if !header.is_empty() {
        if raw.first() != Some(&header) && header_count == 1 {
            ctx.count("Z/header-not-first");
        }
        if let Some(k) = raw.iter().position(|r| *r == header) {
            raw.remove(k);
        }
    }
    let opened = header.clone();
    let rest: String = raw.concat() + &left;
    let rest = rest.as_str();
    let prefix_ok = header_count == 1;
    let canonical = if prefix_ok { canonical_file(fmt, &opened, rest) } else { file.clone() };
    ctx.count(&format!("Z/handles-{}", handles.len()));
    ctx.count(&format!("Z/threads-{}", n_threads));
    ctx.nontrivial(&format!("Z {} {} {} {}", fmt.shape(), handles.len(), n_threads, all.len()));
    // ---- oracle: one intact record per response although the writers do not share a lock
    if !prefix_ok {
        ctx.fail(idx, "sink/concurrent-build-truncates", format!("{} sinks built at the same time on a missing file: {} header records in the file ({} records for {} responses)", handles.len(), header_count, raw.len(), all.len()));
    } else {
        let (records, terminated) = appended_records(fmt, rest);
        if records.len() < all.len() {
            ctx.fail(idx, "sink/concurrent-build-truncates", format!("{} sinks built at the same time on a missing file: {} records for {} responses — a later build truncated what an earlier sink had written", handles.len(), records.len(), all.len()));
        }
        let mut intact = terminated && records.len() >= all.len();
        intact = intact && records.len() == all.len();
        if intact {
            match fmt {
                FmtSpec::Json(_) => {
                    let mut got: Vec<String> = records.iter().map(|s| s.to_string()).collect();
                    let mut want: Vec<String> = all.iter().map(|r| serde_json::to_string(r).unwrap_or_default()).collect();
                    got.sort();
                    want.sort();
                    intact = got == want;
                }
                FmtSpec::Csv { cols, .. } => {
                    let names = header_names(cols, &real_fmt.initial_file_contents().unwrap_or_default()).unwrap_or_default();
                    let mut got: Vec<Vec<String>> = records.iter().filter_map(|r| csv_read(r).ok().and_then(|mut v| if v.len() == 1 { Some(v.remove(0)) } else { None })).collect();
                    let mut want: Vec<Vec<String>> = all.iter().map(|r| reference_fields(cols, &names, r)).collect();
                    got.sort();
                    want.sort();
                    intact = names.is_empty() || got == want;
                }
            }
        }
        if !intact && records.len() >= all.len() {
            let blank = records.iter().filter(|r| r.is_empty()).count();
            ctx.fail(
                idx,
                "sink/aliased-handles-interleave",
                format!("{} sinks on one file, {} responses: {} records, {} of them empty — a row and its line break were separated by another sink's write", handles.len(), all.len(), records.len(), blank),
            );
        }
    }
    ctx.emit(idx, line, format!("ok {}", hex(&canonical)));
}

// ---------------------------------------------------------------------------------------------------
// case kind Y: a Combined policy from build to close

struct MemberSpec {
    label: String,
    path: PathSpec,
    fmt: FmtSpec,
    rate: Option<i64>,
}

fn case_y(ctx: &mut Ctx, idx: usize, members: &[MemberSpec], nest: bool, close: bool, resps: &[Value]) {
    let paths: Vec<String> = members.iter().enumerate().map(|(i, m)| m.path.setup(idx, &format!("y{}", i))).collect();
    let mut line = format!("Y {}", members.len());
    for m in members {
        line.push_str(&format!(" {} {} {} {}", hex(&m.label), m.path.enc(), m.fmt.enc(), opt_int(m.rate)));
    }
    line.push_str(&format!(" {} {}", close as u8, resps.len()));
    for r in resps {
        line.push(' ');
        line.push_str(&enc(r));
    }
    let mut policies: Vec<Box<ResponseOutputPolicy>> = members
        .iter()
        .zip(&paths)
        .map(|(m, p)| Box::new(ResponseOutputPolicy::File { filename: p.clone(), format: m.fmt.build(), file_flush_rate: m.rate }))
        .collect();
    if nest && policies.len() >= 2 {
        let tail = policies.split_off(1);
        policies.push(Box::new(ResponseOutputPolicy::None));
        policies.push(Box::new(ResponseOutputPolicy::Combined { policies: tail }));
    }
    // no member at all: half of the time the policy is `type = "none"` itself (ResponseSink::None)
    let policy = if members.is_empty() && !nest {
        ctx.count("Y/policy-none");
        ResponseOutputPolicy::None
    } else {
        ResponseOutputPolicy::Combined { policies }
    };
    ctx.count(&format!("Y/members-{}", members.len()));
    let out = match policy.build() {
        Err(_) => {
            ctx.count("Y/build-error");
            let mut o = String::from("builderr");
            for (m, p) in members.iter().zip(&paths) {
                o.push(' ');
                o.push_str(&m.path.observe(p));
            }
            o
        }
        Ok(sink) => {
            let mut outs = vec![];
            for r in resps {
                let mut after = r.clone();
                let res = catch_unwind(AssertUnwindSafe(|| sink.write_response(&mut after)));
                match res {
                    Ok(Ok(())) => {
                        check_preserved(ctx, idx, r, &after);
                        outs.push(format!("o {}", enc(&canon(&after))));
                    }
                    Ok(Err(e)) if e.to_string().contains("lock") => outs.push("l".into()),
                    Ok(Err(_)) => {
                        check_preserved(ctx, idx, r, &after);
                        outs.push(format!("e {}", enc(&canon(&after))));
                        ctx.count("Y/write-error");
                    }
                    Err(_) => outs.push("p".into()),
                }
            }
            let closed = if close {
                match sink.close() {
                    Ok(names) => {
                        let mut n = names;
                        for (m, p) in members.iter().zip(&paths) {
                            if !matches!(m.path, PathSpec::Full) {
                                n = n.replace(p.as_str(), &m.label);
                            }
                        }
                        format!("some {}", hex(&n))
                    }
                    Err(_) => {
                        ctx.count("Y/close-error");
                        "none".into()
                    }
                }
            } else {
                "skip".into()
            };
            drop(sink);
            let mut o = format!("ok {} {}", closed, members.len());
            for (m, p) in members.iter().zip(&paths) {
                o.push(' ');
                if matches!(m.path, PathSpec::Full) {
                    o.push('-');
                } else {
                    o.push_str(&hex(&mask_csv_errors(&std::fs::read_to_string(p).unwrap_or_default())));
                }
            }
            o.push_str(&format!(" {}", outs.len()));
            for x in outs {
                o.push(' ');
                o.push_str(&x);
            }
            ctx.nontrivial(&format!("Y {} {} {}", members.iter().map(|m| format!("{}{}", m.fmt.shape(), m.path.name())).collect::<Vec<_>>().join("+"), close, resps.len()));
            o
        }
    };
    for (m, p) in members.iter().zip(&paths) {
        m.path.cleanup(p);
    }
    ctx.emit(idx, line, out);
}

// ---------------------------------------------------------------------------------------------------
// CompassApp::run when the sink cannot be built or refuses writes, and without an output policy

fn case_a_special(ctx: &mut Ctx, idx: usize, app: &CompassApp, spec: Option<&PathSpec>, fmt: &FmtSpec, rate: Option<i64>, persist: bool, parallelism: usize, queries: &[Value]) {
    let n_bad: usize = queries.iter().filter(|q| query_kind(q).1).count();
    let expected: usize = queries.iter().map(|q| query_kind(q).0).sum();
    let persistence = if persist { "persist_response_in_memory" } else { "discard_response_from_memory" };
    let dummy = json!({});
    let Some(spec) = spec else {
        // no output policy: the application default `type = "none"`, only the persistence policy is set
        let cfg = json!({"parallelism": parallelism, "response_persistence_policy": persistence});
        let res = catch_unwind(AssertUnwindSafe(|| app.run(queries.to_vec(), Some(&cfg))));
        ctx.count(if persist { "A0/persist" } else { "A0/discard" });
        match res {
            Ok(Ok(returned)) => {
                let handed_back = if persist { expected } else { n_bad };
                if returned.len() != handed_back {
                    ctx.fail(idx, "app/response-count", format!("{} responses expected back, {} returned", handed_back, returned.len()));
                }
                let split = returned.len().saturating_sub(n_bad);
                let mut line = format!("A0 {} 1 {}", persist as u8, split);
                for r in &returned[..split] {
                    line.push(' ');
                    line.push_str(&enc(r));
                }
                line.push_str(&format!(" {}", returned.len() - split));
                for r in &returned[split..] {
                    line.push(' ');
                    line.push_str(&enc(r));
                }
                let mut encs: Vec<String> = returned.iter().map(|r| enc(&canon(r))).collect();
                encs.sort();
                let mut out = format!("ok {}", returned.len());
                for e in encs {
                    out.push(' ');
                    out.push_str(&e);
                }
                ctx.emit(idx, line, out);
            }
            _ => {
                ctx.fail(idx, "app/run-failed", "CompassApp::run without an output policy did not return responses".into());
                ctx.emit(idx, format!("A0 {} 0 0", persist as u8), "apperr".into());
            }
        }
        return;
    };
    let path = spec.setup(idx, "a");
    let mut policy = json!({"type": "file", "filename": path, "format": fmt.config()});
    if let Some(r) = rate {
        policy["file_flush_rate"] = json!(r);
    }
    let cfg = json!({"parallelism": parallelism, "response_persistence_policy": persistence, "response_output_policy": policy});
    let res = catch_unwind(AssertUnwindSafe(|| app.run(queries.to_vec(), Some(&cfg))));
    // the model gets the shape of the batch only (placeholders): nothing of it can be observed in these runs
    let searched = expected - n_bad;
    let workers = parallelism.max(1);
    let mut line = format!("A {} {} {} {} {}", spec.enc(), fmt.enc(), opt_int(rate), persist as u8, workers);
    for w in 0..workers {
        let n = searched / workers + if w < searched % workers { 1 } else { 0 };
        line.push_str(&format!(" {}", n));
        for _ in 0..n {
            line.push(' ');
            line.push_str(&enc(&dummy));
        }
    }
    line.push_str(&format!(" {}", n_bad));
    for _ in 0..n_bad {
        line.push(' ');
        line.push_str(&enc(&dummy));
    }
    ctx.count(&format!("A/special-{}{}", spec.name(), if matches!(rate, Some(r) if r <= 0) { "-badrate" } else { "" }));
    let out = match res {
        Ok(Ok(returned)) => {
            ctx.count("A/special-run-ok");
            if !returned.is_empty() && matches!(spec, PathSpec::Full) {
                ctx.fail(idx, "app/response-count", format!("{} responses handed back although every write failed", returned.len()));
            }
            if matches!(spec, PathSpec::Full) {
                format!("ok - {}", returned.len())
            } else {
                // a path that could be opened after all: not a case for this stream
                format!("unexpected-ok {}", returned.len())
            }
        }
        _ => {
            ctx.count("A/special-run-error");
            "apperr".to_string()
        }
    };
    spec.cleanup(&path);
    ctx.emit(idx, line, out);
}

fn strip_error_paths(m: &mut MapSpec) {
    match m {
        MapSpec::Path(p) => {
            if p == "error" || p == "csv_error" {
                *p = "request".to_string();
            }
        }
        MapSpec::Sum(ms) => ms.iter_mut().for_each(strip_error_paths),
        MapSpec::Optional(b) => strip_error_paths(b),
    }
}

fn csv(cols: &[(&str, MapSpec)], sorted: bool) -> FmtSpec {
    FmtSpec::Csv { cols: cols.iter().map(|(k, m)| (k.to_string(), m.clone())).collect(), sorted }
}
fn p(s: &str) -> MapSpec {
    MapSpec::Path(s.to_string())
}

pub fn run(ctx: &mut Ctx) -> &'static str {
    // every case index is also counted here, so that a case filtered out by --only still knows its index
    let mut next = 0usize;
    macro_rules! begin {
        () => {{
            let i = next;
            next += 1;
            (i, ctx.begin().is_some())
        }};
    }
    // ---- corpus: witnesses of past and present findings, boundary behaviour
    let no_path = json!({"request": {"origin_vertex": 0, "destination_vertex": 7}, "error": "no path"});
    let missing = csv(&[("distance", p("route.traversal_summary.distance")), ("time", p("route.traversal_summary.time"))], false);
    // (1) fixed defect: the CSV formatter replaced the search error with its own mapping errors
    if let (idx, true) = begin!() {
        case_f(ctx, idx, &missing, &no_path);
    }
    // (2) a response that already holds "error" and "csv_error": the second is replaced
    if let (idx, true) = begin!() {
        case_f(ctx, idx, &missing, &json!({"request": {}, "error": "no path", "csv_error": "from an earlier sink"}));
    }
    // (3) the same through the configuration: a Combined policy of two CSV files and a failing query
    if let (idx, true) = begin!() {
        let other = csv(&[("energy", p("route.traversal_summary.energy"))], true);
        case_x(ctx, idx, &[missing.clone(), other], false, &no_path);
    }
    // (4) array / object / quoted-string cells
    let ok_resp = json!({"request": {"origin_vertex": 0, "destination_vertex": 2, "name": "5\" nails, 2 boxes"},
        "route": {"path": [0, 2], "traversal_summary": {"distance": 1.5, "time": 0.25, "energy": null}}});
    if let (idx, true) = begin!() {
        case_f(ctx, idx, &csv(&[("origin", p("request.origin_vertex")), ("path", p("route.path"))], false), &ok_resp);
    }
    if let (idx, true) = begin!() {
        case_f(ctx, idx, &csv(&[("name", p("request.name"))], false), &ok_resp);
    }
    // (5) sums: empty, null summand, overflow to infinity, integer beyond 2^53, failing summand
    if let (idx, true) = begin!() {
        let f = csv(
            &[
                ("empty", MapSpec::Sum(vec![])),
                ("dt", MapSpec::Sum(vec![p("route.traversal_summary.distance"), p("route.traversal_summary.time"), p("route.traversal_summary.energy")])),
                ("bad", MapSpec::Sum(vec![p("route.traversal_summary.distance"), p("request.name")])),
                ("opt", MapSpec::Optional(Box::new(MapSpec::Sum(vec![p("nope")])))),
            ],
            true,
        );
        case_f(ctx, idx, &f, &ok_resp);
    }
    if let (idx, true) = begin!() {
        let f = csv(&[("inf", MapSpec::Sum(vec![p("a"), p("a")])), ("big", MapSpec::Sum(vec![p("b"), p("c")]))], false);
        case_f(ctx, idx, &f, &json!({"a": 1.0e308, "b": u64::MAX, "c": -1}));
    }
    // (6) responses that are not objects: null becomes an object, anything else panics inside serde_json
    if let (idx, true) = begin!() {
        case_f(ctx, idx, &missing, &Value::Null);
    }
    if let (idx, true) = begin!() {
        case_f(ctx, idx, &missing, &json!(3));
    }
    // (7) write modes on an existing file, bad flush rate, JSON array form with close()
    let two = vec![vec![ok_resp.clone(), no_path.clone()]];
    let csv2 = csv(&[("origin", p("request.origin_vertex")), ("distance", p("route.traversal_summary.distance"))], true);
    for (mode, existing) in [('a', None), ('a', Some("origin,distance\n5,\n")), ('o', Some("old contents\n")), ('e', Some("keep me")), ('e', None)] {
        if let (idx, true) = begin!() {
            let c = SinkCase { mode, existing: existing.map(|s: &str| s.to_string()), fmt: csv2.clone(), rate: None, close: false, persist: true, schedule: vec![], workers: two.clone() };
            case_s(ctx, idx, &c);
        }
    }
    if let (idx, true) = begin!() {
        let c = SinkCase { mode: 'a', existing: None, fmt: FmtSpec::Json(true), rate: Some(0), close: false, persist: true, schedule: vec![], workers: two.clone() };
        case_s(ctx, idx, &c);
    }
    for close in [false, true] {
        if let (idx, true) = begin!() {
            let c = SinkCase { mode: 'a', existing: None, fmt: FmtSpec::Json(false), rate: Some(2), close, persist: true, schedule: vec![], workers: two.clone() };
            case_s(ctx, idx, &c);
        }
    }
    // (8) a panic under the lock poisons the sink: later writes fail
    if let (idx, true) = begin!() {
        let c = SinkCase { mode: 'a', existing: None, fmt: missing.clone(), rate: None, close: true, persist: true, schedule: vec![], workers: vec![vec![ok_resp.clone(), json!(3), ok_resp.clone()]] };
        case_s(ctx, idx, &c);
    }

    // ---- generated: single format_response calls
    for _ in 0..ctx.n(3000, 30000) {
        let (idx, true) = begin!() else { continue };
        let mut rng = Rng::for_case(ctx.seed, PROP, idx as u64);
        let fmt = gen_format(&mut rng, true);
        let resp = match rng.below(40) {
            0 => Value::Null,
            1 => gen_value(&mut rng, 1),
            _ => gen_response(&mut rng, false),
        };
        case_f(ctx, idx, &fmt, &resp);
    }
    // ---- generated: the reader of the model against serde_json::from_str
    for _ in 0..ctx.n(500, 5000) {
        let (idx, true) = begin!() else { continue };
        let mut rng = Rng::for_case(ctx.seed, PROP, idx as u64);
        case_p(ctx, idx, &mut rng);
    }
    // ---- generated: Combined sinks
    for _ in 0..ctx.n(400, 4000) {
        let (idx, true) = begin!() else { continue };
        let mut rng = Rng::for_case(ctx.seed, PROP, idx as u64);
        let k = rng.below(4);
        let mut fmts: Vec<FmtSpec> = (0..k).map(|_| gen_format(&mut rng, false)).collect();
        // the text of the mapping-error messages is not modelled, so no member may *print* what an earlier
        // CSV member stored in the response: JSON members go first, later CSV members do not select the
        // error keys (the response handed back, compared below, still shows every member's bookkeeping)
        // (a JSON member may follow a CSV member: the error object it prints is compared with its messages masked)
        let mut seen_csv = false;
        for f in fmts.iter_mut() {
            if let FmtSpec::Csv { cols, .. } = f {
                if seen_csv {
                    for (_, m) in cols.iter_mut() {
                        strip_error_paths(m);
                    }
                }
                seen_csv = true;
            }
        }
        let resp = gen_response(&mut rng, false);
        let nest = rng.chance(1, 2);
        case_x(ctx, idx, &fmts, nest, &resp);
    }
    // ---- generated: sink life cycles with real threads; a second run appends to the file of the first
    let n_sink = ctx.n(700, 7000);
    let mut k = 0;
    while k < n_sink {
        // a chain of runs on one file; every run is a case of its own.  All randomness of the chain derives
        // from the index of its first run, and a run filtered out by --only is still executed (silently)
        // because its file is the next run's starting point.
        let head = next;
        let mut rng = Rng::for_case(ctx.seed, PROP, head as u64);
        let fmt = gen_format(&mut rng, true);
        let runs = 1 + rng.below(3);
        let mut existing: Option<String> = if rng.chance(1, 8) { Some(gen_string(&mut rng)) } else { None };
        for _ in 0..runs {
            let (here, active) = begin!();
            k += 1;
            let threads = match rng.below(6) {
                0 => 1,
                1 => 2,
                2 => 16,
                _ => 1 + rng.below(16),
            };
            let poison = threads == 1 && rng.chance(1, 25);
            let big_case = rng.chance(1, 10);
            let per = if big_case { 1 + rng.below(2) } else { rng.below(7) };
            let mut workers: Vec<Vec<Value>> = vec![];
            for _ in 0..threads {
                let n = rng.below(per + 1) + if threads == 1 { 1 } else { 0 };
                let mut w = vec![];
                for _ in 0..n {
                    if poison && rng.chance(1, 3) {
                        w.push(json!(7));
                    } else {
                        let big = big_case && rng.chance(1, 2);
                        w.push(gen_response(&mut rng, big));
                    }
                }
                workers.push(w);
            }
            let total: usize = workers.iter().map(|w| w.len()).sum();
            let schedule: Vec<usize> = (0..rng.below(2 * total + 1)).map(|_| rng.below(threads + 1)).collect();
            let mode = match rng.below(8) {
                0 => 'o',
                1 => 'e',
                _ => 'a',
            };
            let rate = match rng.below(12) {
                0 | 1 => None,
                2 | 3 => Some(1),
                4..=6 => Some(rng.range(2, 8)),
                7 if mode == 'a' => Some(-rng.range(0, 3)),
                _ => Some(rng.range(1, 1000)),
            };
            let c = SinkCase { mode, existing: existing.clone(), fmt: fmt.clone(), rate, close: rng.chance(1, 6), persist: rng.chance(1, 2), schedule, workers };
            let left = if active {
                case_s(ctx, here, &c)
            } else {
                let mut silent = Ctx::new(ctx.seed, ctx.tier, None, None);
                case_s(&mut silent, here, &c)
            };
            if let Some(f) = left {
                existing = Some(f);
            }
        }
    }
    // ---- corpus + generated: sink life cycles at paths of every kind (build failures, /dev/full, close)
    {
        let two = [json!({"request": {"origin_vertex": 0}, "route": {"traversal_summary": {"distance": 1.5}}}), json!({"request": {"origin_vertex": 1}, "error": "no path"})];
        let csv1 = csv(&[("origin", p("request.origin_vertex")), ("distance", p("route.traversal_summary.distance"))], true);
        for (mode, spec, fmt, rate, close) in [
            ('a', PathSpec::NoParent, FmtSpec::Json(true), None, false),
            ('a', PathSpec::Directory, csv1.clone(), None, false),
            ('e', PathSpec::Directory, csv1.clone(), None, false),
            ('o', PathSpec::Directory, FmtSpec::Json(false), None, false),
            ('a', PathSpec::Full, csv1.clone(), None, true),
            ('o', PathSpec::Full, FmtSpec::Json(true), Some(3), true),
            ('o', PathSpec::Full, csv1.clone(), None, false),
            ('e', PathSpec::Full, FmtSpec::Json(true), None, false),
            ('a', PathSpec::Missing, FmtSpec::Json(false), Some(2), true),
            ('a', PathSpec::File("[\n{}\n\n]\n".into()), FmtSpec::Json(false), None, true),
            ('a', PathSpec::Missing, csv1.clone(), Some(0), false),
        ] {
            if let (idx, true) = begin!() {
                case_b(ctx, idx, mode, &spec, &fmt, rate, close, &two);
            }
        }
    }
    for _ in 0..ctx.n(400, 4000) {
        let (idx, true) = begin!() else { continue };
        let mut rng = Rng::for_case(ctx.seed, PROP, idx as u64);
        let fmt = gen_format(&mut rng, true);
        let spec = gen_path(&mut rng, &fmt);
        let mode = match rng.below(5) {
            0 => 'o',
            1 => 'e',
            _ => 'a',
        };
        let rate = match rng.below(8) {
            0 if mode == 'a' => Some(-rng.range(0, 2)),
            1 | 2 => None,
            _ => Some(rng.range(1, 5)),
        };
        let n = rng.below(5);
        let poison = rng.chance(1, 15);
        let resps: Vec<Value> = (0..n).map(|_| if poison && rng.chance(1, 2) { json!(7) } else { gen_response(&mut rng, false) }).collect();
        let close = rng.chance(1, 2);
        case_b(ctx, idx, mode, &spec, &fmt, rate, close, &resps);
    }
    // ---- several sinks on one file (no common lock): rows long enough that the writes overlap in time
    for _ in 0..ctx.n(40, 300) {
        let (idx, true) = begin!() else { continue };
        let mut rng = Rng::for_case(ctx.seed, PROP, idx as u64);
        let fmt = if rng.chance(1, 2) { FmtSpec::Json(true) } else { csv(&[("origin", p("request.origin_vertex")), ("blob", p("blob")), ("note", MapSpec::Optional(Box::new(p("note"))))], rng.chance(1, 2)) };
        let k = 2 + rng.below(2);
        let handles: Vec<Vec<Vec<Value>>> = (0..k)
            .map(|_| {
                (0..1 + rng.below(4))
                    .map(|_| {
                        (0..20 + rng.below(30))
                            .map(|_| {
                                let mut r = gen_response(&mut rng, false);
                                let n = 200 + rng.below(3000);
                                r["blob"] = json!("x".repeat(n));
                                r
                            })
                            .collect()
                    })
                    .collect()
            })
            .collect();
        case_z(ctx, idx, &fmt, &handles);
    }
    // ---- many sinks built at the same moment on a missing file, a few short records each: the builds race
    for _ in 0..ctx.n(150, 1200) {
        let (idx, true) = begin!() else { continue };
        let mut rng = Rng::for_case(ctx.seed, PROP, idx as u64);
        let fmt = if rng.chance(1, 4) { FmtSpec::Json(true) } else { csv(&[("origin", p("request.origin_vertex")), ("dest", p("request.destination_vertex"))], rng.chance(1, 2)) };
        let k = 6 + rng.below(11);
        let handles: Vec<Vec<Vec<Value>>> = (0..k).map(|_| vec![(0..1 + rng.below(3)).map(|_| json!({"request": gen_request(&mut rng)})).collect()]).collect();
        ctx.count("Z/build-race");
        case_z(ctx, idx, &fmt, &handles);
    }
    // ---- generated: Combined policies from build to close
    for _ in 0..ctx.n(250, 2500) {
        let (idx, true) = begin!() else { continue };
        let mut rng = Rng::for_case(ctx.seed, PROP, idx as u64);
        let k = rng.below(4);
        let mut fmts: Vec<FmtSpec> = (0..k).map(|_| gen_format(&mut rng, true)).collect();
        // a newline-delimited JSON member may follow a CSV member: the error object it prints is compared with its
        // messages masked; the pretty-printed array form spreads that object over lines — those members go first
        fmts.sort_by_key(|f| !matches!(f, FmtSpec::Json(false)));
        let mut seen_csv = false;
        for f in fmts.iter_mut() {
            if let FmtSpec::Csv { cols, .. } = f {
                if seen_csv {
                    for (_, m) in cols.iter_mut() {
                        strip_error_paths(m);
                    }
                }
                seen_csv = true;
            }
        }
        let trouble = rng.chance(1, 3);
        let members: Vec<MemberSpec> = fmts
            .into_iter()
            .enumerate()
            .map(|(i, fmt)| {
                let path = if trouble { gen_path(&mut rng, &fmt) } else if rng.chance(1, 3) { PathSpec::File(fmt.build().initial_file_contents().unwrap_or_default()) } else { PathSpec::Missing };
                let rate = if trouble && rng.chance(1, 8) { Some(0) } else if rng.chance(1, 2) { None } else { Some(rng.range(1, 4)) };
                MemberSpec { label: format!("out-{}", i), path, fmt, rate }
            })
            .collect();
        // a JSON member after a failing device would print the bookkeeping of the CSV member before it: keep
        // the devices for CSV members, which come last
        let n = rng.below(4);
        let resps: Vec<Value> = (0..n).map(|_| gen_response(&mut rng, false)).collect();
        let nest = rng.chance(1, 2);
        let close = rng.chance(2, 3);
        case_y(ctx, idx, &members, nest, close, &resps);
    }
    // ---- end to end: CompassApp::run with a per-run file policy
    if let Some(app) = build_app("parallelism = 4") {
        // corpus (fixed d0fd74e): one good query and one that fails input processing — two responses, two
        // records, under both policies; a batch of failing queries only (the early return); a degenerate grid
        for (persist, queries) in [
            (true, vec![json!({"origin_vertex": 0, "destination_vertex": 2}), json!(5)]),
            (false, vec![json!({"origin_vertex": 0, "destination_vertex": 2}), json!(5)]),
            (true, vec![json!(5), json!("str")]),
            (false, vec![json!(5), json!({"origin_vertex": 0, "grid_search": {"destination_vertex": []}})]),
            (true, vec![json!({"origin_vertex": 0, "grid_search": {"destination_vertex": [1, 2]}}), json!({"grid_search": {}})]),
        ] {
            if let (idx, true) = begin!() {
                let c = AppCase { existing: None, via_app_config: false, fmt: FmtSpec::Json(true), rate: None, persist, parallelism: 2, queries };
                case_a(ctx, idx, &app, &c);
            }
        }
        if let (idx, true) = begin!() {
            let f = csv(&[("origin", p("request.origin_vertex")), ("distance", p("route.traversal_summary.distance"))], false);
            let c = AppCase { existing: None, via_app_config: false, fmt: f, rate: None, persist: true, parallelism: 3, queries: vec![json!({"origin_vertex": 0, "destination_vertex": 2}), json!(5), json!({"origin_vertex": 2, "destination_vertex": 0})] };
            case_a(ctx, idx, &app, &c);
        }
        // corpus (known finding): a mapping given in the application's TOML has its column names lower-cased
        // by the `config` crate, and names that then coincide are merged — a configured column disappears
        for cols in [
            vec![("Zeta", p("request.origin_vertex")), ("alpha col", p("route_edges")), ("Origin Vertex", p("request.origin_vertex"))],
            vec![("Time", MapSpec::Optional(Box::new(p("route.traversal_summary.time")))), ("time", MapSpec::Optional(Box::new(p("request.time")))), ("Zeta", p("request.origin_vertex"))],
        ] {
            if let (idx, true) = begin!() {
                let c = AppCase { existing: None, via_app_config: true, fmt: csv(&cols, false), rate: None, persist: true, parallelism: 2, queries: vec![json!({"origin_vertex": 0, "destination_vertex": 2})] };
                case_a(ctx, idx, &app, &c);
            }
        }
        // the model of what the `config` crate makes of the column names (Sink.tomlMapping) against the crate
        for _ in 0..ctx.n(40, 300) {
            let (idx, true) = begin!() else { continue };
            let mut rng = Rng::for_case(ctx.seed, PROP, idx as u64);
            let base = ["time", "zeta", "alpha col", "origin", "km_total", "edges"];
            let n = 1 + rng.below(5);
            let mut names: Vec<String> = vec![];
            for _ in 0..n {
                let b = rng.pick(&base).to_string();
                let k = match rng.below(4) {
                    0 => b.to_uppercase(),
                    1 => {
                        let mut cs = b.chars();
                        cs.next().map(|f| f.to_uppercase().collect::<String>() + cs.as_str()).unwrap_or_default()
                    }
                    _ => b,
                };
                if !names.contains(&k) {
                    names.push(k);
                }
            }
            let mut m = Map::new();
            for k in &names {
                m.insert(k.clone(), json!("request.origin_vertex"));
            }
            let policy = json!({"type": "file", "filename": file_path(idx), "format": {"type": "csv", "sorted": false, "mapping": Value::Object(m)}});
            let top = format!("parallelism = 1\nresponse_output_policy = {}", toml_inline(&policy));
            let loaded: Option<Vec<String>> = build_app(&top).and_then(|own| match &own.response_output_policy {
                ResponseOutputPolicy::File { format: ResponseOutputFormat::Csv { mapping, .. }, .. } => Some(mapping.keys().cloned().collect()),
                _ => None,
            });
            let mut line = format!("T {}", names.len());
            for k in &names {
                line.push(' ');
                line.push_str(&hex(k));
            }
            let out = match loaded {
                Some(ks) => {
                    if ks.len() < names.len() {
                        ctx.count("T/columns-merged");
                    } else if ks != names {
                        ctx.count("T/names-lowercased");
                    } else {
                        ctx.count("T/as-configured");
                    }
                    let mut o = format!("{}", ks.len());
                    for k in &ks {
                        o.push(' ');
                        o.push_str(&hex(k));
                    }
                    o
                }
                None => "did-not-load".to_string(),
            };
            ctx.emit(idx, line, out);
        }
        let n_app = ctx.n(150, 1500);
        let mut k = 0;
        while k < n_app {
            let head = next;
            let mut rng = Rng::for_case(ctx.seed, PROP, head as u64);
            let persist = rng.chance(1, 2);
            let fmt = gen_app_format(&mut rng, persist);
            let mut existing: Option<String> = None;
            for _ in 0..1 + rng.below(2) {
                let (here, active) = begin!();
                k += 1;
                let nq = rng.below(13);
                let queries: Vec<Value> = (0..nq).map(|_| gen_query(&mut rng)).collect();
                let c = AppCase {
                    existing: existing.clone(),
                    via_app_config: rng.chance(1, 5),
                    fmt: fmt.clone(),
                    rate: if rng.chance(1, 2) { None } else { Some(rng.range(1, 9)) },
                    persist,
                    parallelism: if rng.chance(1, 4) { 1 } else { 1 + rng.below(16) },
                    queries,
                };
                let left = if active {
                    case_a(ctx, here, &app, &c)
                } else {
                    let mut silent = Ctx::new(ctx.seed, ctx.tier, None, None);
                    case_a(&mut silent, here, &app, &c)
                };
                if let Some(f) = left {
                    existing = Some(f);
                }
            }
        }
        // the sink cannot be built, or refuses every write; and runs without an output policy
        for (spec, fmt, rate, persist, queries) in [
            (Some(PathSpec::Full), FmtSpec::Json(true), None, true, vec![json!({"origin_vertex": 0, "destination_vertex": 2})]),
            (Some(PathSpec::Full), FmtSpec::Json(true), None, false, vec![json!({"origin_vertex": 0, "destination_vertex": 2}), json!({"origin_vertex": 1, "destination_vertex": 2})]),
            (Some(PathSpec::Full), FmtSpec::Json(true), None, false, vec![json!({"origin_vertex": 0, "destination_vertex": 2}), json!(5)]),
            (Some(PathSpec::NoParent), FmtSpec::Json(true), None, true, vec![json!({"origin_vertex": 0, "destination_vertex": 2})]),
            (Some(PathSpec::Missing), FmtSpec::Json(true), Some(0), false, vec![json!({"origin_vertex": 0, "destination_vertex": 2})]),
            (None, FmtSpec::Json(true), None, true, vec![json!({"origin_vertex": 0, "destination_vertex": 2}), json!(5)]),
            (None, FmtSpec::Json(true), None, false, vec![json!({"origin_vertex": 0, "destination_vertex": 2}), json!(5)]),
        ] {
            if let (idx, true) = begin!() {
                case_a_special(ctx, idx, &app, spec.as_ref(), &fmt, rate, persist, 2, &queries);
            }
        }
        for _ in 0..ctx.n(60, 600) {
            let (idx, true) = begin!() else { continue };
            let mut rng = Rng::for_case(ctx.seed, PROP, idx as u64);
            let persist = rng.chance(1, 2);
            let fmt = gen_app_format(&mut rng, true);
            let (spec, rate) = match rng.below(6) {
                0 => (None, None),
                1 => (Some(PathSpec::NoParent), None),
                2 => (Some(PathSpec::Directory), None),
                3 => (Some(PathSpec::Missing), Some(-rng.range(0, 2))),
                _ => (Some(PathSpec::Full), if rng.chance(1, 2) { None } else { Some(rng.range(1, 4)) }),
            };
            let nq = rng.below(6);
            let queries: Vec<Value> = (0..nq).map(|_| gen_query(&mut rng)).collect();
            let parallelism = 1 + rng.below(8);
            case_a_special(ctx, idx, &app, spec.as_ref(), &fmt, rate, persist, parallelism, &queries);
        }
    } else {
        ctx.count("A/app-did-not-build");
    }
    let _ = std::fs::remove_dir(DIR);
    "non-trivial: a sink run that wrote two or more records or used two or more threads (fingerprint: mode, format shape, threads, records, policy, pre-existing file), a CSV row with both failing and succeeding cells, or a Combined sink"
}
