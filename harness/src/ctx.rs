//! run context: collects case lines, implementation output lines, oracle failures and statistics.
use std::collections::{BTreeMap, BTreeSet};
use std::io::Write;

#[derive(Clone, Copy, PartialEq, Eq, Debug)]
pub enum Tier {
    Quick,
    Thorough,
}

pub struct Ctx {
    pub seed: u64,
    pub tier: Tier,
    /// when set, only the case with this index is executed (replay)
    pub only: Option<usize>,
    pub n_override: Option<usize>,
    next_index: usize,
    cases: Vec<String>,
    impl_out: Vec<String>,
    oracle: Vec<String>,
    counters: BTreeMap<String, u64>,
    nontrivial: BTreeSet<u64>,
    samples: Vec<String>,
    pub verbose: bool,
}

fn fnv(s: &str) -> u64 {
    let mut h: u64 = 0xcbf29ce484222325;
    for b in s.as_bytes() {
        h ^= *b as u64;
        h = h.wrapping_mul(0x100000001b3);
    }
    h
}

impl Ctx {
    pub fn new(seed: u64, tier: Tier, only: Option<usize>, n_override: Option<usize>) -> Ctx {
        Ctx {
            seed,
            tier,
            only,
            n_override,
            next_index: 0,
            cases: vec![],
            impl_out: vec![],
            oracle: vec![],
            counters: BTreeMap::new(),
            nontrivial: BTreeSet::new(),
            samples: vec![],
            verbose: false,
        }
    }
    pub fn quick(&self) -> bool {
        self.tier == Tier::Quick
    }
    /// number of generated cases: `q` in the quick tier, `t` in the thorough tier
    pub fn n(&self, q: usize, t: usize) -> usize {
        if let Some(n) = self.n_override {
            return n;
        }
        if self.quick() {
            q
        } else {
            t
        }
    }
    /// reserve the next case index; returns None when this index is filtered out by --only
    pub fn begin(&mut self) -> Option<usize> {
        let i = self.next_index;
        self.next_index += 1;
        crate::watch::set_index(i);
        match self.only {
            Some(k) if k != i => None,
            _ => Some(i),
        }
    }
    /// record a case: the line handed to the model, and the implementation's canonical output
    pub fn emit(&mut self, idx: usize, case: String, out: String) {
        debug_assert!(!case.contains('\n') && !out.contains('\n'));
        if self.samples.len() < 6 && (idx % 97 == 0 || self.only.is_some()) {
            let mut c = case.clone();
            if c.len() > 600 {
                c.truncate(600);
                c.push_str("…");
            }
            let mut o = out.clone();
            if o.len() > 400 {
                o.truncate(400);
                o.push_str("…");
            }
            self.samples.push(format!("#{} {} => {}", idx, c, o));
        }
        self.cases.push(format!("{} {}", idx, case));
        self.impl_out.push(format!("{} {}", idx, out));
    }
    /// a direct oracle failure: the implementation violates the property on case `idx`.
    /// `key` identifies call site + failure kind (matched against known_findings.txt).
    pub fn fail(&mut self, idx: usize, key: &str, msg: String) {
        self.oracle.push(format!("{} {} {}", idx, key, msg.replace('\n', " ")));
    }
    pub fn oracle_len(&self) -> usize {
        self.oracle.len()
    }
    /// replace the key of every oracle failure recorded since position `from`
    pub fn rekey_since(&mut self, from: usize, key: &str) {
        for l in self.oracle[from..].iter_mut() {
            let mut parts = l.splitn(3, ' ');
            let idx = parts.next().unwrap_or("").to_string();
            let old = parts.next().unwrap_or("").to_string();
            let rest = parts.next().unwrap_or("").to_string();
            *l = format!("{} {} [{}] {}", idx, key, old, rest);
        }
    }
    /// the same, only for failures whose key is `old_key`
    pub fn rekey_matching_since(&mut self, from: usize, old_key: &str, key: &str) {
        for l in self.oracle[from..].iter_mut() {
            let mut parts = l.splitn(3, ' ');
            let idx = parts.next().unwrap_or("").to_string();
            let old = parts.next().unwrap_or("").to_string();
            let rest = parts.next().unwrap_or("").to_string();
            if old == old_key {
                *l = format!("{} {} {}", idx, key, rest);
            }
        }
    }
    pub fn count(&mut self, key: &str) {
        *self.counters.entry(key.to_string()).or_insert(0) += 1;
    }
    pub fn count_n(&mut self, key: &str, n: u64) {
        *self.counters.entry(key.to_string()).or_insert(0) += n;
    }
    /// mark a case as non-trivial by the property's rule; distinctness is by fingerprint
    pub fn nontrivial(&mut self, fingerprint: &str) {
        self.nontrivial.insert(fnv(fingerprint));
    }
    pub fn write(&self, dir: &str, prop: &str, rule: &str) -> std::io::Result<()> {
        std::fs::create_dir_all(dir)?;
        let mut f = std::fs::File::create(format!("{}/cases.txt", dir))?;
        for c in &self.cases {
            writeln!(f, "{}", c)?;
        }
        let mut f = std::fs::File::create(format!("{}/impl.txt", dir))?;
        for c in &self.impl_out {
            writeln!(f, "{}", c)?;
        }
        let mut f = std::fs::File::create(format!("{}/oracle.txt", dir))?;
        for c in &self.oracle {
            writeln!(f, "{}", c)?;
        }
        let stats = serde_json::json!({
            "property": prop,
            "seed": self.seed,
            "evaluations": self.cases.len(),
            "distinct_nontrivial": self.nontrivial.len(),
            "rule": rule,
            "distribution": self.counters,
            "samples": self.samples,
            "oracle_failures": self.oracle.len(),
        });
        std::fs::write(format!("{}/stats.json", dir), serde_json::to_string_pretty(&stats).unwrap())?;
        Ok(())
    }
}

pub fn fbits(x: f64) -> String {
    if x.is_nan() {
        "nan".to_string()
    } else {
        x.to_bits().to_string()
    }
}
