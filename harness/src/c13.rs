//! C13 — k-shortest paths (single-via, Yen).
//! Every case is a search instance of `search.rs` plus a KSP configuration.  The REAL
//! `SearchAlgorithm::{KspSingleVia, Yens}::run_{vertex,edge}_oriented` is run with the pop-trace hook;
//! the case, with every `run_a_star` schedule and the intersection pop sequence the implementation
//! took, goes to the Lean driver (lean/Compass/Drv/C13.lean); an oracle that is independent of the
//! model inspects what the real code returned.
//! Yen's algorithm may not return: it only ever runs in a CHILD process (this binary re-invoked with
//! the hidden sub-command `C13-child`) under an address-space limit and a wall-clock timeout.
use crate::ctx::{fbits, Ctx};
use crate::jsonproto;
use crate::rng::Rng;
use crate::search::*;
use crate::searchprops::{admissible_setting, bellman_ford, close, limits, oracle_c01, oracle_c03, oracle_c03_inner, oracle_c04, short, stale_link_witness};
use routee_compass_core::algorithm::search::a_star::a_star_algorithm::verif_hook;
use routee_compass_core::algorithm::search::direction::Direction;
use routee_compass_core::algorithm::search::ksp::ksp_termination_criteria::KspTerminationCriteria;
use routee_compass_core::algorithm::search::search_algorithm::SearchAlgorithm;
use routee_compass_core::algorithm::search::search_algorithm_result::SearchAlgorithmResult;
use routee_compass_core::algorithm::search::util::route_similarity_function::RouteSimilarityFunction;
use routee_compass_core::model::network::edge_id::EdgeId;
use routee_compass_core::model::network::vertex_id::VertexId;
use routee_compass_core::model::termination::termination_model::verif_clock;
use routee_compass_core::model::unit::as_f64::AsF64;
use routee_compass_core::model::unit::*;
use routee_compass_core::model::frontier::frontier_model::FrontierModel;
use routee_compass_core::model::frontier::frontier_model_error::FrontierModelError;
use std::collections::{HashMap, HashSet};
use std::sync::atomic::{AtomicBool, AtomicU64, Ordering};
use std::sync::Arc;

#[derive(Clone, Debug, PartialEq)]
pub enum Sim {
    AcceptAll,
    EdgeId(f64),
    DistW(f64),
}

#[derive(Clone, Debug, PartialEq)]
pub enum KTerm {
    Exact,
    MaxIt(u64),
    Factor(u64),
}

#[derive(Clone, Debug)]
pub struct KCase {
    pub base: SCase,
    pub yen: bool,
    pub k_default: usize,
    pub query_k: Option<serde_json::Value>,
    pub sim: Option<Sim>,
    pub term: Option<KTerm>,
    pub style: LenStyle,
    /// costs are a function of the edge alone (Bellman–Ford oracle applies)
    pub bf_ok: bool,
    /// the case holds a number outside the properties' quantifiers (`shape_extreme`): correspondence only
    pub silent: bool,
    pub label: &'static str,
    /// the `[algorithm]` section the algorithm is deserialised from (the application's path,
    /// `get_config_serde`); None = the enum is constructed directly from the fields above
    pub cfg: Option<serde_json::Value>,
    /// what the generator knows about `cfg`: Some(true) well-formed, Some(false) malformed
    pub cfg_ok: Option<bool>,
    /// a `weight_factor` written into the query as arbitrary JSON (overrides `base.query_wf`)
    pub query_wf_json: Option<serde_json::Value>,
}

fn sim_real(s: &Sim) -> RouteSimilarityFunction {
    match s {
        Sim::AcceptAll => RouteSimilarityFunction::AcceptAll,
        Sim::EdgeId(t) => RouteSimilarityFunction::EdgeIdCosineSimilarity { threshold: *t },
        Sim::DistW(t) => RouteSimilarityFunction::DistanceWeightedCosineSimilarity { threshold: *t },
    }
}

fn term_real(t: &KTerm) -> KspTerminationCriteria {
    match t {
        KTerm::Exact => KspTerminationCriteria::Exact,
        KTerm::MaxIt(m) => KspTerminationCriteria::MaxIteration { max: *m },
        KTerm::Factor(f) => KspTerminationCriteria::Factor { factor: *f },
    }
}

fn underlying(c: &SCase) -> SearchAlgorithm {
    match c.astar {
        None => SearchAlgorithm::Dijkstra,
        Some(w) => SearchAlgorithm::AStarAlgorithm { weight_factor: w.map(Cost::new) },
    }
}

fn make_alg(kc: &KCase, sim: &Option<Sim>) -> Result<SearchAlgorithm, String> {
    if let Some(cfg) = &kc.cfg {
        // the application's path: `config_json.get_config_serde(&CompassConfigurationField::Algorithm, &"TOML")`
        use routee_compass::app::compass::config::compass_configuration_field::CompassConfigurationField;
        use routee_compass::app::compass::config::config_json_extension::ConfigJsonExtensions;
        let mut cfg = cfg.clone();
        // (the AcceptAll twin of a threshold case: same configuration, similarity replaced)
        if let (Some(Sim::AcceptAll), Some(o)) = (sim, cfg.as_object_mut()) {
            if kc.sim.as_ref() != Some(&Sim::AcceptAll) {
                o.insert("similarity".into(), serde_json::json!({"type": "accept_all"}));
            }
        }
        let root = serde_json::json!({ "algorithm": cfg });
        return root.get_config_serde::<SearchAlgorithm>(&CompassConfigurationField::Algorithm, &"TOML").map_err(|e| e.to_string());
    }
    Ok(make_alg_direct(kc, sim))
}

fn make_alg_direct(kc: &KCase, sim: &Option<Sim>) -> SearchAlgorithm {
    let similarity = sim.as_ref().map(sim_real);
    let termination = kc.term.as_ref().map(term_real);
    if kc.yen {
        SearchAlgorithm::Yens { k: kc.k_default, underlying: Box::new(underlying(&kc.base)), similarity, termination }
    } else {
        SearchAlgorithm::KspSingleVia { k: kc.k_default, underlying: Box::new(underlying(&kc.base)), similarity, termination }
    }
}

/// the k the code will use: the query's when present and an unsigned integer, else the configured one
fn effective_k(kc: &KCase) -> Option<usize> {
    match &kc.query_k {
        None => Some(kc.k_default),
        Some(v) => v.as_u64().map(|k| k as usize),
    }
}

fn inner_source(c: &SCase) -> usize {
    if c.edge_oriented {
        c.edges[c.source].1
    } else {
        c.source
    }
}

/// the algorithm tags of the configuration, outermost first (object form only; the generator nests
/// in object form)
fn cfg_tags(kc: &KCase) -> Vec<String> {
    let mut out = vec![];
    let mut cur = kc.cfg.as_ref();
    while let Some(v) = cur {
        match v.get("type").and_then(|t| t.as_str()) {
            Some(t) => out.push(t.to_string()),
            None => break,
        }
        cur = v.get("underlying");
    }
    out
}

/// the k-shortest-paths algorithm that actually runs the searches: the innermost one
fn innermost_is_yen(kc: &KCase) -> bool {
    let tags: Vec<String> = cfg_tags(kc).into_iter().filter(|t| t == "yens" || t == "ksp_single_via").collect();
    match tags.last() {
        Some(t) => t == "yens",
        None => kc.yen,
    }
}

/// Yen's algorithm runs somewhere in this case: child process
fn uses_yen(kc: &KCase) -> bool {
    kc.yen || cfg_tags(kc).iter().any(|t| t == "yens")
}

fn is_nested(kc: &KCase) -> bool {
    cfg_tags(kc).iter().filter(|t| *t == "yens" || *t == "ksp_single_via").count() >= 2
}

/// append the final pop of reached targets to the recorded schedules
fn fix_scheds(kc: &KCase, ex: &mut KExec) {
    if innermost_is_yen(kc) {
        let c = &kc.base;
        let s = inner_source(c);
        if let Some(t) = inner_target(c) {
            for (i, sc) in ex.scheds.iter_mut().enumerate() {
                if !(i == 0 && s == t) {
                    sc.push(t);
                }
            }
        }
    } else {
        fix_scheds_single_via(kc, ex);
    }
}

/// an `underlying` k-shortest-paths algorithm configured with k = 0 (and no k in the query) returns no
/// route, so the algorithm above it has nothing to start from: no route (vertex-oriented) or "no path"
/// (edge-oriented) is then what the configuration asks for, not a failure of the property
fn nested_returns_nothing(kc: &KCase) -> bool {
    if !is_nested(kc) || kc.query_k.is_some() {
        return false;
    }
    let mut cur = kc.cfg.as_ref().and_then(|v| v.get("underlying"));
    while let Some(v) = cur {
        if v.get("k").and_then(|k| k.as_u64()) == Some(0) {
            return true;
        }
        cur = v.get("underlying");
    }
    false
}

/// what the generator knows about the outcome before any search runs: Some(kind) = this error
fn expected_early_error(kc: &KCase) -> Option<&'static str> {
    if kc.cfg_ok == Some(false) {
        return Some("cfgerr");
    }
    let c = &kc.base;
    if !reaches_algorithm(c) {
        return None;
    }
    if inner_target(c).is_none() || c.reverse || effective_k(kc).is_none() {
        return Some("build");
    }
    if let Some(w) = &kc.query_wf_json {
        if w.as_f64().is_none() {
            return Some("build");
        }
    }
    None
}

/// the checks on configuration, direction and query fields, independent of the model; true = the
/// outcome is fully judged here
fn oracle_early(ctx: &mut Ctx, idx: usize, kc: &KCase, o: &Outcome) -> bool {
    let got = match o {
        Outcome::Err(k) => Some(k.as_str()),
        Outcome::Ok(_) => None,
    };
    if kc.cfg.is_some() {
        ctx.count(if kc.cfg_ok == Some(false) { "algorithm_from_config_malformed" } else if is_nested(kc) { "algorithm_from_config_nested" } else { "algorithm_from_config" });
    }
    if kc.cfg_ok == Some(true) && got == Some("cfgerr") {
        ctx.fail(idx, "config/valid-algorithm-refused", format!("well-formed [algorithm] section refused: {}", kc.cfg.as_ref().unwrap()));
        return true;
    }
    match expected_early_error(kc) {
        Some("cfgerr") => {
            if got != Some("cfgerr") {
                ctx.fail(idx, "config/malformed-algorithm-accepted", format!("malformed [algorithm] section accepted: {}", kc.cfg.as_ref().unwrap()));
            }
            true
        }
        Some(kind) => {
            if got != Some(kind) {
                let key = if kc.base.reverse && inner_target(&kc.base).is_some() { "ksp/reverse-query-answered" } else { "query/malformed-field-accepted" };
                ctx.fail(idx, key, format!("expected the '{}' error (no destination / reverse direction / k or weight_factor of the wrong type), got {:?}", kind, got.unwrap_or("a result")));
            }
            true
        }
        None => {
            if nested_returns_nothing(kc) {
                ctx.count("nested_underlying_with_k_0");
                // Ok without routes, or "no path" through the edge-oriented wrapper
                let fine = match o {
                    Outcome::Ok(r) => r.routes.len() <= 1,
                    Outcome::Err(k) => !k.starts_with("panic"),
                };
                if !fine {
                    ctx.fail(idx, "config/nested-k-0-unexpected", format!("{:?}", got));
                }
                return true;
            }
            false
        }
    }
}

pub struct KExec {
    pub outcome: Outcome,
    /// popped vertices per run_a_star call (the final pop of a reached target is added by `fix_scheds`)
    pub scheds: Vec<Vec<usize>>,
    /// vertices popped from the single-via intersection queue
    pub pops: Vec<usize>,
    /// number of run_a_star calls
    pub runs: usize,
    /// expansions recorded per run_a_star call (before any final pop is appended)
    pub expansions: Vec<usize>,
}

/// run the real KSP algorithm (hooks on).  Only ever called in-process for single-via.
pub fn exec_ksp(kc: &KCase, b: &Built, sim: &Option<Sim>) -> KExec {
    let c = &kc.base;
    let alg = match make_alg(kc, sim) {
        Ok(a) => a,
        Err(_) => return KExec { outcome: Outcome::Err("cfgerr".into()), scheds: vec![], pops: vec![], runs: 0, expansions: vec![] },
    };
    let mut query = b.query.clone();
    if let Some(k) = &kc.query_k {
        query["k"] = k.clone();
    }
    if let Some(w) = &kc.query_wf_json {
        query["weight_factor"] = w.clone();
    }
    let dir = if c.reverse { Direction::Reverse } else { Direction::Forward };
    crate::watch::enter(|| format!("{:?}", kc));
    verif_clock::set(clock_of(&c.term));
    verif_hook::start();
    let res = std::panic::catch_unwind(std::panic::AssertUnwindSafe(|| {
        if c.edge_oriented {
            alg.run_edge_oriented(EdgeId(c.source), c.target.map(EdgeId), &query, &dir, &b.si)
        } else {
            alg.run_vertex_oriented(VertexId(c.source), c.target.map(VertexId), &query, &dir, &b.si)
        }
    }));
    crate::watch::leave();
    let trace = verif_hook::take();
    verif_clock::set(None);
    let mut scheds: Vec<Vec<usize>> = vec![];
    let mut pops = vec![];
    let mut i = 0;
    while i < trace.len() {
        let v = trace[i];
        if v == verif_hook::RUN_MARKER {
            scheds.push(vec![]);
        } else if v == verif_hook::KSP_POP_MARKER {
            if i + 1 < trace.len() {
                pops.push(trace[i + 1]);
            }
            i += 1;
        } else if let Some(last) = scheds.last_mut() {
            last.push(v);
        }
        i += 1;
    }
    let outcome = match res {
        Ok(Ok(r)) => Outcome::Ok(r),
        Ok(Err(e)) => Outcome::Err(err_kind(&e)),
        Err(p) => {
            let msg = p
                .downcast_ref::<String>()
                .cloned()
                .or_else(|| p.downcast_ref::<&str>().map(|s| s.to_string()))
                .unwrap_or_default();
            if msg.contains("remainder with a divisor of zero") {
                Outcome::Err("panic termination-frequency-zero".into())
            } else {
                Outcome::Err(format!("panic {}", msg.replace(' ', "_")))
            }
        }
    };
    let runs = scheds.len();
    let expansions = scheds.iter().map(|s| s.len()).collect();
    KExec { outcome, scheds, pops, runs, expansions }
}

fn clock_of(t: &Term) -> Option<(u64, u64)> {
    match t {
        Term::Runtime { base_ns, per_ns, .. } => Some((*base_ns, *per_ns)),
        Term::Combined(ms) => ms.iter().filter_map(clock_of).next(),
        _ => None,
    }
}

/// the hook records expanded vertices; a run that reached its target ended by popping it
fn fix_scheds_single_via(kc: &KCase, ex: &mut KExec) {
    let c = &kc.base;
    let s = inner_source(c);
    let Some(t) = inner_target(c) else { return };
    if s == t {
        return;
    }
    // the model reads a schedule only as far as the run goes (a failed run stops before the final pop), so
    // the final pop of the run's target is appended to both runs whatever became of them
    if let Some(f) = ex.scheds.get_mut(0) {
        f.push(t);
    }
    if let Some(r) = ex.scheds.get_mut(1) {
        r.push(s);
    }
}

/// the configuration that deserialises to exactly the directly constructed algorithm of the case
fn direct_cfg_json(kc: &KCase) -> serde_json::Value {
    let under = match kc.base.astar {
        None => serde_json::json!({"type": "dijkstra"}),
        Some(None) => serde_json::json!({"type": "a*"}),
        Some(Some(w)) => serde_json::json!({"type": "a*", "weight_factor": w}),
    };
    let sim = match &kc.sim {
        None => serde_json::Value::Null,
        Some(Sim::AcceptAll) => serde_json::json!({"type": "accept_all"}),
        Some(Sim::EdgeId(t)) => serde_json::json!({"type": "edge_id_cosine_similarity", "threshold": t}),
        Some(Sim::DistW(t)) => serde_json::json!({"type": "distance_weighted_cosine_similarity", "threshold": t}),
    };
    let term = match &kc.term {
        None => serde_json::Value::Null,
        Some(KTerm::Exact) => serde_json::json!({"type": "exact"}),
        Some(KTerm::MaxIt(m)) => serde_json::json!({"type": "max_iteration", "max": m}),
        Some(KTerm::Factor(f)) => serde_json::json!({"type": "factor", "factor": f}),
    };
    serde_json::json!({"type": if kc.yen { "yens" } else { "ksp_single_via" }, "k": kc.k_default, "underlying": under, "similarity": sim, "termination": term})
}

/// canonical outcome line of a KSP case (`cfgerr`: the configuration did not deserialise)
pub fn k_outcome_line(o: &Outcome) -> String {
    match o {
        Outcome::Err(k) if k == "cfgerr" => "cfgerr".into(),
        _ => outcome_line(o),
    }
}

pub fn encode_k(kc: &KCase, b: &Built, scheds: &[Vec<usize>], pops: &[usize]) -> String {
    let c = &kc.base;
    let mut o: Vec<String> = vec![];
    if kc.cfg.is_some() || kc.query_wf_json.is_some() {
        // `cfg <algorithm json> <query weight_factor: n | s json>`: the model derives algorithm, k,
        // similarity, termination and weight factor from these, not from the header fields
        let cfg = kc.cfg.clone().unwrap_or_else(|| direct_cfg_json(kc));
        o.push("cfg".into());
        o.push(jsonproto::enc(&cfg));
        match (&kc.query_wf_json, c.query_wf) {
            (Some(w), _) => o.push(format!("s {}", jsonproto::enc(w))),
            (None, Some(w)) => o.push(format!("s {}", jsonproto::enc(&serde_json::json!(w)))),
            (None, None) => o.push("n".into()),
        }
    }
    o.push(if kc.yen { "yen".into() } else { "sv".into() });
    o.push(kc.k_default.to_string());
    match &kc.query_k {
        None => o.push("n".into()),
        Some(v) => o.push(format!("s {}", jsonproto::enc(v))),
    }
    match &kc.sim {
        None => o.push("n".into()),
        Some(Sim::AcceptAll) => o.push("s aa".into()),
        Some(Sim::EdgeId(t)) => o.push(format!("s eic {}", fbits(*t))),
        Some(Sim::DistW(t)) => o.push(format!("s dwc {}", fbits(*t))),
    }
    match &kc.term {
        None => o.push("n".into()),
        Some(KTerm::Exact) => o.push("s ex".into()),
        Some(KTerm::MaxIt(m)) => o.push(format!("s mi {}", m)),
        Some(KTerm::Factor(f)) => o.push(format!("s fa {}", f)),
    }
    let empty = vec![];
    o.push(encode(c, b, scheds.first().unwrap_or(&empty)));
    // great-circle metres from every vertex to the inner source (the reverse run's target)
    let gc_rev: Vec<f64> = if inner_target(c).is_some() {
        let s = inner_source(c);
        c.coords.iter().map(|p| gc_entry(*p, c.coords[s])).collect()
    } else {
        vec![]
    };
    o.push(gc_rev.len().to_string());
    o.extend(gc_rev.iter().map(|x| fbits(*x)));
    let rest: &[Vec<usize>] = if scheds.len() > 1 { &scheds[1..] } else { &[] };
    o.push(rest.len().to_string());
    for s in rest {
        o.push(s.len().to_string());
        o.extend(s.iter().map(|v| v.to_string()));
    }
    o.push(pops.len().to_string());
    o.extend(pops.iter().map(|v| v.to_string()));
    o.join(" ")
}

// ---------------------------------------------------------------------------------------------
// oracle (independent of the model)

/// cosine similarity over sorted distinct edge ids, in f64
fn cosine(a: &[usize], b: &[usize], w: &dyn Fn(usize) -> f64) -> f64 {
    let sa: std::collections::BTreeSet<usize> = a.iter().cloned().collect();
    let sb: std::collections::BTreeSet<usize> = b.iter().cloned().collect();
    let numer: f64 = sa.intersection(&sb).map(|e| w(*e) * w(*e)).sum();
    let da: f64 = sa.iter().map(|e| w(*e) * w(*e)).sum();
    let db: f64 = sb.iter().map(|e| w(*e) * w(*e)).sum();
    numer / (da.sqrt() * db.sqrt())
}

fn rank(sim: &Sim, c: &SCase, a: &[usize], b: &[usize]) -> f64 {
    match sim {
        Sim::AcceptAll => 0.0,
        Sim::EdgeId(_) => cosine(a, b, &|_| 1.0),
        Sim::DistW(_) => cosine(a, b, &|e| c.edges[e].2),
    }
}

fn threshold(sim: &Sim) -> Option<f64> {
    match sim {
        Sim::AcceptAll => None,
        Sim::EdgeId(t) | Sim::DistW(t) => Some(*t),
    }
}

/// follow tree parents from `v` to `root`; edge ids from `v` upwards
fn climb(tree: &HashMap<VertexId, routee_compass_core::algorithm::search::search_tree_branch::SearchTreeBranch>, root: usize, v: usize) -> Option<Vec<usize>> {
    let mut out = vec![];
    let mut cur = v;
    for _ in 0..=tree.len() {
        if cur == root {
            return Some(out);
        }
        let b = tree.get(&VertexId(cur))?;
        out.push(b.edge_traversal.edge_id.0);
        cur = b.terminal_vertex.0;
    }
    None
}

/// every id sequence single-via could ever consider on these two trees (any vertex of both trees)
fn all_candidates(c: &SCase, r: &SearchAlgorithmResult) -> Vec<Vec<usize>> {
    let mut out = vec![];
    if r.trees.len() != 2 {
        return out;
    }
    let (s, t) = (inner_source(c), inner_target(c).unwrap_or(0));
    let (fwd, rev) = (&r.trees[0], &r.trees[1]);
    let mut vs: Vec<usize> = fwd.keys().map(|k| k.0).collect();
    vs.push(t);
    for v in vs {
        if let (Some(mut up), Some(down)) = (climb(fwd, s, v), climb(rev, t, v)) {
            up.reverse();
            up.extend(down);
            out.push(up);
        }
    }
    out
}

/// a threshold is unstable when some pair of candidate routes ranks within 1e-9 of it under the
/// distance-weighted variant (whose sums the code takes in HashMap order)
fn threshold_unstable(kc: &KCase, r: &SearchAlgorithmResult) -> bool {
    let Some(sim @ Sim::DistW(t)) = &kc.sim else { return false };
    let cands = all_candidates(&kc.base, r);
    for a in &cands {
        for b in &cands {
            let x = rank(sim, &kc.base, a, b);
            // disjoint routes rank exactly 0 in any summation order
            if x != 0.0 && (x - t).abs() < 1e-9 {
                return true;
            }
        }
    }
    false
}

fn route_ids(rt: &[routee_compass_core::algorithm::search::edge_traversal::EdgeTraversal]) -> Vec<usize> {
    rt.iter().map(|e| e.edge_id.0).collect()
}

fn turn_pairs(c: &SCase) -> Vec<(usize, usize)> {
    let mut out = vec![];
    for f in &c.frontier {
        if let Fr::TurnRestriction(ps) = f {
            out.extend(ps.iter().cloned());
        }
    }
    out
}

/// the checks of the property on a successful result of the real code
fn oracle_ok(ctx: &mut Ctx, idx: usize, kc: &KCase, b: &Built, r: &SearchAlgorithmResult, k: usize, reopened: bool) {
    let c = &kc.base;
    let pre = if kc.yen { "yens" } else { "ksp" };
    let key = |s: &str| format!("{}/{}", pre, s);
    let (s, Some(t)) = (inner_source(c), inner_target(c)) else { return };
    let wrapped = c.edge_oriented;
    if wrapped && (c.target == Some(c.source) || c.edges[c.source].1 == c.edges[c.target.unwrap()].0) {
        return; // the wrapper answers these without calling the KSP algorithm
    }
    // 1. count
    if k >= 1 && r.routes.is_empty() {
        ctx.fail(idx, &key("no-route"), format!("k = {} but no route returned", k));
    }
    if r.routes.len() > k {
        ctx.fail(idx, &key("more-than-k"), format!("k = {} but {} routes returned", k, r.routes.len()));
    }
    let inner: Vec<Vec<usize>> = r
        .routes
        .iter()
        .map(|rt| {
            let ids = route_ids(rt);
            if wrapped && ids.len() >= 2 {
                ids[1..ids.len() - 1].to_vec()
            } else {
                ids
            }
        })
        .collect();
    // 2. first route is a least-cost route
    let mut fwd_case = c.clone();
    fwd_case.reverse = false;
    if kc.bf_ok && s != t && admissible_setting(c, kc.style) {
        if let (Some(dist), Some(first)) = (bellman_ford(&fwd_case, b, s), r.routes.first()) {
            let slice = if wrapped && first.len() >= 2 { &first[1..first.len() - 1] } else { &first[..] };
            let total: f64 = slice.iter().map(|e| e.total_cost().as_f64()).sum();
            if !close(total, dist[t], 1e-9, 1e-9) {
                ctx.fail(idx, &key("first-route-not-least-cost"), format!("first route costs {} but the least cost is {} (route {:?})", total, dist[t], inner.first()));
            }
        }
    }
    // 3. every route a contiguous loop-free walk origin -> destination without a repeated edge
    for (i, ids) in inner.iter().enumerate() {
        if ids.iter().any(|e| *e >= c.edges.len()) {
            ctx.fail(idx, &key("unknown-edge"), format!("route {} = {:?}", i, ids));
            return;
        }
        if s != t && ids.is_empty() {
            ctx.fail(idx, &key("empty-route"), format!("route {} is empty", i));
            continue;
        }
        if ids.is_empty() {
            continue;
        }
        if c.edges[ids[0]].0 != s {
            ctx.fail(idx, &key("route-does-not-leave-origin"), format!("route {} = {:?}, origin {}", i, ids, s));
        }
        if c.edges[*ids.last().unwrap()].1 != t {
            ctx.fail(idx, &key("route-does-not-reach-destination"), format!("route {} = {:?}, destination {}", i, ids, t));
        }
        for w in ids.windows(2) {
            if c.edges[w[0]].1 != c.edges[w[1]].0 {
                ctx.fail(idx, &key("route-not-contiguous"), format!("route {} = {:?}: edge {} then {}", i, ids, w[0], w[1]));
            }
        }
        let mut vs: Vec<usize> = ids.iter().map(|e| c.edges[*e].0).collect();
        vs.push(c.edges[*ids.last().unwrap()].1);
        let mut seen = HashSet::new();
        if vs.iter().any(|v| !seen.insert(*v)) {
            ctx.fail(idx, &key("loop-in-route"), format!("route {} = {:?} visits vertices {:?}", i, ids, vs));
        } else {
            // (a repeated edge repeats its source vertex, so this is only reachable on a loop-free vertex sequence)
            let mut seen = HashSet::new();
            if ids.iter().any(|e| !seen.insert(*e)) {
                ctx.fail(idx, &key("edge-twice"), format!("route {} = {:?}", i, ids));
            }
        }
        if wrapped {
            let full = route_ids(&r.routes[i]);
            if full.first() != Some(&c.source) || full.last() != c.target.as_ref() {
                ctx.fail(idx, &key("wrapper-edges-missing"), format!("route {} = {:?}", i, full));
            }
        }
    }
    // 4. state and cost re-accumulate edge by edge along every route
    {
        let n0 = ctx.oracle_len();
        let mut fwd = c.clone();
        fwd.reverse = false;
        oracle_c03_inner(ctx, idx, &fwd, b, r);
        let stale = reopened && effective_wf(c) != Some(0.0);
        ctx.rekey_since(n0, &key(if stale { "stale-link-after-reopening" } else { "state-not-accumulated" }));
    }
    // 5. pairwise distinct edge sequences
    for i in 0..inner.len() {
        for j in (i + 1)..inner.len() {
            if inner[i] == inner[j] {
                ctx.fail(idx, &key("duplicate-route"), format!("routes {} and {} are both {:?}", i, j, inner[i]));
            }
        }
    }
    // 6. pairwise not similar (1e-9 guard band around the threshold)
    if let Some(sim) = &kc.sim {
        if let Some(thr) = threshold(sim) {
            for i in 0..inner.len() {
                for j in (i + 1)..inner.len() {
                    let x = rank(sim, c, &inner[j], &inner[i]);
                    if x >= thr + 1e-9 {
                        ctx.fail(idx, &key("similar-routes"), format!("routes {} {:?} and {} {:?} rank {} >= threshold {}", i, inner[i], j, inner[j], x, thr));
                    }
                }
            }
        }
    }
    // 8. restricted turns
    let pairs = turn_pairs(c);
    if !pairs.is_empty() {
        for (i, ids) in inner.iter().enumerate() {
            for w in ids.windows(2) {
                if pairs.contains(&(w[0], w[1])) {
                    let k8 = if kc.yen { "yens/restricted-turn".to_string() } else if i == 0 { "ksp/restricted-turn-first-route".to_string() } else { "ksp/single-via-restricted-turn".to_string() };
                    ctx.fail(idx, &k8, format!("route {} = {:?} takes the restricted turn ({},{})", i, ids, w[0], w[1]));
                }
            }
        }
    }
}

fn reopened(scheds: &[Vec<usize>]) -> bool {
    scheds.iter().any(|s| {
        let mut seen = HashSet::new();
        s.iter().any(|v| !seen.insert(*v))
    })
}

fn describe_k(ctx: &mut Ctx, kc: &KCase) {
    if kc.silent {
        ctx.count("extreme_correspondence_only");
    }
    ctx.count(if kc.yen { "alg_yen" } else { "alg_single_via" });
    ctx.count(match kc.base.astar {
        None => "underlying_dijkstra",
        Some(_) => "underlying_astar",
    });
    ctx.count(match &kc.sim {
        None => "similarity_default",
        Some(Sim::AcceptAll) => "similarity_accept_all",
        Some(Sim::EdgeId(_)) => "similarity_edge_id_cosine",
        Some(Sim::DistW(_)) => "similarity_distance_weighted_cosine",
    });
    ctx.count(match &kc.term {
        None => "termination_default",
        Some(KTerm::Exact) => "termination_exact",
        Some(KTerm::MaxIt(_)) => "termination_max_iteration",
        Some(KTerm::Factor(_)) => "termination_factor",
    });
    ctx.count(match &kc.query_k {
        None => "k_from_config",
        Some(v) if v.as_u64().is_some() => "k_from_query",
        Some(_) => "k_in_query_not_integer",
    });
    if let Some(k) = effective_k(kc) {
        ctx.count(&format!("k_{}", k.min(7)));
    }
    ctx.count(if kc.base.edge_oriented { "orient_edge" } else { "orient_vertex" });
    if matches!(kc.base.access, Acc::Turn { .. }) {
        ctx.count("access_turn_delay");
    }
    if !turn_pairs(&kc.base).is_empty() {
        ctx.count("frontier_turn_restriction");
    }
    if !matches!(&kc.base.term, Term::Combined(ms) if ms.is_empty()) {
        ctx.count("termination_model");
    }
}

// ---------------------------------------------------------------------------------------------
// corpus and generators

fn base_case(edges: Vec<(usize, usize, f64)>, n_v: usize, source: usize, target: usize) -> SCase {
    SCase {
        coords: (0..n_v).map(|i| (-105.0 + 0.01 * i as f32, 39.7 + 0.003 * ((i * 7) % 5) as f32)).collect(),
        edges,
        feats: vec![("distance".into(), FeatK::D(DistanceUnit::Meters), 0.0)],
        trav: Trav::Dist(DistanceUnit::Meters),
        access: Acc::None,
        weights: vec![("distance".into(), 1.0)],
        vrates: vec![("distance".into(), VR::Raw)],
        nrates: vec![],
        agg_mul: false,
        frontier: vec![],
        term: Term::Combined(vec![]),
        reverse: false,
        edge_oriented: false,
        source,
        target: Some(target),
        astar: None,
        query_wf: None,
        svc: None,
        term_via_builder: false,
        svc_unknown_weight: false,
        app: Default::default(),
    }
}

fn kcase(base: SCase, label: &'static str) -> KCase {
    KCase { base, yen: false, k_default: 2, query_k: None, sim: None, term: None, style: LenStyle::TieHeavy, bf_ok: true, label, cfg: None, cfg_ok: None, query_wf_json: None, silent: false }
}

/// diamond 0 -> {1, 2} -> 3 (upper branch shorter)
fn diamond() -> SCase {
    base_case(vec![(0, 1, 1.0), (1, 3, 1.0), (0, 2, 2.0), (2, 3, 2.0)], 4, 0, 3)
}

pub fn corpus() -> Vec<KCase> {
    let mut v = vec![];
    // the repaired AcceptAll defect: diamond, k = 2, default similarity must return both routes
    v.push(kcase(diamond(), "accept-all-diamond"));
    let mut c = kcase(diamond(), "accept-all-explicit");
    c.sim = Some(Sim::AcceptAll);
    v.push(c);
    // thresholds on the diamond: the two routes share no edge (rank 0)
    for (t, l) in [(0.0, "diamond-eic-0"), (0.5, "diamond-eic-0.5"), (1.0, "diamond-eic-1")] {
        let mut c = kcase(diamond(), l);
        c.sim = Some(Sim::EdgeId(t));
        v.push(c);
    }
    let mut c = kcase(diamond(), "diamond-dwc");
    c.sim = Some(Sim::DistW(0.3));
    v.push(c);
    // k = 0 .. 4 from configuration and from the query; non-integer k
    for k in 0..5usize {
        let mut c = kcase(diamond(), "diamond-k");
        c.k_default = k;
        v.push(c);
        let mut c = kcase(diamond(), "diamond-query-k");
        c.k_default = 1;
        c.query_k = Some(serde_json::json!(k));
        v.push(c);
    }
    for bad in [serde_json::json!(2.5), serde_json::json!("2"), serde_json::json!(-1), serde_json::json!(null), serde_json::json!(2.0)] {
        let mut c = kcase(diamond(), "diamond-query-k-not-integer");
        c.query_k = Some(bad);
        v.push(c);
    }
    // termination criteria
    for t in [KTerm::Exact, KTerm::MaxIt(0), KTerm::MaxIt(1), KTerm::MaxIt(5), KTerm::Factor(0), KTerm::Factor(1), KTerm::Factor(3)] {
        for k in [1usize, 2, 3] {
            let mut c = kcase(two_by_three_grid(), "grid-termination");
            c.k_default = k;
            c.term = Some(t.clone());
            v.push(c);
        }
    }
    // one-edge and two-edge routes, with and without an alternative
    v.push(kcase(base_case(vec![(0, 1, 1.0)], 2, 0, 1), "one-edge"));
    v.push(kcase(base_case(vec![(0, 1, 1.0), (0, 2, 1.0), (2, 1, 1.0)], 3, 0, 1), "one-edge-with-detour"));
    v.push(kcase(base_case(vec![(0, 1, 1.0), (1, 2, 1.0)], 3, 0, 2), "two-edge"));
    v.push(kcase(base_case(vec![(0, 1, 1.0), (1, 2, 1.0), (0, 3, 2.0), (3, 2, 2.0)], 4, 0, 2), "two-edge-with-detour"));
    // unreachable destination; origin = destination
    v.push(kcase(base_case(vec![(0, 1, 1.0), (2, 3, 1.0)], 4, 0, 3), "unreachable"));
    v.push(kcase(base_case(vec![(0, 1, 1.0), (1, 0, 1.0)], 2, 0, 0), "origin-is-destination"));
    // A* underlying on the grid
    let mut c = kcase(two_by_three_grid(), "grid-astar");
    c.base.astar = Some(Some(1.0));
    c.k_default = 4;
    c.bf_ok = false;
    v.push(c);
    // edge-oriented
    let mut c = kcase(two_by_three_grid(), "grid-edge-oriented");
    c.base.edge_oriented = true;
    c.base.source = 0;
    c.base.target = Some(13);
    c.k_default = 3;
    v.push(c);
    // turn restriction: the DESIGN §7 shape — single-via alternatives took a listed turn (repaired bfda969:
    // the witness stays, a regression is a VIOLATION under the same key)
    v.push(restricted_turn_witness());
    // the reverse search validates turn pairs in the wrong order: 0 -e0-> 1 -e1-> 2 with the pair (e1, e0)
    // listed (a turn no route can take) — the reverse search refuses e0 after e1 and reports "no path"
    let mut b = base_case(vec![(0, 1, 1.0), (1, 2, 1.0)], 3, 0, 2);
    b.frontier = vec![Fr::TurnRestriction(vec![(1, 0)])];
    let mut c = kcase(b, "reverse-search-nopath-witness");
    c.bf_ok = false;
    v.push(c);
    // a limit the forward search respects stops the reverse search: 0 -> 1 -> 2 and 3, 4, 5 -> 2, size limit 2:
    // the query must fail with the explicit `terminated` error (C10, 37e54f7), not return the shortest route alone
    let mut b = base_case(vec![(0, 1, 1.0), (1, 2, 1.0), (3, 2, 1.0), (4, 2, 1.0), (5, 2, 1.0)], 6, 0, 2);
    b.term = Term::Size(2);
    v.push(kcase(b, "reverse-search-limit-witness"));
    // the junction turn of an alternative has no entry in the turn-delay table: neither search ever
    // evaluates the turn (e2, e3) — vertex 2 is labelled but never expanded — the re-traversal does
    let mut b = base_case(vec![(0, 1, 1.0), (1, 3, 1.0), (0, 2, 3.0), (2, 3, 2.5)], 4, 0, 3);
    b.feats.push(("time".into(), FeatK::T(TimeUnit::Seconds), 0.0));
    let mut delays = [Some(1.0); 8];
    delays[4] = None; // "left"
    b.access = Acc::Turn { tu: TimeUnit::Seconds, headings: vec![(0, None), (0, None), (90, None), (0, None)], delays };
    let mut c = kcase(b, "alternative-failed-witness");
    c.bf_ok = false;
    v.push(c);
    // the C03 re-opening witness (A*, estimate inconsistent for the network) through single-via
    let mut c = kcase(stale_link_witness(false), "stale-link-witness");
    c.bf_ok = false;
    c.style = LenStyle::Generic;
    v.push(c);
    v.extend(yen_corpus());
    v.extend(cfg_corpus());
    v
}

/// the algorithm deserialised from its `[algorithm]` section
pub fn cfg_corpus() -> Vec<KCase> {
    let mut v = vec![];
    let with = |base: SCase, yen: bool, cfg: serde_json::Value, ok: bool, label: &'static str| {
        let mut c = kcase(base, label);
        c.yen = yen;
        c.cfg = Some(cfg);
        c.cfg_ok = Some(ok);
        c
    };
    // the repaired nesting defect: single-via over a k-shortest-paths `underlying` on the 2 x 3 two-way grid
    // joined two FORWARD trees (the nested algorithm ignored Direction::Reverse) and returned [e0,e2,e13]
    // = 0->1, 1->2, 5->2; the reverse run is now refused and the shortest route is returned alone
    let mut c = with(two_by_three_grid(), false, serde_json::json!({"type": "ksp_single_via", "k": 3, "underlying": {"type": "yens", "k": 2, "underlying": {"type": "dijkstra"}}}), true, "nested-underlying-witness");
    c.k_default = 3;
    v.push(c);
    let mut c = with(two_by_three_grid(), false, serde_json::json!({"type": "ksp_single_via", "k": 3, "underlying": {"type": "ksp_single_via", "k": 2, "underlying": {"type": "dijkstra"}}}), true, "nested-single-via");
    c.k_default = 3;
    v.push(c);
    let mut c = with(two_by_three_grid(), true, serde_json::json!({"type": "yens", "k": 3, "underlying": {"type": "ksp_single_via", "k": 0, "underlying": {"type": "dijkstra"}}}), true, "nested-yens-over-k0");
    c.k_default = 3;
    v.push(c);
    let mut c = with(two_by_three_grid(), false, serde_json::json!({"type": "ksp_single_via", "k": 3, "underlying": {"type": "yens", "k": 2, "underlying": {"type": "ksp_single_via", "k": 0, "underlying": {"type": "dijkstra"}}}}), true, "nested-three-levels");
    c.k_default = 3;
    v.push(c);
    // every field, object and sequence form
    let mut c = with(
        two_by_three_grid(),
        false,
        serde_json::json!({"type": "ksp_single_via", "k": 4, "underlying": {"type": "a*", "weight_factor": 1.0}, "similarity": {"type": "edge_id_cosine_similarity", "threshold": 0.6}, "termination": {"type": "max_iteration", "max": 9}}),
        true,
        "config-all-fields",
    );
    c.k_default = 4;
    c.base.astar = Some(Some(1.0));
    c.sim = Some(Sim::EdgeId(0.6));
    c.term = Some(KTerm::MaxIt(9));
    c.bf_ok = false;
    v.push(c);
    let mut c = with(two_by_three_grid(), true, serde_json::json!(["yens", 3, ["dijkstra"], ["accept_all"], ["exact"]]), true, "config-sequence-form");
    c.k_default = 3;
    c.sim = Some(Sim::AcceptAll);
    c.term = Some(KTerm::Exact);
    v.push(c);
    // k from the query overrides the configured k
    let mut c = with(two_by_three_grid(), false, serde_json::json!({"type": "ksp_single_via", "k": 1, "underlying": {"type": "dijkstra"}}), true, "config-k-overridden-by-query");
    c.k_default = 1;
    c.query_k = Some(serde_json::json!(3));
    v.push(c);
    // malformed
    for (cfg, l) in [
        (serde_json::json!({"type": "ksp_single_via", "underlying": {"type": "dijkstra"}}), "config-missing-k"),
        (serde_json::json!({"type": "yens", "k": 2}), "config-missing-underlying"),
        (serde_json::json!({"type": "yens", "k": 2.0, "underlying": {"type": "dijkstra"}}), "config-k-float"),
        (serde_json::json!({"type": "yens", "k": 2, "underlying": {"type": "dijkstra"}, "termination": {"type": "factor", "factor": 1.5}}), "config-factor-float"),
        (serde_json::json!({"type": "yens", "k": 2, "underlying": {"type": "dijkstra"}, "similarity": {"type": "edge_id_cosine_similarity", "threshold": null}}), "config-threshold-null"),
        (serde_json::json!(["ksp_single_via", 2, ["dijkstra"]]), "config-sequence-too-short"),
    ] {
        v.push(with(diamond(), l.contains("yens"), cfg, false, l));
    }
    // a weight_factor of the wrong type in the query: build error
    let mut c = kcase(diamond(), "query-weight-factor-not-a-number");
    c.query_wf_json = Some(serde_json::json!("fast"));
    v.push(c);
    // a reverse query is refused
    let mut c = kcase(diamond(), "reverse-query-refused");
    c.base.reverse = true;
    v.push(c);
    v
}

fn ycase(base: SCase, k: usize, label: &'static str) -> KCase {
    let mut c = kcase(base, label);
    c.yen = true;
    c.k_default = k;
    c
}

/// hand-written witnesses of the defects of `yens_algorithm::run` (each reproduces on the real code)
pub fn yen_corpus() -> Vec<KCase> {
    let mut v = vec![];
    // k <= 1: the shortest route, whatever its length
    v.push(ycase(base_case(vec![(0, 1, 1.0)], 2, 0, 1), 1, "yen-one-edge-k1"));
    v.push(ycase(base_case(vec![(0, 1, 1.0), (1, 2, 1.0)], 3, 0, 2), 0, "yen-two-edge-k0"));
    v.push(ycase(diamond(), 1, "yen-diamond-k1"));
    // one-edge shortest route, k = 2: `0..len - 2` wraps; AcceptAll pushes a copy of the route every turn
    v.push(ycase(base_case(vec![(0, 1, 1.0), (0, 2, 1.0), (2, 1, 1.0)], 3, 0, 1), 2, "yen-one-edge-k2"));
    // the same with a threshold: nothing is ever pushed, the loop just spins
    let mut c = ycase(base_case(vec![(0, 1, 1.0), (0, 2, 1.0), (2, 1, 1.0)], 3, 0, 1), 2, "yen-one-edge-k2-threshold");
    c.sim = Some(Sim::EdgeId(0.5));
    v.push(c);
    // two-edge shortest route (the diamond!), k = 2: the for loop is empty, the while loop never progresses
    v.push(ycase(diamond(), 2, "yen-two-edge-k2"));
    // origin = destination, k = 2: the empty route underflows too; first turn fails with "root path is empty"
    v.push(ycase(base_case(vec![(0, 1, 1.0), (1, 0, 1.0)], 2, 0, 0), 2, "yen-origin-is-destination-k2"));
    // three-edge route, no alternative: the spur search's "no path" becomes the query's error
    v.push(ycase(base_case(vec![(0, 1, 1.0), (1, 2, 1.0), (2, 3, 1.0)], 4, 0, 3), 2, "yen-spur-failure"));
    // three-edge route with one alternative: two routes, but the spur part restarts from the initial state
    v.push(ycase(base_case(vec![(0, 1, 1.0), (1, 2, 1.0), (2, 3, 1.0), (1, 4, 2.0), (4, 3, 2.0)], 5, 0, 3), 2, "yen-state-not-accumulated"));
    // four-edge route, alternatives at both spur vertices, the second one dearer: the best candidate is pushed twice
    v.push(ycase(
        base_case(vec![(0, 1, 1.0), (1, 2, 1.0), (2, 3, 1.0), (3, 4, 1.0), (1, 5, 2.0), (5, 4, 2.0), (2, 6, 3.0), (6, 4, 3.0)], 7, 0, 4),
        2,
        "yen-duplicate-route",
    ));
    // … the second one cheaper: three distinct routes for k = 2
    v.push(ycase(
        base_case(vec![(0, 1, 1.0), (1, 2, 1.0), (2, 3, 1.0), (3, 4, 1.0), (1, 5, 3.0), (5, 4, 3.0), (2, 6, 1.5), (6, 4, 1.5)], 7, 0, 4),
        2,
        "yen-more-than-k",
    ));
    // … both alternatives cost the same: `candidate_cost < best_cost` keeps the first
    v.push(ycase(
        base_case(vec![(0, 1, 1.0), (1, 2, 1.0), (2, 3, 1.0), (3, 4, 1.0), (1, 5, 2.0), (5, 4, 2.0), (2, 6, 1.5), (6, 4, 1.5)], 7, 0, 4),
        2,
        "yen-equal-cost-candidates",
    ));
    // … the second candidate is similar to the first accepted route but not to the second: the scan goes on
    let mut c = ycase(
        base_case(vec![(0, 1, 1.0), (1, 2, 1.0), (2, 3, 1.0), (3, 4, 1.0), (1, 5, 3.0), (5, 4, 3.0), (2, 6, 1.5), (6, 4, 1.5)], 7, 0, 4),
        2,
        "yen-scan-continues-after-similar",
    );
    c.sim = Some(Sim::EdgeId(0.4));
    v.push(c);
    // the spur path returns through the origin: 0 -> 1 -> 2 -> 3, alternative from 1: 1 -> 0 -> 4 -> 3
    v.push(ycase(
        base_case(vec![(0, 1, 1.0), (1, 2, 1.0), (2, 3, 1.0), (1, 0, 1.0), (0, 4, 2.0), (4, 3, 2.0)], 5, 0, 3),
        2,
        "yen-loop-in-route",
    ));
    // a candidate is kept when it is dissimilar to ANY accepted route: k = 3, threshold 0.45;
    // S = [0,1,2], A = [0,3,4,5], then [0,3,8,9] ranks 0.5 against A and 0.29 against S
    let mut c = ycase(
        base_case(
            vec![
                (0, 1, 1.0), (1, 2, 1.0), (2, 9, 1.0), // S: e0 e1 e2
                (1, 3, 1.0), (3, 4, 1.0), (4, 9, 1.0), // A: e0 e3 e4 e5
                (1, 5, 2.0), (5, 9, 2.0),              // e6 e7
                (3, 6, 0.9), (6, 9, 0.9),              // e8 e9
            ],
            10,
            0,
            9,
        ),
        3,
        "yen-similar-routes",
    );
    c.sim = Some(Sim::EdgeId(0.45));
    v.push(c);
    // the junction turn root -> spur is never shown to the frontier model: (e0, e3) restricted
    let mut b = base_case(vec![(0, 1, 1.0), (1, 2, 1.0), (2, 3, 1.0), (1, 4, 2.0), (4, 3, 2.0)], 5, 0, 3);
    b.frontier = vec![Fr::TurnRestriction(vec![(0, 3)])];
    let mut c = ycase(b, 2, "yen-restricted-turn");
    c.bf_ok = false;
    v.push(c);
    // no candidate is dissimilar enough: spur searches repeat for ever
    let mut c = ycase(base_case(vec![(0, 1, 1.0), (1, 2, 1.0), (2, 3, 1.0), (1, 4, 2.0), (4, 3, 2.0)], 5, 0, 3), 2, "yen-no-dissimilar-candidate");
    c.sim = Some(Sim::EdgeId(0.1));
    v.push(c);
    // the first alternative is dearer but has only two edges (0 -> 1 -> 3 direct): once it is the
    // previous route the loop stops progressing, k = 3
    v.push(ycase(base_case(vec![(0, 1, 1.0), (1, 2, 1.0), (2, 3, 1.0), (1, 3, 5.0)], 4, 0, 3), 3, "yen-later-short-route"));
    // a spur search stopped by a limit fails the query with the explicit `terminated` error (C10): the first
    // search needs 4 expansions, the spur search from 1 needs 6, iteration limit 5
    let mut b = base_case(
        vec![
            (0, 1, 1.0), (1, 2, 1.0), (2, 3, 1.0), (3, 4, 1.0),
            (1, 5, 10.0), (5, 6, 1.0), (6, 7, 1.0), (7, 8, 1.0), (8, 9, 1.0), (9, 4, 1.0),
            (2, 10, 20.0), (10, 4, 2.0),
        ],
        11,
        0,
        4,
    );
    b.term = Term::Iters(5);
    v.push(ycase(b, 2, "yen-spur-search-limited"));
    // the C03 re-opening witness (A*, estimate inconsistent for the network) through Yen
    let mut c = ycase(stale_link_witness(false), 2, "yen-stale-link");
    c.bf_ok = false;
    c.style = LenStyle::Generic;
    v.push(c);
    // a candidate whose junction turn has no entry in the turn-delay table is dropped (reorient fails): the
    // turn (e0, e3) is restricted, so the first search never traverses e3 after e0; the spur search from 1
    // starts without a previous edge and offers [e3, e4]
    let mut b = base_case(vec![(0, 1, 1.0), (1, 2, 1.0), (2, 3, 1.0), (1, 4, 2.0), (4, 3, 2.0)], 5, 0, 3);
    b.feats.push(("time".into(), FeatK::T(TimeUnit::Seconds), 0.0));
    let mut delays = [Some(1.0); 8];
    delays[4] = None; // "left"
    b.access = Acc::Turn { tu: TimeUnit::Seconds, headings: vec![(0, None), (0, None), (0, None), (270, None), (0, None)], delays };
    b.frontier = vec![Fr::TurnRestriction(vec![(0, 3)])];
    let mut c = ycase(b, 2, "yen-candidate-retraversal-fails");
    c.bf_ok = false;
    v.push(c);
    // edge-oriented, A* underlying
    let mut c = ycase(two_by_three_grid(), 2, "yen-grid-edge-oriented");
    c.base.edge_oriented = true;
    c.base.source = 0;
    c.base.target = Some(13);
    v.push(c);
    let mut c = ycase(two_by_three_grid(), 3, "yen-grid-astar");
    c.base.astar = Some(Some(1.0));
    c.bf_ok = false;
    v.push(c);
    // KNOWN FINDING yens/accept-all-returns-fewer (Lean C13.yens_accept_all_fewer_counterexample): no candidate
    // is kept from one turn to the next and spurs are taken off the route accepted last only.  0-e0->1-e1->2-e2->3-e3->4
    // (1, 0.1, 0.4, 0.4), direct e4: 1->4 (1), detours 2-e5->5-e6->4 (2, 2) and 2-e7->6-e8->4 (3, 3), k = 3.
    // AcceptAll: second route [e0,e4] has two edges, the next turn has no spur index: TWO routes.  Distance-weighted
    // cosine 0.5: [e0,e4] ranks 0.61 (similar), [e0,e1,e5,e6] ranks 0.29 and is accepted, then [e0,e1,e7,e8]: THREE
    let mut c = ycase(
        base_case(
            vec![(0, 1, 1.0), (1, 2, 0.1), (2, 3, 0.4), (3, 4, 0.4), (1, 4, 1.0), (2, 5, 2.0), (5, 4, 2.0), (2, 6, 3.0), (6, 4, 3.0)],
            7,
            0,
            4,
        ),
        3,
        "yen-accept-all-fewer",
    );
    c.sim = Some(Sim::DistW(0.5));
    v.push(c);
    v
}

/// 2 x 3 grid, all edges in both directions, unit-ish lengths
/// vertices: 0 1 2 / 3 4 5 ; edges in pairs (forward, backward)
fn two_by_three_grid() -> SCase {
    let mut e = vec![];
    let pairs = [(0, 1, 1.0), (1, 2, 1.0), (3, 4, 1.5), (4, 5, 1.5), (0, 3, 1.0), (1, 4, 1.0), (2, 5, 1.0)];
    for (a, b, l) in pairs {
        e.push((a, b, l));
        e.push((b, a, l));
    }
    base_case(e, 6, 0, 5)
}

/// 0 -e0-> 1 -e1-> 4 (short) and 0 -e2-> 2 -e3-> 3 -e4-> 4 (long); the turn (3,4) is restricted.
/// Plain Dijkstra never takes (3,4); the single-via alternative is the concatenation of the forward
/// path to an intersection vertex and the reverse path from it, whose junction turn was never tested
/// and whose reverse half was validated with the pair reversed — until bfda969 (`route_is_permitted`).
pub fn restricted_turn_witness() -> KCase {
    let mut b = base_case(vec![(0, 1, 1.0), (1, 4, 1.0), (0, 2, 2.0), (2, 3, 2.0), (3, 4, 2.0)], 5, 0, 4);
    b.frontier = vec![Fr::TurnRestriction(vec![(3, 4)])];
    let mut c = kcase(b, "restricted-turn-witness");
    c.bf_ok = false;
    c
}

fn lattice(i: usize, j: usize) -> (f32, f32) {
    ((-105.0 + 0.004 * i as f64) as f32, (39.7 + 0.004 * j as f64) as f32)
}

/// graph shapes the property names: diamonds, grids, ladders, spurs
fn gen_shape(rng: &mut Rng, max_v: usize) -> (Vec<(f32, f32)>, Vec<(usize, usize)>) {
    let mut coords = vec![];
    let mut pairs: Vec<(usize, usize)> = vec![];
    let both = |pairs: &mut Vec<(usize, usize)>, a: usize, b: usize, rng: &mut Rng, p: u64| {
        pairs.push((a, b));
        if rng.chance(p, 4) {
            pairs.push((b, a));
        }
    };
    match rng.below(5) {
        4 => {
            // one-way trunk with one-way detour cycles hanging off it (lollipops): y -> v -> x with x before y,
            // so that the forward path to v and the reverse path from v share the trunk edges x .. y
            let n = 3 + rng.below(max_v.max(6) / 2);
            for i in 0..n {
                coords.push(lattice(i, 0));
                if i > 0 {
                    pairs.push((i - 1, i));
                }
            }
            for _ in 0..(1 + rng.below(3)) {
                let x = rng.below(n - 1);
                let y = x + 1 + rng.below(n - 1 - x);
                coords.push(lattice(y, 1));
                let v = coords.len() - 1;
                pairs.push((y, v));
                pairs.push((v, x));
                if rng.chance(1, 3) {
                    pairs.push((v, y)); // a way back as well
                }
            }
        }
        0 => {
            // chain of diamonds: hub_i -> {mid_i1 .. mid_iw} -> hub_{i+1}
            let n = 1 + rng.below(3);
            coords.push(lattice(0, 0));
            let mut hub = 0;
            for i in 0..n {
                let w = 2 + rng.below(2);
                let next_hub = coords.len() + w;
                for j in 0..w {
                    coords.push(lattice(2 * i + 1, j));
                    let m = coords.len() - 1;
                    both(&mut pairs, hub, m, rng, 1);
                    both(&mut pairs, m, next_hub, rng, 1);
                }
                coords.push(lattice(2 * i + 2, 0));
                hub = next_hub;
            }
        }
        1 => {
            // grid w x h
            let w = 2 + rng.below(3);
            let h = 2 + rng.below((max_v / w).max(2).min(4) - 1);
            for j in 0..h {
                for i in 0..w {
                    coords.push(lattice(i, j));
                }
            }
            for j in 0..h {
                for i in 0..w {
                    let v = j * w + i;
                    if i + 1 < w {
                        both(&mut pairs, v, v + 1, rng, 3);
                    }
                    if j + 1 < h {
                        both(&mut pairs, v, v + w, rng, 3);
                    }
                }
            }
        }
        2 => {
            // ladder: two rails and rungs
            let n = 2 + rng.below((max_v / 2).max(3) - 1);
            for i in 0..n {
                coords.push(lattice(i, 0));
                coords.push(lattice(i, 1));
            }
            for i in 0..n {
                both(&mut pairs, 2 * i, 2 * i + 1, rng, 3);
                if i + 1 < n {
                    both(&mut pairs, 2 * i, 2 * i + 2, rng, 2);
                    both(&mut pairs, 2 * i + 1, 2 * i + 3, rng, 2);
                }
            }
        }
        _ => {
            // main path with dead-end spurs and a few by-passes
            let n = 2 + rng.below(max_v.max(4) / 2);
            for i in 0..n {
                coords.push(lattice(i, 0));
                if i > 0 {
                    both(&mut pairs, i - 1, i, rng, 1);
                }
            }
            for i in 0..n {
                if rng.chance(1, 2) {
                    coords.push(lattice(i, 1));
                    let sp = coords.len() - 1;
                    both(&mut pairs, i, sp, rng, 2);
                    if rng.chance(1, 2) && i + 1 < n {
                        pairs.push((sp, i + 1)); // by-pass
                    }
                }
            }
        }
    }
    (coords, pairs)
}

fn lengths(rng: &mut Rng, coords: &[(f32, f32)], pairs: Vec<(usize, usize)>, style: LenStyle) -> Vec<(usize, usize, f64)> {
    pairs
        .into_iter()
        .map(|(a, b)| {
            let len = match style {
                LenStyle::TieHeavy => (1 + rng.below(3)) as f64,
                LenStyle::Generic => 10.0 + 3000.0 * rng.unit(),
                LenStyle::Metric => gc_between(coords[a], coords[b]) * (1.0005 + 0.8 * rng.unit()) + 0.01,
            };
            (a, b, len)
        })
        .collect()
}

/// the case with index `k` of the stream (corpus first): a pure function of (seed, tier, k)
pub fn case_at(seed: u64, quick: bool, k: usize, corpus: &[KCase]) -> KCase {
    if k < corpus.len() {
        return corpus[k].clone();
    }
    let mut rng = Rng::for_case(seed, 13, k as u64);
    let style = match rng.below(3) {
        0 => LenStyle::TieHeavy,
        1 => LenStyle::Generic,
        _ => LenStyle::Metric,
    };
    let max_v = if quick { 10 } else { *rng.pick(&[10usize, 14, 24]) };
    // which part of the stack is exercised
    let profile = rng.below(4);
    let opts = GenOpts {
        max_v,
        len_style: style,
        allow_access: profile == 1 || profile == 3,
        allow_frontier: profile >= 2,
        allow_term: profile == 3,
        allow_speed: true,
        state_indep_cost: profile == 0 || profile == 2,
    };
    let mut base = if rng.chance(3, 4) {
        let (coords, pairs) = gen_shape(&mut rng, max_v);
        let edges = lengths(&mut rng, &coords, pairs, style);
        gen_case_on(&mut rng, &opts, coords, edges)
    } else {
        gen_case(&mut rng, &opts)
    };
    let n_v = base.coords.len();
    let n_e = base.edges.len();
    let yen = rng.chance(3, 10);
    // origin / destination: mostly far apart corners of the shape
    base.edge_oriented = rng.chance(1, 8);
    if base.edge_oriented {
        base.source = rng.below(n_e);
        base.target = if rng.chance(1, 20) { None } else { Some(rng.below(n_e)) };
        base.reverse = false;
    } else {
        base.source = if rng.chance(2, 3) { 0 } else { rng.below(n_v) };
        base.target = if rng.chance(1, 25) {
            None
        } else if rng.chance(2, 3) {
            Some(n_v - 1)
        } else {
            Some(rng.below(n_v))
        };
        base.reverse = rng.chance(1, 10); // ignored by the KSP algorithms
        // Yen's algorithm only gets anywhere on routes of three edges or more: prefer a far destination
        if yen && base.target.is_some() && rng.chance(3, 4) {
            let s0 = base.source;
            let mut hops = vec![usize::MAX; n_v];
            hops[s0] = 0;
            let mut q = std::collections::VecDeque::from([s0]);
            while let Some(v) = q.pop_front() {
                for (a, b2, _) in &base.edges {
                    if *a == v && hops[*b2] == usize::MAX {
                        hops[*b2] = hops[v] + 1;
                        q.push_back(*b2);
                    }
                }
            }
            if let Some((far, _)) = hops.iter().enumerate().filter(|(_, h)| **h != usize::MAX).max_by_key(|(_, h)| **h) {
                base.target = Some(far);
            }
        }
    }
    if profile != 3 && rng.chance(1, 6) {
        // turn restrictions between consecutive edges
        let mut ps = vec![];
        for _ in 0..(1 + rng.below(4)) {
            let a = rng.below(n_e);
            let nexts: Vec<usize> = (0..n_e).filter(|e| base.edges[*e].0 == base.edges[a].1).collect();
            if !nexts.is_empty() {
                ps.push((a, *rng.pick(&nexts)));
            }
        }
        if !ps.is_empty() {
            base.frontier.push(Fr::TurnRestriction(ps));
        }
    }
    if base.astar.is_some() && style != LenStyle::Metric && rng.chance(2, 3) {
        base.astar = None;
    }
    let bf_ok = opts.state_indep_cost && !base.agg_mul && turn_pairs(&base).is_empty() && base.query_wf.is_none();
    let k_default = *rng.pick(&[0usize, 1, 1, 2, 2, 2, 3, 3, 4, 5, 6]);
    let query_k = if rng.chance(1, 5) {
        Some(match rng.below(12) {
            0 => serde_json::json!(2.5),
            1 => serde_json::json!("3"),
            2 => serde_json::json!(-2),
            _ => serde_json::json!(rng.below(7)),
        })
    } else {
        None
    };
    let sim = match rng.below(8) {
        0 | 1 => None,
        2 => Some(Sim::AcceptAll),
        3 | 4 | 5 => Some(Sim::EdgeId(*rng.pick(&[-0.5, 0.0, 0.2, 0.25, 1.0 / 3.0, 0.5, 0.6, 2.0 / 3.0, 0.75, 0.9, 1.0, 1.5]))),
        _ => Some(Sim::DistW(if rng.chance(1, 8) { *rng.pick(&[-0.5, 0.0, 1.5]) } else { rng.uniform(0.02, 0.98) })),
    };
    let term = match rng.below(6) {
        0 | 1 => None,
        2 => Some(KTerm::Exact),
        3 | 4 => Some(KTerm::MaxIt(rng.below(8) as u64)),
        _ => Some(KTerm::Factor(rng.below(4) as u64)),
    };
    let mut kc = KCase { base, yen, k_default, query_k, sim, term, style, bf_ok, label: "", cfg: None, cfg_ok: None, query_wf_json: None, silent: false };
    // a quarter of the cases build the algorithm from its configuration JSON, as the application does
    if rng.chance(1, 4) {
        gen_cfg(&mut rng, &mut kc);
    }
    if rng.chance(1, 40) {
        kc.query_wf_json = Some(match rng.below(4) {
            0 => serde_json::json!("fast"),
            1 => serde_json::json!(null),
            2 => serde_json::json!([1.0]),
            _ => serde_json::json!(true),
        });
    }
    if kc.query_wf_json.is_none() {
        shape_extreme_k(&mut kc, seed, 13, k as u64);
    }
    kc
}

/// one single-via case in eight (constructed in code) goes where the generators never do
/// (`searchprops::shape_extreme`; a generator of its own, so that the other cases keep their choices)
fn shape_extreme_k(kc: &mut KCase, seed: u64, tag: u64, j: u64) {
    if kc.yen || kc.cfg.is_some() || !kc.label.is_empty() {
        return;
    }
    let mut rx = Rng::for_case(seed, 9300 + tag, j);
    if rx.chance(1, 8) {
        let numeric = rx.chance(2, 3);
        let sh = crate::searchprops::shape_extreme(&mut kc.base, &mut rx, numeric);
        if !sh.metric_ok && kc.style == LenStyle::Metric {
            kc.style = LenStyle::Generic;
        }
        if !sh.oracle {
            kc.silent = true;
            kc.bf_ok = false;
        }
    }
}

fn sim_json(rng: &mut Rng, s: &Sim) -> serde_json::Value {
    let seq = rng.chance(1, 8);
    match s {
        Sim::AcceptAll => {
            if seq {
                serde_json::json!(["accept_all"])
            } else {
                serde_json::json!({"type": "accept_all"})
            }
        }
        Sim::EdgeId(t) => {
            if seq {
                serde_json::json!(["edge_id_cosine_similarity", t])
            } else {
                serde_json::json!({"type": "edge_id_cosine_similarity", "threshold": t})
            }
        }
        Sim::DistW(t) => {
            if seq {
                serde_json::json!(["distance_weighted_cosine_similarity", t])
            } else {
                serde_json::json!({"threshold": t, "type": "distance_weighted_cosine_similarity", "comment": "ignored"})
            }
        }
    }
}

fn term_json_k(rng: &mut Rng, t: &KTerm) -> serde_json::Value {
    let seq = rng.chance(1, 8);
    match t {
        KTerm::Exact => {
            if seq {
                serde_json::json!(["exact"])
            } else {
                serde_json::json!({"type": "exact"})
            }
        }
        KTerm::MaxIt(m) => {
            if seq {
                serde_json::json!(["max_iteration", m])
            } else {
                serde_json::json!({"type": "max_iteration", "max": m})
            }
        }
        KTerm::Factor(f) => {
            if seq {
                serde_json::json!(["factor", f])
            } else {
                serde_json::json!({"type": "factor", "factor": f})
            }
        }
    }
}

fn underlying_json(rng: &mut Rng, c: &SCase) -> serde_json::Value {
    match c.astar {
        None => {
            if rng.chance(1, 8) {
                serde_json::json!(["dijkstra"])
            } else {
                serde_json::json!({"type": "dijkstra"})
            }
        }
        Some(None) => {
            if rng.chance(1, 2) {
                serde_json::json!({"type": "a*"})
            } else {
                serde_json::json!({"type": "a*", "weight_factor": null})
            }
        }
        Some(Some(w)) => {
            if rng.chance(1, 8) {
                serde_json::json!(["a*", w])
            } else {
                serde_json::json!({"type": "a*", "weight_factor": w})
            }
        }
    }
}

/// the configuration JSON of the case's algorithm: a faithful rendering of its fields (object or
/// sequence form, optional fields absent / null), a nested k-shortest-paths `underlying`, or a
/// malformed variant
fn gen_cfg(rng: &mut Rng, kc: &mut KCase) {
    let tag = if kc.yen { "yens" } else { "ksp_single_via" };
    let under = underlying_json(rng, &kc.base);
    let sim = kc.sim.clone().map(|s| sim_json(rng, &s));
    let term = kc.term.clone().map(|t| term_json_k(rng, &t));
    let mut obj = serde_json::Map::new();
    obj.insert("type".into(), serde_json::json!(tag));
    obj.insert("k".into(), serde_json::json!(kc.k_default));
    obj.insert("underlying".into(), under.clone());
    match &sim {
        Some(v) => {
            obj.insert("similarity".into(), v.clone());
        }
        None => {
            if rng.chance(1, 2) {
                obj.insert("similarity".into(), serde_json::Value::Null);
            }
        }
    }
    match &term {
        Some(v) => {
            obj.insert("termination".into(), v.clone());
        }
        None => {
            if rng.chance(1, 2) {
                obj.insert("termination".into(), serde_json::Value::Null);
            }
        }
    }
    let mut cfg = serde_json::Value::Object(obj.clone());
    kc.cfg_ok = Some(true);
    match rng.below(10) {
        0 => {
            // sequence form: tag, k, underlying, similarity, termination
            cfg = serde_json::json!([tag, kc.k_default, under, sim.clone().unwrap_or(serde_json::Value::Null), term.clone().unwrap_or(serde_json::Value::Null)]);
        }
        1 | 2 => {
            // malformed
            kc.cfg_ok = Some(false);
            let mut o = obj.clone();
            match rng.below(14) {
                0 => {
                    o.remove("k");
                }
                1 => {
                    o.remove("underlying");
                }
                2 => {
                    o.remove("type");
                }
                3 => {
                    o.insert("k".into(), serde_json::json!(kc.k_default as f64 + 0.5));
                }
                4 => {
                    o.insert("k".into(), serde_json::json!(-(kc.k_default as i64) - 1));
                }
                5 => {
                    o.insert("k".into(), serde_json::json!(kc.k_default.to_string()));
                }
                6 => {
                    o.insert("type".into(), serde_json::json!(if kc.yen { "Yens" } else { "single_via" }));
                }
                7 => {
                    o.insert("underlying".into(), serde_json::json!("dijkstra"));
                }
                8 => {
                    o.insert("underlying".into(), serde_json::json!({"type": "astar"}));
                }
                9 => {
                    o.insert("similarity".into(), serde_json::json!({"type": "edge_id_cosine_similarity"}));
                }
                10 => {
                    o.insert("similarity".into(), serde_json::json!({"type": "edge_id_cosine_similarity", "threshold": "0.5"}));
                }
                11 => {
                    o.insert("termination".into(), serde_json::json!({"type": "max_iteration", "max": 2.0}));
                }
                12 => {
                    o.insert("termination".into(), serde_json::json!({"type": "factor"}));
                }
                _ => {
                    o.insert("underlying".into(), serde_json::json!({"type": "a*", "weight_factor": "heavy"}));
                }
            }
            cfg = serde_json::Value::Object(o);
            if rng.chance(1, 6) {
                cfg = match rng.below(4) {
                    0 => serde_json::json!(tag),
                    1 => serde_json::json!([tag, kc.k_default, under]),
                    2 => serde_json::json!(null),
                    _ => serde_json::json!([tag, kc.k_default, under, null, null, null]),
                };
            }
        }
        3 => {
            // a k-shortest-paths algorithm as `underlying`
            let inner_k = *rng.pick(&[0usize, 1, 2, 3]);
            if kc.yen {
                // (Yen's spur searches through a nested algorithm are not modelled: only the case in
                // which the nested algorithm returns no route, inner k = 0 and no k in the query)
                kc.query_k = None;
                let inner_tag = if rng.chance(1, 2) { "yens" } else { "ksp_single_via" };
                let mut o = obj.clone();
                o.insert("underlying".into(), serde_json::json!({"type": inner_tag, "k": 0, "underlying": under}));
                cfg = serde_json::Value::Object(o);
            } else {
                let inner_tag = if rng.chance(1, 2) { "yens" } else { "ksp_single_via" };
                let mut inner = serde_json::json!({"type": inner_tag, "k": inner_k, "underlying": under});
                if let Some(v) = &sim {
                    if rng.chance(1, 2) {
                        inner["similarity"] = v.clone();
                    }
                }
                let mut o = obj.clone();
                o.insert("underlying".into(), inner);
                cfg = serde_json::Value::Object(o);
            }
        }
        _ => {}
    }
    kc.cfg = Some(cfg);
}

// ---------------------------------------------------------------------------------------------
// Yen's algorithm: child processes only

/// number of `valid_frontier` calls a Yen run may make before the child declares it divergent
/// (a returning run on these graph sizes needs a few thousand)
const YEN_FRONTIER_BUDGET: u64 = 300_000;
const YEN_TIMEOUT_MS: u64 = 2000;
const YEN_AS_LIMIT_BYTES: u64 = 1 << 30;

/// wraps the real frontier model: after `budget` calls every call fails, which ends a `while` loop
/// that keeps repeating the same spur searches (the trace recorded so far stays available)
struct BudgetFrontier {
    inner: Arc<dyn FrontierModel>,
    calls: AtomicU64,
    budget: u64,
    exhausted: Arc<AtomicBool>,
}

impl FrontierModel for BudgetFrontier {
    fn valid_frontier(
        &self,
        edge: &routee_compass_core::model::network::Edge,
        state: &[routee_compass_core::model::traversal::state::state_variable::StateVar],
        previous_edge: Option<&routee_compass_core::model::network::Edge>,
        state_model: &routee_compass_core::model::state::state_model::StateModel,
    ) -> Result<bool, FrontierModelError> {
        if self.calls.fetch_add(1, Ordering::Relaxed) >= self.budget {
            self.exhausted.store(true, Ordering::Relaxed);
            return Err(FrontierModelError::FrontierModelError("verification budget exhausted".into()));
        }
        self.inner.valid_frontier(edge, state, previous_edge, state_model)
    }
}

/// the plain underlying search on the query (in-process: it always returns)
fn plain_run(kc: &KCase, b: &Built) -> (Exec, Vec<usize>) {
    let mut pc = kc.base.clone();
    pc.reverse = false;
    let ex = exec(&pc, b);
    let mut sched = ex.scheds.first().cloned().unwrap_or_default();
    if let (Outcome::Ok(_), Some(t), false) = (&ex.outcome, inner_target(&pc), ex.scheds.is_empty()) {
        if t != inner_source(&pc) {
            sched.push(t);
        }
    }
    (ex, sched)
}

fn plain_route_len(kc: &KCase, ex: &Exec) -> Option<usize> {
    match &ex.outcome {
        Outcome::Ok(r) => r.routes.first().map(|rt| if kc.base.edge_oriented && rt.len() >= 2 { rt.len() - 2 } else { rt.len() }),
        _ => None,
    }
}

/// does the wrapper hand this query to the KSP algorithm at all?
fn reaches_algorithm(c: &SCase) -> bool {
    if !c.edge_oriented {
        return true;
    }
    match c.target {
        None => true,
        Some(t) => c.source != t && c.edges[c.source].1 != c.edges[t].0,
    }
}

/// CHILD: run Yen on case `k`, write the usual four files into `dir`
pub fn child_main(args: &[String]) {
    let seed: u64 = args[0].parse().expect("seed");
    let quick = args[1] == "1";
    let k: usize = args[2].parse().expect("index");
    let dir = args[3].clone();
    std::panic::set_hook(Box::new(|_| {}));
    let tier = if quick { crate::ctx::Tier::Quick } else { crate::ctx::Tier::Thorough };
    let mut ctx = Ctx::new(seed, tier, None, None);
    let corpus = corpus();
    let stream = args.get(5).and_then(|x| Stream::from_name(x)).unwrap_or(Stream::C13);
    let j: usize = args.get(6).and_then(|x| x.parse().ok()).unwrap_or(k);
    let mut kc = if stream == Stream::C13 { case_at(seed, quick, k, &corpus) } else { prop_case_at(stream, seed, quick, j) };
    if let Some(ko) = args.get(4).and_then(|x| x.parse::<usize>().ok()) {
        // schedule-recovery run (see `recover_schedules`): same case, smaller k
        kc.k_default = ko;
        kc.query_k = None;
    }
    let scheds = run_yen_child(&mut ctx, k, &kc, stream);
    let text: Vec<String> = scheds.iter().map(|s| s.iter().map(|v| v.to_string()).collect::<Vec<_>>().join(" ")).collect();
    std::fs::create_dir_all(&dir).expect("child dir");
    std::fs::write(format!("{}/scheds.txt", dir), text.join("\n")).expect("write scheds");
    ctx.write(&dir, "C13", "").expect("write child outputs");
}

fn run_yen_child(ctx: &mut Ctx, idx: usize, kc: &KCase, stream: Stream) -> Vec<Vec<usize>> {
    let c = &kc.base;
    let Ok(mut b) = build(c) else { return vec![] };
    let (plain, _) = plain_run(kc, &b);
    let b_unwrapped_frontier = b.si.frontier_model.clone();
    let exhausted = Arc::new(AtomicBool::new(false));
    b.si.frontier_model = Arc::new(BudgetFrontier {
        inner: b.si.frontier_model.clone(),
        calls: AtomicU64::new(0),
        budget: YEN_FRONTIER_BUDGET,
        exhausted: exhausted.clone(),
    });
    let mut ex = exec_ksp(kc, &b, &kc.sim);
    let diverged = exhausted.load(Ordering::Relaxed);
    // a run that reached its target ended by popping it, which the hook does not record.  For Yen's
    // searches, which runs did is not visible in the trace (a failed spur search is skipped), and need not
    // be: the model reads a schedule only as far as the run goes, so the final pop is appended to every
    // run (a run whose source is the target popped nothing and ignores its schedule)
    fix_scheds(kc, &mut ex);
    let line = encode_k(kc, &b, &ex.scheds, &ex.pops);
    let out = if diverged { "diverges".to_string() } else { k_outcome_line(&ex.outcome) };
    if stream != Stream::C13 {
        // a search property's KSP stream: only runs that return, judged by that property's own oracle
        if diverged {
            return ex.scheds;
        }
        ctx.emit(idx, line, out);
        describe_k(ctx, kc);
        // the unlimited twin of a C10 case, under the same call budget
        let unlimited = if stream == Stream::C10 {
            let mut k2 = kc.clone();
            k2.base.term = Term::Combined(vec![]);
            build(&k2.base).ok().and_then(|mut b2| {
                let exhausted2 = Arc::new(AtomicBool::new(false));
                b2.si.frontier_model = Arc::new(BudgetFrontier { inner: b2.si.frontier_model.clone(), calls: AtomicU64::new(0), budget: YEN_FRONTIER_BUDGET, exhausted: exhausted2.clone() });
                let e2 = exec_ksp(&k2, &b2, &k2.sim);
                if exhausted2.load(Ordering::Relaxed) { None } else { Some(e2.outcome) }
            })
        } else {
            None
        };
        let _ = &b_unwrapped_frontier;
        apply_prop_oracle(ctx, idx, stream, kc, &b, &ex, unlimited.as_ref());
        return ex.scheds;
    }
    ctx.emit(idx, line, out.clone());
    describe_k(ctx, kc);
    ctx.count_n("underlying_searches", ex.runs as u64);
    if !diverged && oracle_early(ctx, idx, kc, &ex.outcome) {
        return ex.scheds;
    }
    let k_eff = effective_k(kc);
    let plain_len = plain_route_len(kc, &plain);
    if diverged {
        ctx.count("outcome_diverges_no_progress");
        ctx.fail(
            idx,
            "yens/diverges-no-progress",
            format!(
                "Yen's algorithm does not return: {} underlying searches and {} frontier calls without reaching k = {:?} (shortest route has {:?} edges, similarity {:?})",
                ex.runs, YEN_FRONTIER_BUDGET, k_eff, plain_len, kc.sim
            ),
        );
        return ex.scheds;
    }
    match &ex.outcome {
        Outcome::Ok(r) => {
            ctx.count("outcome_ok");
            ctx.count(&format!("routes_{}", r.routes.len().min(7)));
            if kc.label == "yen-spur-search-limited" {
                ctx.fail(idx, "yens/spur-limit-not-terminated", "the spur search from vertex 1 exceeds the iteration limit but the query returned Ok".into());
            }
            if let Some(k) = k_eff {
                oracle_ok(ctx, idx, kc, &b, r, k, reopened(&ex.scheds));
                // 7. AcceptAll returns at least as many routes as any threshold on the same query (FALSE of Yen's
                // algorithm: known finding yens/accept-all-returns-fewer, corpus yen-accept-all-fewer)
                if let Some(sim) = &kc.sim {
                    if threshold(sim).is_some() {
                        let aa = exec_ksp(kc, &b, &Some(Sim::AcceptAll));
                        if !exhausted.load(Ordering::Relaxed) {
                            match &aa.outcome {
                                Outcome::Ok(ra) => {
                                    ctx.count("yen_compared_with_accept_all");
                                    if ra.routes.len() < r.routes.len() {
                                        ctx.fail(
                                            idx,
                                            "yens/accept-all-returns-fewer",
                                            format!(
                                                "AcceptAll returned {} routes {:?}, {:?} returned {} {:?} (k = {})",
                                                ra.routes.len(),
                                                ra.routes.iter().map(|x| route_ids(x)).collect::<Vec<_>>(),
                                                sim,
                                                r.routes.len(),
                                                r.routes.iter().map(|x| route_ids(x)).collect::<Vec<_>>(),
                                                k
                                            ),
                                        );
                                    }
                                    if ra.routes.len() > r.routes.len() {
                                        ctx.count("yen_threshold_rejected_an_alternative");
                                    }
                                }
                                Outcome::Err(ek) => ctx.fail(idx, "yens/accept-all-fails", format!("AcceptAll failed with {} where {:?} succeeded", ek, sim)),
                            }
                        }
                    }
                }
                if kc.label == "yen-accept-all-fewer" && r.routes.len() != 3 {
                    ctx.count("yen_accept_all_fewer_witness_changed");
                }
            }
            if matches!(&plain.outcome, Outcome::Err(pk) if pk == "nopath") && !r.routes.is_empty() {
                ctx.fail(idx, "yens/route-to-unreachable", "the plain search finds no path but Yen returned routes".into());
            }
        }
        Outcome::Err(k) => {
            ctx.count(&format!("outcome_err_{}", k.split(' ').next().unwrap_or("")));
            if k.starts_with("panic") && !k.contains("termination-frequency-zero") {
                ctx.fail(idx, "yens/panic", k.clone());
            }
            if kc.label == "yen-spur-search-limited" && k != "terminated iterations" {
                ctx.fail(idx, "yens/spur-limit-not-terminated", format!("expected the explicit 'terminated iterations' error, got '{}'", k));
            }
            // (a limit hit by a spur search IS the explicit `terminated` error of the query, C10)
            if let (Outcome::Ok(_), Some(_), true) = (&plain.outcome, k_eff, inner_target(c).is_some() && reaches_algorithm(c) && !k.starts_with("terminated")) {
                if ex.runs >= 2 {
                    ctx.fail(
                        idx,
                        "yens/spur-failure-propagated",
                        format!("the plain search answers the query (route of {:?} edges) but Yen returned error '{}' from spur search #{}", plain_len, k, ex.runs - 1),
                    );
                } else {
                    ctx.fail(
                        idx,
                        "yens/error-without-spur-search",
                        format!("the plain search answers the query (route of {:?} edges) but Yen returned error '{}' before any spur search", plain_len, k),
                    );
                }
            }
        }
    }
    ex.scheds
}

/// A run that was killed left no trace.  The turns of `while accepted.len() < k` do not depend on k
/// (the inner `for` loop never looks at it), so the same case with a smaller k replays a prefix of
/// the killed run: take the largest k' < k whose run returns and use its schedules — the turn after
/// them is the one that spins on a route of at most two edges, which needs no schedule.
fn recover_schedules(seed: u64, quick: bool, idx: usize, kc: &KCase, base_dir: &str) -> Option<Vec<Vec<usize>>> {
    let k = effective_k(kc)?;
    for ko in (1..k).rev() {
        let dir = format!("{}_k{}", base_dir, ko);
        let Ok(mut child) = spawn_child(seed, quick, idx, &dir, Some(ko), Stream::C13, idx) else { continue };
        let t0 = std::time::Instant::now();
        let mut done = false;
        while (t0.elapsed().as_millis() as u64) < YEN_TIMEOUT_MS {
            if let Ok(Some(_)) = child.try_wait() {
                done = true;
                break;
            }
            std::thread::sleep(std::time::Duration::from_millis(5));
        }
        if !done {
            let _ = child.kill();
            let _ = child.wait();
            let _ = std::fs::remove_dir_all(&dir);
            continue;
        }
        let text = std::fs::read_to_string(format!("{}/scheds.txt", dir)).ok();
        let impl_line = std::fs::read_to_string(format!("{}/impl.txt", dir)).unwrap_or_default();
        let _ = std::fs::remove_dir_all(&dir);
        if impl_line.contains(" ok ") {
            let text = text?;
            return Some(
                text.lines().map(|l| l.split_whitespace().filter_map(|x| x.parse().ok()).collect()).collect(),
            );
        }
    }
    None
}

struct Pending {
    idx: usize,
    stream: Stream,
    j: usize,
    kc: KCase,
    dir: String,
    child: std::process::Child,
    started: std::time::Instant,
}

fn spawn_child(seed: u64, quick: bool, idx: usize, dir: &str, k_override: Option<usize>, stream: Stream, j: usize) -> std::io::Result<std::process::Child> {
    use std::os::unix::process::CommandExt;
    let exe = std::env::current_exe()?;
    let mut cmd = std::process::Command::new(exe);
    cmd.arg("C13-child").arg(seed.to_string()).arg(if quick { "1" } else { "0" }).arg(idx.to_string()).arg(dir);
    match k_override {
        Some(ko) => cmd.arg(ko.to_string()),
        None => cmd.arg("-"),
    };
    cmd.arg(stream.name()).arg(j.to_string());
    cmd.stdin(std::process::Stdio::null()).stdout(std::process::Stdio::null()).stderr(std::process::Stdio::null());
    unsafe {
        cmd.pre_exec(|| {
            let lim = libc::rlimit { rlim_cur: YEN_AS_LIMIT_BYTES, rlim_max: YEN_AS_LIMIT_BYTES };
            if libc::setrlimit(libc::RLIMIT_AS, &lim) != 0 {
                return Err(std::io::Error::last_os_error());
            }
            Ok(())
        });
    }
    cmd.spawn()
}

fn rss_kb(pid: u32) -> Option<u64> {
    let s = std::fs::read_to_string(format!("/proc/{}/status", pid)).ok()?;
    s.lines().find(|l| l.starts_with("VmRSS:")).and_then(|l| l.split_whitespace().nth(1)).and_then(|x| x.parse().ok())
}

/// PARENT: the child's files are merged into the run; a child that had to be killed is a `diverges` line
fn finish_child(ctx: &mut Ctx, p: Pending, status: Option<std::process::ExitStatus>, rss_at_kill: Option<u64>) {
    // a timeout on a route of three or more edges is unexpected enough to be confirmed with a
    // threefold budget before it is believed (a busy machine must not look like a divergence)
    let mut status = status;
    if status.is_none() && p.stream == Stream::C13 {
        let long_route = build(&p.kc.base).ok().map_or(false, |b| {
            let (plain, _) = plain_run(&p.kc, &b);
            matches!(plain_route_len(&p.kc, &plain), Some(l) if l >= 3)
        });
        if long_route {
            let _ = std::fs::remove_dir_all(&p.dir);
            if let Ok(mut child) = spawn_child(ctx.seed, ctx.quick(), p.idx, &p.dir, None, p.stream, p.j) {
                let t0 = std::time::Instant::now();
                while (t0.elapsed().as_millis() as u64) < 3 * YEN_TIMEOUT_MS {
                    if let Ok(Some(st)) = child.try_wait() {
                        status = Some(st);
                        ctx.count("timeout_not_confirmed");
                        break;
                    }
                    std::thread::sleep(std::time::Duration::from_millis(5));
                }
                if status.is_none() {
                    let _ = child.kill();
                    let _ = child.wait();
                }
            }
        }
    }
    let read = |f: &str| std::fs::read_to_string(format!("{}/{}", p.dir, f)).unwrap_or_default();
    let cases = read("cases.txt");
    let impls = read("impl.txt");
    let returned = status.map_or(false, |s| s.success()) && !cases.trim().is_empty() && !impls.trim().is_empty();
    if returned {
        let case = cases.lines().next().unwrap().splitn(2, ' ').nth(1).unwrap_or("").to_string();
        let out = impls.lines().next().unwrap().splitn(2, ' ').nth(1).unwrap_or("").to_string();
        if out.starts_with("ok ") && out.contains(" routes ") {
            let n: usize = out.split(" routes ").nth(1).and_then(|r| r.split(' ').next()).and_then(|x| x.parse().ok()).unwrap_or(0);
            if n >= 2 {
                ctx.nontrivial(&out);
            }
        }
        let case = if p.stream == Stream::C13 { case } else { format!("ksp {}", case) };
        ctx.emit(p.idx, case, out);
        for l in read("oracle.txt").lines() {
            let mut parts = l.splitn(3, ' ');
            let _ = parts.next();
            let key = parts.next().unwrap_or("yens/unknown");
            ctx.fail(p.idx, key, parts.next().unwrap_or("").to_string());
        }
        if let Ok(v) = serde_json::from_str::<serde_json::Value>(&read("stats.json")) {
            if let Some(d) = v["distribution"].as_object() {
                for (k, n) in d {
                    ctx.count_n(k, n.as_u64().unwrap_or(0));
                }
            }
        }
    } else if p.stream != Stream::C13 {
        // a search property's stream only takes Yen runs that return
        ctx.count("ksp_yen_case_without_return_skipped");
    } else {
        // killed (timeout), out of address space (abort), or build refused
        let kc = &p.kc;
        let Ok(b) = build(&kc.base) else {
            ctx.count("build_refused");
            let _ = std::fs::remove_dir_all(&p.dir);
            return;
        };
        let (plain, sched0) = plain_run(kc, &b);
        let len = plain_route_len(kc, &plain);
        let timed_out = status.is_none();
        let mut scheds = vec![sched0];
        if timed_out && matches!(len, Some(l) if l >= 3) {
            // the first turns were productive: their schedules are needed for the replay
            if let Some(sc) = recover_schedules(ctx.seed, ctx.quick(), p.idx, kc, &p.dir) {
                ctx.count("schedules_recovered_with_smaller_k");
                scheds = sc;
            }
        }
        let line = encode_k(kc, &b, &scheds, &[]);
        ctx.emit(p.idx, line, "diverges".into());
        describe_k(ctx, kc);
        let how = if timed_out {
            format!("killed after {} ms (resident set {} kB)", YEN_TIMEOUT_MS, rss_at_kill.unwrap_or(0))
        } else {
            format!("child ended with {:?} under the {} MiB address-space limit", status, YEN_AS_LIMIT_BYTES >> 20)
        };
        let key = if !timed_out {
            ctx.count("outcome_child_crashed");
            "yens/out-of-memory"
        } else {
            match len {
                Some(1) => {
                    ctx.count("outcome_diverges_one_edge_route");
                    "yens/diverges-one-edge-route"
                }
                Some(2) => {
                    ctx.count("outcome_diverges_two_edge_route");
                    "yens/diverges-two-edge-route"
                }
                _ => {
                    ctx.count("outcome_diverges_later_short_route");
                    "yens/diverges-later-short-route"
                }
            }
        };
        ctx.fail(p.idx, key, format!("Yen's algorithm did not return: {}; shortest route has {:?} edges, k = {:?}, similarity {:?}", how, len, effective_k(kc), kc.sim));
    }
    let _ = std::fs::remove_dir_all(&p.dir);
}

fn run_yen_batch(ctx: &mut Ctx, items: Vec<(usize, KCase)>) {
    run_yen_batch_stream(ctx, Stream::C13, items.into_iter().map(|(idx, kc)| (idx, idx, kc)).collect())
}

fn run_yen_batch_stream(ctx: &mut Ctx, stream: Stream, items: Vec<(usize, usize, KCase)>) {
    let base = std::env::temp_dir().join(format!("cvh_c13_{}", std::process::id()));
    let _ = std::fs::create_dir_all(&base);
    let max_par = 12;
    let mut queue: std::collections::VecDeque<(usize, usize, KCase)> = items.into();
    let mut running: Vec<Pending> = vec![];
    let quick = ctx.quick();
    let seed = ctx.seed;
    while !queue.is_empty() || !running.is_empty() {
        while running.len() < max_par {
            let Some((idx, j, kc)) = queue.pop_front() else { break };
            let dir = base.join(idx.to_string()).to_string_lossy().to_string();
            match spawn_child(seed, quick, idx, &dir, None, stream, j) {
                Ok(child) => running.push(Pending { idx, stream, j, kc, dir, child, started: std::time::Instant::now() }),
                Err(e) => ctx.fail(idx, "harness/spawn-failed", e.to_string()),
            }
        }
        let mut still = vec![];
        let mut progressed = false;
        for mut p in running.drain(..) {
            match p.child.try_wait() {
                Ok(Some(st)) => {
                    progressed = true;
                    finish_child(ctx, p, Some(st), None);
                }
                Ok(None) => {
                    if p.started.elapsed().as_millis() as u64 > YEN_TIMEOUT_MS {
                        let rss = rss_kb(p.child.id());
                        let _ = p.child.kill();
                        let _ = p.child.wait();
                        progressed = true;
                        finish_child(ctx, p, None, rss);
                    } else {
                        still.push(p);
                    }
                }
                Err(_) => {
                    let _ = p.child.kill();
                    let _ = p.child.wait();
                    finish_child(ctx, p, None, None);
                }
            }
        }
        running = still;
        if !progressed {
            std::thread::sleep(std::time::Duration::from_millis(5));
        }
    }
    let _ = std::fs::remove_dir_all(&base);
}

// ---------------------------------------------------------------------------------------------
// k-shortest-paths streams of the search properties C01 C03 C04 C10 (called from searchprops::run):
// the same machinery, cases emitted as ordinary correspondence cases whose line starts with `ksp`,
// and every returned route judged by THAT property's own oracle — single-via and, since the repairs of
// vfix/C13, Yen alike (Yen still runs in the child process, so that a regression to non-termination is
// caught; a run that does not return is skipped here and is a VIOLATION of C13).

#[derive(Clone, Copy, PartialEq, Eq, Debug)]
pub enum Stream {
    C13,
    C01,
    C03,
    C04,
    C10,
}

impl Stream {
    pub fn name(&self) -> &'static str {
        match self {
            Stream::C13 => "C13",
            Stream::C01 => "C01",
            Stream::C03 => "C03",
            Stream::C04 => "C04",
            Stream::C10 => "C10",
        }
    }
    pub fn from_name(s: &str) -> Option<Stream> {
        [Stream::C13, Stream::C01, Stream::C03, Stream::C04, Stream::C10].into_iter().find(|x| x.name() == s)
    }
    fn tag(&self) -> u64 {
        match self {
            Stream::C13 => 13,
            Stream::C01 => 1301,
            Stream::C03 => 1303,
            Stream::C04 => 1304,
            Stream::C10 => 1310,
        }
    }
}

/// hand-written cases of a stream (the shapes on which a change of the KSP code shows under that property)
fn prop_corpus(s: Stream) -> Vec<KCase> {
    let mut v = vec![];
    match s {
        Stream::C01 => {
            // lollipop: trunk 0 -> 1 -> 2 -> 3 and the one-way detour 2 -> 4 -> 1; the single-via candidate
            // through 4 is 0,1,2,4,1,2,3 (edge 1->2 twice) and must be refused by the loop test
            let mut c = kcase(base_case(vec![(0, 1, 1.0), (1, 2, 1.0), (2, 3, 1.0), (2, 4, 1.0), (4, 1, 0.5)], 5, 0, 3), "c01-lollipop");
            c.k_default = 3;
            v.push(c);
            // edge-oriented single-via with three and more routes: every route carries the origin and
            // destination edge.  3 x 3 grid, both directions, slightly different lengths; origin edge 9 -> 0,
            // destination edge 8 -> 10
            for k in [3usize, 4, 6] {
                let mut e = vec![];
                let mut l = 1.0;
                for j in 0..3usize {
                    for i in 0..3usize {
                        let a = 3 * j + i;
                        if i + 1 < 3 {
                            e.push((a, a + 1, l));
                            e.push((a + 1, a, l));
                            l += 0.07;
                        }
                        if j + 1 < 3 {
                            e.push((a, a + 3, l));
                            e.push((a + 3, a, l));
                            l += 0.05;
                        }
                    }
                }
                let origin = e.len();
                e.push((9, 0, 1.0));
                e.push((8, 10, 1.0));
                let mut c = kcase(base_case(e, 11, 0, 0), "c01-grid-edge-oriented");
                c.base.edge_oriented = true;
                c.base.source = origin;
                c.base.target = Some(origin + 1);
                c.k_default = k;
                v.push(c);
            }
            // the same through Yen
            let mut c = ycase(two_by_three_grid(), 3, "c01-grid-edge-oriented-yen");
            c.base.edge_oriented = true;
            c.base.source = 0;
            c.base.target = Some(13);
            v.push(c);
            // a k-shortest-paths algorithm as the `underlying` of another: the outer single-via search asks
            // its underlying for a REVERSE tree; an underlying that answers the reverse query as if it were
            // forward makes the outer routes discontiguous (0->1, 1->2, 5->2 on this grid before the repair)
            for (cfg, label) in [
                (serde_json::json!({"type": "ksp_single_via", "k": 3, "underlying": {"type": "yens", "k": 2, "underlying": {"type": "dijkstra"}}}), "c01-nested-single-via-over-yens"),
                (serde_json::json!({"type": "ksp_single_via", "k": 3, "underlying": {"type": "ksp_single_via", "k": 2, "underlying": {"type": "dijkstra"}}}), "c01-nested-single-via-over-single-via"),
                (serde_json::json!({"type": "ksp_single_via", "k": 4, "underlying": {"type": "yens", "k": 3, "underlying": {"type": "a*", "weight_factor": 1.0}}}), "c01-nested-single-via-over-yens-astar"),
            ] {
                let mut c = kcase(two_by_three_grid(), label);
                c.yen = false;
                c.k_default = cfg["k"].as_u64().unwrap_or(3) as usize;
                c.cfg = Some(cfg);
                c.cfg_ok = Some(true);
                v.push(c);
            }
        }
        Stream::C03 => {
            // tsp 0 -> 4 -> 3; alternative 0 -e2-> 1 -e3-> 2 -e4-> 3 through via vertex 2 (popped first: its
            // priority 2 * 0.4 is the lowest): forward half e2 (east), e3 (north) bends, junction e3 -> e4 is
            // a right turn (5 s), whereas e2 -> e4 would be no turn (0 s)
            let mut b = base_case(vec![(0, 4, 1.0), (4, 3, 1.0), (0, 1, 1.0), (1, 2, 0.4), (2, 3, 1.5)], 5, 0, 3);
            b.feats.push(("time".into(), FeatK::T(TimeUnit::Seconds), 0.0));
            let mut delays = [Some(0.0); 8];
            delays[3] = Some(5.0); // right
            delays[4] = Some(7.0); // left
            b.access = Acc::Turn {
                tu: TimeUnit::Seconds,
                headings: vec![(90, None), (90, None), (90, None), (0, None), (90, None)],
                delays,
            };
            let mut c = kcase(b, "c03-junction-turn-delay");
            c.bf_ok = false;
            v.push(c);
        }
        Stream::C04 => {
            v.push(restricted_turn_witness());
            // the same through the edge-oriented wrapper: origin edge 5 (5 -> 0), destination edge 6 (4 -> 6)
            let mut b = base_case(vec![(0, 1, 1.0), (1, 4, 1.0), (0, 2, 2.0), (2, 3, 2.0), (3, 4, 2.0), (5, 0, 1.0), (4, 6, 1.0)], 7, 0, 4);
            b.frontier = vec![Fr::TurnRestriction(vec![(3, 4)])];
            b.edge_oriented = true;
            b.source = 5;
            b.target = Some(6);
            let mut c = kcase(b, "c04-restricted-turn-edge-oriented");
            c.bf_ok = false;
            v.push(c);
            // Yen, the junction of root and spur: 0 -e0-> 1, then three ways on to 3 (e1 e2: 2, e3 e4: 4, e5 e6: 6);
            // the turn e0 -> e3 is restricted.  The spur search from 1 starts without a previous edge, so only the
            // check of the WHOLE candidate sees that turn: the routes are e0 e1 e2 and e0 e5 e6, never e0 e3 e4
            let mut b = base_case(vec![(0, 1, 1.0), (1, 2, 1.0), (2, 3, 1.0), (1, 4, 2.0), (4, 3, 2.0), (1, 5, 3.0), (5, 3, 3.0)], 6, 0, 3);
            b.frontier = vec![Fr::TurnRestriction(vec![(0, 3)])];
            let mut c = ycase(b, 3, "c04-yen-restricted-turn-at-spur-junction");
            c.bf_ok = false;
            v.push(c);
        }
        Stream::C10 => {
            // Yen: 0 -> 1 -> 2 -> 3 -> 4, a six-edge detour from 1, a two-edge detour from 2; an iteration limit
            // that the first search respects and the spur search from 1 exceeds: the query is `terminated`
            // (the detours start with a long edge, so the first search — 4 expansions — never enters them;
            // the spur search from 1 needs 6 expansions, the one from 2 needs 2)
            let edges = vec![
                (0, 1, 1.0), (1, 2, 1.0), (2, 3, 1.0), (3, 4, 1.0),
                (1, 5, 10.0), (5, 6, 1.0), (6, 7, 1.0), (7, 8, 1.0), (8, 9, 1.0), (9, 4, 1.0),
                (2, 10, 20.0), (10, 4, 2.0), // dearer than the long detour: the unlimited query prefers that one
            ];
            for lim in [4u64, 5, 6, 7, 30] {
                let mut b = base_case(edges.clone(), 11, 0, 4);
                b.term = Term::Iters(lim);
                v.push(ycase(b, 2, "c10-yen-spur-search-limited"));
            }
            // single-via under limits on the grid
            for t in [Term::Iters(3), Term::Iters(6), Term::Size(3), Term::Size(50)] {
                let mut c = kcase(two_by_three_grid(), "c10-grid-limited");
                c.base.term = t;
                c.k_default = 3;
                v.push(c);
            }
        }
        Stream::C13 => {}
    }
    v
}

/// case `j` of a property's KSP stream: a pure function of (stream, seed, tier, j)
/// the edges of a shortest walk by length from `from` to `to` (Bellman–Ford over the edge list; empty when
/// there is none) — used only to PLACE restrictions where they matter, never as an expectation
fn shortest_by_length(edges: &[(usize, usize, f64)], n_v: usize, from: usize, to: usize) -> Vec<usize> {
    let mut dist = vec![f64::INFINITY; n_v];
    let mut pred: Vec<Option<usize>> = vec![None; n_v];
    if from >= n_v || to >= n_v {
        return vec![];
    }
    dist[from] = 0.0;
    for _ in 0..n_v {
        let mut changed = false;
        for (e, (u, v, l)) in edges.iter().enumerate() {
            if *u < n_v && *v < n_v && l.is_finite() && *l >= 0.0 && dist[*u] + *l < dist[*v] {
                dist[*v] = dist[*u] + *l;
                pred[*v] = Some(e);
                changed = true;
            }
        }
        if !changed {
            break;
        }
    }
    let mut path = vec![];
    let mut v = to;
    while v != from {
        match pred[v] {
            Some(e) if path.len() <= n_v => {
                path.push(e);
                v = edges[e].0;
            }
            _ => return vec![],
        }
    }
    path.reverse();
    path
}

pub fn prop_case_at(s: Stream, seed: u64, quick: bool, j: usize) -> KCase {
    let corpus = prop_corpus(s);
    if j < corpus.len() {
        return corpus[j].clone();
    }
    let mut rng = Rng::for_case(seed, s.tag(), j as u64);
    let style = match (s, rng.below(3)) {
        (Stream::C10, 0) => LenStyle::Generic, // ties in the intersection queue would make the unlimited twin differ
        (_, 0) => LenStyle::TieHeavy,
        (_, 1) => LenStyle::Generic,
        _ => LenStyle::Metric,
    };
    let max_v = if quick { 10 } else { *rng.pick(&[10usize, 14, 24]) };
    let opts = GenOpts {
        max_v,
        len_style: style,
        allow_access: matches!(s, Stream::C01 | Stream::C03 | Stream::C10),
        allow_frontier: matches!(s, Stream::C01 | Stream::C04),
        allow_term: matches!(s, Stream::C10),
        allow_speed: true,
        state_indep_cost: false,
    };
    let (coords, pairs) = gen_shape(&mut rng, max_v);
    let edges = lengths(&mut rng, &coords, pairs, style);
    let mut base = gen_case_on(&mut rng, &opts, coords, edges);
    let n_v = base.coords.len();
    let n_e = base.edges.len();
    base.reverse = false;
    base.edge_oriented = rng.chance(1, 3);
    if base.edge_oriented {
        // an origin edge near the start and a destination edge near the end of the shape
        let outs: Vec<usize> = (0..n_e).filter(|e| base.edges[*e].0 == 0).collect();
        let ins: Vec<usize> = (0..n_e).filter(|e| base.edges[*e].1 == n_v - 1).collect();
        base.source = if !outs.is_empty() && rng.chance(2, 3) { *rng.pick(&outs) } else { rng.below(n_e) };
        base.target = Some(if !ins.is_empty() && rng.chance(2, 3) { *rng.pick(&ins) } else { rng.below(n_e) });
    } else {
        base.source = if rng.chance(3, 4) { 0 } else { rng.below(n_v) };
        base.target = Some(if rng.chance(3, 4) { n_v - 1 } else { rng.below(n_v) });
    }
    if base.astar.is_some() && style != LenStyle::Metric && rng.chance(2, 3) {
        base.astar = None;
    }
    match s {
        Stream::C03 => {
            // turn delays in most cases
            if matches!(base.access, Acc::None) && rng.chance(3, 4) {
                if !base.feats.iter().any(|(n, _, _)| n == "time") {
                    base.feats.push(("time".into(), FeatK::T(*rng.pick(&TU)), 0.0));
                }
                let headings = (0..n_e).map(|_| (rng.range(0, 359) as i16, if rng.chance(1, 3) { None } else { Some(rng.range(0, 359) as i16) })).collect();
                let mut delays = [None; 8];
                for d in delays.iter_mut() {
                    *d = Some(if rng.chance(1, 4) { 0.0 } else { rng.small_decimal(30, 1) });
                }
                base.access = Acc::Turn { tu: *rng.pick(&TU), headings, delays };
            }
        }
        Stream::C04 => {
            if rng.chance(2, 3) {
                let mut ps = vec![];
                for _ in 0..(1 + rng.below(5)) {
                    let a = rng.below(n_e);
                    let nexts: Vec<usize> = (0..n_e).filter(|e| base.edges[*e].0 == base.edges[a].1).collect();
                    if !nexts.is_empty() {
                        ps.push((a, *rng.pick(&nexts)));
                    }
                }
                // restricted turns where a detour LEAVES the shortest route (by length): the pair (an edge of that
                // route, an out-edge of its head that is not the route's next edge) is the turn a spur path of Yen's
                // algorithm, or the second half of a single-via route, takes right at its junction with the root
                if rng.chance(1, 2) {
                    let (from, to) = if base.edge_oriented {
                        (base.edges[base.source].1, base.target.map(|t| base.edges[t].0).unwrap_or(0))
                    } else {
                        (base.source, base.target.unwrap_or(0))
                    };
                    let path = shortest_by_length(&base.edges, n_v, from, to);
                    for (i, a) in path.iter().enumerate() {
                        let next_on_path = path.get(i + 1).copied();
                        let detours: Vec<usize> = (0..n_e).filter(|e| base.edges[*e].0 == base.edges[*a].1 && Some(*e) != next_on_path).collect();
                        if !detours.is_empty() && rng.chance(1, 2) {
                            ps.push((*a, *rng.pick(&detours)));
                        }
                    }
                }
                if !ps.is_empty() {
                    base.frontier.push(Fr::TurnRestriction(ps));
                }
            }
        }
        Stream::C10 => {
            if matches!(&base.term, Term::Combined(ms) if ms.is_empty()) {
                base.term = match rng.below(3) {
                    0 => Term::Iters(rng.below(3 * n_v + 3) as u64),
                    1 => Term::Size(rng.below(2 * n_v + 2)),
                    _ => Term::Runtime { limit_ns: 1000 * (1 + rng.below(10)) as u64, freq: 1 + rng.below(4) as u64, base_ns: rng.below(3000) as u64, per_ns: (rng.below(4) * 700) as u64 },
                };
            }
        }
        _ => {}
    }
    let yen = rng.chance(1, if s == Stream::C10 || s == Stream::C04 { 3 } else { 6 });
    let k_default = *rng.pick(&[1usize, 2, 2, 3, 3, 4, 5, 6]);
    let sim = match rng.below(6) {
        0 | 1 | 2 => None,
        3 => Some(Sim::AcceptAll),
        4 => Some(Sim::EdgeId(*rng.pick(&[0.5, 0.75, 0.9, 1.0]))),
        _ => Some(Sim::DistW(rng.uniform(0.3, 0.98))),
    };
    let term = match rng.below(4) {
        0 | 1 => None,
        2 => Some(KTerm::Exact),
        _ => Some(KTerm::MaxIt(rng.below(8) as u64)),
    };
    let mut kc = KCase { base, yen, k_default, query_k: None, sim, term, style, bf_ok: false, label: "", cfg: None, cfg_ok: None, query_wf_json: None, silent: false };
    shape_extreme_k(&mut kc, seed, s.tag(), j as u64);
    kc
}

/// the property's own oracle on what a KSP query returned (`unlimited`: the outcome of the same query
/// without termination limits, for C10)
fn apply_prop_oracle(ctx: &mut Ctx, idx: usize, s: Stream, kc: &KCase, b: &Built, ex: &KExec, unlimited: Option<&Outcome>) {
    let mut c = kc.base.clone();
    c.reverse = false;
    let reop = reopened(&ex.scheds);
    match &ex.outcome {
        Outcome::Ok(r) => {
            ctx.count("ksp_outcome_ok");
            ctx.count(&format!("ksp_routes_{}", r.routes.len().min(7)));
            if r.routes.len() >= 2 {
                ctx.nontrivial(&k_outcome_line(&ex.outcome));
            }
            // what is judged: every route (single-via and, since its repairs, Yen alike); the forward tree
            let judged = SearchAlgorithmResult {
                trees: r.trees.iter().take(1).cloned().collect(),
                routes: r.routes.clone(),
                iterations: r.iterations,
            };
            match s {
                Stream::C01 => oracle_c01(ctx, idx, &c, &judged),
                Stream::C03 => oracle_c03(ctx, idx, &c, b, &judged, reop),
                Stream::C04 => {
                    let with_trees = SearchAlgorithmResult { trees: r.trees.clone(), routes: judged.routes.clone(), iterations: r.iterations };
                    oracle_c04(ctx, idx, &c, &with_trees, reop)
                }
                _ => {}
            }
        }
        Outcome::Err(k) => {
            ctx.count(&format!("ksp_outcome_err_{}", k.split(' ').next().unwrap_or("")));
            if k.starts_with("panic") && !k.contains("termination-frequency-zero") {
                ctx.fail(idx, "search/panic", k.clone());
            }
        }
    }
    if s == Stream::C10 {
        oracle_c10_ksp(ctx, idx, kc, ex, unlimited);
    }
}

/// C10 on a KSP query: every underlying search respects the limits, and the query either returns
/// exactly what the unlimited query returns or fails with the explicit `terminated` error
fn oracle_c10_ksp(ctx: &mut Ctx, idx: usize, kc: &KCase, ex: &KExec, unlimited: Option<&Outcome>) {
    let c = &kc.base;
    let mut ls = vec![];
    limits(&c.term, &mut ls);
    if ls.is_empty() || ex.scheds.is_empty() {
        return;
    }
    // the hook records the expansions of every run_a_star call
    for (i, expansions) in ex.expansions.iter().enumerate() {
        for l in &ls {
            if let Term::Iters(lim) = l {
                if *expansions as u64 > *lim {
                    ctx.fail(idx, "limit/iterations-exceeded", format!("underlying search #{} of the k-shortest-paths query made {} expansions under limit {}", i, expansions, lim));
                }
            }
        }
    }
    match &ex.outcome {
        Outcome::Ok(r) => {
            let Some(unl) = unlimited else { return };
            let lim_line = k_outcome_line(&ex.outcome);
            let unl_line = outcome_line(unl);
            if lim_line == unl_line {
                ctx.count("ksp_limited_equals_unlimited");
                return;
            }
            // two runs of the same single-via query may pop equal-priority intersection vertices in
            // different orders (HashMap iteration): with ties only what does not depend on that order is
            // compared — both trees, the first route and, under AcceptAll, the number of routes
            if !kc.yen && r.trees.len() == 2 && intersection_ties(r) {
                if let Outcome::Ok(ru) = unl {
                    let trees_eq = ru.trees.len() == 2 && tree_out(&ru.trees[0]) == tree_out(&r.trees[0]) && tree_out(&ru.trees[1]) == tree_out(&r.trees[1]);
                    let first_eq = match (r.routes.first(), ru.routes.first()) {
                        (Some(a), Some(b2)) => route_out(a) == route_out(b2),
                        (None, None) => true,
                        _ => false,
                    };
                    let count_eq = !matches!(kc.sim, None | Some(Sim::AcceptAll)) || r.routes.len() == ru.routes.len();
                    if trees_eq && first_eq && count_eq {
                        ctx.count("ksp_limited_equals_unlimited_up_to_tie_order");
                        return;
                    }
                }
            }
            ctx.fail(idx, "limit/result-differs-from-unlimited", format!("k-shortest-paths ({}) limited: {} unlimited: {}", if kc.yen { "yen" } else { "single-via" }, short(&lim_line), short(&unl_line)));
        }
        Outcome::Err(k) if k.starts_with("terminated") => {
            ctx.count("ksp_terminated");
            ctx.nontrivial(&format!("{} {}", idx, k));
            let named: Vec<&str> = k.trim_start_matches("terminated").trim().split(',').filter(|s| !s.is_empty()).collect();
            if named.is_empty() {
                ctx.fail(idx, "limit/terminated-without-explanation", k.clone());
            }
            for n in &named {
                let configured = ls.iter().any(|l| matches!((l, *n), (Term::Iters(_), "iterations") | (Term::Size(_), "size") | (Term::Runtime { .. }, "runtime")));
                if !configured {
                    ctx.fail(idx, "limit/names-unconfigured-limit", k.clone());
                }
            }
        }
        _ => {}
    }
}

/// two entries of the single-via intersection queue have exactly the same priority
fn intersection_ties(r: &SearchAlgorithmResult) -> bool {
    let (fwd, rev) = (&r.trees[0], &r.trees[1]);
    let mut prios: Vec<u64> = vec![];
    for (v, fb) in fwd.iter() {
        if let Some(rb) = rev.get(&fb.terminal_vertex) {
            if rev.contains_key(v) {
                let p = fb.edge_traversal.total_cost() + rb.edge_traversal.total_cost();
                prios.push(p.as_f64().to_bits());
            }
        }
    }
    let n = prios.len();
    prios.sort();
    prios.dedup();
    prios.len() < n
}

fn run_single_via_prop(ctx: &mut Ctx, idx: usize, kc: &KCase, s: Stream) {
    let c = &kc.base;
    let b = match build(c) {
        Ok(b) => b,
        Err(e) => {
            ctx.count(&format!("ksp_build_refused_{}", e.split(':').next().unwrap_or("")));
            return;
        }
    };
    let mut ex = exec_ksp(kc, &b, &kc.sim);
    fix_scheds(kc, &mut ex);
    if let Outcome::Ok(r) = &ex.outcome {
        if threshold_unstable(kc, r) {
            return;
        }
    }
    let line = format!("ksp {}", encode_k(kc, &b, &ex.scheds, &ex.pops));
    ctx.emit(idx, line, k_outcome_line(&ex.outcome));
    describe_k(ctx, kc);
    let unlimited = if s == Stream::C10 {
        let mut k2 = kc.clone();
        k2.base.term = Term::Combined(vec![]);
        build(&k2.base).ok().map(|b2| exec_ksp(&k2, &b2, &k2.sim).outcome)
    } else {
        None
    };
    if kc.silent || !crate::searchprops::outcome_finite(&ex.outcome) {
        ctx.count("correspondence_only");
        return;
    }
    apply_prop_oracle(ctx, idx, s, kc, &b, &ex, unlimited.as_ref());
}

/// the KSP stream of a search property, appended to its ordinary cases
pub fn run_prop_stream(ctx: &mut Ctx, s: Stream) {
    let n = prop_corpus(s).len() + ctx.n(160, 4000);
    let mut yen_items: Vec<(usize, usize, KCase)> = vec![];
    for j in 0..n {
        let Some(idx) = ctx.begin() else { continue };
        let kc = prop_case_at(s, ctx.seed, ctx.quick(), j);
        ctx.count("ksp_case");
        if kc.yen {
            yen_items.push((idx, j, kc));
        } else {
            run_single_via_prop(ctx, idx, &kc, s);
        }
    }
    run_yen_batch_stream(ctx, s, yen_items);
}

// ---------------------------------------------------------------------------------------------
// `kterm`: KspTerminationCriteria — deserialisation from configuration, Display, terminate_search

fn gen_u64_edge(rng: &mut Rng, near: u64) -> u64 {
    match rng.below(12) {
        0 => 0,
        1 => 1,
        2 => 2,
        3 => near,
        4 => near.saturating_sub(1),
        5 => near.saturating_add(1),
        6 => 1u64 << 31,
        7 => (1u64 << 32) + 1,
        8 => 1u64 << 53,
        9 => 1u64 << 63,
        10 => u64::MAX,
        _ => rng.next() >> rng.below(64),
    }
}

fn kterm_case(rng: &mut Rng, hand: Option<(serde_json::Value, Option<bool>, u64, u64)>) -> (serde_json::Value, Option<bool>, u64, u64) {
    if let Some(h) = hand {
        return h;
    }
    let k = gen_u64_edge(rng, 3);
    let n = if rng.chance(2, 3) { k } else { gen_u64_edge(rng, k) };
    let v = gen_u64_edge(rng, k);
    let (good, name, field) = match rng.below(3) {
        0 => (serde_json::json!({"type": "exact"}), "exact", ""),
        1 => (serde_json::json!({"type": "max_iteration", "max": v}), "max_iteration", "max"),
        _ => (serde_json::json!({"type": "factor", "factor": v}), "factor", "factor"),
    };
    match rng.below(10) {
        0 => {
            // sequence form
            let j = if field.is_empty() { serde_json::json!([name]) } else { serde_json::json!([name, v]) };
            (j, Some(true), k, n)
        }
        1 | 2 | 3 => {
            let bad = match rng.below(12) {
                0 => serde_json::json!({"max": v, "factor": v}),
                1 => serde_json::json!({"type": name.to_uppercase(), "max": v, "factor": v}),
                2 => serde_json::json!({"type": "max_iteration", "max": v as f64 + 0.5}),
                3 => serde_json::json!({"type": "factor", "factor": -((v % 1000) as i64) - 1}),
                4 => serde_json::json!({"type": "max_iteration", "max": v.to_string()}),
                5 => serde_json::json!({"type": "factor", "factor": null}),
                6 => serde_json::json!({"type": "max_iteration"}),
                7 => serde_json::json!(name),
                8 => serde_json::json!([name, v, v]),
                9 => serde_json::json!({"type": 7}),
                10 => serde_json::json!({"type": "factor", "factor": 1.0e30}),
                _ => serde_json::json!(["max_iteration"]),
            };
            (bad, Some(false), k, n)
        }
        4 => {
            // unknown keys are ignored
            let mut j = good.clone();
            j["note"] = serde_json::json!("ignored");
            j["k"] = serde_json::json!(3);
            (j, Some(true), k, n)
        }
        _ => (good, Some(true), k, n),
    }
}

fn run_kterm(ctx: &mut Ctx, n: usize) {
    let hand: Vec<(serde_json::Value, Option<bool>, u64, u64)> = vec![
        // the repaired overflow: factor 2^63 with k = 2 wrapped to 0 (release) / panicked (debug)
        (serde_json::json!({"type": "factor", "factor": 1u64 << 63}), Some(true), 2, 2),
        (serde_json::json!({"type": "factor", "factor": u64::MAX}), Some(true), 2, 2),
        (serde_json::json!({"type": "factor", "factor": u64::MAX}), Some(true), u64::MAX, u64::MAX),
        (serde_json::json!({"type": "factor", "factor": 0}), Some(true), 0, 0),
        (serde_json::json!({"type": "factor", "factor": 0}), Some(true), 2, 2),
        (serde_json::json!({"type": "factor", "factor": 1}), Some(true), 2, 2),
        (serde_json::json!({"type": "max_iteration", "max": 0}), Some(true), 0, 0),
        (serde_json::json!({"type": "max_iteration", "max": 1}), Some(true), 2, 2),
        (serde_json::json!({"type": "max_iteration", "max": 2}), Some(true), 2, 2),
        (serde_json::json!({"type": "max_iteration", "max": u64::MAX}), Some(true), u64::MAX, u64::MAX),
        (serde_json::json!({"type": "exact"}), Some(true), 0, 1),
        (serde_json::json!({"type": "exact"}), Some(true), 1, 1),
        (serde_json::json!(["exact"]), Some(true), 1, 1),
        (serde_json::json!(["exact", 1]), Some(false), 1, 1),
        (serde_json::json!([]), Some(false), 1, 1),
        (serde_json::json!({}), Some(false), 1, 1),
    ];
    let total = hand.len() + n;
    for j in 0..total {
        let Some(idx) = ctx.begin() else { continue };
        let mut rng = Rng::for_case(ctx.seed, 1313, j as u64);
        let (json, good, k, size) = kterm_case(&mut rng, hand.get(j).cloned());
        let line = format!("kterm {} {} {}", jsonproto::enc(&json), k, size);
        let parsed: Result<KspTerminationCriteria, _> = serde_json::from_value(json.clone());
        ctx.count("kterm_case");
        let out = match &parsed {
            Err(_) => {
                ctx.count("kterm_config_error");
                if good == Some(true) {
                    ctx.fail(idx, "ksp-termination/valid-configuration-refused", json.to_string());
                }
                "cfgerr".to_string()
            }
            Ok(t) => {
                if good == Some(false) {
                    ctx.fail(idx, "ksp-termination/malformed-configuration-accepted", json.to_string());
                }
                let t2 = t.clone();
                let res = std::panic::catch_unwind(std::panic::AssertUnwindSafe(|| (t2.to_string(), t2.terminate_search(k as usize, size as usize))));
                match res {
                    Err(_) => {
                        ctx.fail(idx, "ksp-termination/panic", format!("{} terminate_search({}, {})", json, k, size));
                        "panic".to_string()
                    }
                    Ok((text, stop)) => {
                        // the criteria as documented, in arithmetic that cannot overflow
                        let (want, want_text) = match t {
                            KspTerminationCriteria::Exact => (size == k, "terminate with up to k routes found".to_string()),
                            KspTerminationCriteria::MaxIteration { max } => (size == k && *max >= k, format!("terminate with {} routes found", max)),
                            KspTerminationCriteria::Factor { factor } => {
                                (size == k && (*factor as u128) * (size as u128) >= k as u128, format!("terminate with k*{} routes found", factor))
                            }
                        };
                        ctx.count(match t {
                            KspTerminationCriteria::Exact => "kterm_exact",
                            KspTerminationCriteria::MaxIteration { .. } => "kterm_max_iteration",
                            KspTerminationCriteria::Factor { .. } => "kterm_factor",
                        });
                        if stop {
                            ctx.count("kterm_stops");
                            ctx.nontrivial(&line);
                        }
                        if stop != want {
                            let overflow = matches!(t, KspTerminationCriteria::Factor { factor } if (*factor as u128) * (size as u128) > u64::MAX as u128);
                            ctx.fail(idx, if overflow { "ksp-termination/factor-overflow" } else { "ksp-termination/wrong-decision" }, format!("{} terminate_search({}, {}) = {} but the criterion says {}", json, k, size, stop, want));
                        }
                        if text != want_text {
                            ctx.fail(idx, "ksp-termination/display", format!("{} displayed as '{}'", json, text));
                        }
                        format!("ok {} {}", jsonproto::hex(&text), if stop { 1 } else { 0 })
                    }
                }
            }
        };
        ctx.emit(idx, line, out);
    }
}

// ---------------------------------------------------------------------------------------------
// `ksim`: RouteSimilarityFunction — deserialisation from configuration, rank, is_similar, test

fn run_ksim(ctx: &mut Ctx, n: usize) {
    use routee_compass_core::algorithm::search::edge_traversal::EdgeTraversal;
    let et = |e: usize| EdgeTraversal { edge_id: EdgeId(e), access_cost: Cost::ZERO, traversal_cost: Cost::ZERO, result_state: vec![] };
    // hand-written: (config, lengths, a, b)
    let hand: Vec<(serde_json::Value, Vec<f64>, Vec<usize>, Vec<usize>)> = vec![
        // routes of different norms: |a|^2 = 9 + 16, |b|^2 = 16 + 144, common edge 1: rank 16 / (5 * sqrt 160)
        (serde_json::json!({"type": "distance_weighted_cosine_similarity", "threshold": 0.25}), vec![3.0, 4.0, 12.0], vec![0, 1], vec![1, 2]),
        (serde_json::json!({"type": "distance_weighted_cosine_similarity", "threshold": 0.26}), vec![3.0, 4.0, 12.0], vec![0, 1], vec![1, 2]),
        (serde_json::json!({"type": "edge_id_cosine_similarity", "threshold": 0.5}), vec![3.0, 4.0, 12.0], vec![0, 1], vec![1, 2]),
        (serde_json::json!({"type": "edge_id_cosine_similarity", "threshold": 0.5000001}), vec![3.0, 4.0, 12.0], vec![0, 1], vec![1, 2]),
        // identical routes, thresholds at the boundaries
        (serde_json::json!({"type": "edge_id_cosine_similarity", "threshold": 1}), vec![1.0; 4], vec![0, 1, 2], vec![0, 1, 2]),
        (serde_json::json!({"type": "edge_id_cosine_similarity", "threshold": 1}), vec![1.0; 4], vec![0, 1], vec![0, 1]),
        (serde_json::json!({"type": "edge_id_cosine_similarity", "threshold": 0}), vec![1.0; 4], vec![0, 1], vec![2, 3]),
        (serde_json::json!({"type": "distance_weighted_cosine_similarity", "threshold": 1.0}), vec![3.0, 4.0, 12.0], vec![0, 1, 2], vec![0, 1, 2]),
        // empty routes, zero-length edges: 0 / 0
        (serde_json::json!({"type": "edge_id_cosine_similarity", "threshold": 0}), vec![1.0; 4], vec![], vec![0]),
        (serde_json::json!({"type": "edge_id_cosine_similarity", "threshold": 0}), vec![1.0; 4], vec![], vec![]),
        (serde_json::json!({"type": "distance_weighted_cosine_similarity", "threshold": 0}), vec![0.0, 0.0, 5.0], vec![0, 1], vec![0, 2]),
        (serde_json::json!({"type": "distance_weighted_cosine_similarity", "threshold": -1}), vec![0.0, 0.0, 5.0], vec![0, 1], vec![0, 1]),
        // an edge twice in a route counts once; an unknown edge id is a network error for the weighted variant only
        (serde_json::json!({"type": "edge_id_cosine_similarity", "threshold": 0.7}), vec![1.0; 4], vec![0, 0, 1], vec![0, 1, 1]),
        (serde_json::json!({"type": "distance_weighted_cosine_similarity", "threshold": 0.7}), vec![1.0; 2], vec![0, 7], vec![0, 1]),
        (serde_json::json!({"type": "edge_id_cosine_similarity", "threshold": 0.7}), vec![1.0; 2], vec![0, 7], vec![0, 1]),
        (serde_json::json!({"type": "accept_all"}), vec![1.0; 2], vec![0, 1], vec![0, 1]),
        (serde_json::json!(["accept_all"]), vec![1.0; 2], vec![0, 9], vec![0, 1]),
        (serde_json::json!({"type": "accept_all", "threshold": "x"}), vec![1.0; 2], vec![0], vec![1]),
        (serde_json::json!({"type": "edge_id_cosine_similarity"}), vec![1.0; 2], vec![0], vec![1]),
    ];
    let total = hand.len() + n;
    for j in 0..total {
        let Some(idx) = ctx.begin() else { continue };
        let mut rng = Rng::for_case(ctx.seed, 1314, j as u64);
        let (json, lens, a, b, good): (serde_json::Value, Vec<f64>, Vec<usize>, Vec<usize>, Option<bool>) = if let Some(h) = hand.get(j) {
            (h.0.clone(), h.1.clone(), h.2.clone(), h.3.clone(), None)
        } else {
            let n_e = 2 + rng.below(9);
            // integer lengths: every sum of products is exact, so the rank does not depend on the order in
            // which the code's HashMap / HashSet iterate
            let lens: Vec<f64> = (0..n_e).map(|_| if rng.chance(1, 8) { 0.0 } else { (1 + rng.below(40)) as f64 }).collect();
            let route = |rng: &mut Rng| -> Vec<usize> {
                let len = rng.below(7);
                (0..len).map(|_| if rng.chance(1, 40) { n_e + rng.below(3) } else { rng.below(n_e) }).collect()
            };
            let a = route(&mut rng);
            let b = if rng.chance(1, 6) { a.clone() } else { route(&mut rng) };
            let thr = match rng.below(8) {
                0 => serde_json::json!(0),
                1 => serde_json::json!(1),
                2 => serde_json::json!(1.0),
                3 => serde_json::json!(-0.5),
                4 => serde_json::json!(1.5),
                _ => serde_json::json!((rng.below(101) as f64) / 100.0),
            };
            let (json, good) = match rng.below(12) {
                0 => (serde_json::json!({"type": "accept_all"}), true),
                1 => (serde_json::json!({"type": "edge_id_cosine_similarity", "threshold": thr.to_string()}), false),
                2 => (serde_json::json!({"type": "distance_weighted_cosine", "threshold": thr}), false),
                3 => (serde_json::json!(["distance_weighted_cosine_similarity", thr]), true),
                4 | 5 | 6 => (serde_json::json!({"type": "edge_id_cosine_similarity", "threshold": thr}), true),
                _ => (serde_json::json!({"threshold": thr, "type": "distance_weighted_cosine_similarity"}), true),
            };
            (json, lens, a, b, Some(good))
        };
        let mut o: Vec<String> = vec!["ksim".into(), jsonproto::enc(&json), lens.len().to_string()];
        o.extend(lens.iter().map(|x| fbits(*x)));
        o.push(a.len().to_string());
        o.extend(a.iter().map(|x| x.to_string()));
        o.push(b.len().to_string());
        o.extend(b.iter().map(|x| x.to_string()));
        let line = o.join(" ");
        ctx.count("ksim_case");
        let parsed: Result<RouteSimilarityFunction, _> = serde_json::from_value(json.clone());
        let out = match parsed {
            Err(_) => {
                ctx.count("ksim_config_error");
                if good == Some(true) {
                    ctx.fail(idx, "similarity/valid-configuration-refused", json.to_string());
                }
                "cfgerr".to_string()
            }
            Ok(f) => {
                if good == Some(false) {
                    ctx.fail(idx, "similarity/malformed-configuration-accepted", json.to_string());
                }
                // a graph with these edge lengths (a chain; the similarity functions only read `distance`)
                let edges: Vec<(usize, usize, f64)> = lens.iter().enumerate().map(|(i, l)| (i, i + 1, *l)).collect();
                let c = base_case(edges, lens.len() + 1, 0, lens.len());
                let Ok(bt) = build(&c) else { continue };
                let ra: Vec<EdgeTraversal> = a.iter().map(|e| et(*e)).collect();
                let rb: Vec<EdgeTraversal> = b.iter().map(|e| et(*e)).collect();
                let (pa, pb): (Vec<&EdgeTraversal>, Vec<&EdgeTraversal>) = (ra.iter().collect(), rb.iter().collect());
                let f2 = f.clone();
                let res = std::panic::catch_unwind(std::panic::AssertUnwindSafe(|| {
                    let rank = f2.rank_similarity(&pa, &pb, &bt.si);
                    let rank_rev = f2.rank_similarity(&pb, &pa, &bt.si);
                    let test = f2.clone().test_similarity(&pa, &pb, &bt.si);
                    (rank, rank_rev, test)
                }));
                match res {
                    Err(_) => {
                        ctx.fail(idx, "similarity/panic", format!("{} a = {:?} b = {:?}", json, a, b));
                        "panic".to_string()
                    }
                    Ok((Ok(rank), Ok(rank_rev), Ok(test))) => {
                        let similar = f.is_similar(rank);
                        // independent computation: sorted distinct edge ids, weights by variant
                        let weighted = matches!(f, RouteSimilarityFunction::DistanceWeightedCosineSimilarity { .. });
                        let w = |e: usize| if weighted { lens[e] } else { 1.0 };
                        let want = match f {
                            RouteSimilarityFunction::AcceptAll => 0.0,
                            _ => cosine(&a, &b, &w),
                        };
                        let same = |x: f64, y: f64| (x.is_nan() && y.is_nan()) || (x - y).abs() <= 1e-12 * x.abs().max(y.abs()).max(1.0);
                        if !same(rank, want) {
                            ctx.fail(idx, "similarity/rank-differs", format!("{} a = {:?} b = {:?} lengths {:?}: rank {} but the cosine of the two routes is {}", json, a, b, lens, rank, want));
                        }
                        if !same(rank, rank_rev) {
                            ctx.fail(idx, "similarity/rank-not-symmetric", format!("{} a = {:?} b = {:?}: {} vs {}", json, a, b, rank, rank_rev));
                        }
                        let thr = match f {
                            RouteSimilarityFunction::AcceptAll => None,
                            RouteSimilarityFunction::EdgeIdCosineSimilarity { threshold } | RouteSimilarityFunction::DistanceWeightedCosineSimilarity { threshold } => Some(threshold),
                        };
                        let want_similar = thr.map_or(false, |t| rank >= t);
                        if similar != want_similar || test != similar {
                            ctx.fail(idx, "similarity/decision-differs", format!("{} rank {}: is_similar {} test_similarity {}", json, rank, similar, test));
                        }
                        ctx.count(match f {
                            RouteSimilarityFunction::AcceptAll => "ksim_accept_all",
                            RouteSimilarityFunction::EdgeIdCosineSimilarity { .. } => "ksim_edge_id",
                            RouteSimilarityFunction::DistanceWeightedCosineSimilarity { .. } => "ksim_distance_weighted",
                        });
                        if rank.is_nan() {
                            ctx.count("ksim_rank_nan");
                        } else if rank > 0.0 && rank < 0.999 {
                            ctx.count("ksim_rank_strictly_between_0_and_1");
                            ctx.nontrivial(&line);
                        }
                        if similar {
                            ctx.count("ksim_similar");
                        }
                        format!("ok {} {} {}", fbits(rank), if similar { 1 } else { 0 }, if test { 1 } else { 0 })
                    }
                    Ok((r1, _, r3)) => {
                        let e = match (r1, r3) {
                            (Err(e), _) => err_kind(&e),
                            (_, Err(e)) => err_kind(&e),
                            _ => "internal".to_string(),
                        };
                        ctx.count(&format!("ksim_err_{}", e));
                        // only an edge id outside the graph, and only when lengths are read, may fail
                        let unknown = a.iter().chain(b.iter()).any(|x| *x >= lens.len());
                        let weighted = matches!(f, RouteSimilarityFunction::DistanceWeightedCosineSimilarity { .. });
                        if !(unknown && weighted && e == "network") {
                            ctx.fail(idx, "similarity/unexpected-error", format!("{} a = {:?} b = {:?}: {}", json, a, b, e));
                        }
                        format!("err {}", e)
                    }
                }
            }
        };
        ctx.emit(idx, line, out);
    }
}

// ---------------------------------------------------------------------------------------------

fn run_single_via(ctx: &mut Ctx, idx: usize, kc: &KCase) {
    let c = &kc.base;
    let b = match build(c) {
        Ok(b) => b,
        Err(e) => {
            ctx.count(&format!("build_refused_{}", e.split(':').next().unwrap_or("")));
            return;
        }
    };
    let mut ex = exec_ksp(kc, &b, &kc.sim);
    fix_scheds(kc, &mut ex);
    if let Outcome::Ok(r) = &ex.outcome {
        if threshold_unstable(kc, r) {
            ctx.count("skipped_threshold_within_1e-9_of_a_rank");
            return;
        }
    }
    let line = encode_k(kc, &b, &ex.scheds, &ex.pops);
    let out = k_outcome_line(&ex.outcome);
    ctx.emit(idx, line, out.clone());
    describe_k(ctx, kc);
    if kc.silent || !crate::searchprops::outcome_finite(&ex.outcome) {
        ctx.count("correspondence_only");
        return;
    }
    if oracle_early(ctx, idx, kc, &ex.outcome) {
        return;
    }
    let k_eff = effective_k(kc);
    // the plain underlying search on the same query: is the query answerable at all?
    let plain = {
        let mut pc = c.clone();
        pc.reverse = false;
        exec(&pc, &b)
    };
    match &ex.outcome {
        Outcome::Ok(r) => {
            ctx.count("outcome_ok");
            ctx.count(&format!("routes_{}", r.routes.len().min(7)));
            ctx.count_n("intersection_pops", ex.pops.len() as u64);
            if r.routes.len() >= 2 {
                ctx.nontrivial(&out);
            }
            if r.routes.iter().any(|rt| rt.len() == 1) {
                ctx.count("one_edge_route");
            }
            if r.routes.iter().any(|rt| rt.len() == 2) {
                ctx.count("two_edge_route");
            }
            if reopened(&ex.scheds) {
                ctx.count("vertex_reopened");
            }
            if let Some(k) = k_eff {
                oracle_ok(ctx, idx, kc, &b, r, k, reopened(&ex.scheds));
                // the witness of the repaired defect: AcceptAll (also as the default) keeps the second route
                if kc.label.starts_with("accept-all") && r.routes.len() < 2 {
                    ctx.fail(idx, "ksp/accept-all-rejects", format!("diamond, k = 2, AcceptAll returned {} route(s)", r.routes.len()));
                }
                // 7. AcceptAll returns at least as many routes as any threshold on the same query
                if let Some(sim) = &kc.sim {
                    if threshold(sim).is_some() {
                        let aa = exec_ksp(kc, &b, &Some(Sim::AcceptAll));
                        match &aa.outcome {
                            Outcome::Ok(ra) => {
                                ctx.count("compared_with_accept_all");
                                if ra.routes.len() < r.routes.len() {
                                    ctx.fail(idx, "ksp/accept-all-returns-fewer", format!("AcceptAll returned {} routes, {:?} returned {}", ra.routes.len(), sim, r.routes.len()));
                                }
                                if ra.routes.len() > r.routes.len() {
                                    ctx.count("threshold_rejected_an_alternative");
                                }
                            }
                            Outcome::Err(k) => ctx.fail(idx, "ksp/accept-all-fails", format!("AcceptAll failed with {} where {:?} succeeded", k, sim)),
                        }
                    }
                }
            }
            // the shortest route alone (one tree) is the answer to a FAILED reverse search; it must not be
            // the answer to a reverse search stopped by a limit
            if r.trees.len() == 1 && !c.edge_oriented && inner_target(c).is_some() && inner_target(c) != Some(c.source) {
                let mut rc = c.clone();
                rc.reverse = true;
                rc.source = c.target.unwrap();
                rc.target = Some(c.source);
                let rev = exec(&rc, &b);
                if let Outcome::Err(rk) = &rev.outcome {
                    ctx.count("reverse_search_failed_shortest_route_alone");
                    if rk.starts_with("terminated") {
                        ctx.fail(idx, "ksp/single-via-reverse-limit-shortened-answer", format!("the reverse search is stopped by a limit ('{}') but single-via returned the shortest route alone instead of that error", rk));
                    }
                }
            }
            if kc.label == "reverse-search-limit-witness" {
                ctx.fail(idx, "ksp/single-via-reverse-limit-shortened-answer", "the reverse search exceeds the solution size limit but the query returned Ok".into());
            }
            if matches!(plain.outcome, Outcome::Err(_)) && inner_target(c).is_some() && !r.routes.is_empty() {
                if let Outcome::Err(pk) = &plain.outcome {
                    if pk == "nopath" {
                        ctx.fail(idx, "ksp/route-to-unreachable", "the plain search finds no path but KSP returned routes".into());
                    }
                }
            }
        }
        Outcome::Err(k) => {
            ctx.count(&format!("outcome_err_{}", k.split(' ').next().unwrap_or("")));
            if k.starts_with("panic") && !k.contains("termination-frequency-zero") {
                ctx.fail(idx, "ksp/panic", k.clone());
            }
            if kc.label == "reverse-search-limit-witness" && k != "terminated size" {
                ctx.fail(idx, "ksp/single-via-reverse-limit-shortened-answer", format!("expected the explicit 'terminated size' error, got '{}'", k));
            }
            // an answerable query must not become an error — except that a limit hit by any sub-search
            // is the explicit `terminated` error (C10, 37e54f7)
            if let (Outcome::Ok(_), Some(_), false) = (&plain.outcome, k_eff, k.starts_with("terminated")) {
                if inner_target(c).is_some() {
                    let stage = if ex.runs >= 2 && ex.pops.is_empty() { "reverse-search" } else if !ex.pops.is_empty() { "alternative" } else { "first-search" };
                    ctx.fail(
                        idx,
                        &format!("ksp/single-via-{}-failed", stage),
                        format!(
                            "the plain search answers the query ({}) but single-via returned error '{}' (stage {}, {} intersection pops; turn restrictions {:?}; limits {:?})",
                            match &plain.outcome {
                                Outcome::Ok(pr) => format!("route {:?}", pr.routes.first().map(|r| route_ids(r))),
                                _ => String::new(),
                            },
                            k,
                            stage,
                            ex.pops.len(),
                            turn_pairs(c),
                            c.term
                        ),
                    );
                }
            }
        }
    }
}

pub fn run(ctx: &mut Ctx) -> &'static str {
    let n = ctx.n(900, 14000);
    let corpus = corpus();
    let total = corpus.len() + n;
    let mut yen_items: Vec<(usize, KCase)> = vec![];
    for k in 0..total {
        let Some(idx) = ctx.begin() else { continue };
        let kc = case_at(ctx.seed, ctx.quick(), k, &corpus);
        if uses_yen(&kc) {
            yen_items.push((idx, kc));
        } else {
            run_single_via(ctx, idx, &kc);
        }
    }
    run_yen_batch(ctx, yen_items);
    run_kterm(ctx, ctx.n(300, 6000));
    run_ksim(ctx, ctx.n(500, 10000));
    "diamond chains, grids, ladders, spur paths and random digraphs with tie-heavy / generic / metric lengths; single-via and Yen (Yen only in child processes under a 1 GiB address-space limit and a 2 s timeout); k = 0..6 from configuration and from the query (also non-integer); AcceptAll (explicit and default), edge-id and distance-weighted cosine thresholds; Exact / MaxIteration / Factor; Dijkstra and A* underlying; vertex and edge orientation; turn delays, turn restrictions, other frontier models and termination limits; non-trivial = successful query returning at least two routes, distinct by full output; one generated single-via case in eight (constructed in code) is pushed into a region the generators never reach (searchprops::shape_extreme: out-of-range coordinates, zero lengths and speeds with the oracles on; 0, -0, negative, 1e308, +-inf, NaN, subnormal numbers and extreme limits as correspondence-only cases, the oracles silent)"
}
