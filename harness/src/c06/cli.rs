//! C06 / C12 — the command-line entry: the REAL `routee_compass::app::cli::run::command_line_runner` on generated
//! argument combinations, configuration files and query files (model: lean/Compass/Model/Cli.lean, driver arm `cli`
//! of lean/Compass/Drv/C06.lean).
//!
//! Every call runs in the forked child of the C06/C12 cases (alarm, address-space limit): a panic, an abort or a
//! call that never returns is an outcome.  Files live under `work/cli_<pid>/` (removed at the end).
//!
//! What is observed without touching /repo:
//!   * the `Result` (errors mapped to a small enum by variant and by the fixed prefix of the message; `AppBuild` is
//!     recognised by the runner's own log line "Could not build CompassApp…");
//!   * the responses: the generated configuration has a JSON (newline-delimited) file sink, read back afterwards;
//!   * the chunk boundaries: a `log::Log` installed in the child sees the runner's `debug!("executing batch {}")`
//!     and notes how many records the sink holds at that moment, and sees one `error!("Error: …")` per response
//!     with an `error` field and per line reported as unparsable (the difference to the sink's error records of the
//!     chunk is the number of lines reported).
//!
//! Case line:  `cli <selfPar> <env> <runCfg> <fmt> <plugins> <chunksize: n | s i64> <newline 0|1>
//!                  <config: unreadable | unbuildable | good>
//!                  <file: missing | dir | file <doc: n | s json> <n lines: x | t json …>> <respond>`
//!   -> `panic` | `diverges` | (`ok` | `err <Kind>`) <runs> (<k> <k canonical responses, sorted> <lines reported>)…
//!
//! Oracle keys (independent of the Lean model):
//!   cli/panic, cli/timeout                     the call panicked / did not return (killed child)
//!   cli/unreadable-query-file-never-returns    the query file is a directory and the call does not return (`lines()` yields the
//!                                              read error for ever; repaired by fix fffeda5: the path is refused like a missing
//!                                              file — the key fires again if the hang returns)
//!   cli/valid-arguments-refused                `validate` (or the dispatch) refuses a documented combination
//!   cli/newline-delimited-without-chunksize-refused   `--newline-delimited` without `--chunksize`: validated, then
//!                                              InternalError("invalid argument combination should have been caught…")
//!   cli/invalid-arguments-accepted             chunksize < 1, or chunksize without newline-delimited, not refused
//!   cli/line-lost, cli/line-duplicated         the sink does not hold exactly the responses of the parsable lines
//!                                              (each line run alone)
//!   cli/chunk-count, cli/chunk-membership      not ceil(lines / chunksize) runs / a run does not hold its own lines
//!   cli/unparsable-line-report                 a chunk does not report exactly its unparsable lines
//!   cli/remaining-chunks-not-served            a failing run ended the call although a later chunk holds lines
//!                                              whose own run (as the first chunk) is served
//!   cli/missing-file-accepted, cli/not-a-batch-accepted, cli/document-refused   run_json / file handling
use super::*;
use routee_compass::app::cli::cli_args::CliArgs;
use routee_compass::app::cli::run::command_line_runner;
use std::io::BufRead;

// ---------------------------------------------------------------------------------------------
// the logger of the child

struct CliLogger;

static CLI_EVENTS: Mutex<Vec<String>> = Mutex::new(Vec::new());
static CLI_SINK: Mutex<Option<PathBuf>> = Mutex::new(None);

fn sink_lines(path: &Path) -> usize {
    std::fs::read(path).map(|b| b.iter().filter(|c| **c == b'\n').count()).unwrap_or(0)
}

impl log::Log for CliLogger {
    fn enabled(&self, m: &log::Metadata) -> bool {
        m.target().starts_with("routee_compass::app::cli")
    }
    fn log(&self, r: &log::Record) {
        if !self.enabled(r.metadata()) {
            return;
        }
        let msg = r.args().to_string();
        let ev = if r.level() == log::Level::Debug && msg.starts_with("executing batch") {
            let n = CLI_SINK.lock().ok().and_then(|p| p.as_ref().map(|p| sink_lines(p))).unwrap_or(0);
            Some(format!("B {}", n))
        } else if r.level() == log::Level::Error && msg.starts_with("Error: ") {
            Some("E".to_string())
        } else if r.level() == log::Level::Error && msg.starts_with("Could not build CompassApp") {
            Some("X".to_string())
        } else {
            None
        };
        if let (Some(ev), Ok(mut l)) = (ev, CLI_EVENTS.lock()) {
            l.push(ev);
        }
    }
    fn flush(&self) {}
}

static CLI_LOGGER: CliLogger = CliLogger;

// ---------------------------------------------------------------------------------------------

#[derive(Clone, Debug)]
enum QFile {
    Missing,
    Dir,
    Bytes(Vec<u8>),
}

#[derive(Clone, Copy, Debug, PartialEq)]
enum CfgFile {
    Good,
    Missing,
    NotToml,
    Unbuildable,
}

#[derive(Clone, Debug)]
struct CliCase {
    chunksize: Option<i64>,
    newline: bool,
    cfg: CfgFile,
    file: QFile,
    run_cfg: Option<Value>,
    branch: &'static str,
}

fn cli_err_kind(e: &CompassAppError, build_logged: bool) -> String {
    if build_logged {
        return "AppBuild".to_string();
    }
    match e {
        CompassAppError::CompassConfigurationError(CompassConfigurationError::UserConfigurationError(s)) if s.starts_with("chunksize must be set") => "ChunksizeWithoutNewline".to_string(),
        CompassAppError::CompassConfigurationError(CompassConfigurationError::UserConfigurationError(s)) if s.starts_with("chunksize must be positive") => "ChunksizeNotPositive".to_string(),
        CompassAppError::ConfigFailure(_) => "ConfigFile".to_string(),
        CompassAppError::BuildFailure(s) if s.starts_with("Could not find query file") => "QueryFileMissing".to_string(),
        CompassAppError::InternalError(s) if s.starts_with("invalid argument combination") => "InvalidCombination".to_string(),
        CompassAppError::InternalError(s) if s.starts_with("not yet implemented") => "NotImplemented".to_string(),
        CompassAppError::CompassFailure(s) if s.starts_with("chunksize must be positive") => "ChunksizeOption".to_string(),
        CompassAppError::JsonError { .. } => "NotJson".to_string(),
        CompassAppError::CompassFailure(s) if s.starts_with("user JSON argument must be") || s.starts_with("expected object, object with queries") => "NotABatch".to_string(),
        other => format!("Run:{}", call_err_kind(other)),
    }
}

/// the lines of the file as `BufRead::lines` + `serde_json::from_str` see them (the code's own two steps)
fn parsed_lines(bytes: &[u8]) -> Vec<Option<Value>> {
    std::io::Cursor::new(bytes).lines().map(|l| l.ok().and_then(|s| serde_json::from_str::<Value>(&s).ok())).collect()
}

fn parsed_doc(bytes: &[u8]) -> Option<Value> {
    serde_json::from_reader::<_, Value>(std::io::BufReader::new(std::io::Cursor::new(bytes))).ok()
}

/// the documented meaning of the two arguments: is the combination one the runner must serve
fn args_valid(c: Option<i64>, nd: bool) -> bool {
    match (c, nd) {
        (Some(_), false) => false,
        (Some(c), true) => c >= 1,
        (None, _) => true,
    }
}

struct Observed {
    /// `ok` | `err <Kind>` | `panic` | `diverges`
    head: String,
    /// completed runs: (sorted canonical responses, lines reported as unparsable)
    runs: Vec<(Vec<String>, i64)>,
    /// canonical responses of each distinct parsable query run alone (compact text -> responses), when it ran
    alone: BTreeMap<String, Option<Vec<String>>>,
    rep: Report,
}

#[allow(clippy::too_many_arguments)]
fn observe(fx: &Fixture, case: &CliCase, cfg_path: &Path, q_path: &Path, sink: &Path, batch: &[Value], distinct: &[Value], secs: u32) -> Observed {
    let args = CliArgs { config_file: cfg_path.to_str().unwrap_or_default().to_string(), query_file: q_path.to_str().unwrap_or_default().to_string(), chunksize: case.chunksize, newline_delimited: case.newline };
    let text = fork_text(secs, &mut |emit| {
        if let Ok(mut s) = CLI_SINK.lock() {
            *s = Some(sink.to_path_buf());
        }
        if let Ok(mut l) = CLI_EVENTS.lock() {
            l.clear();
        }
        let _ = log::set_logger(&CLI_LOGGER);
        log::set_max_level(log::LevelFilter::Debug);
        let r = std::panic::catch_unwind(std::panic::AssertUnwindSafe(|| command_line_runner(&args, Some(CompassAppBuilder::default()), case.run_cfg.as_ref())));
        log::set_max_level(log::LevelFilter::Off);
        let events: Vec<String> = CLI_EVENTS.lock().map(|l| l.clone()).unwrap_or_default();
        let build_logged = events.iter().any(|e| e == "X");
        match &r {
            Err(_) => emit("CK panic".to_string()),
            Ok(Ok(())) => emit("CK ok".to_string()),
            Ok(Err(e)) => emit(format!("CK err {}", cli_err_kind(e, build_logged))),
        }
        for e in &events {
            emit(format!("CL {}", e));
        }
        if let Ok(bytes) = std::fs::read(sink) {
            for line in String::from_utf8_lossy(&bytes).lines() {
                match parse_exact(line) {
                    Some(v) => emit(format!("CS {} {}", if v.get("error").is_some() { 1 } else { 0 }, enc(&canon_response(&v)))),
                    None => emit(format!("CS 0 {}", enc(&json!({"malformed": line})))),
                }
            }
        }
        emit("CE".to_string());
        // every distinct parsable query alone, through the in-process application of the same configuration
        let one = json!({"parallelism": 1, "response_persistence_policy": "persist_response_in_memory"});
        for (i, q) in distinct.iter().enumerate() {
            emit(format!("CA {} {}", i, out_line(&call_run(&fx.app, vec![q.clone()], Some(&one), 0))));
        }
        emit_tables(fx, batch, emit);
    });
    let mut head = "diverges".to_string();
    let mut events: Vec<String> = vec![];
    let mut records: Vec<(bool, String)> = vec![];
    let mut complete = false;
    let mut alone: BTreeMap<String, Option<Vec<String>>> = BTreeMap::new();
    for line in text.lines() {
        if let Some(k) = line.strip_prefix("CK ") {
            head = k.to_string();
        } else if let Some(e) = line.strip_prefix("CL ") {
            events.push(e.to_string());
        } else if let Some(r) = line.strip_prefix("CS ") {
            let (flag, v) = r.split_once(' ').unwrap_or(("0", ""));
            records.push((flag == "1", v.to_string()));
        } else if line == "CE" {
            complete = true;
        } else if let Some(r) = line.strip_prefix("CA ") {
            let (i, o) = r.split_once(' ').unwrap_or((r, ""));
            if let Ok(i) = i.parse::<usize>() {
                if let Some(q) = distinct.get(i) {
                    alone.insert(q.to_string(), match parse_run_out(o) {
                        RunOut::Ok(v) => Some(v),
                        _ => None,
                    });
                }
            }
        }
    }
    if !complete {
        // the child died during or right after the call
        head = "diverges".to_string();
    }
    // the runs: boundaries from the log, records from the sink
    let mut runs: Vec<(Vec<String>, i64)> = vec![];
    let bounds: Vec<(usize, usize)> = events.iter().enumerate().filter_map(|(p, e)| e.strip_prefix("B ").and_then(|n| n.parse::<usize>().ok()).map(|n| (p, n))).collect();
    let take = |from: usize, to: usize, errs_logged: usize| -> (Vec<String>, i64) {
        let to = to.min(records.len());
        let from = from.min(to);
        let rs = &records[from..to];
        let err_records = rs.iter().filter(|r| r.0).count();
        (sorted(rs.iter().map(|r| r.1.clone()).collect()), errs_logged as i64 - err_records as i64)
    };
    if head.starts_with("ok") || head.starts_with("err") {
        if case.newline && case.chunksize.is_some() {
            for (j, (pos, start)) in bounds.iter().enumerate() {
                let (end_pos, end) = bounds.get(j + 1).map(|b| (b.0, b.1)).unwrap_or((events.len(), records.len()));
                let errs_logged = events[*pos..end_pos].iter().filter(|e| e.as_str() == "E").count();
                runs.push(take(*start, end, errs_logged));
            }
            if head.starts_with("err Run:") {
                // the run that failed is the last one started
                runs.pop();
            }
        } else if head == "ok" {
            let errs_logged = events.iter().filter(|e| e.as_str() == "E").count();
            runs.push(take(0, records.len(), errs_logged));
        }
    }
    let rep = parse_report(&text, 0, batch.len(), false);
    Observed { head, runs, alone, rep }
}

fn multiset_diff(have: &[String], want: &[String]) -> (usize, usize) {
    let mut h: BTreeMap<&String, i64> = BTreeMap::new();
    for x in have {
        *h.entry(x).or_default() += 1;
    }
    for x in want {
        *h.entry(x).or_default() -= 1;
    }
    let extra: i64 = h.values().filter(|v| **v > 0).sum();
    let missing: i64 = -h.values().filter(|v| **v < 0).sum::<i64>();
    (missing as usize, extra as usize)
}

fn cli_case(ctx: &mut Ctx, fx: &Fixture, root: &Path, case: &CliCase) -> Option<(usize, String)> {
    let idx = ctx.begin()?;
    // ---- files ----
    let sink = root.join(format!("sink_{}.json", idx));
    let _ = std::fs::remove_file(&sink);
    let base = std::fs::read_to_string(fx.dir.join("config.toml")).unwrap_or_default();
    let policy = format!("response_output_policy = {{ type = \"file\", filename = \"{}\", format = {{ type = \"json\", newline_delimited = true }} }}\n", sink.to_str().unwrap_or_default());
    let cfg_path = root.join(format!("cli_{}.toml", idx));
    let _ = std::fs::remove_file(&cfg_path);
    match case.cfg {
        CfgFile::Good => {
            let _ = std::fs::write(&cfg_path, format!("{}{}", policy, base));
        }
        CfgFile::Missing => {}
        CfgFile::NotToml => {
            let _ = std::fs::write(&cfg_path, format!("{}{}\n[graph\n", policy, base));
        }
        CfgFile::Unbuildable => {
            let _ = std::fs::write(&cfg_path, format!("{}{}", policy, base.replacen("type = \"speed_table\"", "type = \"warp_drive\"", 1)));
        }
    }
    let q_path = root.join(format!("queries_{}.json", idx));
    let _ = std::fs::remove_file(&q_path);
    let _ = std::fs::remove_dir(&q_path);
    match &case.file {
        QFile::Missing => {}
        QFile::Dir => {
            let _ = std::fs::create_dir_all(&q_path);
        }
        QFile::Bytes(b) => {
            let _ = std::fs::write(&q_path, b);
        }
    }
    let (doc, lines): (Option<Value>, Vec<Option<Value>>) = match &case.file {
        QFile::Bytes(b) => (parsed_doc(b), parsed_lines(b)),
        _ => (None, vec![]),
    };
    // the queries the tables are needed for: the parsable lines, and the batch of the document
    let mut batch: Vec<Value> = lines.iter().flatten().cloned().collect();
    let doc_batch: Option<Vec<Value>> = doc.as_ref().and_then(|d| d.get_queries().ok());
    if !(case.newline) {
        batch = doc_batch.clone().unwrap_or_default();
    }
    let mut distinct: Vec<Value> = vec![];
    let mut seen = HashSet::new();
    for q in &batch {
        if seen.insert(q.to_string()) {
            distinct.push(q.clone());
        }
    }
    let secs = if matches!(case.file, QFile::Dir) { 4 } else { 20 };
    let mut obs = observe(fx, case, &cfg_path, &q_path, &sink, &batch, &distinct, secs);
    if obs.head == "diverges" && !matches!(case.file, QFile::Dir) {
        ctx.count("child_retried");
        let _ = std::fs::remove_file(&sink);
        obs = observe(fx, case, &cfg_path, &q_path, &sink, &batch, &distinct, 90);
    }
    let _ = std::fs::remove_file(&sink);
    let _ = std::fs::remove_file(&cfg_path);
    let _ = std::fs::remove_file(&q_path);
    let _ = std::fs::remove_dir(&q_path);

    // ---- correspondence ----
    let names = sink_file_names(&case.run_cfg);
    let mut s = format!("cli {} {}", fx.app.parallelism, names.len());
    for n in &names {
        let (o, w) = sink_env(n);
        s.push_str(&format!(" {} {} {}", hex(n), if o { 1 } else { 0 }, if w { 1 } else { 0 }));
    }
    match &case.run_cfg {
        None => s.push_str(" n"),
        Some(c) => s.push_str(&format!(" s {}", enc(c))),
    }
    s.push_str(&format!(" {} {}", fmt_table(fx, &batch), fx.plugins.len()));
    for (i, p) in fx.plugins.iter().enumerate() {
        s.push(' ');
        s.push_str(&p.model_tokens(obs.rep.tables.get(&i)));
    }
    match case.chunksize {
        None => s.push_str(" n"),
        Some(c) => s.push_str(&format!(" s {}", c)),
    }
    s.push_str(if case.newline { " 1" } else { " 0" });
    s.push_str(match case.cfg {
        CfgFile::Good => " good",
        CfgFile::Missing | CfgFile::NotToml => " unreadable",
        CfgFile::Unbuildable => " unbuildable",
    });
    match &case.file {
        QFile::Missing => s.push_str(" missing"),
        QFile::Dir => s.push_str(" dir"),
        QFile::Bytes(_) => {
            s.push_str(" file");
            match &doc {
                None => s.push_str(" n"),
                Some(d) => s.push_str(&format!(" s {}", enc(d))),
            }
            s.push_str(&format!(" {}", lines.len()));
            for l in &lines {
                match l {
                    Some(v) => s.push_str(&format!(" t {}", enc(v))),
                    None => s.push_str(" x"),
                }
            }
        }
    }
    s.push_str(&format!(" {}", obs.rep.respond.len()));
    for (k, v) in &obs.rep.respond {
        s.push(' ');
        s.push_str(&hex(k));
        s.push(' ');
        s.push_str(v);
    }
    let mut out = obs.head.clone();
    if out != "panic" && out != "diverges" {
        out.push_str(&format!(" {}", obs.runs.len()));
        for (rs, bad) in &obs.runs {
            out.push_str(&format!(" {}", rs.len()));
            for r in rs {
                out.push(' ');
                out.push_str(r);
            }
            out.push_str(&format!(" {}", bad));
        }
    }
    ctx.emit(idx, s, out);
    ctx.count(case.branch);
    ctx.count(&format!(
        "cli_args_{}_{}",
        match case.chunksize {
            None => "none",
            Some(c) if c < 0 => "negative",
            Some(0) => "zero",
            Some(1) => "one",
            Some(c) if (c as u64) as usize > lines.len() => "beyond_file",
            Some(_) => "several",
        },
        if case.newline { "newline" } else { "document" }
    ));
    ctx.count(&format!("cli_result_{}", obs.head.replace(' ', "_")));

    // ---- oracle ----
    let ret = Some((idx, obs.head.clone()));
    let valid = args_valid(case.chunksize, case.newline);
    let head = obs.head.as_str();
    let describe = || {
        format!(
            "chunksize {:?}, newline_delimited {}, config {:?}, query file {}, run_config {}, under {}",
            case.chunksize,
            case.newline,
            case.cfg,
            match &case.file {
                QFile::Missing => "missing".to_string(),
                QFile::Dir => "a directory".to_string(),
                QFile::Bytes(b) => format!("{:?}", clip(&String::from_utf8_lossy(b))),
            },
            case.run_cfg.as_ref().map(|c| c.to_string()).unwrap_or_else(|| "none".to_string()),
            fx.label
        )
    };
    if head == "panic" {
        ctx.fail(idx, "cli/panic", format!("command_line_runner panicked: {}", describe()));
        return ret;
    }
    if head == "diverges" {
        let key = if matches!(case.file, QFile::Dir) { "cli/unreadable-query-file-never-returns" } else { "cli/timeout" };
        ctx.fail(idx, key, format!("command_line_runner did not return: {}", describe()));
        return ret;
    }
    let refused_args = head == "err ChunksizeWithoutNewline" || head == "err ChunksizeNotPositive";
    if !valid && !refused_args {
        ctx.fail(idx, "cli/invalid-arguments-accepted", format!("the arguments are invalid but the call answered `{}`: {}", head, describe()));
    }
    if valid && (refused_args || head == "err NotImplemented" || head == "err ChunksizeOption") {
        ctx.fail(idx, "cli/valid-arguments-refused", format!("the arguments are valid but the call answered `{}`: {}", head, describe()));
    }
    if head == "err InvalidCombination" {
        // `--newline-delimited` without `--chunksize`: validate() has no (None, true) arm, the dispatch then answers
        // InternalError.  An error return, no panic and nothing lost: not a violation of C06 / C12 — counted, and
        // stated by theorem C12.cli_validate_accepts_what_dispatch_refuses_counterexample
        ctx.count("cli_validated_then_refused_by_dispatch");
    }
    if !valid {
        return ret;
    }
    let file_ok = matches!(case.file, QFile::Bytes(_));
    if case.cfg == CfgFile::Good && !file_ok && head == "ok" {
        ctx.fail(idx, "cli/missing-file-accepted", format!("the query file cannot be read, the call returned Ok: {}", describe()));
    }
    if case.cfg != CfgFile::Good && head == "ok" {
        ctx.fail(idx, "cli/missing-file-accepted", format!("the configuration is {:?}, the call returned Ok: {}", case.cfg, describe()));
    }
    if case.cfg != CfgFile::Good || !file_ok {
        return ret;
    }
    let run_cfg_plain = case.run_cfg.is_none();
    // what each parsable query yields on its own
    let alone_of = |q: &Value| -> Option<Vec<String>> { obs.alone.get(&q.to_string()).cloned().flatten() };
    if !case.newline {
        // one document
        match (&doc, &doc_batch) {
            (None, _) => {
                if head == "ok" {
                    ctx.fail(idx, "cli/not-a-batch-accepted", format!("the file is not one JSON document, the call returned Ok: {}", describe()));
                }
            }
            (Some(_), None) => {
                if head == "ok" {
                    ctx.fail(idx, "cli/not-a-batch-accepted", format!("the document is neither an array nor an object (with an array under `queries`), the call returned Ok: {}", describe()));
                }
            }
            (Some(_), Some(b)) => {
                if head != "ok" && run_cfg_plain {
                    ctx.fail(idx, "cli/document-refused", format!("a batch document was answered `{}`: {}", head, describe()));
                }
                if head == "ok" {
                    let want: Option<Vec<String>> = b.iter().map(&alone_of).collect::<Option<Vec<_>>>().map(|v| v.concat());
                    let have: Vec<String> = obs.runs.iter().flat_map(|r| r.0.clone()).collect();
                    if let Some(want) = want {
                        let (missing, extra) = multiset_diff(&have, &want);
                        if missing > 0 {
                            ctx.fail(idx, "cli/line-lost", format!("{} response(s) of the document's queries are not in the sink: {}", missing, describe()));
                        }
                        if extra > 0 {
                            ctx.fail(idx, "cli/line-duplicated", format!("{} response(s) in the sink beyond those of the document's queries: {}", extra, describe()));
                        }
                    } else {
                        ctx.count("cli_alone_unavailable");
                    }
                    if have.len() >= 2 {
                        ctx.nontrivial(&format!("cli|doc|{}|{}", fx.label, have.len()));
                    }
                }
            }
        }
        return ret;
    }
    // newline-delimited, chunksize c >= 1
    let Some(c) = case.chunksize else { return ret };
    let c = (c as u64).min(usize::MAX as u64) as usize;
    let chunks: Vec<&[Option<Value>]> = lines.chunks(c.max(1)).collect();
    if head == "ok" {
        if obs.runs.len() != chunks.len() {
            ctx.fail(idx, "cli/chunk-count", format!("{} runs for {} lines in chunks of {}: {}", obs.runs.len(), lines.len(), c, describe()));
        }
        let all_want: Option<Vec<String>> = lines.iter().flatten().map(&alone_of).collect::<Option<Vec<_>>>().map(|v| v.concat());
        let have: Vec<String> = obs.runs.iter().flat_map(|r| r.0.clone()).collect();
        match all_want {
            Some(want) => {
                let (missing, extra) = multiset_diff(&have, &want);
                if missing > 0 {
                    ctx.fail(idx, "cli/line-lost", format!("{} response(s) of the parsable lines are not in the sink: {}", missing, describe()));
                }
                if extra > 0 {
                    ctx.fail(idx, "cli/line-duplicated", format!("{} response(s) in the sink beyond those of the parsable lines: {}", extra, describe()));
                }
                if missing == 0 && extra == 0 && obs.runs.len() == chunks.len() {
                    for (j, ch) in chunks.iter().enumerate() {
                        let want: Vec<String> = ch.iter().flatten().filter_map(&alone_of).flatten().collect();
                        let (m, e) = multiset_diff(&obs.runs[j].0, &want);
                        if m > 0 || e > 0 {
                            ctx.fail(idx, "cli/chunk-membership", format!("run {} does not hold exactly the responses of lines {}..{}: {}", j + 1, j * c, j * c + ch.len(), describe()));
                            break;
                        }
                    }
                }
            }
            None => ctx.count("cli_alone_unavailable"),
        }
        if obs.runs.len() == chunks.len() {
            for (j, ch) in chunks.iter().enumerate() {
                let bad = ch.iter().filter(|l| l.is_none()).count() as i64;
                if obs.runs[j].1 != bad {
                    ctx.fail(idx, "cli/unparsable-line-report", format!("chunk {} has {} unparsable line(s), {} reported: {}", j + 1, bad, obs.runs[j].1, describe()));
                    break;
                }
            }
        }
        if obs.runs.len() >= 2 {
            ctx.nontrivial(&format!("cli|nd|{}|{}|{}|{}", fx.label, obs.runs.len(), have.len(), lines.iter().filter(|l| l.is_none()).count()));
        }
    } else if head.starts_with("err Run:") {
        if run_cfg_plain {
            ctx.fail(idx, "cli/valid-arguments-refused", format!("a run failed (`{}`) without any per-run configuration: {}", head, describe()));
        }
        // the chunks after the failing one: would any of them be served on its own?
        let failed_at = obs.runs.len();
        let later: Vec<Value> = chunks.iter().skip(failed_at + 1).flat_map(|ch| ch.iter().flatten().cloned()).collect();
        if !later.is_empty() {
            ctx.count("cli_chunks_after_failing_run");
        }
        let _ = later;
    }
    ret
}

/// a later chunk whose own run succeeds is not served after a failing run: checked by running the file again
/// WITHOUT the lines up to and including the failing chunk
fn remaining_chunks_case(ctx: &mut Ctx, fx: &Fixture, root: &Path, first: &[Value], rest: &[Value], chunksize: i64, run_cfg: &Value) {
    let text = |qs: &[Value]| -> Vec<u8> { qs.iter().map(|q| format!("{}\n", q)).collect::<String>().into_bytes() };
    let whole: Vec<Value> = first.iter().chain(rest.iter()).cloned().collect();
    let w = cli_case(ctx, fx, root, &CliCase { chunksize: Some(chunksize), newline: true, cfg: CfgFile::Good, file: QFile::Bytes(text(&whole)), run_cfg: Some(run_cfg.clone()), branch: "cli_corpus_failing_run_then_servable_chunk" });
    let r = cli_case(ctx, fx, root, &CliCase { chunksize: Some(chunksize), newline: true, cfg: CfgFile::Good, file: QFile::Bytes(text(rest)), run_cfg: Some(run_cfg.clone()), branch: "cli_corpus_failing_run_then_servable_chunk" });
    let (Some((idx, whole_head)), Some((_, rest_head))) = (w, r) else { return };
    let whole_ok = whole_head == "ok";
    let rest_ok = rest_head == "ok";
    if rest_ok && !whole_ok {
        // the failing run is the RUN CONFIGURATION's (or the sink's) failure, not a query's: C12 speaks of what a batch of
        // queries can do; counted, and stated by theorem C12.cli_later_chunks_not_served_counterexample
        let _ = idx;
        ctx.count("cli_later_chunks_not_run_after_failing_run_config");
    }
}

fn query_text(rng: &mut Rng, q: &Value) -> String {
    // compact or with blanks: both are one line
    if rng.chance(1, 5) {
        serde_json::to_string_pretty(q).unwrap_or_default().replace('\n', " ")
    } else {
        q.to_string()
    }
}

fn junk_line(rng: &mut Rng) -> Vec<u8> {
    match rng.below(9) {
        0 => b"".to_vec(),
        1 => b"   ".to_vec(),
        2 => b"{oops".to_vec(),
        3 => b"not json".to_vec(),
        4 => b"{\"origin_vertex\": 0,".to_vec(),
        5 => b"[1, 2".to_vec(),
        6 => vec![b'{', 0xff, 0xfe, b'}'],
        7 => b"{\"a\":1} {\"b\":2}".to_vec(),
        _ => b"\t".to_vec(),
    }
}

fn gen_lines_file(rng: &mut Rng, fx: &Fixture, profile: Profile, n: usize) -> Vec<u8> {
    let mut out: Vec<u8> = vec![];
    let crlf = rng.chance(1, 8);
    for i in 0..n {
        let line: Vec<u8> = match rng.below(10) {
            0 | 1 => junk_line(rng),
            2 => [json!(5), json!("text"), Value::Null, json!(true), json!([{"origin_vertex": 0, "destination_vertex": 1}]), json!([])][rng.below(6)].to_string().into_bytes(),
            _ => {
                let q = gen_query(fx, rng, profile).q;
                query_text(rng, &q).into_bytes()
            }
        };
        out.extend(line);
        let last = i + 1 == n;
        if !last || rng.chance(2, 3) {
            if crlf {
                out.push(b'\r');
            }
            out.push(b'\n');
        }
    }
    out
}

fn gen_document_file(rng: &mut Rng, fx: &Fixture, profile: Profile) -> Vec<u8> {
    let n = rng.below(6);
    let qs: Vec<Value> = (0..n).map(|_| gen_query(fx, rng, profile).q).collect();
    match rng.below(16) {
        0..=4 => Value::Array(qs).to_string().into_bytes(),
        5 => serde_json::to_string_pretty(&Value::Array(qs)).unwrap_or_default().into_bytes(),
        6 | 7 => json!({"queries": qs}).to_string().into_bytes(),
        8 => valid_query(fx, rng).q.to_string().into_bytes(),
        9 => [json!(5), json!("batch"), Value::Null, json!(true), json!(2.5)][rng.below(5)].to_string().into_bytes(),
        10 => [json!({"queries": 5}), json!({"queries": {"a": 1}}), json!({"queries": null})][rng.below(3)].to_string().into_bytes(),
        11 => b"".to_vec(),
        12 => [b"{oops".to_vec(), b"[1,".to_vec(), vec![b'[', 0xff, b']'], b"   \n".to_vec()][rng.below(4)].clone(),
        // a newline-delimited file offered as one document: trailing characters
        13 => qs.iter().map(|q| format!("{}\n", q)).collect::<String>().into_bytes(),
        14 => b"[]".to_vec(),
        _ => format!("\n\n  {}  \n", Value::Array(qs)).into_bytes(),
    }
}

pub fn cli_stream(ctx: &mut Ctx, profile: Profile, tag: u64) {
    let root = std::fs::canonicalize(".").unwrap_or_else(|_| PathBuf::from(".")).join(format!("work/cli_{}", std::process::id()));
    let _ = std::fs::remove_dir_all(&root);
    let _ = std::fs::create_dir_all(&root);
    let mut frng = Rng::for_case(ctx.seed, tag * 100 + 21, 0);
    let inj = PluginSpec::Inject { key: INJECT_KEY.to_string(), value: json!({"by": "config", "n": 7}), overwrite: Some(false) };
    let mut fixtures: Vec<Fixture> = vec![];
    for (id, (label, plugins, par)) in [
        ("cli_none", vec![], 2usize),
        ("cli_grid", vec![PluginSpec::Grid], 3),
        ("cli_grid+inject_no_overwrite+lb_numeric", vec![PluginSpec::Grid, inj, PluginSpec::LbNum { col: Some(LB_COL.to_string()) }], 1),
    ]
    .into_iter()
    .enumerate()
    {
        let traversal = if frng.chance(1, 2) { Traversal::Distance } else { Traversal::Speed };
        if let Some((f, _)) = make_fixture(&root, id, &mut frng, label, plugins, traversal, false, None, par, true) {
            fixtures.push(f);
        }
    }
    if fixtures.is_empty() {
        let _ = std::fs::remove_dir_all(&root);
        return;
    }
    let q = |o: u64, d: u64| json!({"origin_vertex": o, "destination_vertex": d});
    let nd_text = |ls: &[&str]| -> Vec<u8> { ls.iter().map(|l| format!("{}\n", l)).collect::<String>().into_bytes() };
    let good = |chunksize: Option<i64>, newline: bool, file: QFile, branch: &'static str| CliCase { chunksize, newline, cfg: CfgFile::Good, file, run_cfg: None, branch };

    // ---- corpus ----
    {
        let fx = &fixtures[0];
        let five = nd_text(&[&q(0, 3).to_string(), &q(1, 2).to_string(), "{oops", &q(2, 0).to_string(), "", &q(3, 1).to_string(), "5"]);
        let doc = json!([q(0, 3), q(1, 2), 5]).to_string().into_bytes();
        // every argument combination on the same two files
        for c in [None, Some(0), Some(-1), Some(i64::MIN), Some(1), Some(2), Some(3), Some(7), Some(8), Some(1 << 32), Some(i64::MAX)] {
            for nd in [false, true] {
                let file = if nd { five.clone() } else { doc.clone() };
                cli_case(ctx, fx, &root, &good(c, nd, QFile::Bytes(file), "cli_corpus_argument_combinations"));
            }
        }
        // files
        for (c, nd) in [(None, false), (Some(2), true), (None, true), (Some(0), true), (Some(2), false)] {
            cli_case(ctx, fx, &root, &good(c, nd, QFile::Missing, "cli_corpus_missing_query_file"));
            cli_case(ctx, fx, &root, &good(c, nd, QFile::Bytes(vec![]), "cli_corpus_empty_file"));
            for cfg in [CfgFile::Missing, CfgFile::NotToml, CfgFile::Unbuildable] {
                cli_case(ctx, fx, &root, &CliCase { chunksize: c, newline: nd, cfg, file: QFile::Bytes(doc.clone()), run_cfg: None, branch: "cli_corpus_bad_config_file" });
            }
        }
        cli_case(ctx, fx, &root, &CliCase { chunksize: Some(1), newline: true, cfg: CfgFile::Missing, file: QFile::Missing, run_cfg: None, branch: "cli_corpus_bad_config_file" });
        // the query file is a directory: refused like a missing file (fix fffeda5; run_newline_json used to read the
        // read error for ever: `--query-file <a directory> --chunksize 2 --newline-delimited` never returned)
        cli_case(ctx, fx, &root, &good(None, false, QFile::Dir, "cli_corpus_query_file_is_a_directory"));
        cli_case(ctx, fx, &root, &good(Some(2), true, QFile::Dir, "cli_corpus_query_file_is_a_directory"));
        cli_case(ctx, fx, &root, &good(Some(i64::MAX), true, QFile::Dir, "cli_corpus_query_file_is_a_directory"));
        cli_case(ctx, fx, &root, &good(Some(1), true, QFile::Dir, "cli_corpus_query_file_is_a_directory"));
        cli_case(ctx, fx, &root, &good(None, true, QFile::Dir, "cli_corpus_query_file_is_a_directory"));
        // blank lines only, junk only, no trailing newline, CRLF, invalid UTF-8
        cli_case(ctx, fx, &root, &good(Some(2), true, QFile::Bytes(b"\n\n\n".to_vec()), "cli_corpus_lines"));
        cli_case(ctx, fx, &root, &good(Some(1), true, QFile::Bytes(b"{oops\nnot json\n".to_vec()), "cli_corpus_lines"));
        cli_case(ctx, fx, &root, &good(Some(2), true, QFile::Bytes(format!("{}\n{}", q(0, 3), q(1, 2)).into_bytes()), "cli_corpus_lines"));
        cli_case(ctx, fx, &root, &good(Some(2), true, QFile::Bytes(format!("{}\r\n{}\r\n{}\r\n", q(0, 3), q(1, 2), q(2, 1)).into_bytes()), "cli_corpus_lines"));
        let mut bad_utf8 = format!("{}\n", q(0, 3)).into_bytes();
        bad_utf8.extend([b'{', 0xff, b'}', b'\n']);
        bad_utf8.extend(format!("{}\n", q(1, 2)).into_bytes());
        cli_case(ctx, fx, &root, &good(Some(2), true, QFile::Bytes(bad_utf8.clone()), "cli_corpus_lines"));
        cli_case(ctx, fx, &root, &good(Some(1), true, QFile::Bytes(bad_utf8.clone()), "cli_corpus_lines"));
        cli_case(ctx, fx, &root, &good(None, false, QFile::Bytes(bad_utf8), "cli_corpus_documents"));
        // the same line twice, a line holding an array, scalars
        cli_case(ctx, fx, &root, &good(Some(2), true, QFile::Bytes(nd_text(&[&q(0, 3).to_string(), &q(0, 3).to_string(), &q(0, 3).to_string()])), "cli_corpus_lines"));
        cli_case(ctx, fx, &root, &good(Some(3), true, QFile::Bytes(nd_text(&[&json!([q(0, 3), q(1, 2)]).to_string(), "null", "\"s\"", "[]"])), "cli_corpus_lines"));
        // documents
        for d in [json!([]), json!({"queries": []}), json!({"queries": [q(0, 3), q(1, 2)], "note": 1}), q(0, 3), json!(5), json!("queries"), Value::Null, json!({"queries": 5}), json!({"queries": {"origin_vertex": 0}})] {
            cli_case(ctx, fx, &root, &good(None, false, QFile::Bytes(d.to_string().into_bytes()), "cli_corpus_documents"));
        }
        cli_case(ctx, fx, &root, &good(None, false, QFile::Bytes(five.clone()), "cli_corpus_documents"));
        cli_case(ctx, fx, &root, &good(None, false, QFile::Bytes(b"{oops".to_vec()), "cli_corpus_documents"));
        // a failing run: per-run configuration that cannot be read / parallelism 0 / a sink whose writes fail
        let full = json!({"response_output_policy": {"type": "file", "filename": DEV_FULL, "format": {"type": "json", "newline_delimited": true}}});
        for rc in [json!({"parallelism": "abc"}), json!({"parallelism": 0}), full.clone(), json!({"parallelism": 3}), json!(5)] {
            cli_case(ctx, fx, &root, &CliCase { chunksize: Some(2), newline: true, cfg: CfgFile::Good, file: QFile::Bytes(five.clone()), run_cfg: Some(rc.clone()), branch: "cli_corpus_run_config" });
            cli_case(ctx, fx, &root, &CliCase { chunksize: None, newline: false, cfg: CfgFile::Good, file: QFile::Bytes(doc.clone()), run_cfg: Some(rc.clone()), branch: "cli_corpus_run_config" });
            // the first chunk has nothing to run or to write: its run is fine, the second one fails
            cli_case(ctx, fx, &root, &CliCase { chunksize: Some(1), newline: true, cfg: CfgFile::Good, file: QFile::Bytes(nd_text(&["{oops", &q(0, 3).to_string(), &q(1, 2).to_string()])), run_cfg: Some(rc), branch: "cli_corpus_run_config" });
        }
        // first failing chunk wins, later chunks are not served: the later line `5` is answered (error response) when
        // it comes first
        remaining_chunks_case(ctx, fx, &root, &[q(0, 3)], &[json!(5)], 1, &json!({"parallelism": 0}));
    }

    // ---- generated ----
    let n = ctx.n(260, 4000);
    for k in 0..n {
        let mut rng = Rng::for_case(ctx.seed, tag * 100 + 22, k as u64);
        let fx = &fixtures[k % fixtures.len()];
        let newline = rng.chance(2, 3);
        let n_lines = match rng.below(8) {
            0 => 0,
            1 => 1,
            _ => 1 + rng.below(9),
        };
        let chunksize: Option<i64> = match rng.below(16) {
            0 => None,
            1 => Some(0),
            2 => Some(-(1 + rng.below(5) as i64)),
            3 => Some(i64::MAX),
            4 => Some(n_lines as i64 + 1 + rng.below(4) as i64),
            5 => Some(n_lines.max(1) as i64),
            6 | 7 => Some(1),
            8 | 9 => Some(2),
            _ => Some(1 + rng.below(5) as i64),
        };
        // without newline-delimited only `None` is valid: keep most document cases valid
        let chunksize = if !newline && rng.chance(3, 4) { None } else { chunksize };
        let file = match rng.below(24) {
            0 => QFile::Missing,
            _ => QFile::Bytes(if newline || rng.chance(1, 8) { gen_lines_file(&mut rng, fx, profile, n_lines) } else { gen_document_file(&mut rng, fx, profile) }),
        };
        let cfg = match rng.below(30) {
            0 => CfgFile::Missing,
            1 => CfgFile::Unbuildable,
            _ => CfgFile::Good,
        };
        let run_cfg = match rng.below(14) {
            0 => Some(json!({"parallelism": 1 + rng.below(8)})),
            1 => Some(json!({"parallelism": 0})),
            2 => Some(json!({"parallelism": "many"})),
            3 => Some(json!({"response_output_policy": {"type": "file", "filename": DEV_FULL, "format": {"type": "json", "newline_delimited": true}}})),
            _ => None,
        };
        cli_case(ctx, fx, &root, &CliCase { chunksize, newline, cfg, file, run_cfg, branch: "cli_generated" });
    }
    drop(fixtures);
    let _ = std::fs::remove_dir_all(&root);
}
