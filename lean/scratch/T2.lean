import Compass.Proofs.Interp
open Compass Compass.Interp
#print axioms linear2_ok
#print axioms interpolate_d2_out
#print axioms validate2_ok_iff
#print axioms Sel.indep
