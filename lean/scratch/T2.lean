import Compass.Proofs.Interp
open Compass Compass.Interp
#print axioms linearN_ok
#check @linearN_ok
