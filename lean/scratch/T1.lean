import Compass.Proofs.Num
import Compass.Model.Interp

namespace Compass
namespace Interp

section
variable {α : Type} [Field α] [LinearOrder α] [IsStrictOrderedRing α] [Lit α] [LawfulLit α]

@[simp] theorem eqv_iff (a b : α) : eqv a b = true ↔ a = b := by
  simp only [eqv, Bool.and_eq_true, decide_eq_true_eq]
  exact le_antisymm_iff.symm

theorem idx_eq {β : Type} (xs : List β) (i : Nat) (v : β) (h : xs[i]? = some v) : idx xs i = .ok v := by
  simp [idx, h]

/-- strictly increasing lists: any two positions -/
theorem si_lt : ∀ (g : List α), strictlyIncreasing g = true →
    ∀ (i j : Nat) (a b : α), i < j → g[i]? = some a → g[j]? = some b → a < b := by
  intro g
  induction g with
  | nil => intro _ i j a b _ h; simp at h
  | cons x t ih =>
    intro hs i j a b hij hi hj
    cases t with
    | nil =>
      cases j with
      | zero => omega
      | succ j => simp at hj
    | cons y r =>
      simp only [strictlyIncreasing, Bool.and_eq_true, decide_eq_true_eq] at hs
      obtain ⟨hxy, hs'⟩ := hs
      cases j with
      | zero => omega
      | succ j =>
        simp only [List.getElem?_cons_succ] at hj
        cases i with
        | zero =>
          simp only [List.getElem?_cons_zero, Option.some.injEq] at hi
          subst hi
          cases j with
          | zero =>
            simp only [List.getElem?_cons_zero, Option.some.injEq] at hj
            subst hj; exact hxy
          | succ j =>
            have := ih hs' 0 (j + 1) y b (by omega) (by simp) hj
            exact lt_trans hxy this
        | succ i =>
          simp only [List.getElem?_cons_succ] at hi
          exact ih hs' i j a b (by omega) hi hj

end
end Interp
end Compass
