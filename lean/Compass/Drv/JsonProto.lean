/-
Protocol encoding of JSON values (prefix code, one token per atom):
  z | t | f | n x<hex lexeme> <f64 bits> | s x<hex utf8> | a <n> v… | o <n> (x<hex key> v)…
-/
import Compass.Drv.Proto
import Compass.Model.Json

namespace Compass.JsonProto
open Compass Compass.Proto

def hexVal (c : Char) : Option Nat :=
  if '0' ≤ c ∧ c ≤ '9' then some (c.toNat - '0'.toNat)
  else if 'a' ≤ c ∧ c ≤ 'f' then some (c.toNat - 'a'.toNat + 10)
  else none

def hexBytes : List Char → Option (List UInt8)
  | [] => some []
  | a :: b :: r =>
    match hexVal a, hexVal b, hexBytes r with
    | some x, some y, some l => some ((x * 16 + y).toUInt8 :: l)
    | _, _, _ => none
  | _ => none

/-- token `x<hex>` → string -/
def strOfTok (t : String) : Option String :=
  match t.toList with
  | 'x' :: r =>
    match hexBytes r with
    | some bs => String.fromUTF8? (ByteArray.mk bs.toArray)
    | none => none
  | _ => none

def hexOfStr (s : String) : String :=
  "x" ++ String.join (s.toUTF8.toList.map fun b =>
    String.ofList [Json.hexDigit (b.toNat / 16), Json.hexDigit (b.toNat % 16)])

def str : P String := do
  let t ← next
  match strOfTok t with
  | some s => pure s
  | none => failure

partial def json : P Json := do
  let t ← next
  match t with
  | "z" => pure .null
  | "t" => pure (.bool true)
  | "f" => pure (.bool false)
  | "n" => do
    let l ← str
    let b ← nat
    pure (.num l b)
  | "s" => do
    let s ← str
    pure (.str s)
  | "a" => do
    let n ← nat
    let rec go : Nat → List Json → P (List Json)
      | 0, acc => pure acc.reverse
      | k + 1, acc => do let v ← json; go k (v :: acc)
    let xs ← go n []
    pure (.arr xs)
  | "o" => do
    let n ← nat
    let rec goKv : Nat → List (String × Json) → P (List (String × Json))
      | 0, acc => pure acc.reverse
      | k + 1, acc => do let key ← str; let v ← json; goKv k ((key, v) :: acc)
    let kvs ← goKv n []
    pure (.obj kvs)
  | _ => failure

partial def enc : Json → String
  | .null => "z"
  | .bool true => "t"
  | .bool false => "f"
  | .num l b => "n " ++ hexOfStr l ++ " " ++ toString b
  | .str s => "s " ++ hexOfStr s
  | .arr xs => joinSp (("a " ++ toString xs.length) :: xs.map enc)
  | .obj kvs => joinSp (("o " ++ toString kvs.length) :: kvs.map fun (k, v) => hexOfStr k ++ " " ++ enc v)

end Compass.JsonProto
