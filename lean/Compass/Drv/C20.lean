import Compass.Drv.Proto
import Compass.Drv.JsonProto
import Compass.Model.Output

/-!
Driver glue for C20: parses one case line (see `harness/src/c20.rs`), runs the model of
`Compass/Model/Output.lean` and prints the canonical line.  Tree outputs are sorted entry-wise
(lexicographically as number sequences), exactly as the harness sorts what the real code produced.
-/
namespace Compass.Drv.C20
open Compass Compass.Proto Compass.Output

def point : P Point := do
  let x ← nat
  let y ← nat
  pure { x := x, y := y }

def line : P Line := listOf point
def table : P (List Line) := listOf line

def et : P EdgeTraversal := do
  let e ← nat
  let a ← nat
  let t ← nat
  let s ← listOf nat
  pure { edge := e, access := a, traversal := t, state := s }

def route : P (List EdgeTraversal) := listOf et

def branchKv : P (Nat × Branch) := do
  let k ← nat
  let t ← nat
  let e ← et
  pure (k, { terminal := t, et := e })

def tree : P Tree := listOf branchKv

def fmt : P Fmt := do
  let t ← next
  match t with
  | "wkt" => pure .wkt
  | "wkb" => pure .wkb
  | "json" => pure .json
  | "geo_json" => pure .geoJson
  | "edge_id" => pure .edgeId
  | _ => failure

/-! ### printing -/

def nums (xs : List Nat) : String := joinSp (xs.map toString)

def numLine (l : Line) : List Nat := l.length :: l.flatMap (fun p => [p.x, p.y])
def numEt (e : EdgeTraversal) : List Nat := [e.edge, e.access, e.traversal, e.state.length] ++ e.state
def numFeat (f : Feature) : List Nat := f.id :: (numEt f.props ++ numLine f.geom)
def numBranch (b : Branch) : List Nat := b.terminal :: numEt b.et

def lexLe : List Nat → List Nat → Bool
  | [], _ => true
  | _ :: _, [] => false
  | a :: as, b :: bs => if a < b then true else if b < a then false else lexLe as bs

/-- `tag n e1 … en` with the entries in the given order -/
def showEntries (tag : String) (entries : List (List Nat)) : String :=
  joinSp ([tag, toString entries.length] ++ (entries.flatMap id).map toString)

def showSorted (tag : String) (entries : List (List Nat)) : String :=
  showEntries tag (entries.mergeSort (fun a b => lexLe a b))

def showErr : Err → String
  | .failed => "err failed"
  | .missingField f => "err missing-field " ++ f
  | .invalidType f => "err invalid-type " ++ f
  | .search => "err search"

def showRouteOut : RouteOut → String
  | .edgeIds ids => showEntries "ids" (ids.map fun i => [i])
  | .records rs => showEntries "recs" (rs.map numEt)
  | .features fs => showEntries "feats" (fs.map numFeat)
  | .wkt l => joinSp ["wkt", nums (numLine l)]
  | .wkb l => joinSp ["wkb", nums (numLine l)]

def showTreeOut : TreeOut → String
  | .edgeIds ids => showSorted "ids" (ids.map fun i => [i])
  | .records bs => showSorted "recs" (bs.map numBranch)
  | .features fs => showSorted "feats" (fs.map numFeat)
  | .wkt ls => showSorted "wkt" (ls.map numLine)
  | .wkb ls => showSorted "wkb" (ls.map numLine)

def showRes {α : Type} (f : α → String) : Except Err α → String
  | .ok a => "ok " ++ f a
  | .error e => showErr e

def showOpt {α : Type} (f : α → String) : Option α → String
  | none => "n"
  | some a => "s " ++ f a

def showShape {α : Type} (f : α → String) : Shape α → String
  | .null => "null"
  | .one a => "one " ++ f a
  | .many as => joinSp (["many", toString as.length] ++ as.map f)

/-! ### cases -/

def optFmt : P (Option Fmt) := optOf fmt

def plugin : P Plugin := do
  let t ← next
  match t with
  | "trav" => do
    let tb ← table
    let r ← optFmt
    let tr ← optFmt
    pure (.traversal { geoms := tableOf tb, route := r, tree := tr })
  | "summary" => pure .summary
  | "uuid" => do
    let rows ← listOf JsonProto.str
    pure (.uuid (uuidTableOf rows))
  | _ => failure

def case : P String := do
  let op ← next
  match op with
  | "route" => do
    let f ← fmt
    let tb ← table
    let r ← route
    pure (showRes showRouteOut (generateRouteOutput (tableOf tb) f r))
  | "tree" => do
    let f ← fmt
    let tb ← table
    let t ← tree
    pure (showRes showTreeOut (generateTreeOutput (tableOf tb) f t))
  | "ops" => do
    let tb ← table
    let r ← route
    let t ← tree
    let g := tableOf tb
    let branchEts := t.values.map (·.et)
    let parts : List String := [
      "concat " ++ nums (numLine (concatLinestrings (r.filterMap fun e => g e.edge))),
      "linestring " ++ showRes (fun l => nums (numLine l)) (createRouteLinestring g r),
      "geojson " ++ showRes (fun fs => showEntries "feats" (fs.map numFeat)) (featuresOf g r),
      "multilinestring " ++ showRes (fun ls => showSorted "lines" (ls.map numLine)) (createTreeMultilinestring g t),
      "treegeojson " ++ showRes (fun fs => showSorted "feats" (fs.map numFeat)) (featuresOf g branchEts),
      "multipoint " ++ showRes (fun ps => showSorted "points" (ps.map fun p => [p.x, p.y]))
        (createTreeMultipoint g (branchEts.map (·.edge))),
      (match r.head? with
        | none => "edge none"
        | some e => "edge " ++ showRes (fun l => nums (numLine l)) (createEdgeGeometry g e)),
      (match r.find? (fun e => (g e.edge).isSome) with
        | none => "feature none"
        | some e => "feature ok " ++ nums (numFeat (createGeojsonFeature e ((g e.edge).getD [])))),
      (match t.values.head? with
        | none => "branch none"
        | some b => "branch " ++ showRes (fun l => nums (numLine l)) (createBranchGeometry g b))]
    pure (" | ".intercalate parts)
  | "uuid" => do
    let ok ← bool
    let rows ← listOf JsonProto.str
    let out ← JsonProto.json
    match uuidProcess (uuidTableOf rows) ok out with
    | .ok j => pure ("ok " ++ JsonProto.enc j)
    | .err e => pure (showErr e)
    | .panic => pure "panic"
  | "resp" => do
    let ok ← bool
    let req ← JsonProto.json
    let plugins ← listOf plugin
    let routes ← listOf route
    let trees ← listOf tree
    let res : Option SearchResult := if ok then some { routes := routes, trees := trees } else none
    match applyOutputProcessing req res plugins with
    | .error _ => pure "error"
    | .ok r =>
      pure (joinSp [
        "ok route", showOpt (showShape showRouteOut) r.route,
        "tree", showOpt (showShape showTreeOut) r.tree,
        "re", showOpt toString r.routeEdges,
        "ts", showOpt toString r.treeSizeCount,
        "ou", showOpt JsonProto.hexOfStr r.originUuid,
        "du", showOpt JsonProto.hexOfStr r.destinationUuid])
  | _ => failure

def run (line : String) : String := Proto.run case line

end Compass.Drv.C20
