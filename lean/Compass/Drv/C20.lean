import Compass.Drv.Proto
import Compass.Drv.JsonProto
import Compass.Model.Output

/-!
Driver glue for C20: parses one case line (see `harness/src/c20.rs`), runs the model of
`Compass/Model/Output.lean` and prints the canonical line.  Tree outputs are sorted entry-wise
(lexicographically as number sequences), exactly as the harness sorts what the real code produced.
-/
namespace Compass.Drv.C20
open Compass Compass.Proto Compass.Output

def point : P Point := do
  let x ← nat
  let y ← nat
  pure { x := x, y := y }

def line : P Line := listOf point
def table : P (List Line) := listOf line

def et : P EdgeTraversal := do
  let e ← nat
  let a ← nat
  let t ← nat
  let s ← listOf nat
  pure { edge := e, access := a, traversal := t, state := s }

def route : P (List EdgeTraversal) := listOf et

def branchKv : P (Nat × Branch) := do
  let k ← nat
  let t ← nat
  let e ← et
  pure (k, { terminal := t, et := e })

def tree : P Tree := listOf branchKv

def fmt : P Fmt := do
  let t ← next
  match t with
  | "wkt" => pure .wkt
  | "wkb" => pure .wkb
  | "json" => pure .json
  | "geo_json" => pure .geoJson
  | "edge_id" => pure .edgeId
  | _ => failure

/-! ### printing -/

def nums (xs : List Nat) : String := joinSp (xs.map toString)

def numLine (l : Line) : List Nat := l.length :: l.flatMap (fun p => [p.x, p.y])
/-- `null` in the canonical lines: the all-ones pattern (see `NULL_PAYLOAD` in the harness) -/
def shownPayload : Option Nat → Nat
  | some b => b
  | none => 18446744073709551615

def numEt (e : EdgeTraversal) : List Nat :=
  let r := e.rendered
  [r.edge, shownPayload r.access, shownPayload r.traversal, r.state.length] ++ r.state.map shownPayload
def numFeat (f : Feature) : List Nat := f.id :: (numEt f.props ++ numLine f.geom)
def numBranch (b : Branch) : List Nat := b.terminal :: numEt b.et

def lexLe : List Nat → List Nat → Bool
  | [], _ => true
  | _ :: _, [] => false
  | a :: as, b :: bs => if a < b then true else if b < a then false else lexLe as bs

/-- `tag n e1 … en` with the entries in the given order -/
def showEntries (tag : String) (entries : List (List Nat)) : String :=
  joinSp ([tag, toString entries.length] ++ (entries.flatMap id).map toString)

def showSorted (tag : String) (entries : List (List Nat)) : String :=
  showEntries tag (entries.mergeSort (fun a b => lexLe a b))

def showErr : Err → String
  | .failed => "err failed"
  | .missingField f => "err missing-field " ++ f
  | .invalidType f => "err invalid-type " ++ f
  | .search => "err search"
  | .build => "err build"
  | .io => "err io"

def showBuildErr : BuildErr → String
  | .expectedField => "err expected-field"
  | .fieldType => "err field-type"
  | .fileNotFound => "err file-not-found"
  | .serde => "err serde"
  | .plugin => "err plugin"

def showRouteOut : RouteOut → String
  | .edgeIds ids => showEntries "ids" (ids.map fun i => [i])
  | .records rs => showEntries "recs" (rs.map numEt)
  | .features fs => showEntries "feats" (fs.map numFeat)
  | .wkt l => joinSp ["wkt", nums (numLine l)]
  | .wkb l s => joinSp ["wkb", nums (numLine l), "hex", s]

def showTreeOut : TreeOut → String
  | .edgeIds ids => showSorted "ids" (ids.map fun i => [i])
  | .records bs => showSorted "recs" (bs.map numBranch)
  | .features fs => showSorted "feats" (fs.map numFeat)
  | .wkt ls => showSorted "wkt" (ls.map numLine)
  | .wkb ls s =>
    -- the text in canonical member order: 18 header characters, then the member records sorted as strings
    let cs := s.toList
    let rec chunks (cs : List Char) : List Line → List String
      | [] => if cs.isEmpty then [] else [String.ofList cs]
      | l :: r => let n := 2 * (9 + 16 * l.length); String.ofList (cs.take n) :: chunks (cs.drop n) r
    let members := (chunks (cs.drop 18) ls).mergeSort (fun a b => decide (a ≤ b))
    joinSp ([showSorted "wkb" (ls.map numLine), "hex", String.ofList (cs.take 18)] ++ members)

def showRes {α : Type} (f : α → String) : Except Err α → String
  | .ok a => "ok " ++ f a
  | .error e => showErr e

def showOpt {α : Type} (f : α → String) : Option α → String
  | none => "n"
  | some a => "s " ++ f a

def showShape {α : Type} (f : α → String) : Shape α → String
  | .null => "null"
  | .one a => "one " ++ f a
  | .many as => joinSp (["many", toString as.length] ++ as.map f)

def showTable (t : List Line) : String := nums (t.length :: t.flatMap numLine)

/-- prefix encoding with numbers by lexeme only (see `enc_lex` in the harness) -/
partial def encLex : Json → String
  | .null => "z"
  | .bool true => "t"
  | .bool false => "f"
  | .num l _ => "n " ++ JsonProto.hexOfStr l
  | .str s => "s " ++ JsonProto.hexOfStr s
  | .arr xs => joinSp (("a " ++ toString xs.length) :: xs.map encLex)
  | .obj kvs => joinSp (("o " ++ toString kvs.length) :: kvs.map fun (k, v) => JsonProto.hexOfStr k ++ " " ++ encLex v)

/-- the harness' probing traversal: costs 0.0 / 1.0, state `[1.0]` -/
def oneEdge (e : Nat) : EdgeTraversal :=
  { edge := e, access := 0, traversal := 4607182418800017408, state := [4607182418800017408] }

/-- `ok route … tree …` as the harness reads the keys back: a key is looked at only when its format is configured -/
def showProcessed (cfg : TraversalCfg) (o : Outcome (Option Resp)) : String :=
  match o with
  | .panic => "panic"
  | .err e => showErr e
  | .ok none => "unchanged"
  | .ok (some r) =>
    joinSp ["ok route", (match cfg.route with | none => "n" | some _ => showOpt (showShape showRouteOut) r.route),
            "tree", (match cfg.tree with | none => "n" | some _ => showOpt (showShape showTreeOut) r.tree)]

def geomRow : P GeomRow := do
  let t ← next
  match t with
  | "m" => pure none
  | "w" => do let l ← line; pure (some l)
  | _ => failure

/-- `is_file readable intact gz crlf final_nl`: the last three only shape the bytes of the file -/
def fileShape {α : Type} (rows : P (List α)) : P (TableFile α) := do
  let isFile ← bool
  let readable ← bool
  let intact ← bool
  let _ ← bool
  let _ ← bool
  let _ ← bool
  let rs ← rows
  pure { readable := readable, isFile := isFile, intact := intact, rows := rs }

def fileParam {α : Type} (rows : P (List α)) : P (FileParam α) := do
  let t ← next
  match t with
  | "absent" => pure .absent
  | "notstring" => pure .notString
  | "nofile" => pure .noSuchFile
  | "file" => do let f ← fileShape rows; pure (.file f)
  | _ => failure

def jsonParam : P (Option Json) := do
  let t ← next
  match t with
  | "absent" => pure none
  | "json" => do let j ← JsonProto.json; pure (some j)
  | _ => failure

def requestOf (o d : Nat) : Json :=
  .obj [("request", .obj [("origin_vertex", jnat o), ("destination_vertex", jnat d)])]

/-! ### cases -/

def optFmt : P (Option Fmt) := optOf fmt

def plugin : P Plugin := do
  let t ← next
  match t with
  | "trav" => do
    let tb ← table
    let r ← optFmt
    let tr ← optFmt
    pure (.traversal { geoms := tableOf tb, route := r, tree := tr })
  | "summary" => pure .summary
  | "uuid" => do
    let rows ← listOf JsonProto.str
    pure (.uuid (uuidTableOf rows))
  | _ => failure

def case : P String := do
  let op ← next
  match op with
  | "route" => do
    let f ← fmt
    let tb ← table
    let r ← route
    pure (showRes showRouteOut (generateRouteOutput (tableOf tb) f r))
  | "wkbhex" => do
    -- an in-memory table that may hold non-finite coordinates: only the WKB text is compared
    let tb ← table
    let r ← route
    match generateRouteOutput (tableOf tb) .wkb r with
    | .ok (.wkb _ s) => pure ("ok " ++ s)
    | .ok _ => pure "bad-case"
    | .error e => pure (showErr e)
  | "tree" => do
    let f ← fmt
    let tb ← table
    let t ← tree
    pure (showRes showTreeOut (generateTreeOutput (tableOf tb) f t))
  | "ops" => do
    let tb ← table
    let r ← route
    let t ← tree
    let g := tableOf tb
    let branchEts := t.values.map (·.et)
    let parts : List String := [
      "concat " ++ nums (numLine (concatLinestrings (r.filterMap fun e => g e.edge))),
      "linestring " ++ showRes (fun l => nums (numLine l)) (createRouteLinestring g r),
      "geojson " ++ showRes (fun fs => showEntries "feats" (fs.map numFeat)) (featuresOf g r),
      "multilinestring " ++ showRes (fun ls => showSorted "lines" (ls.map numLine)) (createTreeMultilinestring g t),
      "treegeojson " ++ showRes (fun fs => showSorted "feats" (fs.map numFeat)) (featuresOf g branchEts),
      "multipoint " ++ showRes (fun ps => showSorted "points" (ps.map fun p => [p.x, p.y]))
        (createTreeMultipoint g (branchEts.map (·.edge))),
      (match r.head? with
        | none => "edge none"
        | some e => "edge " ++ showRes (fun l => nums (numLine l)) (createEdgeGeometry g e)),
      (match r.find? (fun e => (g e.edge).isSome) with
        | none => "feature none"
        | some e => "feature ok " ++ nums (numFeat (createGeojsonFeature e ((g e.edge).getD [])))),
      (match t.values.head? with
        | none => "branch none"
        | some b => "branch " ++ showRes (fun l => nums (numLine l)) (createBranchGeometry g b))]
    pure (" | ".intercalate parts)
  | "uuid" => do
    let ok ← bool
    let rows ← listOf JsonProto.str
    let out ← JsonProto.json
    match uuidProcess (uuidTableOf rows) ok out with
    | .ok j => pure ("ok " ++ JsonProto.enc j)
    | .err e => pure (showErr e)
    | .panic => pure "panic"
  | "load" => do
    let f ← fileShape (listOf geomRow)
    let n := f.rows.length
    let read := "read " ++ showRes showTable (readLinestringTextFile f)
    let plug := match traversalFromFile f (some .geoJson) none with
      | .error e => showErr e
      | .ok cfg =>
        let tb := if n == 0 then "0" else
          match featuresOf cfg.geoms ((List.range n).map oneEdge) with
          | .error e => showErr e
          | .ok fs => showTable (fs.map (·.geom))
        joinSp ["ok", tb, "beyond", (if (cfg.geoms n).isSome then "ok" else "err")]
    pure (read ++ " | plugin " ++ plug)
  | "wkbrow" => do
    let k ← next
    let showO : Outcome Line → String := fun o =>
      match o with
      | .ok l => "ok " ++ nums (numLine l)
      | .err e => showErr e
      | .panic => "panic"
    match k with
    | "ls" => do let l ← line; pure (showO (parseWkbLinestring (.linestring l)))
    | "other" => pure (showO (parseWkbLinestring .other))
    | "trunc" => pure (showO (parseWkbLinestring .truncated))
    | "be" => pure (showO (parseWkbLinestring .bigEndian))
    | "order" => pure (showO (parseWkbLinestring .badByteOrder))
    | "type" => pure (showO (parseWkbLinestring .unknownType))
    | _ => failure
  | "uuidload" => do
    let f ← fileShape (listOf JsonProto.str)
    let n := f.rows.length
    match uuidFromFile f with
    | .error e => pure (showErr e)
    | .ok u =>
      let per := (List.range n).map fun i =>
        match uuidLookup u (requestOf i (n - 1 - i)) with
        | .ok (a, b) => "s " ++ JsonProto.hexOfStr a ++ " s " ++ JsonProto.hexOfStr b
        | .error e => showErr e
      let beyond := match uuidLookup u (requestOf 0 n) with | .ok _ => "ok" | .error _ => "err"
      pure (joinSp (["ok", toString n] ++ per ++ ["beyond", beyond]))
  | "addod" => do
    let ou ← JsonProto.str
    let du ← JsonProto.str
    let out ← JsonProto.json
    match addOdUuids out ou du with
    | .ok j => pure ("ok " ++ JsonProto.enc j)
    | .error e => pure (showErr e)
  | "fields" => pure (joinSp fieldNames)
  | "routewkt" => do
    let out ← JsonProto.json
    match getRouteGeometryWkt out with
    | .ok w => pure ("ok " ++ JsonProto.hexOfStr w)
    | .error e => pure (showErr e)
  | "summary" => do
    let ok ← bool
    let time ← JsonProto.str
    let runtime ← JsonProto.str
    let iterations ← nat
    let routeLens ← listOf nat
    let treeSizes ← listOf nat
    let out ← JsonProto.json
    let sr : SearchResult :=
      { routes := routeLens.map fun n => (List.range n).map oneEdge,
        trees := treeSizes.map fun n => (List.range n).map fun k => (k + 1, { terminal := k, et := oneEdge k }) }
    let res := if ok then some (sr, { executedTime := time, runtime := runtime, iterations := iterations }) else none
    match summaryProcessOn res out with
    | .ok j => pure ("ok " ++ encLex j)
    | .err e => pure (showErr e)
    | .panic => pure "panic"
  | "tproc" => do
    let ok ← bool
    let kind ← next
    let slots ← nat
    let tb ← table
    let r ← optFmt
    let t ← optFmt
    let routes ← listOf route
    let trees ← listOf tree
    let cfg : TraversalCfg := { geoms := tableOf tb, route := r, tree := t }
    let res : Option SearchResult := if ok then some { routes := routes, trees := trees, costSlots := slots } else none
    pure (showProcessed cfg (traversalProcessOn cfg res (kind == "obj" || kind == "null")))
  | "build" => do
    let which ← next
    match which with
    | "trav" => do
      let f ← fileParam (listOf geomRow)
      let r ← jsonParam
      let t ← jsonParam
      match buildTraversal f r t with
      | .error e => pure (showBuildErr e)
      | .ok cfg =>
        let nRows := match f with | .file tf => tf.rows.length | _ => 0
        let probe : SearchResult :=
          { routes := if nRows > 0 then [[oneEdge 0]] else [],
            trees := [[(1, { terminal := 0, et := oneEdge 0 })]], costSlots := 1 }
        pure ("ok probe " ++ showProcessed cfg (traversalProcessOn cfg (some probe) true))
    | "uuid" => do
      let f ← fileParam (listOf JsonProto.str)
      match buildUuid f with
      | .error e => pure (showBuildErr e)
      | .ok u =>
        let n := match f with | .file tf => tf.rows.length | _ => 0
        match uuidLookup u (requestOf 0 (n - 1)) with
        | .ok (a, b) => pure (joinSp ["ok probe ok s", JsonProto.hexOfStr a, "s", JsonProto.hexOfStr b])
        | .error e => pure ("ok probe " ++ showErr e)
    | _ => failure
  | "resp" => do
    let ok ← bool
    let slots ← nat
    let req ← JsonProto.json
    let plugins ← listOf plugin
    let routes ← listOf route
    let trees ← listOf tree
    let res : Option SearchResult := if ok then some { routes := routes, trees := trees, costSlots := slots } else none
    match applyOutputProcessing req res plugins with
    | .error _ => pure "error"
    | .ok r =>
      pure (joinSp [
        "ok route", showOpt (showShape showRouteOut) r.route,
        "tree", showOpt (showShape showTreeOut) r.tree,
        "re", showOpt toString r.routeEdges,
        "ts", showOpt toString r.treeSizeCount,
        "ou", showOpt JsonProto.hexOfStr r.originUuid,
        "du", showOpt JsonProto.hexOfStr r.destinationUuid])
  | _ => failure

def run (line : String) : String := Proto.run case line

end Compass.Drv.C20
