import Compass.Drv.Proto
import Compass.Drv.JsonProto
import Compass.Model.Cost
import Compass.Model.CostIO

/-!
C07 driver.  Two kinds of case line:

  `api <agg> <features> <prev> <next> <mid> <edge> <prevEdge> <nextEdge>`   (through `CostModel::new`)
  `ops <agg> <indices> <weights> <vehicle rates> <network rates> <prev> <next> <edge> <prevEdge> <nextEdge>`
      (the three `cost_ops::calculate_*` functions on arbitrary index lists and vector lengths;
       output `ops <vehicle> <network traversal> <network access>`, each a bit pattern or `err`)

* `agg`      `sum` | `mul`
* `features` `n` then `n` triples `<opt weight> <opt vehicle rate> <opt network rate>`, one per state
             feature in `state_model.indexed_iter()` order; options are `n` / `s x`
* vehicle rate  `z` | `r` | `f <bits>` | `o <bits>` | `c <list of vehicle rates>`
* network rate  `z` | `e <n> (<edge> <bits>)…` | `p <n> (<prevEdge> <nextEdge> <bits>)…` | `c <list>`
* `prev`, `next`  lists of doubles (bit patterns)

Output: `new-err` when `CostModel::new` rejects the configuration, otherwise
`ok <traversal_cost> <access_cost> <cost_estimate> <fwd> <fwd0> <rev> <rev0>`: the three API results on
`(prev, next)` (bit pattern or `err`), then four records `<access_cost> <traversal_cost> <total_cost()>`
(or `err err err`) of `EdgeTraversal::forward_traversal` with / without previous edge and
`reverse_traversal` with / without next edge, where the access model leaves the state `mid` and the
traversal model the state `next`.
-/

namespace Compass.Drv.C07
open Compass Compass.Proto

def vrate : Nat → P (VehicleCostRate Float)
  | 0 => failure
  | fuel + 1 => do
    let t ← next
    match t with
    | "z" => pure .zero
    | "r" => pure .raw
    | "f" => do let x ← float; pure (.factor x)
    | "o" => do let x ← float; pure (.offset x)
    | "c" => do let rs ← listOf (vrate fuel); pure (.combined rs)
    | _ => failure

def nrate : Nat → P (NetworkCostRate Float)
  | 0 => failure
  | fuel + 1 => do
    let t ← next
    match t with
    | "z" => pure .zero
    | "e" => do
      let tbl ← listOf (do let k ← nat; let v ← float; pure (k, v))
      pure (.edgeLookup tbl)
    | "p" => do
      let tbl ← listOf (do let k1 ← nat; let k2 ← nat; let v ← float; pure ((k1, k2), v))
      pure (.edgeEdgeLookup tbl)
    | "c" => do let rs ← listOf (nrate fuel); pure (.combined rs)
    | _ => failure

def aggP : P CostAggregation := do
  let t ← next
  match t with
  | "sum" => pure .sum
  | "mul" => pure .mul
  | _ => failure

def fopt : Option Float → String
  | some x => floatOut x
  | none => "err"

def opsCase : P String := do
  let fuel := (← get).length + 1
  let agg ← aggP
  let indices ← listOf nat
  let weights ← listOf float
  let vrates ← listOf (vrate fuel)
  let nrates ← listOf (nrate fuel)
  let prev ← listOf float
  let nxt ← listOf float
  let e ← nat
  let pe ← nat
  let ne ← nat
  endOfLine
  let m : CostModel Float :=
    { indices := indices, weights := weights, vehicleRates := vrates, networkRates := nrates, agg := agg }
  pure (joinSp ["ops", fopt (m.vehicleCosts prev nxt), fopt (m.networkTraversalCosts prev nxt e),
    fopt (m.networkAccessCosts prev nxt pe ne)])

def recOut : Option (Float × Float) → String
  | some r => joinSp [floatOut r.1, floatOut r.2, floatOut (edgeRecordTotal r)]
  | none => "err err err"

def apiCase : P String := do
  let fuel := (← get).length + 1
  let agg ← aggP
  let feats ← listOf (do
    let w ← optOf float
    let v ← optOf (vrate fuel)
    let n ← optOf (nrate fuel)
    pure (w, v, n))
  let prev ← listOf float
  let nxt ← listOf float
  let mid ← listOf float
  let e ← nat
  let pe ← nat
  let ne ← nat
  endOfLine
  match CostModel.new feats agg with
  | none => pure "new-err"
  | some m =>
    let t := m.traversalCost e prev nxt
    let a := m.accessCost pe ne prev nxt
    let est := m.costEstimate prev nxt
    pure (joinSp ["ok", fopt t, fopt a, fopt est,
      recOut (m.edgeTraversal e (some (pe, e)) prev mid nxt),   -- forward_traversal, previous edge `pe`
      recOut (m.edgeTraversal e none prev mid nxt),             -- forward_traversal, no previous edge
      recOut (m.edgeTraversal e (some (e, ne)) prev mid nxt),   -- reverse_traversal, next edge `ne`
      recOut (m.edgeTraversal e none prev mid nxt)])            -- reverse_traversal, no next edge


/-! ### the follow-up streams (see `harness/src/c07_io.rs`) -/

def encF (x : Float) : Json := if x.isFinite then .num "" x.toBits.toNat else .null

def numOfJson : Json → Option Float
  | .num _ b => some (Float.ofBits b.toUInt64)
  | _ => none

def ordOut : Ordering → String
  | .lt => "lt"
  | .eq => "eq"
  | .gt => "gt"

def boolOut (b : Bool) : String := if b then "1" else "0"

/-- `agg <sum|mul> <items>`: `agg_iter` over items that are costs or errors -/
def aggCase : P String := do
  let agg ← aggP
  let items ← listOf (optOf float)
  endOfLine
  let r := match agg.aggIter items with
    | some v => floatOut v
    | none => match firstNone items with
      | some k => "err " ++ toString k
      | none => "err ?"
  let slice := match allSome items with
    | some cs => floatOut (agg.agg cs)
    | none => "na"
  pure (joinSp ["agg", r, slice])

/-- zero of either sign prints as `0` (the sign of an empty `f64` sum depends on the std version) -/
def zeroCanon (x : Float) : String := if x == 0.0 then floatOut 0.0 else floatOut x

/-- `cost <a> <b> <k> <xs>`: the arithmetic, order and conversions of `unit/cost.rs` -/
def costCase : P String := do
  let a ← float
  let b ← float
  let k ← float
  let xs ← listOf float
  endOfLine
  pure (joinSp ["cost", floatOut (a + b), floatOut (a - b), floatOut (a * k), floatOut (a / k), floatOut (-a),
    zeroCanon (xs.foldl (· + ·) 0.0),
    ordOut (costCmp a b), boolOut (costLt a b), boolOut (costLe a b), boolOut (costCmp a b == .gt),
    boolOut (costCmp a b != .lt), boolOut (costCmp a b == .eq),
    floatOut (costMax a b), floatOut (costMin a b), ordOut (reverseCostCmp a b),
    floatOut (enforceStrictlyPositiveCmp a), floatOut (enforceNonNegativeCmp a),
    floatOut (enforceStrictlyPositive a), floatOut (enforceNonNegative a),
    floatOut a,   -- the conversions and Display / serde round trips all return the value itself
    JsonProto.enc (encF a)])

def featuresP (fuel : Nat) : P (List (FeatureConfig Float)) :=
  listOf (do
    let w ← optOf float
    let v ← optOf (vrate fuel)
    let n ← optOf (nrate fuel)
    pure (w, v, n))

def etErrOut : ETErr → String
  | .network => "network"
  | .access => "access"
  | .traversal => "traversal"
  | .cost => "cost"

/-- `et <agg> <features> <edges> <nVertices> <access> <traverse> <prev> <forward> <trav> <nbr>` -/
def etCase : P String := do
  let fuel := (← get).length + 1
  let agg ← aggP
  let feats ← featuresP fuel
  let edges ← listOf (do let s ← nat; let d ← nat; pure (s, d))
  let nV ← nat
  let access ← optOf (listOf float)
  let traverse ← optOf (listOf float)
  let prev ← listOf float
  let forward ← bool
  let trav ← nat
  let nbr ← optOf nat
  endOfLine
  match CostModel.new feats agg with
  | none => pure "new-err"
  | some m =>
    let env : ETEnv Float := { edge := fun e => edges[e]?, vertex := fun v => decide (v < nV),
                               access := access, traverse := traverse }
    match m.edgeTraversalE env forward trav nbr prev with
    | .error e => pure ("err " ++ etErrOut e)
    | .ok r => pure (joinSp ["ok", floatOut r.1, floatOut r.2, floatOut (edgeRecordTotal r), "display-ok"])

def hexName : P String := JsonProto.str

/-- sort by key (bytewise = by code point for the ASCII names the harness generates) -/
def sortKvs {β : Type} (kvs : List (String × β)) : List (String × β) :=
  (kvs.toArray.qsort (fun a b => a.1 < b.1)).toList

/-- `ser <agg> <n> (<name> <feature>)… <state>`: `serialize_cost(state)` and `serialize_cost_info()` -/
def serCase : P String := do
  let fuel := (← get).length + 1
  let agg ← aggP
  let named ← listOf (do
    let name ← hexName
    let w ← optOf float
    let v ← optOf (vrate fuel)
    let n ← optOf (nrate fuel)
    pure (name, (w, v, n)))
  let state ← listOf float
  endOfLine
  let names := named.map Prod.fst
  match CostModel.new (named.map Prod.snd) agg with
  | none => pure "new-err"
  | some m =>
    let cost := match m.serializeCost names state with
      | none => "err"
      | some kvs => joinSp (toString kvs.length :: (sortKvs kvs).map fun p =>
          JsonProto.hexOfStr p.1 ++ " " ++ JsonProto.enc (encF p.2))
    let info := match m.serializeCostInfo encF names with
      | none => "err"
      | some j => JsonProto.enc j
    pure (joinSp ["cost", cost, "info", info])

def svcErrOut : ServiceErr → String
  | .serde => "serde"
  | .unknownWeights => "unknown-weights"
  | .newFailed => "new-failed"

/-- `cfg <config json> <query json> <names> <prev> <next> <e> <pe> <ne>`:
`CostModelBuilder::build(config)`, `CostModelService::build(query, state model)`, then the API -/
def cfgCase : P String := do
  let config ← JsonProto.json
  let query ← JsonProto.json
  let names ← listOf hexName
  let prev ← listOf float
  let nxt ← listOf float
  let e ← nat
  let pe ← nat
  let ne ← nat
  endOfLine
  match buildCostService numOfJson config with
  | none => pure "builder-err"
  | some svc =>
    match svc.build numOfJson query names with
    | .error k => pure ("service-err " ++ svcErrOut k)
    | .ok m =>
      let info := match m.serializeCostInfo encF names with
        | none => "err"
        | some j => JsonProto.enc j
      pure (joinSp ["ok", fopt (m.traversalCost e prev nxt), fopt (m.accessCost pe ne prev nxt),
        fopt (m.costEstimate prev nxt), "info", info])

def rowP {ρ : Type} (p : P ρ) : P (Row ρ) := do
  let t ← next
  match t with
  | "ok" => do let r ← p; pure (.ok r)
  | "bad" => pure .bad
  | _ => failure

def csvFileP {ρ : Type} (p : P ρ) : P (CsvFile ρ) := do
  let present ← bool
  let lines ← nat
  let hasHeader ← bool
  let rows ← listOf (rowP p)
  pure { present := present, lines := lines, hasHeader := hasHeader, rows := rows }

def builderP : Nat → P (NetworkCostRateBuilder Float)
  | 0 => failure
  | fuel + 1 => do
    let t ← next
    match t with
    | "e" => do
      let f ← csvFileP (do let k ← nat; let v ← float; pure (k, v))
      pure (.edgeLookup f)
    | "p" => do
      let f ← csvFileP (do let a ← nat; let b ← nat; let v ← float; pure ((a, b), v))
      pure (.edgeEdgeLookup f)
    | "c" => do let bs ← listOf (builderP fuel); pure (.combined bs)
    | _ => failure

/-- `ncb <builder> <n> (<e> <pe> <ne>)…`: `NetworkCostRateBuilder::build`, then the built rate probed -/
def ncbCase : P String := do
  let fuel := (← get).length + 1
  let b ← builderP fuel
  let probes ← listOf (do let e ← nat; let pe ← nat; let ne ← nat; pure (e, pe, ne))
  endOfLine
  match b.build Float.isFinite with
  | none => pure "build-err"
  | some r =>
    pure (joinSp ("ok" :: probes.map fun (e, pe, ne) =>
      floatOut (r.traversalCost e) ++ " " ++ floatOut (r.accessCost pe ne)))

def case : P String := do
  let kind ← next
  match kind with
  | "api" => apiCase
  | "ops" => opsCase
  | "agg" => aggCase
  | "cost" => costCase
  | "et" => etCase
  | "ser" => serCase
  | "cfg" => cfgCase
  | "ncb" => ncbCase
  | _ => failure

def run (line : String) : String := Proto.run case line

end Compass.Drv.C07
