import Compass.Drv.Proto
import Compass.Model.Cost

/-!
C07 driver.  Two kinds of case line:

  `api <agg> <features> <prev> <next> <mid> <edge> <prevEdge> <nextEdge>`   (through `CostModel::new`)
  `ops <agg> <indices> <weights> <vehicle rates> <network rates> <prev> <next> <edge> <prevEdge> <nextEdge>`
      (the three `cost_ops::calculate_*` functions on arbitrary index lists and vector lengths;
       output `ops <vehicle> <network traversal> <network access>`, each a bit pattern or `err`)

* `agg`      `sum` | `mul`
* `features` `n` then `n` triples `<opt weight> <opt vehicle rate> <opt network rate>`, one per state
             feature in `state_model.indexed_iter()` order; options are `n` / `s x`
* vehicle rate  `z` | `r` | `f <bits>` | `o <bits>` | `c <list of vehicle rates>`
* network rate  `z` | `e <n> (<edge> <bits>)…` | `p <n> (<prevEdge> <nextEdge> <bits>)…` | `c <list>`
* `prev`, `next`  lists of doubles (bit patterns)

Output: `new-err` when `CostModel::new` rejects the configuration, otherwise
`ok <traversal_cost> <access_cost> <cost_estimate> <fwd> <fwd0> <rev> <rev0>`: the three API results on
`(prev, next)` (bit pattern or `err`), then four records `<access_cost> <traversal_cost> <total_cost()>`
(or `err err err`) of `EdgeTraversal::forward_traversal` with / without previous edge and
`reverse_traversal` with / without next edge, where the access model leaves the state `mid` and the
traversal model the state `next`.
-/

namespace Compass.Drv.C07
open Compass Compass.Proto

def vrate : Nat → P (VehicleCostRate Float)
  | 0 => failure
  | fuel + 1 => do
    let t ← next
    match t with
    | "z" => pure .zero
    | "r" => pure .raw
    | "f" => do let x ← float; pure (.factor x)
    | "o" => do let x ← float; pure (.offset x)
    | "c" => do let rs ← listOf (vrate fuel); pure (.combined rs)
    | _ => failure

def nrate : Nat → P (NetworkCostRate Float)
  | 0 => failure
  | fuel + 1 => do
    let t ← next
    match t with
    | "z" => pure .zero
    | "e" => do
      let tbl ← listOf (do let k ← nat; let v ← float; pure (k, v))
      pure (.edgeLookup tbl)
    | "p" => do
      let tbl ← listOf (do let k1 ← nat; let k2 ← nat; let v ← float; pure ((k1, k2), v))
      pure (.edgeEdgeLookup tbl)
    | "c" => do let rs ← listOf (nrate fuel); pure (.combined rs)
    | _ => failure

def aggP : P CostAggregation := do
  let t ← next
  match t with
  | "sum" => pure .sum
  | "mul" => pure .mul
  | _ => failure

def fopt : Option Float → String
  | some x => floatOut x
  | none => "err"

def opsCase : P String := do
  let fuel := (← get).length + 1
  let agg ← aggP
  let indices ← listOf nat
  let weights ← listOf float
  let vrates ← listOf (vrate fuel)
  let nrates ← listOf (nrate fuel)
  let prev ← listOf float
  let nxt ← listOf float
  let e ← nat
  let pe ← nat
  let ne ← nat
  endOfLine
  let m : CostModel Float :=
    { indices := indices, weights := weights, vehicleRates := vrates, networkRates := nrates, agg := agg }
  pure (joinSp ["ops", fopt (m.vehicleCosts prev nxt), fopt (m.networkTraversalCosts prev nxt e),
    fopt (m.networkAccessCosts prev nxt pe ne)])

def recOut : Option (Float × Float) → String
  | some r => joinSp [floatOut r.1, floatOut r.2, floatOut (edgeRecordTotal r)]
  | none => "err err err"

def apiCase : P String := do
  let fuel := (← get).length + 1
  let agg ← aggP
  let feats ← listOf (do
    let w ← optOf float
    let v ← optOf (vrate fuel)
    let n ← optOf (nrate fuel)
    pure (w, v, n))
  let prev ← listOf float
  let nxt ← listOf float
  let mid ← listOf float
  let e ← nat
  let pe ← nat
  let ne ← nat
  endOfLine
  match CostModel.new feats agg with
  | none => pure "new-err"
  | some m =>
    let t := m.traversalCost e prev nxt
    let a := m.accessCost pe ne prev nxt
    let est := m.costEstimate prev nxt
    pure (joinSp ["ok", fopt t, fopt a, fopt est,
      recOut (m.edgeTraversal e (some (pe, e)) prev mid nxt),   -- forward_traversal, previous edge `pe`
      recOut (m.edgeTraversal e none prev mid nxt),             -- forward_traversal, no previous edge
      recOut (m.edgeTraversal e (some (e, ne)) prev mid nxt),   -- reverse_traversal, next edge `ne`
      recOut (m.edgeTraversal e none prev mid nxt)])            -- reverse_traversal, no next edge

def case : P String := do
  let kind ← next
  match kind with
  | "api" => apiCase
  | "ops" => opsCase
  | _ => failure

def run (line : String) : String := Proto.run case line

end Compass.Drv.C07
