import Compass.Drv.Proto
import Compass.Drv.JsonProto
import Compass.Model.MapMatch

namespace Compass.Drv.C16
open Compass Compass.Proto Compass.MapMatch

def tolP : P (Option (Float × DistanceUnit)) :=
  optOf do
    let t ← float
    let u ← next
    match DistanceUnit.ofName? u with
    | some u => pure (t, u)
    | none => failure

def vcandP : P (VCand Float) := do
  let id ← nat
  let d2 ← float
  let gc ← optOf float
  pure ⟨id, d2, gc⟩

def ecandP : P (ECand Float) := do
  let id ← nat
  let d2 ← float
  let cls ← optOf nat
  let veh ← bool
  let gc ← optOf float
  pure ⟨id, d2, cls, veh, gc⟩

/-- an absent table (the harness could not read the coordinate) is never consulted by the model -/
def tableP (p : P β) : P (List β) := do
  let t ← optOf (listOf p)
  pure (t.getD [])

def errOut : Err → String
  | .missingField f => "missing " ++ f.name
  | .missingPair a b => "pair " ++ a.name ++ " " ++ b.name
  | .invalidType f => "type " ++ f.name
  | .notObject => "notobject"
  -- all of these are `InputPluginFailed(message)` in the code
  | .noCandidate | .beyondTolerance | .distanceRange | .roadClassParse | .roadClassMissing | .noEdgeMatch => "failed"

def outcomeOut (o : Outcome) : String :=
  match o.err with
  | none => "ok " ++ JsonProto.enc o.query
  | some e => "err " ++ errOut e ++ " " ++ JsonProto.enc o.query

def case : P String := do
  let kind ← next
  match kind with
  | "v" => do
    let tol ← tolP
    let q ← JsonProto.json
    let oc ← tableP vcandP
    let dc ← tableP vcandP
    endOfLine
    pure (outcomeOut (vertexProcess tol q oc dc))
  | "e" => do
    let tol ← tolP
    let mapping ← listOf (do let k ← JsonProto.str; let v ← nat; pure (k, v))
    let hasLookup ← bool
    let q ← JsonProto.json
    let oc ← tableP ecandP
    let dc ← tableP ecandP
    endOfLine
    pure (outcomeOut (edgeProcess tol mapping hasLookup q oc dc))
  | _ => failure

def run (line : String) : String := Proto.run case line

end Compass.Drv.C16
