import Compass.Drv.Proto
import Compass.Drv.JsonProto
import Compass.Model.MapMatch
import Compass.Model.MapMatchIO

namespace Compass.Drv.C16
open Compass Compass.Proto Compass.MapMatch

def tolP : P (Option (Float × DistanceUnit)) :=
  optOf do
    let t ← float
    let u ← next
    match DistanceUnit.ofName? u with
    | some u => pure (t, u)
    | none => failure

def vcandP : P (VCand Float) := do
  let id ← nat
  let d2 ← float
  let gc ← optOf float
  pure ⟨id, d2, gc⟩

def ecandP : P (ECand Float) := do
  let id ← nat
  let d2 ← float
  let cls ← optOf nat
  let veh ← bool
  let gc ← optOf float
  pure ⟨id, d2, cls, veh, gc⟩

/-- an absent table (the harness could not read the coordinate) is never consulted by the model -/
def tableP (p : P β) : P (List β) := do
  let t ← optOf (listOf p)
  pure (t.getD [])

def errOut : Err → String
  | .missingField f => "missing " ++ f.name
  | .missingPair a b => "pair " ++ a.name ++ " " ++ b.name
  | .invalidType f => "type " ++ f.name
  | .notObject => "notobject"
  -- all of these are `InputPluginFailed(message)` in the code; the harness tells them apart by one key phrase of
  -- the message each, so that a reordering of the checks does not go unnoticed
  | .noCandidate => "failed nocandidate"
  | .beyondTolerance => "failed beyond"
  | .distanceRange => "failed range"
  | .roadClassParse => "failed roadclassparse"
  | .roadClassMissing => "failed roadclassmissing"
  | .noEdgeMatch => "failed noedgematch"

def outcomeOut (o : Outcome) : String :=
  match o.err with
  | none => "ok " ++ JsonProto.enc o.query
  | some e => "err " ++ errOut e ++ " " ++ JsonProto.enc o.query

/-- `x as f32` (round to nearest even), read back as a double, as bits -/
def f32Out (bits : Nat) : String := floatOut (Float.ofBits bits.toUInt64).toFloat32.toFloat

def fieldP : P Field := do
  let t ← next
  match [Field.originVertex, .destinationVertex, .originEdge, .destinationEdge].find? (fun f => f.name == t) with
  | some f => pure f
  | none => failure

def exceptOut (f : β → String) : Except Err β → String
  | .ok b => "ok " ++ f b
  | .error e => "err " ++ errOut e

def cfgErrOut : CfgErr → String
  | .missingField => "missingfield"
  | .wrongType => "wrongtype"
  | .fileNotFound => "filenotfound"
  | .serde => "serde"
  | .io => "io"
  | .userConfig => "userconfig"
  | .plugin => "plugin"
  | .frontier => "frontier"

def tolOfBits (t : Option (Nat × DistanceUnit)) : Option (Float × DistanceUnit) :=
  t.map fun (b, u) => (Float.ofBits b.toUInt64, u)

/-- `InputJsonExtensions`, one function per case -/
def extCase : P String := do
  let op ← next
  match op with
  | "ocoord" => do
    let q ← JsonProto.json
    pure (exceptOut (fun (x, y) => f32Out x ++ " " ++ f32Out y) (originCoordinateBits q))
  | "dcoord" => do
    let q ← JsonProto.json
    pure (exceptOut (fun o => match o with | none => "n" | some (x, y) => "s " ++ f32Out x ++ " " ++ f32Out y)
      (destinationCoordinateBits q))
  | "add" => do
    let f ← fieldP
    let id ← nat
    let q ← JsonProto.json
    match addField q f id with
    | .ok q' => pure ("ok " ++ JsonProto.enc q')
    | .error e => pure ("err " ++ errOut e ++ " " ++ JsonProto.enc q)
  | "getv" => do let q ← JsonProto.json; pure (exceptOut toString (getOriginVertex q))
  | "gete" => do let q ← JsonProto.json; pure (exceptOut toString (getOriginEdge q))
  | "getdv" => do
    let q ← JsonProto.json
    pure (exceptOut (fun o => match o with | none => "n" | some n => "s " ++ toString n) (getDestinationVertex q))
  | "getde" => do
    let q ← JsonProto.json
    pure (exceptOut (fun o => match o with | none => "n" | some n => "s " ++ toString n) (getDestinationEdge q))
  | "grid" => do
    let q ← JsonProto.json
    pure (match getGridSearch q with | none => "n" | some g => "s " ++ JsonProto.enc g)
  | "getw" => do
    let q ← JsonProto.json
    pure (exceptOut (fun o => match o with | none => "n" | some b => "s " ++ toString b) (getQueryWeightEstimate q))
  | "addw" => do
    let b ← nat
    let lex ← JsonProto.str
    let q ← JsonProto.json
    match addQueryWeightEstimate q lex b with
    | .ok q' => pure ("ok " ++ JsonProto.enc q')
    | .error e => pure ("err " ++ errOut e ++ " " ++ JsonProto.enc q)
  | _ => failure

/-- the builders; a successful build is probed with one query -/
def builderCase : P String := do
  let which ← next
  match which with
  | "v" => do
    let cfg ← JsonProto.json
    let ex ← bool
    let parses ← bool
    let q ← JsonProto.json
    let oc ← listOf vcandP
    match vertexBuilder cfg ex parses with
    | .error e => pure ("err " ++ cfgErrOut e)
    | .ok t => pure ("ok " ++ outcomeOut (vertexProcess (tolOfBits t) q oc []))
  | "e" => do
    let cfg ← JsonProto.json
    let rc ← optOf nat
    let vr ← bool
    let geo ← optOf nat
    let emptyLs ← bool
    let nonFinite ← bool
    let q ← JsonProto.json
    let oc ← tableP ecandP
    match edgeBuilder cfg ⟨rc, vr, geo, emptyLs, nonFinite⟩ with
    | .error e => pure ("err " ++ cfgErrOut e)
    | .ok pl => pure ("ok " ++ outcomeOut (edgeProcess (tolOfBits pl.tolerance) [] pl.hasLookup q oc []))
  | _ => failure

/-- a double that may be NaN (`fbits` prints every NaN as `nan`) -/
def floatN : P Float := do
  let t ← next
  if t == "nan" then pure (0.0 / 0.0)
  else match floatOfTok t with
    | some x => pure x
    | none => failure

def haversineCase : P String := do
  let sx ← floatN; let sy ← floatN; let dx ← floatN; let dy ← floatN
  let value ← optOf float
  let u ← next
  match DistanceUnit.ofName? u with
  | none => failure
  | some u =>
    -- the trigonometric value is an input; when the real function refused, any value will do
    let v := value.getD 0.0
    let o := fun (x : Option Float) => match x with | none => "n" | some d => "s " ++ floatOut d
    pure ("m " ++ o (coordDistanceMeters sx sy dx dy v) ++ " u " ++ o (coordDistance sx sy dx dy v u))

def case : P String := do
  let kind ← next
  match kind with
  | "x" => extCase
  | "b" => builderCase
  | "h" => haversineCase
  | "v" => do
    let tol ← tolP
    let q ← JsonProto.json
    let oc ← tableP vcandP
    let dc ← tableP vcandP
    endOfLine
    pure (outcomeOut (vertexProcess tol q oc dc))
  | "e" => do
    let tol ← tolP
    let mapping ← listOf (do let k ← JsonProto.str; let v ← nat; pure (k, v))
    let hasLookup ← bool
    let q ← JsonProto.json
    let oc ← tableP ecandP
    let dc ← tableP ecandP
    endOfLine
    pure (outcomeOut (edgeProcess tol mapping hasLookup q oc dc))
  | _ => failure

def run (line : String) : String := Proto.run case line

end Compass.Drv.C16
