import Compass.Drv.Proto
import Compass.Model.Units

namespace Compass.Drv.C09
open Compass Compass.Proto

def unitP (ofName : String → Option β) : P β := do
  let t ← next
  match ofName t with
  | some u => pure u
  | none => failure

def case : P String := do
  let op ← next
  match op with
  | "conv" => do
    let fam ← next
    match fam with
    | "distance" => do
      let u ← unitP DistanceUnit.ofName?; let v ← unitP DistanceUnit.ofName?; let x ← float
      pure (floatOut (u.convert v x))
    | "time" => do
      let u ← unitP TimeUnit.ofName?; let v ← unitP TimeUnit.ofName?; let x ← float
      pure (floatOut (u.convert v x))
    | "speed" => do
      let u ← unitP SpeedUnit.ofName?; let v ← unitP SpeedUnit.ofName?; let x ← float
      pure (floatOut (u.convert v x))
    | "energy" => do
      let u ← unitP EnergyUnit.ofName?; let v ← unitP EnergyUnit.ofName?; let x ← float
      pure (floatOut (u.convert v x))
    | "grade" => do
      let u ← unitP GradeUnit.ofName?; let v ← unitP GradeUnit.ofName?; let x ← float
      pure (floatOut (u.convert v x))
    | "weight" => do
      let u ← unitP WeightUnit.ofName?; let v ← unitP WeightUnit.ofName?; let x ← float
      pure (floatOut (u.convert v x))
    | _ => failure
  | "ctime" => do
    let su ← unitP SpeedUnit.ofName?; let du ← unitP DistanceUnit.ofName?; let tu ← unitP TimeUnit.ofName?
    let s ← float; let d ← float
    pure (optOut floatOut (createTime s su d du tu))
  | "cspeed" => do
    let tu ← unitP TimeUnit.ofName?; let du ← unitP DistanceUnit.ofName?; let su ← unitP SpeedUnit.ofName?
    let t ← float; let d ← float
    pure (optOut floatOut (createSpeed t tu d du su))
  | "cenergy" => do
    let ru ← unitP EnergyRateUnit.ofName?; let du ← unitP DistanceUnit.ofName?
    let r ← float; let d ← float
    let (e, eu) := createEnergy r ru d du
    pure (floatOut e ++ " " ++ eu.name)
  | "assoc" => do
    -- associated units and base units, as names
    let su ← unitP SpeedUnit.ofName?
    pure (su.associatedDistanceUnit.name ++ " " ++ su.associatedTimeUnit.name)
  | _ => failure

def run (line : String) : String := Proto.run case line

end Compass.Drv.C09
