import Compass.Drv.Proto
import Compass.Model.Units

namespace Compass.Drv.C09
open Compass Compass.Proto

def unitP (ofName : String → Option β) : P β := do
  let t ← next
  match ofName t with
  | some u => pure u
  | none => failure

def case : P String := do
  let op ← next
  match op with
  | "conv" => do
    let fam ← next
    match fam with
    | "distance" => do
      let u ← unitP DistanceUnit.ofName?; let v ← unitP DistanceUnit.ofName?; let x ← float
      pure (floatOut (u.convert v x))
    | "time" => do
      let u ← unitP TimeUnit.ofName?; let v ← unitP TimeUnit.ofName?; let x ← float
      pure (floatOut (u.convert v x))
    | "speed" => do
      let u ← unitP SpeedUnit.ofName?; let v ← unitP SpeedUnit.ofName?; let x ← float
      pure (floatOut (u.convert v x))
    | "energy" => do
      let u ← unitP EnergyUnit.ofName?; let v ← unitP EnergyUnit.ofName?; let x ← float
      pure (floatOut (u.convert v x))
    | "grade" => do
      let u ← unitP GradeUnit.ofName?; let v ← unitP GradeUnit.ofName?; let x ← float
      pure (floatOut (u.convert v x))
    | "weight" => do
      let u ← unitP WeightUnit.ofName?; let v ← unitP WeightUnit.ofName?; let x ← float
      pure (floatOut (u.convert v x))
    | _ => failure
  | "ctime" => do
    let su ← unitP SpeedUnit.ofName?; let du ← unitP DistanceUnit.ofName?; let tu ← unitP TimeUnit.ofName?
    let s ← float; let d ← float
    pure (optOut floatOut (createTime s su d du tu))
  | "cspeed" => do
    let tu ← unitP TimeUnit.ofName?; let du ← unitP DistanceUnit.ofName?; let su ← unitP SpeedUnit.ofName?
    let t ← float; let d ← float
    pure (optOut floatOut (createSpeed t tu d du su))
  | "cenergy" => do
    let ru ← unitP EnergyRateUnit.ofName?; let du ← unitP DistanceUnit.ofName?
    let r ← float; let d ← float
    let (e, eu) := createEnergy r ru d du
    pure (floatOut e ++ " " ++ eu.name)
  | "assoc" => do
    -- associated units and base units, as names
    let su ← unitP SpeedUnit.ofName?
    pure (su.associatedDistanceUnit.name ++ " " ++ su.associatedTimeUnit.name)
  | "sufrom" => do
    let du ← unitP DistanceUnit.ofName?; let tu ← unitP TimeUnit.ofName?
    pure (match SpeedUnit.fromPair du tu with
      | .unit u => "ok " ++ u.name
      | .panic => "panic")
  | "ustr" => do
    let fam ← next
    let t ← next
    let s ← (match t.toList with
      | 'x' :: r =>
        let rec bytesU : List Char → Option (List UInt8)
          | [] => some []
          | a :: b :: rest =>
            let hv : Char → Option Nat := fun c =>
              if '0' ≤ c ∧ c ≤ '9' then some (c.toNat - '0'.toNat)
              else if 'a' ≤ c ∧ c ≤ 'f' then some (c.toNat - 'a'.toNat + 10) else none
            match hv a, hv b, bytesU rest with
            | some x, some y, some l => some ((x * 16 + y).toUInt8 :: l)
            | _, _, _ => none
          | _ => none
        match bytesU r with
        | some bs => (match String.fromUTF8? (ByteArray.mk bs.toArray) with | some s => pure s | none => failure)
        | none => failure
      | _ => failure : P String)
    let out : Option String := match fam with
      | "d" => some (match unitFromStr DistanceUnit.ofName? s with | some u => "ok " ++ u.name | none => "err")
      | "t" => some (match unitFromStr TimeUnit.ofName? s with | some u => "ok " ++ u.name | none => "err")
      | "e" => some (match unitFromStr EnergyUnit.ofName? s with | some u => "ok " ++ u.name | none => "err")
      | "r" => some (match unitFromStr EnergyRateUnit.ofName? s with | some u => "ok " ++ u.name | none => "err")
      | "g" => some (match unitFromStr GradeUnit.ofName? s with | some u => "ok " ++ u.name | none => "err")
      | "w" => some (match unitFromStr WeightUnit.ofName? s with | some u => "ok " ++ u.name | none => "err")
      | _ => none
    match out with
    | some o => pure o
    | none => failure
  | "sustr" => do
    let t ← next
    -- the text as `x<hex utf8>`
    let s ← (match t.toList with
      | 'x' :: r =>
        let rec bytes : List Char → Option (List UInt8)
          | [] => some []
          | a :: b :: rest =>
            let hv : Char → Option Nat := fun c =>
              if '0' ≤ c ∧ c ≤ '9' then some (c.toNat - '0'.toNat)
              else if 'a' ≤ c ∧ c ≤ 'f' then some (c.toNat - 'a'.toNat + 10) else none
            match hv a, hv b, bytes rest with
            | some x, some y, some l => some ((x * 16 + y).toUInt8 :: l)
            | _, _, _ => none
          | _ => none
        match bytes r with
        | some bs => (match String.fromUTF8? (ByteArray.mk bs.toArray) with | some s => pure s | none => failure)
        | none => failure
      | _ => failure : P String)
    pure (match SpeedUnit.fromStr s with
      | some u => "ok " ++ u.name
      | none => "err")
  | "maxhw" => do
    let su ← unitP SpeedUnit.ofName?
    pure (floatOut (su.maxHighwaySpeed : Float))
  | _ => failure

def run (line : String) : String := Proto.run case line

end Compass.Drv.C09
