/-
Driver for C17: `proc <json>` (GridSearchPlugin::process), `ms <sets>` (MultiSet over vectors of
numbers), `pipe <json>` (apply_input_plugins with the grid-search plugin alone).
-/
import Compass.Drv.Proto
import Compass.Drv.JsonProto
import Compass.Model.MultiSet
import Compass.Model.GridSearch

namespace Compass.Drv.C17
open Compass Compass.Proto
open Compass.MultiSet (Outcome)

def natList (l : List Nat) : String := joinSp (toString l.length :: l.map toString)
def natListList (l : List (List Nat)) : String := joinSp (toString l.length :: l.map natList)

def procOut : Outcome (Except GridSearch.ErrKind Json) → String
  | .ok (.ok v) => "ok " ++ JsonProto.enc v
  | .ok (.error e) => "err " ++ e.variant
  | .panic _ => "panic"
  | .diverges => "diverges"

def case : P String := do
  let op ← next
  match op with
  | "proc" => do
    let q ← JsonProto.json
    pure (procOut (GridSearch.processO q))
  | "ms" => do
    let sets ← listOf (listOf nat)
    match MultiSet.toList sets with
    | .ok l => pure ("ok " ++ natListList l)
    | .panic _ => pure "panic"
    | .diverges => pure "diverges"
  | "pipe" => do
    let q ← JsonProto.json
    match GridSearch.processO q with
    | .panic _ => pure "panic"
    | .diverges => pure "diverges"
    | .ok _ =>
      match GridSearch.applyInputPlugins [GridSearch.process] q with
      | .ok qs => pure (joinSp (("ok " ++ toString qs.length) :: qs.map JsonProto.enc))
      | .error e => pure ("perr " ++ JsonProto.enc e.request)
  | "jop" => do
    let st ← JsonProto.json
    let elems := match st with
      | .arr xs => xs
      | _ => []
    if elems.any (fun q => match GridSearch.processO q with
        | .ok _ => false
        | _ => true) then pure "panic"
    else
      match GridSearch.jsonArrayOp GridSearch.process st with
      | .error e => pure ("perr " ++ JsonProto.enc e.request)
      | .ok after =>
        let fin : Except (GridSearch.PipeErr GridSearch.ErrKind) (List Json) :=
          GridSearch.jsonArrayFlatten after
        match fin with
        | .ok qs =>
          pure (joinSp (("ok " ++ JsonProto.enc after ++ " fok " ++ toString qs.length) :: qs.map JsonProto.enc))
        | .error e => pure ("ok " ++ JsonProto.enc after ++ " ferr " ++ JsonProto.enc e.request)
  | "flat" => do
    let v ← JsonProto.json
    let r : Except (GridSearch.PipeErr GridSearch.ErrKind) Json := GridSearch.flattenInPlace v
    match r with
    | .ok w => pure ("ok " ++ JsonProto.enc w)
    | .error e => pure ("perr " ++ JsonProto.enc e.request)
  | "fin" => do
    let v ← JsonProto.json
    let r : Except (GridSearch.PipeErr GridSearch.ErrKind) (List Json) := GridSearch.jsonArrayFlatten v
    match r with
    | .ok qs => pure (joinSp (("ok " ++ toString qs.length) :: qs.map JsonProto.enc))
    | .error e => pure ("perr " ++ JsonProto.enc e.request)
  | "pkg" => do
    let kind ← next
    match kind with
    | "e" => do
      let q ← JsonProto.json
      pure (JsonProto.enc (GridSearch.packageError q))
    | "i" => do
      let q ← optOf JsonProto.json
      let sub ← optOf JsonProto.json
      pure (JsonProto.enc (GridSearch.packageInvariantError q sub))
    | _ => failure
  | "msd" => do
    let k ← nat
    let sets ← listOf (listOf nat)
    match MultiSet.takeN k (MultiSet.from sets) with
    | .ok (l, ended) => pure ("ok " ++ (if ended then "1 " else "0 ") ++ natListList l)
    | .panic _ => pure "panic"
    | .diverges => pure "diverges"
  | "bld" => do
    let cfg ← JsonProto.json
    let q ← JsonProto.json
    match GridSearch.buildInputPlugins GridSearch.gridOnlyRegistry cfg with
    | .error e => pure ("cerr " ++ e.variant)
    | .ok plugins =>
      match GridSearch.processO q with
      | .panic _ => pure "panic"
      | .diverges => pure "diverges"
      | .ok _ =>
        let head := "built " ++ toString plugins.length ++ " "
        match GridSearch.applyInputPlugins plugins q with
        | .ok qs => pure (head ++ joinSp (("ok " ++ toString qs.length) :: qs.map JsonProto.enc))
        | .error e => pure (head ++ "perr " ++ JsonProto.enc e.request)
  | _ => failure

def run (line : String) : String := Proto.run case line

end Compass.Drv.C17
