/-
Driver for C06 and C12 (one module, the batch model of `Model/Batch.lean`):

  run <selfPar> <runPar: n | s k> <persist 0|1> <fmt: n (bits x<lexeme>)…> <plugins: n plugin…>
      <batch: n json…> <respond: n (x<compact query text> json)…>
        -> `ok n json…` | `err MinBinEmpty` | `panic` | `diverges`
  bal <parallelism> <n> json…        (apply_load_balancing_policy; the queries carry an "i" field)
        -> `ok nbins (k i…)…` | `err MinBinEmpty` | `panic`
  plugin := grid | inject x<key> <json> <0|1> | lbnum x<col> | lbcat x<col> <n (x<sym> bits)…> <n | s bits>
          | table <n> (x<compact query text> (ok <json> | err <Kind> <json>))…
          | usplit x<key> | ufail x<marker> | ubreak x<key>      (the harness's user-defined plugins)

`respond` is a table from the compact text of an expanded query to the canonical response the real
`run_single_query` gave for it when run alone.
-/
import Compass.Drv.Proto
import Compass.Drv.JsonProto
import Compass.Model.Batch

namespace Compass.Drv.C06
open Compass Compass.Proto Compass.Batch
open Compass.MultiSet (Outcome)

/-- `f64` arithmetic of the bin totals; `lt` is `OrderedFloat`'s order (NaN greatest, equal to itself) -/
def floatOps : WOps Float :=
  { zero := 0.0
    add := fun a b => a + b
    lt := fun a b => if a.isNaN then false else if b.isNaN then true else a < b
    ofBits := fun n => Float.ofBits n.toUInt64
    default := 1.0 }

def fmtOf (t : List (Nat × String)) (bits : Nat) : String :=
  match t.find? (fun p => p.1 == bits) with
  | some p => p.2
  | none => "?fmt"

def tableEntry : P (String × TableEntry) := do
  let k ← JsonProto.str
  let tag ← next
  match tag with
  | "ok" => do
    let v ← JsonProto.json
    pure (k, .ok v)
  | "err" => do
    let kind ← next
    let l ← JsonProto.json
    pure (k, .err kind l)
  | _ => failure

def plugin (fmt : Nat → String) : P Plugin := do
  let t ← next
  match t with
  | "grid" => pure .gridSearch
  | "inject" => do
    let k ← JsonProto.str
    let v ← JsonProto.json
    let o ← bool
    pure (.inject k v o)
  | "lbnum" => do
    let c ← JsonProto.str
    pure (.lbNumeric c fmt)
  | "lbcat" => do
    let c ← JsonProto.str
    let m ← listOf (do let s ← JsonProto.str; let b ← nat; pure (s, b))
    let d ← optOf nat
    pure (.lbCategorical c m d fmt)
  | "table" => do
    let es ← listOf tableEntry
    pure (.table es)
  | "usplit" => do
    let k ← JsonProto.str
    pure (.userSplit k)
  | "ufail" => do
    let k ← JsonProto.str
    pure (.userFailOn k)
  | "ubreak" => do
    let k ← JsonProto.str
    pure (.userBreaker k)
  | _ => failure

def respondOf (t : List (String × Json)) (q : Json) : Json :=
  match lookupStr t q.toCompact with
  | some r => r
  | none => .obj [("request", q), ("error", .str "respond-miss")]

def outLine : Outcome (Except AppErr (List Json)) → String
  | .ok (.ok rs) => joinSp (("ok " ++ toString rs.length) :: rs.map JsonProto.enc)
  | .ok (.error .minBinEmpty) => "err MinBinEmpty"
  | .panic _ => "panic"
  | .diverges => "diverges"

def idxOf (q : Json) : String :=
  match q.get? "i" with
  | some (.num l _) => l
  | _ => "?"

def case : P String := do
  let op ← next
  match op with
  | "run" => do
    let selfPar ← nat
    let runPar ← optOf nat
    let persist ← bool
    let fmtT ← listOf (do let b ← nat; let l ← JsonProto.str; pure (b, l))
    let plugins ← listOf (plugin (fmtOf fmtT))
    let batch ← listOf JsonProto.json
    let resp ← listOf (do let k ← JsonProto.str; let v ← JsonProto.json; pure (k, v))
    let cfg : Config := { plugins := plugins, selfPar := selfPar, runPar := runPar, persist := persist }
    pure (outLine (runO floatOps cfg (respondOf resp) batch))
  | "bal" => do
    let par ← nat
    let qs ← listOf JsonProto.json
    match balanceO floatOps par qs with
    | .ok (.ok bins) =>
      pure (joinSp (("ok " ++ toString bins.length) ::
        bins.map (fun b => joinSp (toString b.length :: b.map idxOf))))
    | .ok (.error .minBinEmpty) => pure "err MinBinEmpty"
    | .panic _ => pure "panic"
    | .diverges => pure "diverges"
  | _ => failure

def run (line : String) : String := Proto.run case line

end Compass.Drv.C06
