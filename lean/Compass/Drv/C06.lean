/-
Driver for C06 and C12 (one module, the batch model of `Model/Batch.lean`):

  run <selfPar> <runPar: n | s k> <persist 0|1> <fmt: n (bits x<lexeme>)…> <plugins: n plugin…>
      <batch: n json…> <respond: n (x<compact query text> json)…>
        -> `ok n json…` | `err MinBinEmpty` | `panic` | `diverges`
  bal <parallelism> <n> json…        (apply_load_balancing_policy; the queries carry an "i" field)
        -> `ok nbins (k i…)…` | `err MinBinEmpty` | `panic`
  plugin := grid | inject x<key> <json> <0|1> | lbnum x<col> | lbcat x<col> <n (x<sym> bits)…> <n | s bits>
          | table <n> (x<compact query text> (ok <json> | err <Kind> <json>))…
          | usplit x<key> | ufail x<marker> | ubreak x<key>      (the harness's user-defined plugins)
  cli <selfPar> <env: n (x<file> open write)…> <runCfg: n | s json> <fmt> <plugins>
      <chunksize: n | s int> <newline_delimited 0|1> <config: unreadable | unbuildable | good>
      <query file: missing | dir | file <doc: n | s json> <n lines: x | t json …>> <respond>
        (the real `command_line_runner`; the application persists responses and has a JSON file sink)
        -> `panic` | `diverges` | (`ok` | `err <Kind>`) <runs> (<k> <k responses, sorted>… <lines reported as unparsable>)…

`respond` is a table from the compact text of an expanded query to the canonical response the real
`run_single_query` gave for it when run alone.
-/
import Compass.Drv.Proto
import Compass.Drv.JsonProto
import Compass.Model.Batch
import Compass.Model.BatchEntry
import Compass.Model.Cli

namespace Compass.Drv.C06
open Compass Compass.Proto Compass.Batch
open Compass.MultiSet (Outcome)

/-- `f64` arithmetic of the bin totals; `lt` is `OrderedFloat`'s order (NaN greatest, equal to itself) -/
def floatOps : WOps Float :=
  { zero := 0.0
    add := fun a b => a + b
    lt := fun a b => if a.isNaN then false else if b.isNaN then true else a < b
    ofBits := fun n => Float.ofBits n.toUInt64
    default := 1.0 }

def fmtOf (t : List (Nat × String)) (bits : Nat) : String :=
  match t.find? (fun p => p.1 == bits) with
  | some p => p.2
  | none => "?fmt"

def tableEntry : P (String × TableEntry) := do
  let k ← JsonProto.str
  let tag ← next
  match tag with
  | "ok" => do
    let v ← JsonProto.json
    pure (k, .ok v)
  | "err" => do
    let kind ← next
    let l ← JsonProto.json
    pure (k, .err kind l)
  | _ => failure

def plugin (fmt : Nat → String) : P Plugin := do
  let t ← next
  match t with
  | "grid" => pure .gridSearch
  | "inject" => do
    let k ← JsonProto.str
    let v ← JsonProto.json
    let o ← bool
    pure (.inject k v o)
  | "lbnum" => do
    let c ← JsonProto.str
    pure (.lbNumeric c fmt)
  | "lbcat" => do
    let c ← JsonProto.str
    let m ← listOf (do let s ← JsonProto.str; let b ← nat; pure (s, b))
    let d ← optOf nat
    pure (.lbCategorical c m d fmt)
  | "table" => do
    let es ← listOf tableEntry
    pure (.table es)
  | "usplit" => do
    let k ← JsonProto.str
    pure (.userSplit k)
  | "ufail" => do
    let k ← JsonProto.str
    pure (.userFailOn k)
  | "ubreak" => do
    let k ← JsonProto.str
    pure (.userBreaker k)
  | _ => failure

def respondOf (t : List (String × Json)) (q : Json) : Json :=
  match lookupStr t q.toCompact with
  | some r => r
  | none => .obj [("request", q), ("error", .str "respond-miss")]

def outLine : Outcome (Except AppErr (List Json)) → String
  | .ok (.ok rs) => joinSp (("ok " ++ toString rs.length) :: rs.map JsonProto.enc)
  | .ok (.error .minBinEmpty) => "err MinBinEmpty"
  | .panic _ => "panic"
  | .diverges => "diverges"

def idxOf (q : Json) : String :=
  match q.get? "i" with
  | some (.num l _) => l
  | _ => "?"

def callOut : Outcome (Except CallErr (List Json)) → String
  | .ok (.ok rs) => joinSp (("ok " ++ toString rs.length) :: rs.map JsonProto.enc)
  | .ok (.error .notABatch) => "err NotABatch"
  | .ok (.error .runConfig) => "err RunConfig"
  | .ok (.error .sinkOpen) => "err SinkOpen"
  | .ok (.error .flushRate) => "err FlushRate"
  | .ok (.error .sinkWrite) => "err SinkWrite"
  | .ok (.error .notJson) => "err NotJson"
  | .ok (.error (.app .minBinEmpty)) => "err MinBinEmpty"
  | .panic _ => "panic"
  | .diverges => "diverges"

def callErrName : CallErr → String
  | .notABatch => "NotABatch"
  | .runConfig => "RunConfig"
  | .sinkOpen => "SinkOpen"
  | .flushRate => "FlushRate"
  | .sinkWrite => "SinkWrite"
  | .notJson => "NotJson"
  | .app .minBinEmpty => "MinBinEmpty"

def cliErrName : Cli.CliErr CallErr → String
  | .chunksizeWithoutNewline => "ChunksizeWithoutNewline"
  | .chunksizeNotPositive => "ChunksizeNotPositive"
  | .configFile => "ConfigFile"
  | .appBuild => "AppBuild"
  | .queryFileMissing => "QueryFileMissing"
  | .invalidCombination => "InvalidCombination"
  | .notImplemented => "NotImplemented"
  | .chunksizeOption => "ChunksizeOption"
  | .notJson => "NotJson"
  | .notABatch => "NotABatch"
  | .run e => "Run:" ++ callErrName e

/-- the responses of one run as a multiset: their encodings, sorted -/
def sortedEnc (rs : List Json) : List String :=
  (rs.map JsonProto.enc).mergeSort (fun a b => !(b < a))

def cliOut : Outcome (Cli.CliOut CallErr (List Json)) → String
  | .panic _ => "panic"
  | .diverges => "diverges"
  | .ok o =>
    let head := match o.result with
      | .ok () => "ok"
      | .error e => "err " ++ cliErrName e
    joinSp ((head ++ " " ++ toString o.log.length) ::
      o.log.map (fun c => joinSp ((toString c.served.length :: sortedEnc c.served) ++ [toString c.parseErrors])))

inductive Text where
  | absent
  | bad
  | good (v : Json)

/-- a JSON text as the harness saw it: `n` (no text), `x` (does not parse), `s`/`t <json>` -/
def textOf : P Text := do
  let t ← next
  match t with
  | "n" => pure .absent
  | "x" => pure .bad
  | "s" => do let v ← JsonProto.json; pure (.good v)
  | "t" => do let v ← JsonProto.json; pure (.good v)
  | _ => failure

def buildErrName : BuildErr → String
  | .missingField => "MissingField"
  | .wrongType => "WrongType"
  | .serde => "Serde"
  | .userConfig => "UserConfig"

/-- the built plugin on one probe query -/
def probeOut (p : Plugin) (q : Json) : String :=
  match processO p q with
  | .ok (.ok v) => "ok " ++ JsonProto.enc v
  | .ok (.error e) => "perr " ++ e.kind
  | .panic _ => "panic"
  | .diverges => "diverges"

def case : P String := do
  let op ← next
  match op with
  | "run" => do
    let selfPar ← nat
    let runPar ← optOf nat
    let persist ← bool
    let fmtT ← listOf (do let b ← nat; let l ← JsonProto.str; pure (b, l))
    let plugins ← listOf (plugin (fmtOf fmtT))
    let batch ← listOf JsonProto.json
    let resp ← listOf (do let k ← JsonProto.str; let v ← JsonProto.json; pure (k, v))
    let cfg : Config := { plugins := plugins, selfPar := selfPar, runPar := runPar, persist := persist }
    pure (outLine (runO floatOps cfg (respondOf resp) batch))
  | "bal" => do
    let par ← nat
    let qs ← listOf JsonProto.json
    match balanceO floatOps par qs with
    | .ok (.ok bins) =>
      pure (joinSp (("ok " ++ toString bins.length) ::
        bins.map (fun b => joinSp (toString b.length :: b.map idxOf))))
    | .ok (.error .minBinEmpty) => pure "err MinBinEmpty"
    | .panic _ => pure "panic"
    | .diverges => pure "diverges"
  | "gq" => do
    let v ← JsonProto.json
    match getQueries v with
    | some qs => pure (joinSp (("ok " ++ toString qs.length) :: qs.map JsonProto.enc))
    | none => pure "err"
  | "call" => do
    let selfPar ← nat
    let persist ← bool
    let envT ← listOf (do let n ← JsonProto.str; let o ← bool; let w ← bool; pure (n, (o, w)))
    let runCfg ← optOf JsonProto.json
    let fmtT ← listOf (do let b ← nat; let l ← JsonProto.str; pure (b, l))
    let plugins ← listOf (plugin (fmtOf fmtT))
    let env : String → Bool × Bool := fun n => (lookupStr envT n).getD (true, true)
    let app : App := { plugins := plugins, parallelism := selfPar, persist := persist, policy := .none }
    let kind ← next
    match kind with
    | "vec" => do
      let batch ← listOf JsonProto.json
      let resp ← listOf (do let k ← JsonProto.str; let v ← JsonProto.json; pure (k, v))
      pure (callOut (callO floatOps env app runCfg (respondOf resp) batch))
    | "value" => do
      let v ← JsonProto.json
      let resp ← listOf (do let k ← JsonProto.str; let v ← JsonProto.json; pure (k, v))
      pure (callOut (callValueO floatOps env app runCfg (respondOf resp) v))
    | "texts" => do
      let cfgT ← textOf
      let cfgText : Option (Option Json) := match cfgT with
        | .absent => none
        | .bad => some none
        | .good v => some (some v)
      let texts ← listOf (do
        let t ← textOf
        match t with
        | .good v => pure (some v)
        | .bad => pure none
        | .absent => failure)
      let resp ← listOf (do let k ← JsonProto.str; let v ← JsonProto.json; pure (k, v))
      pure (callOut (runQueriesO floatOps env app cfgText (respondOf resp) texts))
    | _ => failure
  | "cli" => do
    let selfPar ← nat
    let envT ← listOf (do let n ← JsonProto.str; let o ← bool; let w ← bool; pure (n, (o, w)))
    let runCfg ← optOf JsonProto.json
    let fmtT ← listOf (do let b ← nat; let l ← JsonProto.str; pure (b, l))
    let plugins ← listOf (plugin (fmtOf fmtT))
    let chunksize ← optOf int
    let nd ← bool
    let cfgTok ← next
    let cfg ← match cfgTok with
      | "unreadable" => pure Cli.ConfigFile.unreadable
      | "unbuildable" => pure Cli.ConfigFile.unbuildable
      | "good" => pure Cli.ConfigFile.good
      | _ => failure
    let fileTok ← next
    let file ← match fileTok with
      | "missing" => pure Cli.QueryFile.missing
      | "dir" => pure Cli.QueryFile.unreadable
      | "file" => do
        let doc ← optOf JsonProto.json
        let lines ← listOf (do
          let t ← textOf
          match t with
          | .good v => pure (some v)
          | .bad => pure none
          | .absent => failure)
        pure (Cli.QueryFile.content doc lines)
      | _ => failure
    let resp ← listOf (do let k ← JsonProto.str; let v ← JsonProto.json; pure (k, v))
    let env : String → Bool × Bool := fun n => (lookupStr envT n).getD (true, true)
    let app : App := { plugins := plugins, parallelism := selfPar, persist := true,
                       policy := .file { openOk := true, writeOk := true, flushRate := none } }
    let args : Cli.CliArgs := { chunksize := chunksize, newlineDelimited := nd }
    pure (cliOut (Cli.commandLineRunnerO (callO floatOps env app runCfg (respondOf resp)) args cfg file))
  | "ibuild" => do
    let params ← JsonProto.json
    let ps ← optOf JsonProto.json
    let pj ← optOf JsonProto.json
    let probes ← listOf JsonProto.json
    match buildInject params ps pj with
    | .ok (.ok p) => pure (joinSp ("ok" :: probes.map (probeOut p)))
    | .ok (.error e) => pure ("err " ++ buildErrName e)
    | .panic _ => pure "panic"
    | .diverges => pure "diverges"
  | "lbuild" => do
    let fmtT ← listOf (do let b ← nat; let l ← JsonProto.str; pure (b, l))
    let params ← JsonProto.json
    let probes ← listOf JsonProto.json
    match buildLoadBalancer (fmtOf fmtT) params with
    | .ok .haversine => pure "ok haversine"
    | .ok (.custom p) => pure (joinSp ("ok custom" :: probes.map (probeOut p)))
    | .error e => pure ("err " ++ buildErrName e)
  | "stages" => do
    let st ← listOf (do let n ← next; let f ← bool; pure (n, f))
    match firstFailure (fun n => (lookupStr st n).getD false) with
    | some stage => pure ("err " ++ stage)
    | none => pure "ok"
  | _ => failure

def run (line : String) : String := Proto.run case line

end Compass.Drv.C06
