/-
Driver for C13 (k-shortest paths).  Case line (writer: harness/src/c13.rs):

  <alg sv|yen> <k default> <query k: n | s json> <similarity: n | s (aa | eic bits | dwc bits)>
  <termination: n | s (ex | mi max | fa factor)>
  <search case of Drv/Search.caseP; its schedule is that of the first run_a_star call>
  <gc table towards the (inner) source: n floats> <other schedules: n lists> <intersection pops: n>

Output: `Drv.Search.resultOut` / `err <kind>` / `diverges`.
-/
import Compass.Drv.Search
import Compass.Drv.JsonProto
import Compass.Model.Ksp

namespace Compass.Drv.C13
open Compass Compass.Proto Compass.Drv.Search

def simP : P (SimFn Float) := do
  let t ← next
  match t with
  | "aa" => pure .acceptAll
  | "eic" => do let x ← float; pure (.edgeIdCosine x)
  | "dwc" => do let x ← float; pure (.distanceWeightedCosine x)
  | _ => failure

def ktermP : P KspTerm := do
  let t ← next
  match t with
  | "ex" => pure .exact
  | "mi" => do let n ← nat; pure (.maxIteration n)
  | "fa" => do let n ← nat; pure (.factor n)
  | _ => failure

structure KCase where
  alg : String
  kDefault : Nat
  queryK : Option Json
  sim : Option (SimFn Float)
  term : Option KspTerm
  cfg : Config Float
  q : Query
  gcRev : List Float
  scheds : List (List Nat)
  pops : List Nat

def kcaseP : P KCase := do
  let alg ← next
  let kd ← nat
  let qk ← optOf JsonProto.json
  let sim ← optOf simP
  let term ← optOf ktermP
  let (cfg, q) ← caseP
  let gcRev ← listOf float
  let scheds ← listOf (listOf nat)
  let pops ← listOf nat
  pure { alg := alg, kDefault := kd, queryK := qk, sim := sim, term := term, cfg := cfg, q := q,
         gcRev := gcRev, scheds := scheds, pops := pops }

def numOfJson (j : Json) : Option Float := j.asF64Bits?.map (fun b => Float.ofBits b.toUInt64)

/-- `kterm <json> <k> <size>`: `KspTerminationCriteria` from configuration, `Display`,
`terminate_search(k, size)` -/
def runKterm : P String := do
  let j ← JsonProto.json
  let k ← nat
  let n ← nat
  match KspTerm.ofJson j with
  | none => pure "cfgerr"
  | some t => pure (joinSp ["ok", JsonProto.hexOfStr t.display, if t.terminate k n then "1" else "0"])

/-- `ksim <json> <edge lengths> <route a> <route b>`: `RouteSimilarityFunction` from configuration,
`rank_similarity`, `is_similar`, `test_similarity` -/
def runKsim : P String := do
  let j ← JsonProto.json
  let dists ← listOf float
  let a ← listOf nat
  let b ← listOf nat
  let edges : List (EdgeRec Float) := dists.map (fun d => { src := 0, dst := 0, dist := d })
  match SimFn.ofJson numOfJson j with
  | none => pure "cfgerr"
  | some f =>
    match f.rank edges a b, f.test edges a b with
    | .ok r, .ok t =>
      pure (joinSp ["ok", floatOut r, if f.isSimilar r then "1" else "0", if t then "1" else "0"])
    | .error k, _ => pure ("err " ++ errName k)
    | _, .error k => pure ("err " ++ errName k)

def outcomeOut (nV : Nat) (o : KspOutcome Float) : String :=
  match o with
  | .err k => "err " ++ errName k
  | .ok r => resultOut nV r
  | .diverges _ => "diverges"

/-- `cfg <algorithm json> <query weight_factor: n | s json> <ordinary case line>`: the algorithm is
the one the application deserialises from the `[algorithm]` section -/
def runCfg : P String := do
  let j ← JsonProto.json
  let qwf ← optOf JsonProto.json
  let kc ← kcaseP
  match AlgCfg.ofJson numOfJson 8 j with
  | none => pure "cfgerr"
  | some alg =>
    let runV := fun (s : Nat) (t : Option Nat) =>
      runAlgCfg numOfJson kc.cfg kc.gcRev kc.queryK qwf alg s t (kc.q.sched :: kc.scheds) kc.pops
    let res := if kc.q.edgeOriented then runEdgeWithOutcome kc.cfg runV kc.q.source kc.q.target
               else runV kc.q.source kc.q.target
    pure (outcomeOut kc.cfg.nV res)

def run (line : String) : String :=
  match tokens line with
  | "kterm" :: rest => (match (runKterm <* endOfLine) rest with | some (s, _) => s | none => "bad-case")
  | "ksim" :: rest => (match (runKsim <* endOfLine) rest with | some (s, _) => s | none => "bad-case")
  | "cfg" :: rest => (match (runCfg <* endOfLine) rest with | some (s, _) => s | none => "bad-case")
  | _ =>
  match kcaseP (tokens line) with
  | none => "bad-case"
  | some (kc, rest) =>
    if !rest.isEmpty then "bad-case-trailing"
    else
      let simFn := kc.sim.getD .acceptAll
      let sim := fun a b => simFn.test kc.cfg.edges a b
      match kc.alg with
      | "sv" =>
        let runV := fun (s : Nat) (t : Option Nat) =>
          singleViaVertex kc.cfg kc.gcRev sim kc.term kc.kDefault kc.queryK s t kc.q.sched
            (kc.scheds.headD []) kc.pops
        let res := if kc.q.edgeOriented then runEdgeWith kc.cfg runV kc.q.source kc.q.target
                   else runV kc.q.source kc.q.target
        match res with
        | .error k => "err " ++ errName k
        | .ok r => resultOut kc.cfg.nV r
      | "yen" =>
        let runV := fun (s : Nat) (t : Option Nat) =>
          yensVertex kc.cfg sim kc.term kc.kDefault kc.queryK s t (kc.q.sched :: kc.scheds)
        let res := if kc.q.edgeOriented then runEdgeWithOutcome kc.cfg runV kc.q.source kc.q.target
                   else runV kc.q.source kc.q.target
        match res with
        | .err k => "err " ++ errName k
        | .ok r => resultOut kc.cfg.nV r
        | .diverges _ => "diverges"
      | _ => "bad-alg"

end Compass.Drv.C13
