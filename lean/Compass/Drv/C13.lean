/-
Driver for C13 (k-shortest paths).  Case line (writer: harness/src/c13.rs):

  <alg sv|yen> <k default> <query k: n | s json> <similarity: n | s (aa | eic bits | dwc bits)>
  <termination: n | s (ex | mi max | fa factor)>
  <search case of Drv/Search.caseP; its schedule is that of the first run_a_star call>
  <gc table towards the (inner) source: n floats> <other schedules: n lists> <intersection pops: n>

Output: `Drv.Search.resultOut` / `err <kind>` / `diverges`.
-/
import Compass.Drv.Search
import Compass.Drv.JsonProto
import Compass.Model.Ksp

namespace Compass.Drv.C13
open Compass Compass.Proto Compass.Drv.Search

def simP : P (SimFn Float) := do
  let t ← next
  match t with
  | "aa" => pure .acceptAll
  | "eic" => do let x ← float; pure (.edgeIdCosine x)
  | "dwc" => do let x ← float; pure (.distanceWeightedCosine x)
  | _ => failure

def ktermP : P KspTerm := do
  let t ← next
  match t with
  | "ex" => pure .exact
  | "mi" => do let n ← nat; pure (.maxIteration n)
  | "fa" => do let n ← nat; pure (.factor n)
  | _ => failure

structure KCase where
  alg : String
  kDefault : Nat
  queryK : Option Json
  sim : Option (SimFn Float)
  term : Option KspTerm
  cfg : Config Float
  q : Query
  gcRev : List Float
  scheds : List (List Nat)
  pops : List Nat

def kcaseP : P KCase := do
  let alg ← next
  let kd ← nat
  let qk ← optOf JsonProto.json
  let sim ← optOf simP
  let term ← optOf ktermP
  let (cfg, q) ← caseP
  let gcRev ← listOf float
  let scheds ← listOf (listOf nat)
  let pops ← listOf nat
  pure { alg := alg, kDefault := kd, queryK := qk, sim := sim, term := term, cfg := cfg, q := q,
         gcRev := gcRev, scheds := scheds, pops := pops }

def run (line : String) : String :=
  match kcaseP (tokens line) with
  | none => "bad-case"
  | some (kc, rest) =>
    if !rest.isEmpty then "bad-case-trailing"
    else
      let simFn := kc.sim.getD .acceptAll
      let sim := fun a b => simFn.test kc.cfg.edges a b
      match kc.alg with
      | "sv" =>
        let runV := fun (s : Nat) (t : Option Nat) =>
          singleViaVertex kc.cfg kc.gcRev sim kc.term kc.kDefault kc.queryK s t kc.q.sched
            (kc.scheds.headD []) kc.pops
        let res := if kc.q.edgeOriented then runEdgeWith kc.cfg runV kc.q.source kc.q.target
                   else runV kc.q.source kc.q.target
        match res with
        | .error k => "err " ++ errName k
        | .ok r => resultOut kc.cfg.nV r
      | "yen" =>
        let runV := fun (s : Nat) (t : Option Nat) =>
          yensVertex kc.cfg sim kc.term kc.kDefault kc.queryK s t (kc.q.sched :: kc.scheds)
        let res := if kc.q.edgeOriented then runEdgeWithOutcome kc.cfg runV kc.q.source kc.q.target
                   else runV kc.q.source kc.q.target
        match res with
        | .err k => "err " ++ errName k
        | .ok r => resultOut kc.cfg.nV r
        | .diverges _ => "diverges"
      | _ => "bad-alg"

end Compass.Drv.C13
