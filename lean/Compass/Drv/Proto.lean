/-
Line protocol shared by the driver modules: one case per line, space-separated tokens, integers in
decimal, doubles as the decimal value of their IEEE bit pattern.  No imports (links into the exe).
-/
namespace Compass.Proto

def tokens (line : String) : List String :=
  (line.trimAscii.toString.splitOn " ").filter (· ≠ "")

def floatOfTok (t : String) : Option Float :=
  -- `nan` (what `floatOut` / the harness's `fbits` print for every NaN) reads as the quiet NaN
  if t == "nan" then some (Float.ofBits 0x7ff8000000000000)
  else t.toNat?.map (fun n => Float.ofBits n.toUInt64)

/-- canonical text of a double: its bit pattern; every NaN is `nan` -/
def floatOut (x : Float) : String :=
  if x.isNaN then "nan" else toString x.toBits.toNat

def optOut (f : α → String) : Option α → String
  | none => "none"
  | some a => "some " ++ f a

/-- a tiny parser monad over a token list -/
abbrev P := StateT (List String) Option

def next : P String := fun ts =>
  match ts with
  | [] => none
  | t :: r => some (t, r)

def nat : P Nat := do
  let t ← next
  match t.toNat? with
  | some n => pure n
  | none => failure

def int : P Int := do
  let t ← next
  match t.toInt? with
  | some n => pure n
  | none => failure

def float : P Float := do
  let t ← next
  match floatOfTok t with
  | some x => pure x
  | none => failure

def bool : P Bool := do
  let t ← next
  match t with
  | "1" => pure true
  | "0" => pure false
  | _ => failure

/-- `n` followed by `n` items -/
def listOf (p : P α) : P (List α) := do
  let n ← nat
  let rec go : Nat → List α → P (List α)
    | 0, acc => pure acc.reverse
    | k + 1, acc => do let a ← p; go k (a :: acc)
  go n []

def optOf (p : P α) : P (Option α) := do
  let t ← next
  match t with
  | "n" => pure none
  | "s" => do let a ← p; pure (some a)
  | _ => failure

def endOfLine : P Unit := fun ts =>
  match ts with
  | [] => some ((), [])
  | _ => none

def run (p : P String) (line : String) : String :=
  match p (tokens line) with
  | some (s, _) => s
  | none => "bad-case"

def joinSp (xs : List String) : String := " ".intercalate xs

end Compass.Proto
