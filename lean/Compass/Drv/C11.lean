import Compass.Drv.Proto
import Compass.Model.Container

namespace Compass.Drv.C11
open Compass Compass.Proto

/-! ### container cases: `cont U <init> nops (ins k v)*`, keys are `0 … U-1`, values integers -/

abbrev C := Container Nat Int

def insertByKey (x : Nat × String) : List (Nat × String) → List (Nat × String)
  | [] => [x]
  | y :: r => if x.1 ≤ y.1 then x :: y :: r else y :: insertByKey x r

/-- canonical form of something that came out of a stable sort over `HashMap` order: inside every run
    of consecutive items with the same sort key, order by key.  Items are `(sortKey, key, text)`. -/
def canonRunsAux : Nat → List (Nat × Nat × String) → List String
  | 0, _ => []
  | _, [] => []
  | fuel + 1, (s, k, t) :: r =>
    let run := r.takeWhile (fun x => x.1 = s)
    let rest := r.dropWhile (fun x => x.1 = s)
    let sorted := ((k, t) :: run.map (·.2)).foldr insertByKey []
    sorted.map (·.2) ++ canonRunsAux fuel rest

def canonRuns (l : List (Nat × Nat × String)) : List String := canonRunsAux l.length l

def optS (f : α → String) : Option α → String
  | none => "-"
  | some a => f a

def listS (xs : List String) : String :=
  joinSp (toString xs.length :: xs)

def snapshot (u : Nat) (c : C) : String :=
  let ks := List.range u
  let amb (i : Nat) : Bool := c.indexMultiplicity i > 1
  let pairS (i : Nat) : String :=
    if amb i then "amb" else optS (fun (p : Nat × Int) => s!"{p.1}:{p.2}") (c.getPair i)
  let keysC := canonRuns (c.keys.map (fun k => ((c.getIndex k).getD 0, k, toString k)))
  let iterS := c.iter.zipIdx.map (fun (p, i) => if amb i then "amb" else s!"{p.1}:{p.2}")
  let vecS := c.toVec.zipIdx.map (fun (p, i) => if amb i then "amb" else s!"{p.1}:{p.2.v}:{p.2.index}")
  let iiterS := c.indexedIter.map (fun (i, p) => if amb i then s!"{i}:amb" else s!"{i}:{p.1}:{p.2}")
  let intoC := canonRuns (c.intoIter.map (fun e => (e.2.index, e.1, s!"{e.1}:{e.2.v}:{e.2.index}")))
  joinSp [
    "| len", toString c.len, "emp", (if c.isEmpty then "1" else "0"),
    "get", joinSp (ks.map (fun k => optS toString (c.get k))),
    "idx", joinSp (ks.map (fun k => optS toString (c.getIndex k))),
    "has", joinSp (ks.map (fun k => if c.containsKey k then "1" else "0")),
    "pair", joinSp ((List.range (c.len + 3)).map pairS),
    "keys", listS keysC,
    "iter", listS iterS,
    "vec", listS vecS,
    "iiter", listS iiterS,
    "into", listS intoC]

def kv : P (Nat × Int) := do
  let k ← nat; let v ← int; pure (k, v)

def contCase : P String := do
  let u ← nat
  let initK ← next
  let c0 : C ← (match initK with
    | "empty" => pure Container.empty
    | "new" => do let es ← listOf kv; pure (Container.new es)
    | "from" => do let es ← listOf kv; pure (Container.new es)
    | "fromiter" => do let es ← listOf kv; pure (Container.fromIter es)
    | _ => failure)
  let nops ← nat
  let rec go : Nat → C → List String → P (List String)
    | 0, _, acc => pure acc.reverse
    | k + 1, c, acc => do
      let op ← next
      match op with
      | "ins" => do
        let (key, v) ← kv
        let (c', old) := c.insert key v
        go k c' ((s!"r {optS toString old} " ++ snapshot u c') :: acc)
      | _ => failure
  let outs ← go nops c0 [snapshot u c0]
  endOfLine
  pure (joinSp (tokens (joinSp outs)))

def case : P String := do
  let kind ← next
  match kind with
  | "cont" => contCase
  | _ => failure

def run (line : String) : String := Proto.run case line

end Compass.Drv.C11
