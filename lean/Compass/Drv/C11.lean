import Compass.Drv.Proto
import Compass.Model.Container
import Compass.Model.StateModel
import Compass.Model.StateJson
import Compass.Drv.JsonProto

namespace Compass.Drv.C11
open Compass Compass.Proto

/-! ### container cases: `cont U <init> nops (ins k v)*`, keys are `0 … U-1`, values integers -/

abbrev C := Container Nat Int

def optS (f : α → String) : Option α → String
  | none => "-"
  | some a => f a

def listS (xs : List String) : String :=
  joinSp (toString xs.length :: xs)

def snapshot (u : Nat) (c : C) : String :=
  let ks := List.range u
  let pairS (i : Nat) : String := optS (fun (p : Nat × Int) => s!"{p.1}:{p.2}") (c.getPair i)
  joinSp [
    "| len", toString c.len, "emp", (if c.isEmpty then "1" else "0"),
    "get", joinSp (ks.map (fun k => optS toString (c.get k))),
    "idx", joinSp (ks.map (fun k => optS toString (c.getIndex k))),
    "has", joinSp (ks.map (fun k => if c.containsKey k then "1" else "0")),
    "pair", joinSp ((List.range (c.len + 3)).map pairS),
    "keys", listS (c.keys.map toString),
    "iter", listS (c.iter.map (fun p => s!"{p.1}:{p.2}")),
    "vec", listS (c.toVec.map (fun p => s!"{p.1}:{p.2.v}:{p.2.index}")),
    "iiter", listS (c.indexedIter.map (fun (i, p) => s!"{i}:{p.1}:{p.2}")),
    "into", listS (c.intoIter.map (fun e => s!"{e.1}:{e.2.v}:{e.2.index}"))]

def kv : P (Nat × Int) := do
  let k ← nat; let v ← int; pure (k, v)

def contCase : P String := do
  let u ← nat
  let initK ← next
  let c0 : C ← (match initK with
    | "empty" => pure Container.empty
    | "new" => do let es ← listOf kv; pure (Container.new es)
    | "from" => do let es ← listOf kv; pure (Container.new es)
    | "fromiter" => do let es ← listOf kv; pure (Container.fromIter es)
    | _ => failure)
  let nops ← nat
  let rec go : Nat → C → List String → P (List String)
    | 0, _, acc => pure acc.reverse
    | k + 1, c, acc => do
      let op ← next
      match op with
      | "ins" => do
        let (key, v) ← kv
        let (c', old) := c.insert key v
        go k c' ((s!"r {optS toString old} " ++ snapshot u c') :: acc)
      | _ => failure
  let outs ← go nops c0 [snapshot u c0]
  endOfLine
  pure (joinSp (tokens (joinSp outs)))

/-! ### state-model cases: `sm U <features> nops op*`, names of the universe are `f0 … f{U-1}` -/

abbrev SM := StateModel Float
abbrev SF := StateFeature Float

def unitP (ofName : String → Option β) : P β := do
  let t ← next
  match ofName t with
  | some u => pure u
  | none => failure

def featureP : P SF := do
  let k ← next
  match k with
  | "d" => do let u ← unitP DistanceUnit.ofName?; let i ← float; pure (.distance u i)
  | "t" => do let u ← unitP TimeUnit.ofName?; let i ← float; pure (.time u i)
  | "e" => do let u ← unitP EnergyUnit.ofName?; let i ← float; pure (.energy u i)
  | "c" => do
    let ty ← next; let un ← next; let f ← next
    match f with
    | "f" => do let i ← float; pure (.custom ty un (.floatingPoint i))
    | "i" => do let i ← int; pure (.custom ty un (.signedInteger i))
    | "u" => do let i ← nat; pure (.custom ty un (.unsignedInteger i))
    | "b" => do let i ← bool; pure (.custom ty un (.boolean i))
    | _ => failure
  | _ => failure

def namedFeatureP : P (String × SF) := do
  let n ← next; let f ← featureP; pure (n, f)

def featS : SF → String
  | .distance u i => s!"d:{u.name}:{floatOut i}"
  | .time u i => s!"t:{u.name}:{floatOut i}"
  | .energy u i => s!"e:{u.name}:{floatOut i}"
  | .custom t u (.floatingPoint i) => s!"c:{t}:{u}:f:{floatOut i}"
  | .custom t u (.signedInteger i) => s!"c:{t}:{u}:i:{i}"
  | .custom t u (.unsignedInteger i) => s!"c:{t}:{u}:u:{i}"
  | .custom t u (.boolean i) => s!"c:{t}:{u}:b:{if i then 1 else 0}"

def insertByName (x : String × String) : List (String × String) → List (String × String)
  | [] => [x]
  | y :: r => if x.1 ≤ y.1 then x :: y :: r else y :: insertByName x r

/-- sort `(name, text)` by name -/
def sortByName (l : List (String × String)) : List String :=
  (l.foldr insertByName []).map (·.2)

def stateS (st : List Float) : String := listS (st.map floatOut)

def exS (f : β → String) : Except StateErr β → String
  | .ok b => "ok " ++ f b
  | .error e => "err " ++ e.name

/-- `serde_json` writes a finite double as a number and NaN / ±∞ as `null` -/
def toNumF (x : Float) : Json := if x.isNaN || x.isInf then .null else .num "" x.toBits.toNat
def ofBitsF (n : Nat) : Float := Float.ofBits n.toUInt64

/-- JSON printed for comparison: integer numbers by lexeme, other numbers by bit pattern (the model does
    not compute decimal float lexemes) -/
partial def jb : Json → String
  | .null => "z"
  | .bool true => "t"
  | .bool false => "f"
  | .num l b => if l.isEmpty then s!"nf {b}" else s!"ni {l}"
  | .str s => "s " ++ JsonProto.hexOfStr s
  | .arr xs => joinSp (("a " ++ toString xs.length) :: xs.map jb)
  | .obj kvs => joinSp (("o " ++ toString kvs.length) :: kvs.map fun (k, v) => JsonProto.hexOfStr k ++ " " ++ jb v)

def fmtS : CustomFeatureFormat Float → String
  | .floatingPoint i => s!"f:{floatOut i}"
  | .signedInteger i => s!"i:{i}"
  | .unsignedInteger i => s!"u:{i}"
  | .boolean i => s!"b:{if i then 1 else 0}"

def modelS (u : Nat) (m : SM) : String :=
  let names := (List.range u).map (fun i => s!"f{i}")
  joinSp [
    "len", toString m.len, "emp", (if m.isEmpty then "1" else "0"),
    "names", listS m.names,
    "idx", joinSp (names.map (fun n => optS toString (m.getIndex n))),
    "has", joinSp (names.map (fun n => if m.containsKey n then "1" else "0")),
    "iter", listS (m.indexedIter.map (fun (i, (n, f)) => s!"{i}:{n}:{featS f}")),
    "vec", listS (m.toVec.map (fun (n, e) => s!"{n}:{e.index}:{featS e.v}")),
    "ssm", jb (StateJson.serializeStateModelJson toNumF m)]

structure SmSt where
  m : SM
  st : List Float
  prev : List Float

/-- a mutation of the state vector: on success the old vector becomes `prev` -/
def mutate (s : SmSt) (r : Except StateErr (List Float)) : SmSt × String :=
  match r with
  | .ok st' => ({ s with st := st', prev := s.st }, "ok " ++ stateS st')
  | .error e => (s, "err " ++ e.name)

def smOp (u : Nat) (s : SmSt) : P (SmSt × String) := do
  let op ← next
  match op with
  | "ext" => do
    let fs ← listOf namedFeatureP
    match s.m.extend fs with
    | .ok m' => pure ({ s with m := m' }, "ok " ++ modelS u m')
    | .error e => pure (s, "err " ++ e.name)
  | "init" => pure (mutate s s.m.initialState)
  | "state" => do let xs ← listOf float; pure (mutate s (.ok xs))
  | "getd" => do
    let n ← next; let un ← unitP DistanceUnit.ofName?
    pure (s, exS floatOut (s.m.getDistance s.st n un))
  | "gett" => do
    let n ← next; let un ← unitP TimeUnit.ofName?
    pure (s, exS floatOut (s.m.getTime s.st n un))
  | "gete" => do
    let n ← next; let un ← unitP EnergyUnit.ofName?
    pure (s, exS floatOut (s.m.getEnergy s.st n un))
  | "setd" => do
    let n ← next; let un ← unitP DistanceUnit.ofName?; let x ← float
    pure (mutate s (s.m.setDistance s.st n x un))
  | "sett" => do
    let n ← next; let un ← unitP TimeUnit.ofName?; let x ← float
    pure (mutate s (s.m.setTime s.st n x un))
  | "sete" => do
    let n ← next; let un ← unitP EnergyUnit.ofName?; let x ← float
    pure (mutate s (s.m.setEnergy s.st n x un))
  | "addd" => do
    let n ← next; let un ← unitP DistanceUnit.ofName?; let x ← float
    pure (mutate s (s.m.addDistance s.st n x un))
  | "addt" => do
    let n ← next; let un ← unitP TimeUnit.ofName?; let x ← float
    pure (mutate s (s.m.addTime s.st n x un))
  | "adde" => do
    let n ← next; let un ← unitP EnergyUnit.ofName?; let x ← float
    pure (mutate s (s.m.addEnergy s.st n x un))
  | "getcf" => do let n ← next; pure (s, exS floatOut (s.m.getCustomF64 s.st n))
  | "getci" => do let n ← next; pure (s, exS toString (s.m.getCustomI64 s.st n))
  | "getcu" => do let n ← next; pure (s, exS toString (s.m.getCustomU64 s.st n))
  | "getcb" => do
    let n ← next; pure (s, exS (fun b => if b then "1" else "0") (s.m.getCustomBool s.st n))
  | "setcf" => do let n ← next; let x ← float; pure (mutate s (s.m.setCustomF64 s.st n x))
  | "setci" => do let n ← next; let x ← int; pure (mutate s (s.m.setCustomI64 s.st n x))
  | "setcu" => do let n ← next; let x ← nat; pure (mutate s (s.m.setCustomU64 s.st n x))
  | "setcb" => do let n ← next; let x ← bool; pure (mutate s (s.m.setCustomBool s.st n x))
  | "delta" => do let n ← next; pure (s, exS floatOut (s.m.getDelta s.prev s.st n))
  | "ser" =>
    pure (s, listS (sortByName ((s.m.serializeState s.st).map (fun (n, x) => (n, s!"{n}:{floatOut x}")))))
  | _ => failure

/-- `sm`: `StateModel::new(features)`; `smf`: `StateModel::from(features)`; `sme`: `StateModel::empty()` -/
def smCase (kind : String) : P String := do
  let u ← nat
  let fs ← (if kind == "sme" then pure [] else listOf namedFeatureP)
  let m : SM := if kind == "sme" then StateModel.empty else StateModel.new fs
  let nops ← nat
  let rec go : Nat → SmSt → List String → P (List String)
    | 0, _, acc => pure acc.reverse
    | k + 1, s, acc => do
      let (s', out) ← smOp u s
      go k s' (("| " ++ out) :: acc)
  let outs ← go nops { m := m, st := [], prev := [] } [modelS u m]
  endOfLine
  pure (joinSp (tokens (joinSp outs)))

/-! ### `collect_features` cases: `cf U <configured> <traversal> <access> <query json>`: the collected
    list (model part in order, then the query's part sorted by name — it comes out of a `HashMap`), then
    the configured model extended by it -/

def cfCase : P String := do
  let u ← nat
  let cfg ← listOf namedFeatureP
  let tr ← listOf namedFeatureP
  let ac ← listOf namedFeatureP
  let q ← JsonProto.json
  endOfLine
  let m0 : SM := StateModel.new cfg
  match collectFeaturesQuery ofBitsF tr ac q with
  | .error e =>
    -- several offending entries of different kinds: which one is reported depends on `HashMap` order
    let modelFeatures := HMap.ofList (tr ++ ac)
    let user := match queryStateFeatures ofBitsF q with
      | .ok (some fs) => fs
      | _ => []
    let unk := user.any (fun p => (HMap.get modelFeatures p.1).isNone)
    let fty := user.any (fun p => match HMap.get modelFeatures p.1 with
      | some ex => ex.featureType != p.2.featureType
      | none => false)
    pure (if unk && fty then "err ftype|unk" else "err " ++ e.name)
  | .ok fs =>
    let nModel := (HMap.ofList (tr ++ ac)).length
    let fS := fun (p : String × SF) => s!"{p.1}:{featS p.2}"
    let collected := joinSp ["ok", listS ((fs.take nModel).map fS),
      listS (sortByName ((fs.drop nModel).map (fun p => (p.1, fS p))))]
    match m0.extend fs with
    | .error e => pure (joinSp (tokens (collected ++ " | err " ++ e.name)))
    | .ok m => pure (joinSp (tokens (joinSp [collected, "| ok", modelS u m])))

/-! ### direct calls: `feat <f> <g> <x bits> <i> <u> <b>` — every method of `StateFeature` on `f`, `f == g`,
    serde round trip, and every codec method of `f.get_feature_format()` on the given values -/

def featCase : P String := do
  let f ← featureP
  let g ← featureP
  let x ← float; let i ← int; let n ← nat; let b ← bool
  endOfLine
  let unitS := fun {β : Type} (nm : β → String) (r : Except StateErr β) => exS nm r
  let fm := f.getFeatureFormat
  let js := StateJson.featureToJson toNumF f
  let boolS := fun (b : Bool) => if b then "1" else "0"
  pure (joinSp (tokens (joinSp [
    "type", JsonProto.hexOfStr f.featureType, "unit", JsonProto.hexOfStr f.featureUnitName,
    "fmt", fmtS fm, "init", exS floatOut f.getInitial,
    "du", unitS DistanceUnit.name f.getDistanceUnit, "tu", unitS TimeUnit.name f.getTimeUnit,
    "eu", unitS EnergyUnit.name f.getEnergyUnit, "cf", exS fmtS f.getCustomFeatureFormat,
    "eq", boolS (f.eqv g), "json", jb js,
    "parse", optS featS (StateJson.parseFeature ofBitsF js),
    "| name", fm.name, "def", fmtS (CustomFeatureFormat.default : CustomFeatureFormat Float),
    "init", exS floatOut fm.initial,
    "encf", exS floatOut (fm.encodeF64 x), "enci", exS floatOut (fm.encodeI64 i),
    "encu", exS floatOut (fm.encodeU64 n), "encb", exS floatOut (fm.encodeBool b),
    "decf", exS floatOut (fm.decodeF64 x), "deci", exS toString (fm.decodeI64 x),
    "decu", exS toString (fm.decodeU64 x), "decb", exS boolS (fm.decodeBool x)])))

/-! ### `smjson U <json>`: `StateModel::try_from(&json)`; `parse <json>`: one `StateFeature` from JSON -/

def smJsonCase : P String := do
  let u ← nat
  let j ← JsonProto.json
  endOfLine
  match StateJson.tryFrom ofBitsF j with
  | .error e => pure ("err " ++ e.name)
  | .ok m => pure (joinSp (tokens ("ok " ++ modelS u m)))

def parseCase : P String := do
  let j ← JsonProto.json
  endOfLine
  pure (optS featS (StateJson.parseFeature ofBitsF j))

/-! ### `bsi U <configured> <traversal variants> <access variants> nq <query json>*`:
    `SearchApp::build_search_instance` on a sequence of queries against one application -/

def bsiCase : P String := do
  let u ← nat
  let cfg ← listOf namedFeatureP
  let trs ← listOf (listOf namedFeatureP)
  let acs ← listOf (listOf namedFeatureP)
  let qs ← listOf JsonProto.json
  endOfLine
  let m0 : SM := StateModel.new cfg
  let flag := fun (q : Json) (k : String) => (Json.get? q k).isSome
  let pick := fun (q : Json) (k failK : String) (vs : List (List (String × SF))) =>
    if flag q failK then none
    else match Json.get? q k with
      | none => vs[0]?
      | some j => match Json.asU64? j with
        | some i => vs[i]?
        | none => none
  let one := fun (q : Json) =>
    let r := buildSearchInstanceState ofBitsF m0 (pick q "tm" "tm_fail" trs) (pick q "am" "am_fail" acs) q
      (fun m => !(flag q "weights") && m.len > 0) (fun _ => !(flag q "fm_fail"))
    let rs := match r with
      | .ok m => "ok " ++ modelS u m
      | .error e => "err " ++ e.name
    joinSp ["|", rs, "| cfg", listS m0.names]
  pure (joinSp (tokens (joinSp (qs.map one))))

def case : P String := do
  let kind ← next
  match kind with
  | "cont" => contCase
  | "sm" => smCase "sm"
  | "smf" => smCase "smf"
  | "sme" => smCase "sme"
  | "cf" => cfCase
  | "feat" => featCase
  | "smjson" => smJsonCase
  | "parse" => parseCase
  | "bsi" => bsiCase
  | _ => failure

def run (line : String) : String := Proto.run case line

end Compass.Drv.C11
