import Compass.Drv.Proto
import Compass.Model.Interp

namespace Compass.Drv.C14
open Compass Compass.Proto Compass.Interp

/-- canonical double: `-0.0` and `0.0` are both `0` -/
def fo (x : Float) : String := if x == 0.0 then "0" else floatOut x

def resOut {β : Type} (f : β → String) : Res β → String
  | .ok v => "ok " ++ f v
  | .err _ => "err"
  | .panic _ => "panic"
  | .diverges => "diverges"

def unitP {β : Type} (ofName : String → Option β) : P β := do
  let t ← next
  match ofName t with
  | some u => pure u
  | none => failure

def strategyP : P Strategy := do
  let t ← next
  match t with
  | "N" => pure .none
  | "L" => pure .linear
  | "LN" => pure .leftNearest
  | "RN" => pure .rightNearest
  | "NE" => pure .nearest
  | _ => failure

def floats : P (List Float) := listOf float

/-- evaluate a list of points: `v` through `Interpolator::interpolate`, `r` through the raw `linear` -/
def evalPoints (mode : String) (s : Strategy) (it : Interpolator Float) (pts : List (List Float)) : String :=
  joinSp (pts.map fun pt =>
    let r : Res Float :=
      if mode == "v" then it.interpolate pt s
      else match it with
        | .d0 v => .ok v
        | .d1 x f => (idx pt 0).bind fun p => linear1 x f p
        | .d2 x y f => linear2 x y f pt
        | .d3 x y z f => linear3 x y z f pt
        | .dn m => linearN m pt
    resOut fo r)

/-- underlying model of a speed/grade case: the table of raw rates at the grid points, looked up by value -/
def tableFn (xs ys : List Float) (u : List (List Float)) (s g : Float) : Float :=
  match position (fun v => v == s) xs, position (fun v => v == g) ys with
  | some i, some j => ((u.getD i []).getD j (0.0 / 0.0))
  | _, _ => 0.0 / 0.0

/-- the random forest of a case: its values at the points the model evaluates, looked up by value -/
def pointFn (tbl : List (Float × Float × Float)) (s g : Float) : Float :=
  match tbl.find? (fun t => t.1 == s && t.2.1 == g) with
  | some t => t.2.2
  | none => 0.0 / 0.0

def pointsP : P (List (Float × Float × Float)) :=
  listOf (do let s ← float; let g ← float; let v ← float; pure (s, g, v))

partial def modelTypeP : P (ModelType Float) := do
  let t ← next
  match t with
  | "S" => pure .smartcore
  | "O" => pure .onnx
  | "I" => do
    let u ← modelTypeP
    let s0 ← float; let s1 ← float; let sb ← nat
    let g0 ← float; let g1 ← float; let gb ← nat
    pure (.interpolate u s0 s1 sb g0 g1 gb)
  | _ => failure

def resList {β : Type} : Res (List β) → List β
  | .ok v => v
  | _ => []

def case : P String := do
  let op ← next
  match op with
  | "fni" => do
    let g ← floats; let t ← float
    pure (resOut toString (findNearestIndex g t))
  | "lin" => do
    let a ← float; let b ← float; let n ← nat; let cap ← nat
    pure (resOut (fun (l : List Float) => joinSp (toString l.length :: l.map fo)) (linspaceAlloc cap a b n))
  | "i0" => do
    let s ← strategyP; let v ← float; let pts ← listOf floats
    pure (evalPoints "v" s (.d0 v) pts)
  | "i1" => do
    let mode ← next; let s ← strategyP
    let x ← floats; let f ← floats; let pts ← listOf floats
    match validate1 x f with
    | .ok _ => pure (evalPoints mode s (.d1 x f) pts)
    | r => pure ("new " ++ resOut (fun _ => "") r)
  | "i2" => do
    let mode ← next; let s ← strategyP
    let x ← floats; let y ← floats; let f ← listOf floats; let pts ← listOf floats
    match validate2 x y f with
    | .ok _ => pure (evalPoints mode s (.d2 x y f) pts)
    | r => pure ("new " ++ resOut (fun _ => "") r)
  | "i3" => do
    let mode ← next; let s ← strategyP
    let x ← floats; let y ← floats; let z ← floats; let f ← listOf (listOf floats); let pts ← listOf floats
    match validate3 x y z f with
    | .ok _ => pure (evalPoints mode s (.d3 x y z f) pts)
    | r => pure ("new " ++ resOut (fun _ => "") r)
  | "in" => do
    let mode ← next; let s ← strategyP
    let grid ← listOf floats; let shape ← listOf nat; let data ← floats; let pts ← listOf floats
    let m : ND Float := { grid := grid, shape := shape, get := getFlat shape data }
    match validateN m with
    | .ok _ => pure (evalPoints mode s (.dn m) pts)
    | r => pure ("new " ++ resOut (fun _ => "") r)
  | "sg" => do
    let su ← unitP SpeedUnit.ofName?; let gu ← unitP GradeUnit.ofName?; let ru ← unitP EnergyRateUnit.ofName?
    let s0 ← float; let s1 ← float; let sb ← nat
    let g0 ← float; let g1 ← float; let gb ← nat
    let cap ← nat
    let u ← listOf floats
    let nq ← nat
    let rec queries : Nat → List (Float × SpeedUnit × Float × GradeUnit) → P (List (Float × SpeedUnit × Float × GradeUnit))
      | 0, acc => pure acc.reverse
      | k + 1, acc => do
        let s ← float; let qsu ← unitP SpeedUnit.ofName?; let g ← float; let qgu ← unitP GradeUnit.ofName?
        queries k ((s, qsu, g, qgu) :: acc)
    let qs ← queries nq []
    -- the table of underlying rates is only consulted for allocatable grids
    let xs := if cap < sb then [] else resList (linspace s0 s1 sb)
    let ys := if cap < gb then [] else resList (linspace g0 g1 gb)
    match SpeedGradeModel.newAlloc cap (tableFn xs ys u) su s0 s1 sb gu g0 g1 gb ru with
    | .ok m =>
      pure (joinSp (qs.map fun (s, qsu, g, qgu) =>
        resOut (fun (p : Float × EnergyRateUnit) => fo p.1 ++ " " ++ p.2.name) (m.predict s qsu g qgu)))
    | .err _ => pure "new err"
    | .panic _ => pure "new panic"
    | .diverges => pure "new diverges"
  | "sc" => do
    -- SmartcoreSpeedGradeModel::{new, predict}
    let su ← unitP SpeedUnit.ofName?; let gu ← unitP GradeUnit.ofName?; let ru ← unitP EnergyRateUnit.ofName?
    let fileOk ← bool
    let tbl ← pointsP
    let qs ← listOf (do
      let s ← float; let qsu ← unitP SpeedUnit.ofName?; let g ← float; let qgu ← unitP GradeUnit.ofName?
      pure (s, qsu, g, qgu))
    if !fileOk then pure "new err"
    else
      pure (joinSp (qs.map fun (s, qsu, g, qgu) =>
        resOut (fun (p : Float × EnergyRateUnit) => fo p.1 ++ " " ++ p.2.name)
          (smartcorePredict (pointFn tbl) su gu ru s qsu g qgu)))
  | "lpm" => do
    -- load_prediction_model, then the record's fields, the model's predict and the record's predict
    let mt ← modelTypeP
    let su ← unitP SpeedUnit.ofName?; let gu ← unitP GradeUnit.ofName?; let ru ← unitP EnergyRateUnit.ofName?
    let fileOk ← bool
    let cap ← nat
    let ideal ← optOf float; let adj ← optOf float
    let tbl ← pointsP
    let qs ← listOf (do
      let s ← float; let qsu ← unitP SpeedUnit.ofName?; let g ← float; let qgu ← unitP GradeUnit.ofName?
      let d ← float; let du ← unitP DistanceUnit.ofName?
      pure (s, qsu, g, qgu, d, du))
    match loadPredictionModel cap (pointFn tbl) fileOk mt su gu ru ideal adj with
    | .ok r =>
      let head := "ok " ++ fo r.idealEnergyRate ++ " " ++ fo r.realWorldEnergyAdjustment ++ " "
        ++ r.speedUnit.name ++ " " ++ r.gradeUnit.name ++ " " ++ r.energyRateUnit.name
      pure (joinSp (head :: qs.map fun (s, qsu, g, qgu, d, du) =>
        resOut (fun (p : Float × EnergyRateUnit) => fo p.1 ++ " " ++ p.2.name) (r.model s qsu g qgu) ++ " "
          ++ resOut (fun (p : Float × EnergyUnit) => fo p.1 ++ " " ++ p.2.name) (r.predict s qsu g qgu d du)))
    | .err _ => pure "err"
    | .panic _ => pure "panic"
    | .diverges => pure "diverges"
  | _ => failure

def run (line : String) : String := Proto.run case line

end Compass.Drv.C14
