import Compass.Drv.Proto
import Compass.Model.Energy

namespace Compass.Drv.C08
open Compass Compass.Proto Compass.Energy

def unitP (ofName : String → Option β) : P β := do
  let t ← next
  match ofName t with
  | some u => pure u
  | none => failure

/-- a double, `nan` included (table rows may be NaN) -/
def floatNan : P Float := do
  let t ← next
  if t == "nan" then pure (0.0 / 0.0)
  else match floatOfTok t with
    | some x => pure x
    | none => failure

abbrev Key := List Int

/-- `n` | `s capacity k p1 … pk` -/
def cacheP : P (Option (Cache Key Float)) :=
  optOf (do
    let cap ← nat
    let precs ← listOf int
    pure { capacity := cap, keyOf := floatKey precs, entries := [], arityOk := precs.length == 2 })

/-- a prediction record.  `aff`: the harness's stub `PredictionModel`, affine in speed and grade (in
the model's own units), evaluated as `a0 + a1 * speed + a2 * grade`.  `tbl`: a real model file loaded
through the configuration builders; its predictions are data — the rate at every (speed, grade) the
real code evaluated, keyed by the exact doubles in the model's own units (anything else is NaN), and
the results of the ideal-rate sweep; `ideal_energy_rate` / `real_world_energy_adjustment` as
configured (or absent). -/
def recP : P (PredRecord Float × Option (Cache Key Float)) := do
  let su ← unitP SpeedUnit.ofName?
  let gu ← unitP GradeUnit.ofName?
  let ru ← unitP EnergyRateUnit.ofName?
  let tag ← next
  match tag with
  | "aff" => do
    let a0 ← float; let a1 ← float; let a2 ← float
    let ideal ← float
    let adj ← float
    let c ← cacheP
    pure ({ rate := fun s g => a0 + a1 * s + a2 * g, speedUnit := su, gradeUnit := gu, rateUnit := ru,
            idealRate := ideal, adjustment := adj }, c)
  | "tbl" => do
    let tbl ← listOf (do let s ← floatNan; let g ← floatNan; let r ← floatNan; pure (s, g, r))
    let ideal ← optOf float
    let sweep ← listOf float
    let adj ← optOf float
    let c ← cacheP
    let rate : Float → Float → Float := fun s g =>
      match tbl.find? (fun t => t.1.toBits == s.toBits && t.2.1.toBits == g.toBits) with
      | some t => t.2.2
      | none => 0.0 / 0.0
    pure (PredRecord.ofConfig rate su gu ru ideal sweep adj, c)
  | _ => failure

inductive Kind | ice | bev | phev

/-- a vehicle: record(s), capacity, unit.  The last component says whether the configuration builders
accept it (`Battery.ofConfig`: a capacity that is not positive is a configuration error); constructed
in-process (`BEV::new` / `PHEV::new`) any capacity is taken. -/
def vehicleP : P (Kind × Vehicle Float × Caches Key Float × Bool) := do
  let k ← next
  match k with
  | "ice" => do
    let (r, c) ← recP
    pure (.ice, .ice r, { main := c, sustain := none }, true)
  | "bev" => do
    let (r, c) ← recP
    let cap ← float
    let bu ← unitP EnergyUnit.ofName?
    let ok := match Battery.ofConfig cap bu with | .ok _ => true | .error _ => false
    pure (.bev, .bev r (Battery.unchecked cap bu), { main := c, sustain := none }, ok)
  | "phev" => do
    let (rs, cs) ← recP
    let (rd, cd) ← recP
    let cap ← float
    let bu ← unitP EnergyUnit.ofName?
    let ok := match Battery.ofConfig cap bu with | .ok _ => true | .error _ => false
    pure (.phev, .phev rs rd (Battery.unchecked cap bu), { main := cd, sustain := cs }, ok)
  | _ => failure

def queryP : P (SocQuery Float) := do
  let t ← next
  match t with
  | "absent" => pure .absent
  | "nonnum" => pure .nonNumeric
  | "num" => do let x ← float; pure (.num x)
  | _ => failure

/-- the `TraversalModelError` variant the code returns at each site -/
def errClass : Err → String
  | .speedTable => "failure"
  | .gradeTable => "failure"
  | .timeCreate => "units"
  | .build => "build"
  | .cache => "cache"
  | .haversine => "failure"
  | .headingTable => "failure"

def showState (k : Kind) (s : VState Float) : String :=
  match k with
  | .ice => joinSp [floatOut s.time, floatOut s.distance, floatOut s.liquid]
  | .bev => joinSp [floatOut s.time, floatOut s.distance, floatOut s.electric, floatOut s.soc]
  | .phev => joinSp [floatOut s.time, floatOut s.distance, floatOut s.liquid, floatOut s.electric, floatOut s.soc]

def peek : P String := fun ts =>
  match ts with
  | [] => none
  | t :: _ => some (t, ts)

def nameP : P NameQuery := do
  let t ← next
  match t with
  | "absent" => pure .absent
  | "nonstr" => pure .nonString
  | "name" => do let k ← nat; pure (.name k)
  | _ => failure

/-- `hd n (a d)… id`: `energy_model_ops::get_headings` over a table of (start, end) headings -/
def headingsCase : P String := do
  let tbl ← listOf (do let a ← int; let d ← int; pure (a, d))
  let id ← nat
  endOfLine
  match getHeadings tbl id with
  | .error _ => pure "err failure"
  | .ok (a, d) => pure s!"ok {a} {d}"

/-- the `TraversalModelError` variant of the estimate's errors -/
def estErr : Err → String
  | .haversine => "failure"
  | e => errClass e

def routeCase : P String := do
  let first ← peek
  let cfg := first == "cfg"
  -- the vehicle: given directly (built in-process), or selected from a configured library by the query
  let (kind, vres, caches, built, malformed) ← (do
    if cfg then
      let _ ← next
      let malformed ← bool
      let lib4 : List (Nat × Kind × Vehicle Float × Caches Key Float × Bool) ←
        listOf (do let id ← nat; let v ← vehicleP; pure (id, v))
      let capsOk := lib4.all fun (p : Nat × Kind × Vehicle Float × Caches Key Float × Bool) => p.2.2.2.2
      let lib : List (Nat × Kind × Vehicle Float × Caches Key Float) :=
        lib4.map fun (p : Nat × Kind × Vehicle Float × Caches Key Float × Bool) => (p.1, p.2.1, p.2.2.1, p.2.2.2.1)
      let nm ← nameP
      let q ← queryP
      let vres := selectVehicle (lib.map fun (p : Nat × Kind × Vehicle Float × Caches Key Float) => (p.1, p.2.2.1)) nm q
      let sel := match nm with
        | .name id => libraryGet lib id
        | _ => none
      -- the vehicle as the builder left it (before the query): a battery vehicle starts full
      let built := match sel with
        | some (.ice, _, _) => "built - | "
        | some (_, v, _) => "built " ++ floatOut v.initialState.soc ++ " | "
        | none => "built - | "
      let (kind, caches) := match sel with
        | some (k, _, c) => (k, c)
        | none => (Kind.ice, ({ main := none, sustain := none } : Caches Key Float))
      let cachesOk := lib.all fun (p : Nat × Kind × Vehicle Float × Caches Key Float) => cachesConfigOk p.2.2.2
      pure (kind, vres, caches, built, malformed || !cachesOk || !capsOk)
    else
      let (kind, v0, caches, _) ← vehicleP
      let q ← queryP
      pure (kind, v0.updateFromQuery q, caches, "", false))
  -- service
  let tmsu ← unitP SpeedUnit.ofName?
  let gt ← optOf (listOf floatNan)
  let gu ← unitP GradeUnit.ofName?
  let sdu ← if cfg then optOf (unitP DistanceUnit.ofName?) else (do let u ← unitP DistanceUnit.ofName?; pure (some u))
  -- configured: the grade file goes through the reader (a row that is not a finite number fails the build)
  let gtRes : Except Err (Option (List Float)) :=
    if cfg then loadGradeTable (gt.map fun l => l.map fun x => if x.isFinite then Row.val x else Row.nan)
    else .ok gt
  let gradesOk := match gtRes with | .ok _ => true | .error _ => false
  let svc : Service Float := Service.ofConfig tmsu (match gtRes with | .ok g => g | .error _ => none) gu sdu
  -- time model engine
  let tbl ← listOf floatNan
  let esu ← unitP SpeedUnit.ofName?
  let edu ← if cfg then optOf (unitP DistanceUnit.ofName?) else (do let u ← unitP DistanceUnit.ofName?; pure (some u))
  let etu ← if cfg then optOf (unitP TimeUnit.ofName?) else (do let u ← unitP TimeUnit.ofName?; pure (some u))
  -- built in-process the engine is a struct literal (only `get_max_speed` is called); configured, the
  -- table goes through the file reader first
  let engRes : Except Err (SpeedEngine Float × Float) :=
    if cfg then SpeedEngine.ofConfig (tbl.map fun x => if x.isNaN then Row.nan else Row.val x) esu edu etu
    else match getMaxSpeed tbl with
      | .error e => .error e
      | .ok m => .ok ({ speedTable := tbl, speedUnit := esu, distanceUnit := edu.getD baseDistanceUnit,
                        timeUnit := etu.getD baseTimeUnit }, m)
  -- feature units
  let ftu ← unitP TimeUnit.ofName?
  let fdu ← unitP DistanceUnit.ofName?
  let flu ← unitP EnergyUnit.ofName?
  let feu ← unitP EnergyUnit.ofName?
  let fu : FeatureUnits := { time := ftu, distance := fdu, liquid := flu, electric := feu }
  let edges ← listOf (do let id ← nat; let d ← float; pure ({ id := id, distance := d } : Edge Float))
  let bcd ← float
  let hm ← if cfg then optOf float else (do let x ← float; pure (some x))
  let socOverride ← optOf float
  let socFormat ← optOf next
  endOfLine
  match configReadable (malformed || !gradesOk), engRes, vres with
  | .error _, _, _ => pure "engine_rejected"
  | .ok _, .error _, _ => pure "engine_rejected"
  | .ok _, .ok _, .error _ => pure (built ++ "rejected")
  | .ok _, .ok (eng, maxSpeed), .ok v =>
    match stateFeaturesAccepted socFormat.isSome with
    | .error _ => pure (built ++ "rejected")
    | .ok _ =>
    let s0 := v.initialStateWith socOverride
    let noCache := caches.main.isNone && caches.sustain.isNone
    let rec go (es : List (Edge Float)) (st : VState Float × Caches Key Float) (acc : List String) :
        List String × VState Float :=
      match es with
      | [] => (acc.reverse, st.1)
      | e :: r =>
        match traverseEdge svc eng v fu e st with
        | .error x => ((("err " ++ errClass x) :: acc).reverse, st.1)
        | .ok st' =>
          -- without a cache: the speed and grade handed to the predictor on this edge
          let probe :=
            if noCache && !cfg then
              match eng.traverse fu e st.1, getGrade svc.gradeTable e.id with
              | .ok s1, .ok g =>
                " p " ++ floatOut (reconstructSpeed svc fu e st.1 s1) ++ " " ++ floatOut g ++ " "
                  ++ svc.timeModelSpeedUnit.name ++ " " ++ svc.gradeUnit.name
              | _, _ => " p none"
            else ""
          go r st' (("ok " ++ showState kind st'.1 ++ probe) :: acc)
    let (steps, last) := go edges (s0, caches) []
    let (bce, bcu) := v.bestCaseEnergy bcd svc.distanceUnit
    let bcs := v.bestCaseEnergyState fu bcd svc.distanceUnit last
    let est := match estimateTraversalOpt svc eng maxSpeed v fu hm last with
      | .error x => "est err " ++ estErr x
      | .ok s => "est ok " ++ showState kind s
    -- a configured model is only reachable as a `TraversalModel`: no direct best-case calls
    let best := if cfg then [] else ["bc " ++ floatOut bce ++ " " ++ bcu.name, "bcs " ++ showState kind bcs]
    pure (built ++ " | ".intercalate (["init " ++ showState kind s0] ++ steps ++ best ++ [est]))

def case : P String := do
  let first ← peek
  if first == "hd" then
    let _ ← next
    headingsCase
  else routeCase

def run (line : String) : String := Proto.run case line

end Compass.Drv.C08
