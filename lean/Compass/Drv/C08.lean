import Compass.Drv.Proto
import Compass.Model.Energy

namespace Compass.Drv.C08
open Compass Compass.Proto Compass.Energy

def unitP (ofName : String → Option β) : P β := do
  let t ← next
  match ofName t with
  | some u => pure u
  | none => failure

abbrev Key := List Int

/-- `n` | `s capacity k p1 … pk` -/
def cacheP : P (Option (Cache Key Float)) :=
  optOf (do
    let cap ← nat
    let precs ← listOf int
    pure { capacity := cap, keyOf := floatKey precs, entries := [] })

/-- the harness's stub `PredictionModel`: affine in speed and grade (in the model's own units),
evaluated as `a0 + a1 * speed + a2 * grade` -/
def recP : P (PredRecord Float × Option (Cache Key Float)) := do
  let su ← unitP SpeedUnit.ofName?
  let gu ← unitP GradeUnit.ofName?
  let ru ← unitP EnergyRateUnit.ofName?
  let a0 ← float; let a1 ← float; let a2 ← float
  let ideal ← float
  let adj ← float
  let c ← cacheP
  pure ({ rate := fun s g => a0 + a1 * s + a2 * g, speedUnit := su, gradeUnit := gu, rateUnit := ru,
          idealRate := ideal, adjustment := adj }, c)

inductive Kind | ice | bev | phev

/-- vehicles are built as the configuration builders do: `starting_battery_energy = battery_capacity` -/
def vehicleP : P (Kind × Vehicle Float × Caches Key Float) := do
  let k ← next
  match k with
  | "ice" => do
    let (r, c) ← recP
    pure (.ice, .ice r, { main := c, sustain := none })
  | "bev" => do
    let (r, c) ← recP
    let cap ← float
    let bu ← unitP EnergyUnit.ofName?
    pure (.bev, .bev r { capacity := cap, startEnergy := cap, unit := bu }, { main := c, sustain := none })
  | "phev" => do
    let (rs, cs) ← recP
    let (rd, cd) ← recP
    let cap ← float
    let bu ← unitP EnergyUnit.ofName?
    pure (.phev, .phev rs rd { capacity := cap, startEnergy := cap, unit := bu }, { main := cd, sustain := cs })
  | _ => failure

def queryP : P (SocQuery Float) := do
  let t ← next
  match t with
  | "absent" => pure .absent
  | "nonnum" => pure .nonNumeric
  | "num" => do let x ← float; pure (.num x)
  | _ => failure

/-- the `TraversalModelError` variant the code returns at each site -/
def errClass : Err → String
  | .speedTable => "failure"
  | .gradeTable => "failure"
  | .timeCreate => "units"
  | .build => "build"

def showState (k : Kind) (s : VState Float) : String :=
  match k with
  | .ice => joinSp [floatOut s.time, floatOut s.distance, floatOut s.liquid]
  | .bev => joinSp [floatOut s.time, floatOut s.distance, floatOut s.electric, floatOut s.soc]
  | .phev => joinSp [floatOut s.time, floatOut s.distance, floatOut s.liquid, floatOut s.electric, floatOut s.soc]

def case : P String := do
  let (kind, v0, caches) ← vehicleP
  let q ← queryP
  -- service
  let tmsu ← unitP SpeedUnit.ofName?
  let gt ← optOf (listOf float)
  let gu ← unitP GradeUnit.ofName?
  let sdu ← unitP DistanceUnit.ofName?
  let svc : Service Float := { timeModelSpeedUnit := tmsu, gradeTable := gt, gradeUnit := gu, distanceUnit := sdu }
  -- time model engine
  let tbl ← listOf float
  let esu ← unitP SpeedUnit.ofName?
  let edu ← unitP DistanceUnit.ofName?
  let etu ← unitP TimeUnit.ofName?
  let eng : SpeedEngine Float := { speedTable := tbl, speedUnit := esu, distanceUnit := edu, timeUnit := etu }
  -- feature units
  let ftu ← unitP TimeUnit.ofName?
  let fdu ← unitP DistanceUnit.ofName?
  let flu ← unitP EnergyUnit.ofName?
  let feu ← unitP EnergyUnit.ofName?
  let fu : FeatureUnits := { time := ftu, distance := fdu, liquid := flu, electric := feu }
  let edges ← listOf (do let id ← nat; let d ← float; pure ({ id := id, distance := d } : Edge Float))
  let bcd ← float
  let hm ← float
  let socOverride ← optOf float
  endOfLine
  match getMaxSpeed tbl, v0.updateFromQuery q with
  | .error _, _ => pure "engine_rejected"
  | .ok _, .error _ => pure "rejected"
  | .ok maxSpeed, .ok v =>
    let s0 := v.initialStateWith socOverride
    let noCache := caches.main.isNone && caches.sustain.isNone
    let rec go (es : List (Edge Float)) (st : VState Float × Caches Key Float) (acc : List String) :
        List String × VState Float :=
      match es with
      | [] => (acc.reverse, st.1)
      | e :: r =>
        match traverseEdge svc eng v fu e st with
        | .error x => ((("err " ++ errClass x) :: acc).reverse, st.1)
        | .ok st' =>
          -- without a cache: the speed and grade handed to the predictor on this edge
          let probe :=
            if noCache then
              match eng.traverse fu e st.1, getGrade svc.gradeTable e.id with
              | .ok s1, .ok g =>
                " p " ++ floatOut (reconstructSpeed svc fu e st.1 s1) ++ " " ++ floatOut g ++ " "
                  ++ svc.timeModelSpeedUnit.name ++ " " ++ svc.gradeUnit.name
              | _, _ => " p none"
            else ""
          go r st' (("ok " ++ showState kind st'.1 ++ probe) :: acc)
    let (steps, last) := go edges (s0, caches) []
    let (bce, bcu) := v.bestCaseEnergy bcd svc.distanceUnit
    let bcs := v.bestCaseEnergyState fu bcd svc.distanceUnit last
    let est := match estimateTraversal svc eng maxSpeed v fu hm last with
      | .error x => "est err " ++ errClass x
      | .ok s => "est ok " ++ showState kind s
    pure (" | ".intercalate
      (["init " ++ showState kind s0] ++ steps ++
       ["bc " ++ floatOut bce ++ " " ++ bcu.name, "bcs " ++ showState kind bcs, est]))

def run (line : String) : String := Proto.run case line

end Compass.Drv.C08
