import Compass.Drv.Proto
import Compass.Drv.JsonProto
import Compass.Model.Graph
import Compass.Model.GraphIO

namespace Compass.Drv.C15
open Compass Compass.Proto

def edgeRow : P (Row (Edge Float)) := do
  let t ← next
  match t with
  | "b" => pure .bad
  | "r" => do
    let i ← nat; let s ← nat; let d ← nat; let x ← float
    pure (.ok { edgeId := i, src := s, dst := d, distance := x })
  | _ => failure

def vertexRow : P (Row (Vertex Float)) := do
  let t ← next
  match t with
  | "b" => pure .bad
  | "r" => do
    let i ← nat; let x ← float; let y ← float
    pure (.ok { vertexId := i, x := x, y := y })
  | _ => failure

def fileP (row : P (Row ρ)) : P (CsvFile ρ) := do
  let p ← bool; let l ← nat; let h ← bool; let rows ← listOf row
  pure { present := p, lines := l, hasHeader := h, rows := rows }

def natList (l : List Nat) : String :=
  joinSp (toString l.length :: l.map toString)

def vertexOut (v : Vertex Float) : String :=
  joinSp [toString v.vertexId, floatOut v.x, floatOut v.y]

def edgeOut (e : Edge Float) : String :=
  joinSp [toString e.edgeId, toString e.src, toString e.dst, floatOut e.distance]

def errOut : NetErr → String
  | .edgeNotFound _ => "ne"
  | .vertexNotFound _ => "nv"

def exOut (f : β → String) : Except NetErr β → String
  | .ok b => "s " ++ f b
  | .error e => errOut e

def tripletsOut (l : List (Nat × Nat × Nat)) : String :=
  joinSp (toString l.length :: l.map (fun (a, e, b) => joinSp [toString a, toString e, toString b]))

def attrsOut (l : List (Vertex Float × Edge Float × Vertex Float)) : String :=
  joinSp (toString l.length :: l.map (fun (a, e, b) => joinSp [vertexOut a, edgeOut e, vertexOut b]))

def edgeProbe (g : Graph Float) (e : Nat) : String :=
  joinSp ["e",
    exOut edgeOut (g.getEdge e),
    exOut toString (g.srcVertexId e),
    exOut toString (g.dstVertexId e),
    exOut toString (g.incidentVertex e .forward),
    exOut toString (g.incidentVertex e .reverse),
    exOut (fun (s, ed, d) => joinSp [vertexOut s, edgeOut ed, vertexOut d]) (g.edgeTriplet e)]

def vertexProbe (g : Graph Float) (v : Nat) : String :=
  joinSp ["v",
    exOut vertexOut (g.getVertex v),
    natList (g.outEdges v),
    natList (g.inEdges v),
    natList (g.incidentEdges v .forward),
    natList (g.incidentEdges v .reverse),
    exOut tripletsOut (g.incidentTripletIds v .forward),
    exOut tripletsOut (g.incidentTripletIds v .reverse),
    exOut attrsOut (g.incidentTripletAttributes v .forward),
    exOut attrsOut (g.incidentTripletAttributes v .reverse)]

def graphOut (g : Graph Float) : String :=
  let nE := g.nEdges
  let nV := g.nVertices
  let pv := max (max nV g.adj.length) g.rev.length
  joinSp (["ok", toString nE, toString nV, toString g.adj.length, toString g.rev.length]
    ++ (List.range (nE + 1)).map (edgeProbe g)
    ++ (List.range (pv + 1)).map (vertexProbe g)
    ++ ["ids", natList g.edgeIds, natList g.vertexIds])

def loadErrOut : LoadErr → String
  | .io => "err io"
  | .dataset => "err dataset"
  | .csv => "err csv"

def tableRowP : P (Row Nat) := do
  let t ← next
  match t with
  | "b" => pure .bad
  | "r" => do let x ← nat; pure (.ok x)
  | _ => failure

def pairP : P (Nat × Nat) := do
  let k ← nat; let v ← nat
  pure (k, v)

/-- an adjacency entry given as the sequence of `insert(k, v)` calls that builds it -/
def adjP : P AdjMap := do
  let ins ← listOf pairP
  pure (ins.foldl (fun m (kv : Nat × Nat) => adjInsert kv.1 kv.2 m) [])

def edgeP : P (Edge Float) := do
  let i ← nat; let s ← nat; let d ← nat; let x ← float
  pure { edgeId := i, src := s, dst := d, distance := x }

def vertexP : P (Vertex Float) := do
  let i ← nat; let x ← float; let y ← float
  pure { vertexId := i, x := x, y := y }

def entryP : P (Option (String × Cell Float)) := do
  let t ← next
  match t with
  | "e" => pure none
  | "k" => do
    let k ← JsonProto.str
    let u ← optOf nat
    let f ← optOf float
    pure (some (k, { asUsize := u, asF32 := f }))
  | _ => failure

def visitErrOut : VisitErr → String
  | .entry => "err entry"
  | .parseId => "err parse-id"
  | .parseX => "err parse-x"
  | .parseY => "err parse-y"
  | .incomplete => "err incomplete"
  | .notMap => "err not-map"
  | .trailing => "err trailing"

def cfgErrOut : CfgErr → String
  | .expectedField k p => joinSp ["cfg", "field", JsonProto.hexOfStr k, JsonProto.hexOfStr p]
  | .expectedType k t => joinSp ["cfg", "type", JsonProto.hexOfStr k, JsonProto.hexOfStr t]
  | .fileNotFound f k p => joinSp ["cfg", "notfound", JsonProto.hexOfStr f, JsonProto.hexOfStr k, JsonProto.hexOfStr p]
  | .serde => "cfg serde"
  | .graph e => "cfg graph " ++ loadErrOut e

def case : P String := do
  let op ← next
  match op with
  | "graph" => do
    -- a `Graph` value assembled field by field (nothing relates the four fields)
    let _descr ← next
    let adj ← listOf adjP
    let rev ← listOf adjP
    let edges ← listOf edgeP
    let vertices ← listOf vertexP
    endOfLine
    pure (graphOut { adj := adj, rev := rev, edges := edges, vertices := vertices })
  | "build" => do
    let params ← JsonProto.json
    let eIsFile ← bool
    let vIsFile ← bool
    let ef ← fileP edgeRow
    let vf ← fileP vertexRow
    endOfLine
    match graphBuilderBuild params eIsFile vIsFile ef vf with
    | .error e => pure (cfgErrOut e)
    | .ok g => pure (graphOut g)
  | "vrow" => do
    let _descr ← next
    let strict ← bool
    let input ← optOf (listOf entryP)
    endOfLine
    match decodeVertex input strict with
    | .error e => pure (visitErrOut e)
    | .ok v => pure ("ok " ++ vertexOut v)
  | "ctor" => do
    let what ← next
    match what with
    | "edge" => do let e ← edgeP; endOfLine; pure (edgeOut e)
    | "edge-default" => do endOfLine; pure (edgeOut (Edge.default : Edge Float))
    | "vertex" => do
      let v ← vertexP; endOfLine
      -- `Vertex::new`, then `x()`, `y()` and `to_tuple_underlying()`
      pure (joinSp [vertexOut v, floatOut v.x, floatOut v.y])
    | _ => failure
  | "load" => do
    let _descr ← next   -- how the files were encoded (gzip, column order, …): not modelled
    let nE ← optOf nat
    let nV ← optOf nat
    let ef ← fileP edgeRow
    let vf ← fileP vertexRow
    endOfLine
    match graphFromFiles ef vf nE nV with
    | .error e => pure (loadErrOut e)
    | .ok g => pure (graphOut g)
  | "loadcap" => do
    -- the same with the allocation limit of the adjacency tables (a declared count beyond it panics)
    let _descr ← next
    let cap ← nat
    let nE ← optOf nat
    let nV ← optOf nat
    let ef ← fileP edgeRow
    let vf ← fileP vertexRow
    endOfLine
    match graphFromFilesAlloc cap ef vf nE nV with
    | .error e => pure (loadErrOut e)
    | .ok g => pure (graphOut g)
  | "lookup" => do
    -- the consumers of a per-edge table: kind, the loaded table, the query's road classes, the probes
    let kind ← next
    let table ← optOf (listOf nat)
    let allowed ← optOf (listOf nat)
    let probes ← listOf nat
    endOfLine
    let show1 (r : Except LookupErr String) : String :=
      match r with
      | .ok s => "s " ++ s
      | .error (.missing e) => "m " ++ toString e
    let one (e : Nat) : String :=
      match kind with
      | "grade" => show1 ((getGrade table 0 e).map toString)
      | "class" => show1 ((roadClassValid (table.getD []) allowed e).map (fun b => if b then "1" else "0"))
      | _ => show1 ((tableGet (table.getD []) e).map toString)
    pure (joinSp (probes.map one))
  | "table" => do
    -- per-edge table: rows of raw 64-bit payloads (or undecodable), and the edge ids to look up
    let _descr ← next
    let readable ← bool
    let rows ← listOf tableRowP
    let probes ← listOf nat
    endOfLine
    match readTable readable rows with
    | .error _ => pure (if readable then s!"err cb {callbackCount rows}" else "err")
    | .ok t =>
      pure (joinSp (["ok", toString t.length, "cb", toString (callbackCount rows)]
        ++ probes.map (fun e => optOut toString (tableRow t e))))
  | _ => failure

def run (line : String) : String := Proto.run case line

end Compass.Drv.C15
