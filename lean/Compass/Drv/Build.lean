/-
Driver for the `bld` streams of the search properties (harness/src/appbuild.rs): the application's
builders, services and query parsers on well-formed and malformed configurations, files and query
fields.  Model: `Compass/Model/Build.lean`.
-/
import Compass.Drv.Proto
import Compass.Drv.JsonProto
import Compass.Drv.Search
import Compass.Model.Build

namespace Compass.Drv.Build
open Compass Compass.Proto Compass.Build

def dec (b : Nat) : Float := Float.ofBits b.toUInt64

def vpErrName : VpErr → String
  | .missing => "missing"
  | .height => "height"
  | .width => "width"
  | .totalLength => "total_length"
  | .trailerLength => "trailer_length"
  | .totalWeight => "total_weight"
  | .axlesMissing => "axles-missing"
  | .axlesType => "axles-type"
  | .axlesRange => "axles-range"

def errName : BErr → String
  | .config => "config"
  | .read => "read"
  | .empty => "empty"
  | .zero => "zero"
  | .file => "file"
  | .model => "model"
  | .name => "name"
  | .parser => "parser"
  | .query => "query"
  | .row => "row"
  | .missing => "missing"
  | .type => "type"
  | .unknown => "unknown"
  | .duration => "duration"
  | .value => "value"
  | .fuel => "fuel"
  | .vp e => "query-" ++ vpErrName e

def numRowP : P (NumRow Float) := do
  let t ← next
  match t with
  | "v" => do let x ← float; pure (.val x)
  | "nan" => pure .nan
  | "nf" => pure .nan
  | "j" => pure .junk
  | _ => failure

def intCellP : P IntCell := do
  let t ← next
  match t with
  | "i" => do let z ← int; pure (.int z)
  | "e" => pure .empty
  | "j" => pure .junk
  | _ => failure

def fileP (p : P β) : P (Option (List β)) := optOf (listOf p)

def stateOut (st : Option (List Float)) : String :=
  match st with
  | none => "none"
  | some xs => joinSp ("some" :: xs.map floatOut)

def featOut (f : Feat Float) : String :=
  match f.kind with
  | .time u => joinSp [f.name, "T", u.name, floatOut f.init]
  | .dist u => joinSp [f.name, "D", u.name, floatOut f.init]
  | .other => joinSp [f.name, "X"]

def featuresOut (fs : List (Feat Float)) : String :=
  joinSp (("sf " ++ toString fs.length) :: fs.map featOut)

def unitP (ofName : String → Option β) : P β := Compass.Drv.Search.unitP ofName

def spengP : P String := do
  let cfg ← JsonProto.json
  let file ← fileP numRowP
  let len ← float
  let gc ← optOf float
  let ftu ← unitP TimeUnit.ofName?
  let fdu ← unitP DistanceUnit.ofName?
  let lacking ← nat
  match speedLookupBuild cfg file with
  | .error e => pure ("err " ++ errName e)
  | .ok eng =>
    let n := match file with | some rows => rows.length | none => 0
    -- the probes' state model, now and then without the feature the model writes to
    let fs : List (Feat Float) :=
      [{ name := if lacking == 1 then "trip_time" else "time", kind := .time ftu, init := zero },
       { name := if lacking == 2 then "trip_distance" else "distance", kind := .dist fdu, init := zero }]
    let edges : List (EdgeRec Float) := List.replicate (n + 1) { src := 0, dst := 1, dist := len }
    let st0 := initialState fs
    let probes := (List.range (n + 1)).map (fun e => stateOut (eng.model.traverse fs edges e st0))
    let est := match gc with
      | none => "none"
      | some g => stateOut (eng.model.estimate fs g st0)
    pure (joinSp (["ok", featuresOut (speedStateFeatures eng), "trav", toString (n + 1)] ++ probes ++ ["est", est]))

def distP : P String := do
  let cfg ← JsonProto.json
  let len ← float
  let gc ← optOf float
  let fdu ← unitP DistanceUnit.ofName?
  let lacking ← nat
  match distanceBuild cfg with
  | .error e => pure ("err " ++ errName e)
  | .ok du =>
    let m : TravModel Float := .distance du
    let fs : List (Feat Float) :=
      [{ name := if lacking == 1 then "trip_distance" else "distance", kind := .dist fdu, init := zero }]
    let st0 := initialState fs
    let trav := stateOut (m.traverse fs [{ src := 0, dst := 1, dist := len }] 0 st0)
    let est := match gc with
      | none => "none"
      | some g => stateOut (m.estimate fs g st0)
    pure (joinSp ["ok", featuresOut [], "trav", trav, "est", est])

def wfP : P String := do
  let q ← JsonProto.json
  match weightFactorOfQuery dec q (some (zero : Float)) with
  | .ok _ => pure "ok"
  | .error k => pure ("err " ++ Compass.Drv.Search.errName k)

def headLineP : P HeadLine := do
  let t ← next
  match t with
  | "short" => pure .short
  | "r" => do let a ← intCellP; let d ← intCellP; pure (.row a d)
  | _ => failure

def headsP : P String := do
  let cfg ← JsonProto.json
  let header ← nat
  let file ← fileP headLineP
  let ftu ← unitP TimeUnit.ofName?
  let stateName ← JsonProto.str
  let pairs ← listOf (do let a ← nat; let b ← nat; pure (a, b))
  match turnDelayBuild dec cfg (header != 2) file with
  | .error e => pure ("err " ++ errName e)
  | .ok built =>
    -- the access model writes to the feature called `featureName`; `AccessModel.access` calls it "time"
    let fs : List (Feat Float) :=
      [{ name := if stateName == built.featureName then "time" else "(another feature)", kind := .time ftu, init := zero }]
    let st0 := initialState fs
    let probes := pairs.map (fun (pe, ne) => stateOut (built.model.access fs pe ne st0))
    pure (joinSp (["ok", featuresOut [], "probes", toString pairs.length] ++ probes))

def vpP : P String := do
  let q ← JsonProto.json
  match vehicleParamsOfQuery dec q with
  | .error e => pure ("err " ++ vpErrName e)
  | .ok p =>
    let d : Float × DistanceUnit → List String := fun x => [floatOut x.1, x.2.name]
    pure (joinSp (["ok"] ++ d p.height ++ d p.width ++ d p.totalLength ++ d p.trailerLength
      ++ [floatOut p.totalWeight.1, p.totalWeight.2.name, toString p.axles]))

def probeOut (r : Option Bool) : String :=
  match r with
  | some true => "t"
  | some false => "f"
  | none => "e"

def rcP : P String := do
  let cfg ← JsonProto.json
  let file ← fileP intCellP
  let q ← JsonProto.json
  match roadClassBuild (α := Float) cfg file q with
  | .error e => pure ("err " ++ errName e)
  | .ok m =>
    let n := match file with | some rows => rows.length | none => 0
    pure (joinSp (["ok", "probes", toString (n + 1)] ++ (List.range (n + 1)).map (fun e => probeOut (m.valid e none))))

def pairLineP : P PairLine := do
  let t ← next
  match t with
  | "short" => pure .short
  | "r" => do let a ← intCellP; let b ← intCellP; pure (.row a b)
  | _ => failure

def trP : P String := do
  let cfg ← JsonProto.json
  let header ← nat
  let file ← fileP pairLineP
  let pairs ← listOf (do let p ← optOf nat; let e ← nat; pure (p, e))
  match turnRestrictionBuild (α := Float) cfg (header == 1) file with
  | none => pure "err"
  | some m =>
    pure (joinSp (["ok", "probes", toString pairs.length] ++ pairs.map (fun (p, e) => probeOut (m.valid e p))))

def restrRowP : P (RestrRow Float) := do
  let e ← intCellP
  let name ← JsonProto.str
  let v ← numRowP
  let u ← JsonProto.str
  pure { edge := e, name := name, value := v, unit := u }

def vrP : P String := do
  let cfg ← JsonProto.json
  let file ← fileP restrRowP
  let q ← JsonProto.json
  let k ← nat
  match vehicleRestrictionBuild dec cfg file q with
  | .error e => pure ("err " ++ errName e)
  | .ok m =>
    pure (joinSp (["ok", "probes", toString k] ++ (List.range k).map (fun e => probeOut (m.valid e none))))

/-- the builders registered inside `combined`; the file-based ones refuse a configuration without
their `*_input_file` (the only form the harness sends) -/
def innerAccepts (ty : String) (m : Json) : Bool :=
  if ty == "no_restriction" then true
  else if ty == "road_class" then getPath m "road_class_input_file" false
  else if ty == "turn_restriction" then getPath m "turn_restriction_input_file" false
  else if ty == "vehicle_restriction" then getPath m "vehicle_restriction_input_file" false
  else false

def combP : P String := do
  let cfg ← JsonProto.json
  match combinedBuild innerAccepts cfg with
  | none => pure "err"
  | some _ => pure "ok probes 2 t t"

partial def termOut : TermM → List String
  | .runtime l f _ _ => ["rt", toString l, toString f]
  | .size l => ["sz", toString l]
  | .iters l => ["it", toString l]
  | .combined ms => ["cb", toString ms.length] ++ (ms.map termOut).flatten

def termP : P String := do
  let cfg ← JsonProto.json
  match termBuild cfg with
  | .error e => pure ("err " ++ errName e)
  | .ok t => pure (joinSp ("ok" :: termOut t))

/-- the k-shortest-path algorithms refuse a query without destination (`SearchError::BuildError`);
with one, the one-edge network of the harness has a route -/
def kspndP : P String := do
  let _ ← next
  let _ ← nat
  let withDest ← nat
  pure (if withDest == 1 then "ok 1" else "err build")

/-- `a_star_algorithm::run_a_star_edge_oriented` and `backtrack::edge_oriented_route` called directly:
the case is a full search instance (edge-oriented), see `Drv/Search.lean` -/
def aeoP : P String := do
  let (cfg, q) ← Compass.Drv.Search.caseP
  match cfg.runAStarEdge q.source q.target q.sched with
  | .error k => pure ("err " ++ Compass.Drv.Search.errName k)
  | .ok (tree, iters) =>
    let route := match q.target with
      | none => "none"
      | some t =>
        match cfg.edgeOrientedRoute q.source t tree (cfg.nV + 3) with
        | .error k => "err " ++ Compass.Drv.Search.errName k
        | .ok r => "ok " ++ Compass.Drv.Search.routeOut r
    pure (joinSp ["ok", toString iters, Compass.Drv.Search.treeOut cfg.nV tree, "route", route])

def case : P String := do
  let op ← next
  match op with
  | "speng" => spengP
  | "dist" => distP
  | "wf" => wfP
  | "heads" => headsP
  | "vp" => vpP
  | "rc" => rcP
  | "tr" => trP
  | "vr" => vrP
  | "comb" => combP
  | "term" => termP
  | "kspnd" => kspndP
  | "aeo" => aeoP
  | _ => failure

def run (line : String) : String :=
  match case (tokens line) with
  | some (s, []) => s
  | some (_, _) => "bad-case-trailing"
  | none => "bad-case"

end Compass.Drv.Build
