/-
Driver for C19 (response sink).  Case lines (after the index):

  F <format> <response>
      → `H <opt hex header> R <hex row> P <enc response after>` | `panic`
  S <mode a|o|e> <existing: n | s hex> <format> <rate: n | s int> <close 0|1> <persist 0|1>
    <schedule: k w1 … wk> <workers: T (n resp…)…>
      → `refused` | `badrate <hex file>` |
        `ok <iterations> <failed> <hex canonical file> <returned: T (n enc…)…>`
    the file is canonical: what was there after `open` verbatim, then the appended lines — in order when
    there is one worker, sorted when there are several (the real threads interleave as they like).
  A <path> <format> <rate> <persist 0|1> <workers> <inputErrors: n resp…>     (CompassApp::run end to end)
      → `ok <hex canonical file> <n> <the n responses handed back, encoded, sorted>` | `apperr`
  A0 <persist> <workers> <inputErrors>                      (CompassApp::run, output policy none)
  B <mode> <hex name> <path> <format> <rate> <close 0|1> <n resp…>   (sink life cycle at any kind of path)
      → `refused|ioerr|badrate <path after>` | `ok <iterations> <close: skip|none|some hex name> <file hex | -> <n> (o|e|l|p <enc response after>)…`
  Y <k (hex name, path, format, rate)…> <close 0|1> <n resp…>            (Combined policy: build, writes, close)
      → `builderr <k paths after>` | `ok <close: skip|none|some hex names> <k> <k files> <n> (o|e <enc>| l | p)…`
  <path>    = m (missing) | f <hex> (a file) | d (a directory) | p (no parent directory) | F (a device refusing writes)
  Z <format> <k (T (n resp…)…)…>   (k sinks on ONE file, each with its own lock and T writer threads)
      → `ok <hex canonical file>`
  T <n hex names…>               (a mapping configured in the application's TOML) → `<k> <k hex names as loaded>`
  P <hex text>                   (reader: `SinkRead.parse` vs `serde_json::from_str`)
      → `ok <enc value, number bits 0>` | `fail`
  X <k formats…> <response>      (a Combined sink of k file sinks, one response)
      → `ok <k hex rows…> P <enc response after>` | `panic` | `lock`

  <format>  = J <0|1>  |  C <sorted 0|1> <n> (<hex key> <mapping>)…      (mapping in `iter()` order)
  <mapping> = p <hex path> | u <n> <mapping>… | o <mapping>
-/
import Compass.Drv.Proto
import Compass.Drv.JsonProto
import Compass.Model.Sink
import Compass.Model.SinkRead
import Compass.Model.SinkFine

namespace Compass.Drv.C19
open Compass Compass.Proto Compass.Sink

/-! ### doubles: sum and shortest round-trip printing (what `zmij`/`ryu` do inside `serde_json`) -/

def negZeroBits : Nat := 2 ^ 63

def sumBits (xs : List Nat) : Nat :=
  (xs.foldl (fun acc b => acc + Float.ofBits b.toUInt64) (Float.ofBits negZeroBits.toUInt64)).toBits.toNat

def finiteBits (b : Nat) : Bool := b / 2 ^ 52 % 2048 != 2047

/-- smallest `kk` with `V / den < 10^kk` -/
def findKK (V den : Nat) : Int := Id.run do
  if V ≥ den then
    let mut kk : Nat := 1
    let mut p := 10 * den
    for _ in [0:400] do
      if V < p then break
      p := p * 10
      kk := kk + 1
    return kk
  else
    -- largest j with V * 10^j < den; kk = -j
    let mut j : Nat := 0
    let mut x := V * 10
    for _ in [0:400] do
      if x ≥ den then break
      x := x * 10
      j := j + 1
    return -(j : Int)

def stripZeros (c : Nat) (q : Int) : Nat × Int := Id.run do
  let mut c := c
  let mut q := q
  for _ in [0:400] do
    if c % 10 != 0 || c == 0 then break
    c := c / 10
    q := q + 1
  return (c, q)

/-- shortest decimal `(digits, q)` with `digits * 10^q` inside the rounding interval of `m * 2^e`, closest to
the exact value among the shortest -/
def shortest (m : Nat) (e : Int) (lowerCloser : Bool) : Nat × Int := Id.run do
  let E := e - 2
  let (sc, den) : Nat × Nat := if E ≥ 0 then (2 ^ E.toNat, 1) else (1, 2 ^ (-E).toNat)
  let V := 4 * m * sc
  let L := (4 * m - (if lowerCloser then 1 else 2)) * sc
  let H := (4 * m + 2) * sc
  let even := m % 2 == 0
  let kk := findKK V den
  let mut res : Nat × Int := (0, 0)
  for n in [1:18] do
    let q : Int := kk - n
    let P := 10 ^ q.natAbs
    let (D, V', L', H') := if q ≥ 0 then (den * P, V, L, H) else (den, V * P, L * P, H * P)
    let d := V' / D
    let inside := fun (c : Nat) => if even then L' ≤ c * D && c * D ≤ H' else L' < c * D && c * D < H'
    let lo := inside d
    let hi := inside (d + 1)
    if lo || hi then
      let c :=
        if lo && hi then
          let dl := V' - d * D
          let dh := (d + 1) * D - V'
          if dl < dh then d else if dh < dl then d + 1 else if d % 2 == 0 then d else d + 1
        else if lo then d else d + 1
      res := stripZeros c q
      break
  return res

def zeros (n : Nat) : String := String.ofList (List.replicate n '0')

def fmtBits (bits : Nat) : String :=
  let neg := bits / 2 ^ 63 % 2 == 1
  let be : Nat := bits / 2 ^ 52 % 2048
  let frac : Nat := bits % 2 ^ 52
  let sign := if neg then "-" else ""
  if be == 0 && frac == 0 then sign ++ "0.0"
  else
    let (m, e) : Nat × Int := if be == 0 then (frac, -1074) else (frac + 2 ^ 52, (be : Int) - 1075)
    let (c, q) := shortest m e (frac == 0 && be > 1)
    let ds := (toString c).toList
    let len := ds.length
    let x : Int := (len : Int) - 1 + q
    let body :=
      if -5 ≤ x && x ≤ 15 then
        if (len : Int) - 1 ≤ x then String.ofList ds ++ zeros (x.toNat + 1 - len) ++ ".0"
        else if 0 ≤ x then String.ofList (ds.take (x.toNat + 1)) ++ "." ++ String.ofList (ds.drop (x.toNat + 1))
        else "0." ++ zeros ((-x).toNat - 1) ++ String.ofList ds
      else
        String.ofList (ds.take 1) ++ (if len > 1 then "." ++ String.ofList (ds.drop 1) else "")
          ++ "e" ++ (if x ≥ 0 then "+" else "-") ++ toString x.natAbs
    sign ++ body

def floatOps : NumOps := { sum := sumBits, finite := finiteBits, fmt := fmtBits }

/-! ### protocol -/

partial def mapping : P CsvMapping := do
  let t ← next
  match t with
  | "p" => do let s ← JsonProto.str; pure (.path s)
  | "u" => do
    let n ← nat
    let rec go : Nat → List CsvMapping → P (List CsvMapping)
      | 0, acc => pure acc.reverse
      | k + 1, acc => do let m ← mapping; go k (m :: acc)
    let ms ← go n []
    pure (.sum ms)
  | "o" => do let m ← mapping; pure (.optional m)
  | _ => failure

def format : P Format := do
  let t ← next
  match t with
  | "J" => do let nd ← bool; pure (.json nd)
  | "C" => do
    let s ← bool
    let cols ← listOf (do let k ← JsonProto.str; let m ← mapping; pure (k, m))
    pure (.csv cols s)
  | _ => failure

def hexOfText (t : List Char) : String := JsonProto.hexOfStr (String.ofList t)

/-- blank the messages and sort the keys of a `{"csv": {column: message…}}` value (the real map is a
`HashMap`, its messages are not modelled) -/
def canonCsvErr (v : Json) : Json :=
  match v with
  | .obj [("csv", .obj kvs)] =>
    if kvs.all (fun p => p.2.isString) then
      .obj [("csv", .obj ((sortBy strLt (kvs.map (·.1))).map fun k => (k, .str "")))]
    else v
  | _ => v

def canon (j : Json) : Json :=
  match j with
  | .obj kvs => .obj (kvs.map fun (k, v) => if k == "error" || k.startsWith "csv_error" then (k, canonCsvErr v) else (k, v))
  | _ => j

/-- split a text at `\n`; a trailing newline yields a final empty piece -/
def splitLines (t : List Char) : List (List Char) :=
  let rec go : List Char → List Char → List (List Char) → List (List Char)
    | [], cur, acc => (cur.reverse :: acc).reverse
    | c :: cs, cur, acc => if c == '\n' then go cs [] (cur.reverse :: acc) else go cs (c :: cur) acc
  go t [] []

def textLt (a b : List Char) : Bool := decide (String.ofList a < String.ofList b)

/-- canonical file: the opening contents verbatim, then the appended text (lines sorted when `sort`) -/
def canonFile (s : FileSink) (sort : Bool) : List Char :=
  match s.file with
  | [] => []
  | opened :: chunks =>
    let rest := chunks.flatten
    if sort then
      match s.format with
      | .csv _ _ =>
        -- a CSV record may span lines (line breaks inside quoted fields): sort the records themselves
        opened ++ (chunks.toArray.qsort textLt |>.toList).flatten
      | .json _ =>
        let ls := (splitLines rest).toArray.qsort textLt |>.toList
        opened ++ joinWith ['\n'] ls
    else opened ++ rest

def returnedOut (rs : List (List Json)) : String :=
  joinSp (toString rs.length :: rs.map fun l => joinSp (toString l.length :: l.map fun j => JsonProto.enc (canon j)))

def pathState : P PathState := do
  let t ← next
  match t with
  | "m" => pure .missing
  | "f" => do let c ← JsonProto.str; pure (.file c.toList)
  | "d" => pure .directory
  | "p" => pure .noParent
  | "F" => pure .full
  | _ => failure

def pathOut : PathState → String
  | .missing => "m"
  | .file c => "f " ++ hexOfText c
  | .directory => "d"
  | .noParent => "p"
  | .full => "F"

def modeP : P WriteMode := do
  let t ← next
  match t with
  | "a" => pure .append
  | "o" => pure .overwrite
  | "e" => pure .error
  | _ => failure

/-- a JSON string literal at the head of the text: the literal (quotes included) and the rest -/
def takeStringLit : List Char → Option (List Char × List Char)
  | '"' :: cs =>
    let rec go : List Char → List Char → Option (List Char × List Char)
      | [], _ => none
      | '\\' :: c :: r, acc => go r (c :: '\\' :: acc)
      | '"' :: r, acc => some (('"' :: acc).reverse, r)
      | c :: r, acc => go r (c :: acc)
    go cs ['"']
  | _ => none

/-- the entries `"column":"message"` of a mapping-error object after `{"csv":{`: the column literals and the
text after the closing `}}`; `none` when the text is not of that shape -/
partial def takeCsvErrEntries (t : List Char) (acc : List (List Char)) : Option (List (List Char) × List Char) :=
  match t with
  | '}' :: '}' :: r => if acc.isEmpty then some ([], r) else none
  | _ =>
    match takeStringLit t with
    | none => none
    | some (k, r1) =>
      match r1 with
      | ':' :: r2 =>
        match takeStringLit r2 with
        | none => none
        | some (_, r3) =>
          match r3 with
          | ',' :: r4 => takeCsvErrEntries r4 (k :: acc)
          | '}' :: '}' :: r4 => some ((k :: acc).reverse, r4)
          | _ => none
      | _ => none

/-- the messages of the CSV formatter's mapping errors are not modelled (and the code lists the failed columns
in a `HashMap`'s order): wherever a text prints such an object — `{"csv":{"column":"message",…}}` — blank the
messages and sort the columns.  Applied to the model's text and to the real file alike. -/
partial def maskCsvErrors (t : List Char) : List Char :=
  let pat := "{\"csv\":{".toList
  let rec go (t : List Char) (out : List Char) : List Char :=
    match t with
    | [] => out.reverse
    | c :: r =>
      if pat.isPrefixOf t then
        match takeCsvErrEntries (t.drop pat.length) [] with
        | some (ks, rest) =>
          let sorted := (ks.toArray.qsort textLt).toList
          let body := ",".toList.intercalate (sorted.map fun k => k ++ ":\"\"".toList)
          go rest ((pat ++ body ++ "}}".toList).reverse ++ out)
        | none => go r (c :: out)
      else go r (c :: out)
  go t []

/-- the text of the file behind a sink (`-` for a device that holds nothing) -/
def fileOut (s : FileSink) : String := if s.failing then "-" else hexOfText (maskCsvErrors s.contents)

def member : P Member := do
  let name ← JsonProto.str
  let path ← pathState
  let f ← format
  let rate ← optOf int
  pure { name := name, format := f, rate := rate, path := path }

def caseP : P String := do
  let op ← next
  match op with
  | "F" => do
    let f ← format
    let r ← JsonProto.json
    let hdr := optOut hexOfText (initialContents f)
    match formatResponse floatOps f r with
    | .panic => pure "panic"
    | .diverges => pure "diverges"
    | .ok (row, r') => pure s!"H {hdr} R {hexOfText row} P {JsonProto.enc (canon r')}"
  | "S" => do
    let modeTok ← next
    let mode ← (match modeTok with
      | "a" => pure WriteMode.append | "o" => pure WriteMode.overwrite | "e" => pure WriteMode.error
      | _ => failure : P WriteMode)
    let existing ← optOf JsonProto.str
    let f ← format
    let rate ← optOf int
    let close ← bool
    let persist ← bool
    let schedule ← listOf nat
    let workers ← listOf (listOf JsonProto.json)
    match build mode f rate (existing.map String.toList) with
    | .refused => pure "refused"
    | .badFlushRate c => pure s!"badrate {hexOfText c}"
    | .ok sink =>
      -- the given (arbitrary) schedule first, then whatever is left, worker by worker
      let r1 := (Run.init sink workers).exec floatOps persist schedule
      let r2 := r1.exec floatOps persist (sequentialSchedule r1.queues)
      let sink' := if close then r2.sink.close else r2.sink
      let file := canonFile sink' (workers.length > 1)
      pure s!"ok {sink'.iterations} {r2.failed} {hexOfText file} {returnedOut r2.returned}"
  | "A" => do
    -- CompassApp::run end to end with a file policy at a path of any kind
    let path ← pathState
    let f ← format
    let rate ← optOf int
    let persist ← bool
    let workers ← listOf (listOf JsonProto.json)
    let inputErrors ← listOf JsonProto.json
    match buildAt .append "" f rate path with
    | .refused => pure "apperr"
    | .ioError => pure "apperr"
    | .badFlushRate => pure "apperr"
    | .ok sink =>
      match appRun floatOps persist sink workers inputErrors (sequentialSchedule workers) with
      | none => pure "apperr"
      | some (sink', returned) =>
        -- what is handed back, as a multiset (the real chunking of the batch is the load balancer's)
        let encs := (returned.map fun j => JsonProto.enc (canon j)).toArray.qsort (fun a b => a < b) |>.toList
        let file := if sink'.failing then "-" else hexOfText (canonFile sink' (workers.length > 1))
        pure (joinSp (["ok", file, toString returned.length] ++ encs))
  | "A0" => do
    -- CompassApp::run without an output policy (`type = "none"`): nothing is written anywhere
    let persist ← bool
    let workers ← listOf (listOf JsonProto.json)
    let inputErrors ← listOf JsonProto.json
    let returned := (if persist then workers.flatten else []) ++ inputErrors
    let encs := (returned.map fun j => JsonProto.enc (canon j)).toArray.qsort (fun a b => a < b) |>.toList
    pure (joinSp (["ok", toString returned.length] ++ encs))
  | "B" => do
    -- one sink life cycle at a path of any kind, one writer: build, writes, close
    let mode ← modeP
    let name ← JsonProto.str
    let path ← pathState
    let f ← format
    let rate ← optOf int
    let close ← bool
    let rs ← listOf JsonProto.json
    let after := pathOut (pathAfterOpen mode f path)
    match buildAt mode name f rate path with
    | .refused => pure s!"refused {after}"
    | .ioError => pure s!"ioerr {after}"
    | .badFlushRate => pure s!"badrate {after}"
    | .ok sink =>
      let (sink', outs) := rs.foldl (fun (acc : FileSink × List String) r =>
        match acc.1.write floatOps r with
        | .ok s' r' => (s', ("o " ++ JsonProto.enc (canon r')) :: acc.2)
        | .ioError s' r' => (s', ("e " ++ JsonProto.enc (canon r')) :: acc.2)
        | .lockError s' => (s', ("l " ++ JsonProto.enc (canon r)) :: acc.2)
        | .panic s' => (s', ("p " ++ JsonProto.enc (canon r)) :: acc.2)
        | .diverges s' => (s', "diverges" :: acc.2)) (sink, [])
      let closed := if close then optOut JsonProto.hexOfStr sink'.closeName else "skip"
      let sink'' := if close then sink'.close else sink'
      pure (joinSp (["ok", toString sink''.iterations, closed, fileOut sink'', toString outs.length] ++ outs.reverse))
  | "Y" => do
    -- a Combined policy: build every member, hand every response to every member, close
    let ms ← listOf member
    let close ← bool
    let rs ← listOf JsonProto.json
    match buildAll ms with
    | (sts, none) => pure (joinSp ("builderr" :: sts.map pathOut))
    | (_, some sinks) =>
      let (sinks', outs) := rs.foldl (fun (acc : List FileSink × List String) r =>
        match writeCombined floatOps acc.1 r with
        | .ok ss r' => (ss, ("o " ++ JsonProto.enc (canon r')) :: acc.2)
        | .ioError ss r' => (ss, ("e " ++ JsonProto.enc (canon r')) :: acc.2)
        | .lockError ss => (ss, "l" :: acc.2)
        | .panic ss => (ss, "p" :: acc.2)
        | .diverges ss => (ss, "diverges" :: acc.2)) (sinks, [])
      let (sinks'', names) := if close then closeCombined sinks' else (sinks', some [])
      let closed := if close then optOut (fun ns => JsonProto.hexOfStr (",".intercalate ns)) names else "skip"
      pure (joinSp (["ok", closed, toString sinks''.length] ++ sinks''.map fileOut ++ [toString outs.length] ++ outs.reverse))
  | "Z" => do
    -- several sinks on one file: no common lock — the small-step model without guard, one `write` call per
    -- record (the repaired code), the workers of all sinks taking turns step by step
    let f ← format
    let handles ← listOf (listOf (listOf JsonProto.json))
    match build .append f none none with
    | .ok sink =>
      let queues := handles.flatten
      let cfg : SinkFine.Config := { N := floatOps, format := f, persist := false, guard := false, split := SinkFine.oneCall }
      let rounds := 5 * (queues.map List.length).foldl max 0 + 5
      let schedule := (List.replicate rounds (List.range queues.length)).flatten
      let st := SinkFine.exec cfg (SinkFine.init sink.file 0 queues) schedule
      let asSink : FileSink := { sink with file := st.file }
      pure s!"ok {hexOfText (canonFile asSink true)}"
    | _ => pure "builderr"
  | "T" => do
    -- the column names of a mapping written in the application's TOML, as they arrive in the format
    let names ← listOf JsonProto.str
    let loaded := tomlMapping (names.map fun k => (k, CsvMapping.path ""))
    pure (joinSp (toString loaded.length :: loaded.map fun c => JsonProto.hexOfStr c.1))
  | "P" => do
    -- the reader of Model/SinkRead.lean against serde_json::from_str on one line of text
    let line ← JsonProto.str
    match SinkRead.parseSerde line.toList with
    | some j => pure ("ok " ++ JsonProto.enc j)
    | none => pure "fail"
  | "X" => do
    let fs ← listOf format
    let r ← JsonProto.json
    let sinks := fs.map fun f =>
      ({ format := f, flushEvery := 1, file := [[]], iterations := 0, flushes := 0, poisoned := false } : FileSink)
    match writeCombined floatOps sinks r with
    | .panic _ => pure "panic"
    | .diverges _ => pure "diverges"
    | .ioError _ _ => pure "ioerr"
    | .lockError _ => pure "lock"
    | .ok ss r' =>
      let rows := ss.map fun s => hexOfText (maskCsvErrors (s.file.drop 1).flatten)
      pure (joinSp (["ok", toString rows.length] ++ rows ++ ["P", JsonProto.enc (canon r')]))
  | _ => failure

def run (line : String) : String := Proto.run caseP line

end Compass.Drv.C19
