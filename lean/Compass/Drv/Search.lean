/-
Driver for the search-based properties (C01 C02 C03 C04 C05 C10): parses a full search instance
(see harness/src/search.rs for the writer), replays the implementation's pop schedule on the model
and prints outcome, iterations, tree and route with doubles as bit patterns.
-/
import Compass.Drv.Proto
import Compass.Model.Instance

namespace Compass.Drv.Search
open Compass Compass.Proto

def unitP (ofName : String → Option β) : P β := do
  let t ← next
  match ofName t with
  | some u => pure u
  | none => failure

def edgeRec : P (EdgeRec Float) := do
  let s ← nat; let d ← nat; let x ← float
  pure { src := s, dst := d, dist := x }

def feat : P (Feat Float) := do
  let name ← next
  let k ← next
  let kind ← (match k with
    | "D" => do let u ← unitP DistanceUnit.ofName?; pure (FeatKind.dist u)
    | "T" => do let u ← unitP TimeUnit.ofName?; pure (FeatKind.time u)
    | "X" => pure FeatKind.other
    | _ => failure : P FeatKind)
  let init ← float
  pure { name := name, kind := kind, init := init }

def travP : P (TravModel Float) := do
  let t ← next
  match t with
  | "dist" => do let du ← unitP DistanceUnit.ofName?; pure (.distance du)
  | "speed" => do
    let su ← unitP SpeedUnit.ofName?; let du ← unitP DistanceUnit.ofName?; let tu ← unitP TimeUnit.ofName?
    let mx ← float
    let tbl ← listOf float
    pure (.speed su du tu mx tbl)
  | _ => failure

def headingP : P (Int × Option Int) := do
  let a ← int
  let d ← optOf int
  pure (a, d)

def accessP : P (AccessModel Float) := do
  let t ← next
  match t with
  | "noacc" => pure .noAccess
  | "turn" => do
    let tu ← unitP TimeUnit.ofName?
    let hs ← listOf headingP
    let ds ← listOf (optOf float)
    pure (.turnDelay tu hs ds)
  | _ => failure

partial def vrateP : P (VehicleCostRate Float) := do
  let t ← next
  match t with
  | "z" => pure .zero
  | "r" => pure .raw
  | "f" => do let x ← float; pure (.factor x)
  | "o" => do let x ← float; pure (.offset x)
  | "c" => do let rs ← listOf vrateP; pure (.combined rs)
  | _ => failure

partial def nrateP : P (NetworkCostRate Float) := do
  let t ← next
  match t with
  | "z" => pure .zero
  | "e" => do
    let tbl ← listOf (do let e ← nat; let x ← float; pure (e, x))
    pure (.edgeLookup tbl)
  | "ee" => do
    let tbl ← listOf (do let p ← nat; let n ← nat; let x ← float; pure ((p, n), x))
    pure (.edgeEdgeLookup tbl)
  | "c" => do let rs ← listOf nrateP; pure (.combined rs)
  | _ => failure

def costP : P (CostModel Float) := do
  let idx ← listOf nat
  let ws ← listOf float
  let vr ← listOf vrateP
  let nr ← listOf nrateP
  let a ← next
  let agg ← (match a with
    | "sum" => pure CostAggregation.sum
    | "mul" => pure CostAggregation.mul
    | _ => failure : P CostAggregation)
  pure { indices := idx, weights := ws, vehicleRates := vr, networkRates := nr, agg := agg }

def restrP : P (Restriction Float) := do
  let t ← next
  match t with
  | "w" => do
    let pa ← bool; let lim ← float; let u ← unitP WeightUnit.ofName?
    pure (.weight pa lim u)
  | "l" => do
    let which ← nat; let lim ← float; let u ← unitP DistanceUnit.ofName?
    pure (.length which lim u)
  | _ => failure

def dimP : P (Float × DistanceUnit) := do
  let x ← float; let u ← unitP DistanceUnit.ofName?
  pure (x, u)

def paramsP : P (VehicleParams Float) := do
  let h ← dimP; let w ← dimP; let tl ← dimP; let trl ← dimP
  let tw ← float; let twu ← unitP WeightUnit.ofName?
  let ax ← float
  pure { height := h, width := w, totalLength := tl, trailerLength := trl, totalWeight := (tw, twu), axles := ax }

def frontierP : P (FrontierM Float) := do
  let t ← next
  match t with
  | "rc" => do
    let allowed ← optOf (listOf nat)
    let tbl ← listOf nat
    pure (.roadClass allowed tbl)
  | "tr" => do
    let ps ← listOf (do let p ← nat; let n ← nat; pure (p, n))
    pure (.turnRestriction ps)
  | "vr" => do
    let rows ← listOf (do let e ← nat; let rs ← listOf restrP; pure (e, rs))
    let ps ← paramsP
    pure (.vehicle rows ps)
  | "cut" => do
    let es ← listOf nat
    pure (.edgeCut es)
  | _ => failure

partial def termP : P TermM := do
  let t ← next
  match t with
  | "rt" => do
    let l ← nat; let f ← nat; let b ← nat; let p ← nat
    pure (.runtime l f b p)
  | "sz" => do let l ← nat; pure (.size l)
  | "it" => do let l ← nat; pure (.iters l)
  | "cb" => do let ms ← listOf termP; pure (.combined ms)
  | _ => failure

structure Query where
  edgeOriented : Bool
  source : Nat
  target : Option Nat
  sched : List Nat

def caseP : P (Config Float × Query) := do
  let nV ← nat
  let edges ← listOf edgeRec
  let outAdj ← listOf (listOf nat)
  let inAdj ← listOf (listOf nat)
  let feats ← listOf feat
  let trav ← travP
  let access ← accessP
  let cost ← costP
  let frontier ← listOf frontierP
  let term ← termP
  let dir ← next
  let orient ← next
  let source ← nat
  let target ← optOf nat
  let wf ← optOf float
  let gc ← listOf float
  let sched ← listOf nat
  let cfg : Config Float :=
    { nV := nV, edges := edges, outAdj := outAdj, inAdj := inAdj, feats := feats, trav := trav,
      access := access, cost := cost, frontier := frontier, term := term,
      reverse := dir == "r", gc := gc, wf := wf }
  pure (cfg, { edgeOriented := orient == "e", source := source, target := target, sched := sched })

def termKindName : TermKind → String
  | .runtime => "runtime"
  | .size => "size"
  | .iterations => "iterations"

def errName : ErrKind → String
  | .noPath => "nopath"
  | .terminated ks => "terminated " ++ ",".intercalate (ks.map termKindName)
  | .internal => "internal"
  | .traversal => "traversal"
  | .access => "access"
  | .frontier => "frontier"
  | .cost => "cost"
  | .state => "state"
  | .network => "network"
  | .build => "build"
  | .badSchedule => "bad-schedule"
  | .scheduleExhausted => "schedule-exhausted"
  | .panic site => "panic " ++ site

def branchOut (b : Branch Float) : String :=
  joinSp ([toString b.edge, floatOut b.access, floatOut b.traversal, toString b.state.length]
    ++ b.state.map floatOut)

def treeOut (nV : Nat) (t : Nat → Option (Branch Float)) : String :=
  let entries := (List.range nV).filterMap (fun v => (t v).map (fun b => (v, b)))
  joinSp (("tree " ++ toString entries.length) ::
    entries.map (fun (v, b) => toString v ++ " " ++ toString b.terminal ++ " " ++ branchOut b))

def routeOut (r : List (Branch Float)) : String :=
  joinSp (("route " ++ toString r.length) :: r.map branchOut)

def resultOut (nV : Nat) (r : AlgResult Float) : String :=
  joinSp (["ok", toString r.iterations, "trees", toString r.trees.length]
    ++ r.trees.map (treeOut nV) ++ ["routes", toString r.routes.length] ++ r.routes.map routeOut)

def run (line : String) : String :=
  match caseP (tokens line) with
  | none => "bad-case"
  | some ((cfg, q), rest) =>
    if !rest.isEmpty then "bad-case-trailing"
    else
      let res := if q.edgeOriented then cfg.runEdge q.source q.target q.sched
                 else cfg.runVertex q.source q.target q.sched
      match res with
      | .error k => "err " ++ errName k
      | .ok r => resultOut cfg.nV r

end Compass.Drv.Search
