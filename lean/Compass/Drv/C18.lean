import Compass.Drv.Proto
import Compass.Drv.C15
import Compass.Model.Scc

/-!
Driver for C18.  Every case line starts with its kind.

`scc n  m (s d)*m  a (k e*k)*a  r (k e*k)*r  impl`
  `adj`/`rev` are the `keys()` sequences read back from the real `Graph`, `impl` is the implementation's own
  (canonicalised) component list, `s k (len v*len)*k`, or `n` when it returned an error.  Output:
  `wf b std s ok k (len v*len)*k L (len v*len) chk cm ci`   or   `wf b std s err <kind>`
  `b` = the model's well-formedness test of the graph; `s` = the adjacency slots are exactly those of
  `Graph.ofEdges` (what `EdgeLoader` builds: edge ids in insertion order; `-` above `stdLimit`);
  components sorted inside and among themselves; `L` = the model's `largest_strongly_connected_component`
  (sorted); `cm`/`ci` = the verdict of the verified checker `isSccPartition` on the model's / the
  implementation's component list (`-` when the graph is not well-formed or larger than `chkLimit` vertices).
  Applying the checker is *testing*, not proof.
`deep <the same graph fields>`: a graph with a deep DFS tree (the real code ran in a forked child): `ok … L …`.
`big <shape> <n>`: too large for the list-based visited set of the model: `not-modelled` (oracle only).
`dfs <graph fields> rev start visited stack`: `depth_first_search` (`rev` = 0) / `reverse_depth_first_search`
  called directly: `ok <visited, sorted> <stack in Vec order>` or `err <kind>`.
`acc <vertex records> <edge records> <adj slots as (key value) pairs> <rev slots> <edge probes> <vertex probes>`:
  every accessor of `graph.rs` (model: `Model/Graph.lean` of C15 plus the additions in `Model/Scc.lean`).
`file <descr> nE nV <edge file> <vertex file> impl`: `Graph::from_files` (model: `graphFromFiles` of C15, files
  abstracted as there) followed by the component analysis of `Graph.ofNet` of the loaded graph.
-/
namespace Compass.Drv.C18
open Compass Compass.Proto Compass.Scc

def chkLimit : Nat := 48
/-- `Graph.ofEdges` is quadratic; compared up to this many vertex-edge pairs -/
def stdLimit : Nat := 4000

def lexLe : List Nat → List Nat → Bool
  | [], _ => true
  | _ :: _, [] => false
  | a :: as, b :: bs => a < b || (a == b && lexLe as bs)

def sortNat (l : List Nat) : List Nat := l.mergeSort (fun a b => a ≤ b)

def canon (cs : List (List Nat)) : List (List Nat) := (cs.map sortNat).mergeSort lexLe

def listOut (l : List Nat) : String := joinSp (toString l.length :: l.map toString)

def compsOut (cs : List (List Nat)) : String := joinSp (toString cs.length :: cs.map listOut)

def errOut : Err → String
  | .edgeNotFound => "edge_not_found"
  | .diverges => "diverges"

def bit (b : Bool) : String := if b then "1" else "0"

def pair : P (Nat × Nat) := do let s ← nat; let d ← nat; pure (s, d)

/-- `n  m (s d)*m  a (k e*k)*a  r (k e*k)*r` -/
def graphP : P (Scc.Graph × List (Nat × Nat)) := do
  let n ← nat
  let edges ← listOf pair
  let adj ← listOf (listOf nat)
  let rev ← listOf (listOf nat)
  pure ({ n := n, edges := edges.toArray, adj := adj.toArray, rev := rev.toArray }, edges)

def sccCase : P String := do
  let (g, edges) ← graphP
  let n := g.n
  let impl ← optOf (listOf (listOf nat))
  let stdFlag :=
    if n * edges.length ≤ stdLimit then
      let std := Scc.Graph.ofEdges n edges
      bit (g.adj == std.adj && g.rev == std.rev)
    else "-"
  let wf := s!"{bit g.wfb} std {stdFlag}"
  let check := g.wfb && n ≤ chkLimit
  -- the model of the code as it is: frame-list searches (`allSccIter`, proved equal to `allScc`)
  match allSccIter g with
  | .error e => pure s!"wf {wf} err {errOut e}"
  | .ok cs =>
    -- `largest_strongly_connected_component` recomputes the components; the model does the same
    match largestSccIter g with
    | .error e => pure s!"wf {wf} err {errOut e}"
    | .ok big =>
      let cm := if check then bit (isSccPartition g cs) else "-"
      let ci := if check then (match impl with | some ics => bit (isSccPartition g ics) | none => "0") else "-"
      pure s!"wf {wf} ok {compsOut (canon cs)} L {listOut (sortNat big)} chk {cm} {ci}"

def deepCase : P String := do
  let (g, _) ← graphP
  match allSccIter g, largestSccIter g with
  | .ok cs, .ok big => pure s!"ok {compsOut (canon cs)} L {listOut (sortNat big)}"
  | _, _ => pure "err"

def dfsCase : P String := do
  let (g, _) ← graphP
  let rev ← bool
  let start ← nat
  let vis ← listOf nat
  let st ← listOf nat
  -- the stack `Vec` has its last push at the end; the model's list has it at the head.  The start vertex may
  -- be an id that no record mentions: its own frame is added to the budget of turns.
  let r :=
    if rev then dfsIter g.inEdges g.srcOf (g.turns + (g.inEdges start).length + 1) start (vis, st.reverse)
    else dfsIter g.outEdges g.dstOf (g.turns + (g.outEdges start).length + 1) start (vis, st.reverse)
  match r with
  | .error e => pure s!"err {errOut e}"
  | .ok (vis', st') => pure s!"ok {listOut (sortNat vis'.eraseDups)} {listOut st'.reverse}"

/-! #### accessors -/

open Compass.Drv.C15 (natList vertexOut edgeOut tripletsOut)

def netErrOut : NetErr → String
  | .edgeNotFound e => s!"ne {e}"
  | .vertexNotFound v => s!"nv {v}"

def exOut (f : β → String) : Except NetErr β → String
  | .ok b => "s " ++ f b
  | .error e => netErrOut e

def attrsOut (l : List (Vertex Float × Edge Float × Vertex Float)) : String :=
  joinSp (toString l.length :: l.map (fun (a, e, b) => joinSp [vertexOut a, edgeOut e, vertexOut b]))

def vertexRec : P (Vertex Float) := do
  let i ← nat; let x ← float; let y ← float
  pure { vertexId := i, x := x, y := y }

def edgeRec : P (Edge Float) := do
  let i ← nat; let s ← nat; let d ← nat; let x ← float
  pure { edgeId := i, src := s, dst := d, distance := x }

def edgeProbe (g : Compass.Graph Float) (e : Nat) : String :=
  joinSp [s!"e {e}",
    exOut edgeOut (g.getEdge e),
    exOut toString (g.srcVertexId e),
    exOut toString (g.dstVertexId e),
    exOut toString (g.incidentVertex e .forward),
    exOut toString (g.incidentVertex e .reverse),
    exOut (fun (s, ed, d) => joinSp [vertexOut s, edgeOut ed, vertexOut d]) (g.edgeTriplet e)]

def vertexProbe (g : Compass.Graph Float) (v : Nat) : String :=
  joinSp [s!"v {v}",
    exOut vertexOut (g.getVertex v),
    natList (g.outEdges v),
    natList (g.inEdges v),
    natList (g.outEdgesIter v),
    natList (g.inEdgesIter v),
    natList (g.incidentEdges v .forward),
    natList (g.incidentEdges v .reverse),
    natList (g.incidentEdgesIter v .forward),
    natList (g.incidentEdgesIter v .reverse),
    exOut tripletsOut (g.incidentTripletIds v .forward),
    exOut tripletsOut (g.incidentTripletIds v .reverse),
    exOut attrsOut (g.incidentTripletAttributes v .forward),
    exOut attrsOut (g.incidentTripletAttributes v .reverse)]

def accCase : P String := do
  let vs ← listOf vertexRec
  let es ← listOf edgeRec
  let adj ← listOf (listOf pair)
  let rev ← listOf (listOf pair)
  let pe ← listOf nat
  let pv ← listOf nat
  let g : Compass.Graph Float := { adj := adj, rev := rev, edges := es, vertices := vs }
  pure (joinSp (["acc", toString g.nEdges, toString g.nVertices]
    ++ pe.map (edgeProbe g) ++ pv.map (vertexProbe g)
    ++ ["ids", natList g.edgeIds, natList g.vertexIds]))

/-! #### `Graph::from_files`, then the analysis -/

def slotsOut (l : List AdjMap) : String := compsOut (l.map adjKeys)

def fileCase : P String := do
  let _descr ← next
  let nE ← optOf nat
  let nV ← optOf nat
  let ef ← Compass.Drv.C15.fileP Compass.Drv.C15.edgeRow
  let vf ← Compass.Drv.C15.fileP Compass.Drv.C15.vertexRow
  match graphFromFiles ef vf nE nV with
  | .error e => pure (Compass.Drv.C15.loadErrOut e)
  | .ok net =>
    let impl ← optOf (listOf (listOf nat))
    let g := Scc.Graph.ofNet net
    let digest := s!"{net.nEdges} {net.nVertices} {slotsOut net.adj} {slotsOut net.rev}"
    match allSccIter g, largestSccIter g with
    | .ok cs, .ok big =>
      -- the checker's verdict on the implementation's list (the diff already compares it with the model's)
      let chk := if g.wfb && g.n ≤ chkLimit then
          bit (isSccPartition g cs && (match impl with | some ics => isSccPartition g ics | none => false))
        else "-"
      pure s!"ok {digest} wf {bit g.wfb} scc {compsOut (canon cs)} L {listOut (sortNat big)} chk {chk}"
    | _, _ => pure s!"ok {digest} wf {bit g.wfb} scc err"

def case : P String := do
  let kind ← next
  match kind with
  | "scc" => sccCase
  | "deep" => deepCase
  | "big" => pure "not-modelled"
  | "dfs" => dfsCase
  | "acc" => accCase
  | "file" => fileCase
  | _ => failure

def run (line : String) : String := Proto.run case line

end Compass.Drv.C18
