import Compass.Drv.Proto
import Compass.Model.Scc

/-!
Driver for C18.  Case line:
  `n  m (s d)*m  a (k e*k)*a  r (k e*k)*r  impl`
where `adj`/`rev` are the `keys()` sequences read back from the real `Graph`, and `impl` is the
implementation's own (canonicalised) component list, `s k (len v*len)*k`, or `n` when it returned an error.
Output line:
  `wf b std s ok k (len v*len)*k L (len v*len) chk cm ci`   or   `wf b std s err <kind>`
`b` = the model's well-formedness test of the graph; `s` = the adjacency slots are exactly those of
`Graph.ofEdges` (what `EdgeLoader` builds: edge ids in insertion order; `-` above `stdLimit`); components sorted inside and among themselves;
`L` = the model's `largest_strongly_connected_component` (sorted); `cm`/`ci` = the verdict of the verified
checker `isSccPartition` on the model's / the implementation's component list (`-` when the graph is not
well-formed or larger than `chkLimit` vertices).  Applying the checker is *testing*, not proof.
-/
namespace Compass.Drv.C18
open Compass Compass.Proto Compass.Scc

def chkLimit : Nat := 48
/-- `Graph.ofEdges` is quadratic; compared up to this many vertex-edge pairs -/
def stdLimit : Nat := 4000

def lexLe : List Nat → List Nat → Bool
  | [], _ => true
  | _ :: _, [] => false
  | a :: as, b :: bs => a < b || (a == b && lexLe as bs)

def sortNat (l : List Nat) : List Nat := l.mergeSort (fun a b => a ≤ b)

def canon (cs : List (List Nat)) : List (List Nat) := (cs.map sortNat).mergeSort lexLe

def listOut (l : List Nat) : String := joinSp (toString l.length :: l.map toString)

def compsOut (cs : List (List Nat)) : String := joinSp (toString cs.length :: cs.map listOut)

def errOut : Err → String
  | .edgeNotFound => "edge_not_found"
  | .diverges => "diverges"

def bit (b : Bool) : String := if b then "1" else "0"

def pair : P (Nat × Nat) := do let s ← nat; let d ← nat; pure (s, d)

def case : P String := do
  let n ← nat
  let edges ← listOf pair
  let adj ← listOf (listOf nat)
  let rev ← listOf (listOf nat)
  let impl ← optOf (listOf (listOf nat))
  let g : Graph := { n := n, edges := edges.toArray, adj := adj.toArray, rev := rev.toArray }
  let stdFlag :=
    if n * edges.length ≤ stdLimit then
      let std := Graph.ofEdges n edges
      bit (g.adj == std.adj && g.rev == std.rev)
    else "-"
  let wf := s!"{bit g.wfb} std {stdFlag}"
  let check := g.wfb && n ≤ chkLimit
  match allScc g with
  | .error e => pure s!"wf {wf} err {errOut e}"
  | .ok cs =>
    -- `largest_strongly_connected_component` recomputes the components; the model does the same
    match largestScc g with
    | .error e => pure s!"wf {wf} err {errOut e}"
    | .ok big =>
      let cm := if check then bit (isSccPartition g cs) else "-"
      let ci := if check then (match impl with | some ics => bit (isSccPartition g ics) | none => "0") else "-"
      pure s!"wf {wf} ok {compsOut (canon cs)} L {listOut (sortNat big)} chk {cm} {ci}"

def run (line : String) : String := Proto.run case line

end Compass.Drv.C18
