/-
C18 — strongly connected components are exactly the mutual-reachability classes.

Model: `Compass/Model/Scc.lean` (`allScc` = `all_strongly_connected_componenets`, `largestScc` =
`largest_strongly_connected_component`, recursion of the two depth-first searches fuelled).
Everything below is proved for **every** graph value that is well formed (`g.wfb = true`: one adjacency
slot per vertex, every edge record joins existing vertices, slot `v` of `adj`/`rev` lists exactly the edges
leaving/entering `v`, in any order) — that is, for every directed graph with any number of vertices,
self loops, parallel edges, isolated vertices, and every iteration order of the adjacency containers.
`Graph.wfb` is what `EdgeLoader` establishes when every edge end point is a vertex; `Graph` values that
are not well formed (public fields!) are not directed graphs and are covered by the correspondence run only.

Reachability is `Graph.Reach` (`Proofs/Scc.lean`): the reflexive-transitive closure of
`g.Edge u v := ∃ e, g.edges[e]? = some (u, v)`.

The proof is Kosaraju's argument (`Proofs/Scc.lean`): white-path specification of the functional DFS
together with a finishing-order property (for every pushed `x` and every `y` it reaches, some vertex
mutually reachable with `x` lies at or above `y` on the stack), then an invariant of the second pass
(visited = union of the emitted classes, closed under predecessors).  The fuel handed to the recursion by
the model is shown to suffice on every `Graph` value (`scc_never_diverges`).  A real stack overflow of the
recursive Rust functions on a very long path is outside the model (release build, 8 MiB stack: a one-way chain
of 36 091 vertices passes, one of 55 000 aborts the process).

Since /repo 323fefd the two searches keep their pending vertices in an explicit frame list instead of
recursing (the recursion overflowed the call stack on deep networks: finding `scc/stack-overflow`).  The
model of that code is `dfsIter` / `allSccIter`; it is proved equal to the recursive model on EVERY `Graph`
value (`code_model_eq`), so each theorem below holds of both, and `scc_correct_code` restates the main
result for the code as it is.  `scc_correct_every_loaded_network` discharges the well-formedness hypothesis
for every network `Graph::from_files` returns (model and theorems of C15), and the last part of the file
covers the accessors of `graph.rs` that C15 does not (`…_iter`, `incident_triplet_attributes`).

The correspondence run (harness/src/c18.rs, harness/src/c18_net.rs, Drv/C18.lean) additionally applies the verified checker
`isSccPartition` (`isSccPartition_sound_complete`) to the model's and to the implementation's output on
every well-formed case of at most 48 vertices; that part is testing, not proof.
-/
import Compass.Gen.Decisions
import Compass.Proofs.Num
import Compass.Model.Scc
import Compass.Proofs.Scc
import Compass.Proofs.SccNet

namespace Compass
namespace C18
open Compass.Scc

/-! ### the algorithm returns, and what it returns is the partition into mutual-reachability classes -/

/-- on a well-formed graph the component analysis returns a result: no `EdgeNotFound`, and the recursion
budget of the model is never exhausted -/
theorem scc_total (g : Scc.Graph) (hwf : g.wfb = true) : ∃ cs, allScc g = .ok cs := by
  obtain ⟨cs, h, _⟩ := allScc_good (g.wf_of_wfb hwf)
  exact ⟨cs, h⟩

/-- for **every** `Graph` value, well formed or not, the recursion budget of the model is never the reason
for an outcome: the model returns a result or `EdgeNotFound` (the fuel is a proof device, not a limit) -/
theorem scc_never_diverges (g : Scc.Graph) :
    allScc g ≠ .error .diverges ∧ largestScc g ≠ .error .diverges := by
  refine ⟨allScc_ne_diverges g, ?_⟩
  unfold largestScc
  cases h : allScc g with
  | error x =>
    have : x ≠ Err.diverges := fun hx => allScc_ne_diverges g (by rw [h, hx])
    simp [this]
  | ok cs => simp

/-- all four clauses at once -/
theorem scc_correct (g : Scc.Graph) (hwf : g.wfb = true) (cs : List (List Nat)) (h : allScc g = .ok cs) :
    IsSccPartition g cs := by
  obtain ⟨cs', h', hgood⟩ := allScc_good (g.wf_of_wfb hwf)
  rw [h] at h'
  injection h' with h'
  subst h'
  exact hgood.isSccPartition

/-- every vertex appears in exactly one component: no component is empty, the concatenation of all
components has no repetition, and it holds exactly the vertices `0 .. n-1` -/
theorem scc_partition (g : Scc.Graph) (hwf : g.wfb = true) (cs : List (List Nat)) (h : allScc g = .ok cs) :
    (∀ c ∈ cs, c ≠ []) ∧ cs.flatten.Nodup ∧ (∀ v, v ∈ cs.flatten ↔ v < g.n) :=
  let p := scc_correct g hwf cs h
  ⟨p.nonempty, p.nodup, p.cover⟩

/-- the same, said per vertex: there is exactly one component that holds `v` -/
theorem scc_exactly_one (g : Scc.Graph) (hwf : g.wfb = true) (cs : List (List Nat)) (h : allScc g = .ok cs)
    (v : Nat) (hv : v < g.n) : ∃ c, (c ∈ cs ∧ v ∈ c) ∧ ∀ c', (c' ∈ cs ∧ v ∈ c') → c' = c := by
  have p := scc_correct g hwf cs h
  obtain ⟨c, hc, hvc⟩ := List.mem_flatten.1 ((p.cover v).2 hv)
  exact ⟨c, ⟨hc, hvc⟩, fun c' ⟨hc', hvc'⟩ => unique_block cs p.nodup hc hc' hvc hvc'⟩

/-- two vertices in one component are mutually reachable -/
theorem scc_sound (g : Scc.Graph) (hwf : g.wfb = true) (cs : List (List Nat)) (h : allScc g = .ok cs)
    (c : List Nat) (hc : c ∈ cs) (u v : Nat) (hu : u ∈ c) (hv : v ∈ c) : g.Reach u v ∧ g.Reach v u :=
  ((scc_correct g hwf cs h).classes c hc u hu v).1 hv

/-- mutually reachable vertices share a component: the component of `u` holds every `v` with `u ⇝ v ⇝ u` -/
theorem scc_complete (g : Scc.Graph) (hwf : g.wfb = true) (cs : List (List Nat)) (h : allScc g = .ok cs)
    (u v : Nat) (huv : g.Reach u v) (hvu : g.Reach v u) (c : List Nat) (hc : c ∈ cs) (hu : u ∈ c) : v ∈ c :=
  ((scc_correct g hwf cs h).classes c hc u hu v).2 ⟨huv, hvu⟩

/-- … and such a component exists for every vertex -/
theorem scc_complete_exists (g : Scc.Graph) (hwf : g.wfb = true) (cs : List (List Nat)) (h : allScc g = .ok cs)
    (u v : Nat) (hun : u < g.n) (huv : g.Reach u v) (hvu : g.Reach v u) : ∃ c ∈ cs, u ∈ c ∧ v ∈ c := by
  have p := scc_correct g hwf cs h
  obtain ⟨c, hc, huc⟩ := List.mem_flatten.1 ((p.cover u).2 hun)
  exact ⟨c, hc, huc, scc_complete g hwf cs h u v huv hvu c hc huc⟩

/-- two vertices share a component exactly when each can reach the other -/
theorem scc_iff (g : Scc.Graph) (hwf : g.wfb = true) (cs : List (List Nat)) (h : allScc g = .ok cs)
    (u v : Nat) (hun : u < g.n) : (∃ c ∈ cs, u ∈ c ∧ v ∈ c) ↔ (g.Reach u v ∧ g.Reach v u) :=
  ⟨fun ⟨c, hc, hu, hv⟩ => scc_sound g hwf cs h c hc u v hu hv,
   fun ⟨h1, h2⟩ => scc_complete_exists g hwf cs h u v hun h1 h2⟩

/-! ### the two searches on their own (white-path theorem) -/

/-- `depth_first_search` from a vertex `v`, with `vis` already visited: it returns, pushes a repetition-free
block `new` on the stack, adds exactly that block to the visited set, and the block holds exactly the
vertices reachable from `v` along edges by a walk that avoids `vis` -/
theorem dfs_white_path (g : Scc.Graph) (hwf : g.wfb = true) (v : Nat) (hv : v < g.n) (vis st : List Nat) :
    ∃ new vis', dfs g g.fuel v (vis, st) = .ok (vis', new ++ st) ∧ new.Nodup ∧
      (∀ x, x ∈ vis' ↔ (x ∈ vis ∨ x ∈ new)) ∧
      ∀ y, y ∈ new ↔ RA g.Edge (fun u => u ∈ vis) v y := by
  obtain ⟨new, vis', h1, h2, h3⟩ := (g.wf_of_wfb hwf).dfs_ok g.fuel v vis st hv (fuel_ge g vis)
  refine ⟨new, vis', h1, h3.nodup, h2, fun y => ?_⟩
  rw [h3.reach y]
  simp

/-- `reverse_depth_first_search`: the same along reversed edges — the block holds exactly the vertices
from which `v` can be reached by a walk that avoids `vis` -/
theorem rdfs_white_path (g : Scc.Graph) (hwf : g.wfb = true) (v : Nat) (hv : v < g.n) (vis st : List Nat) :
    ∃ new vis', rdfs g g.fuel v (vis, st) = .ok (vis', new ++ st) ∧ new.Nodup ∧
      (∀ x, x ∈ vis' ↔ (x ∈ vis ∨ x ∈ new)) ∧
      ∀ y, y ∈ new ↔ RA g.Edge (fun u => u ∈ vis) y v := by
  obtain ⟨new, vis', h1, h2, h3⟩ := (g.wf_of_wfb hwf).rdfs_ok g.fuel v vis st hv (fuel_ge g vis)
  refine ⟨new, vis', h1, h3.nodup, h2, fun y => ?_⟩
  rw [h3.reach y]
  simp only [List.mem_singleton, exists_eq_left]
  exact ⟨fun h => h.flip, fun h => h.flip⟩

/-! ### the largest component -/

/-- the reported largest component is at least as long as every component, and it is one of them
(whenever some component is non-empty).  No well-formedness needed: this is the selection loop alone. -/
theorem largest_is_max (g : Scc.Graph) (cs : List (List Nat)) (big : List Nat)
    (hall : allScc g = .ok cs) (hbig : largestScc g = .ok big) :
    (∀ c ∈ cs, c.length ≤ big.length) ∧ ((∃ c ∈ cs, c ≠ []) → big ∈ cs) := by
  unfold largestScc at hbig
  rw [hall] at hbig
  injection hbig with hbig
  subst hbig
  exact ⟨largestOf_max cs, largestOf_mem cs⟩

/-- on a well-formed graph with at least one vertex the largest component is returned, it is a
mutual-reachability class, and no class is bigger -/
theorem largest_is_max_class (g : Scc.Graph) (hwf : g.wfb = true) (hn : 0 < g.n) :
    ∃ cs big, allScc g = .ok cs ∧ largestScc g = .ok big ∧ big ∈ cs ∧ (∀ c ∈ cs, c.length ≤ big.length) ∧
      ∀ u ∈ big, ∀ v, v ∈ big ↔ (g.Reach u v ∧ g.Reach v u) := by
  obtain ⟨cs, h⟩ := scc_total g hwf
  have p := scc_correct g hwf cs h
  have hbig : largestScc g = .ok (largestOf cs) := by simp [largestScc, h]
  have hex : ∃ c ∈ cs, c ≠ [] := by
    obtain ⟨c, hc, _⟩ := List.mem_flatten.1 ((p.cover 0).2 hn)
    exact ⟨c, hc, p.nonempty c hc⟩
  have hm := largest_is_max g cs _ h hbig
  exact ⟨cs, largestOf cs, h, hbig, hm.2 hex, hm.1, p.classes _ (hm.2 hex)⟩

/-- ties: of several components of maximal size the first one in result order is reported
(`>` in the selection loop, not `>=`) -/
theorem largest_ties_first (g : Scc.Graph) (pre suf : List (List Nat)) (c : List Nat)
    (hall : allScc g = .ok (pre ++ c :: suf)) (hc : c ≠ [])
    (hpre : ∀ a ∈ pre, a.length < c.length) (hsuf : ∀ a ∈ suf, a.length ≤ c.length) :
    largestScc g = .ok c := by
  simp [largestScc, hall, largestOf_first pre suf c hc hpre hsuf]

/-! ### every directed graph

`Graph.ofEdges n es` is the value `EdgeLoader` builds from `n` vertices and the edge list `es`; it is well
formed whenever every end point is a vertex, so the statements above hold for every vertex count and every
edge list (self loops, repeated pairs, vertices without edges included). -/

theorem scc_correct_every_digraph (n : Nat) (es : List (Nat × Nat)) (h : ∀ p ∈ es, p.1 < n ∧ p.2 < n) :
    (∀ u v, (Scc.Graph.ofEdges n es).Edge u v ↔ (u, v) ∈ es) ∧
    ∃ cs, allScc (Scc.Graph.ofEdges n es) = .ok cs ∧ IsSccPartition (Scc.Graph.ofEdges n es) cs := by
  refine ⟨ofEdges_edge n es, ?_⟩
  obtain ⟨cs, hcs⟩ := scc_total _ (ofEdges_wfb n es h)
  exact ⟨cs, hcs, scc_correct _ (ofEdges_wfb n es h) cs hcs⟩

/-! ### the code as it is: frame-list searches (/repo 323fefd) -/

/-- the model of the current code (explicit frames, a loop) and the recursive model the proofs are carried out
on return the same thing on every `Graph` value — results, `EdgeNotFound`, and never `diverges` -/
theorem code_model_eq (g : Scc.Graph) : allSccIter g = allScc g ∧ largestSccIter g = largestScc g :=
  ⟨allSccIter_eq g, largestSccIter_eq g⟩

/-- the two public search functions, called on their own from any state: the frame-list search returns what
the recursive search returns -/
theorem search_functions_eq (g : Scc.Graph) (v : Nat) (hv : v ∈ g.universe) (vis st : List Nat) :
    dfsI g v (vis, st) = dfs g g.fuel v (vis, st) ∧ rdfsI g v (vis, st) = rdfs g g.fuel v (vis, st) :=
  ⟨dfsI_eq g v hv vis st, rdfsI_eq g v hv vis st⟩

/-- the loop of the current code ends within the model's budget of turns on every `Graph` value -/
theorem code_never_diverges (g : Scc.Graph) :
    allSccIter g ≠ .error .diverges ∧ largestSccIter g ≠ .error .diverges := by
  rw [allSccIter_eq, largestSccIter_eq]
  exact scc_never_diverges g

/-- the property, for the code as it is: on every well-formed graph both functions return, the components are
the partition into mutual-reachability classes, and the reported largest one is a class of maximal size -/
theorem scc_correct_code (g : Scc.Graph) (hwf : g.wfb = true) :
    ∃ cs big, allSccIter g = .ok cs ∧ largestSccIter g = .ok big ∧ IsSccPartition g cs ∧
      (∀ c ∈ cs, c.length ≤ big.length) ∧ (0 < g.n → big ∈ cs) := by
  obtain ⟨cs, h⟩ := scc_total g hwf
  have p := scc_correct g hwf cs h
  have hbig : largestScc g = .ok (largestOf cs) := by simp [largestScc, h]
  have hm := largest_is_max g cs _ h hbig
  refine ⟨cs, largestOf cs, by rw [allSccIter_eq, h], by rw [largestSccIter_eq, hbig], p, hm.1, ?_⟩
  intro hn
  obtain ⟨c, hc, _⟩ := List.mem_flatten.1 ((p.cover 0).2 hn)
  exact hm.2 ⟨c, hc, p.nonempty c hc⟩

/-! ### every network the loader returns

`graphFromFiles` is C15's model of `Graph::from_files` (files abstracted: can it be read, how many lines does
the scan see, which rows decode).  `Scc.Graph.ofNet` is what the analysis reads of a network value, and it
reads it through `vertex_ids`, `out_edges`, `in_edges`, `src_vertex_id`, `dst_vertex_id`. -/

theorem analysis_reads_through_accessors {α : Type} (net : Compass.Graph α) :
    (Scc.Graph.ofNet net).n = net.vertexIds.length ∧
    (∀ v, (Scc.Graph.ofNet net).outEdges v = net.outEdges v ∧ (Scc.Graph.ofNet net).inEdges v = net.inEdges v) ∧
    (∀ e, (Scc.Graph.ofNet net).srcOf e = (match net.srcVertexId e with | .ok v => some v | .error _ => none) ∧
      (Scc.Graph.ofNet net).dstOf e = (match net.dstVertexId e with | .ok v => some v | .error _ => none)) := by
  refine ⟨by simp [ofNet_n, Compass.Graph.vertexIds, Compass.Graph.nVertices],
    fun v => ⟨ofNet_outEdges net v, ofNet_inEdges net v⟩,
    fun e => ⟨ofNet_srcOf_accessor net e, ofNet_dstOf_accessor net e⟩⟩

/-- for every pair of files, every way of giving the counts: if the load succeeds, the component analysis of
the loaded network returns, and returns the partition of its vertices into the mutual-reachability classes of
its edge records.  No hypothesis on the files (the loader rejects what is not a network). -/
theorem scc_correct_every_loaded_network {α : Type} (ef : CsvFile (Edge α)) (vf : CsvFile (Vertex α))
    (nE nV : Option Nat) (net : Compass.Graph α) (h : graphFromFiles ef vf nE nV = .ok net) :
    (∀ u v, (Scc.Graph.ofNet net).Edge u v ↔ ∃ x ∈ net.edges, x.src = u ∧ x.dst = v) ∧
    ∃ cs big, allSccIter (Scc.Graph.ofNet net) = .ok cs ∧ largestSccIter (Scc.Graph.ofNet net) = .ok big ∧
      IsSccPartition (Scc.Graph.ofNet net) cs ∧ (∀ c ∈ cs, c.length ≤ big.length) := by
  refine ⟨ofNet_edge net, ?_⟩
  obtain ⟨cs, hcs, hgood⟩ := allScc_good (ofNet_loaded_wf ef vf nE nV net h)
  refine ⟨cs, largestOf cs, by rw [allSccIter_eq, hcs], by rw [largestSccIter_eq]; simp [largestScc, hcs],
    hgood.isSccPartition, largestOf_max cs⟩

/-! ### accessors of `graph.rs` not covered by C15 -/

/-- the `_iter` accessors yield the sequences of their collecting counterparts -/
theorem iter_accessors_eq {α : Type} (g : Compass.Graph α) (v : Nat) (d : Direction) :
    g.outEdgesIter v = g.outEdges v ∧ g.inEdgesIter v = g.inEdges v ∧
    g.incidentEdgesIter v d = g.incidentEdges v d := by
  refine ⟨rfl, rfl, ?_⟩
  cases d <;> rfl

/-- `incident_triplet_attributes`, every graph value, success arm: it returns `r` exactly when
`incident_triplet_ids` returns some `l` and `r` holds, entry by entry, the records at the positions `l` names -/
theorem triplet_attributes_ok_iff {α : Type} (g : Compass.Graph α) (v : Nat) (d : Direction)
    (r : List (Vertex α × Edge α × Vertex α)) :
    g.incidentTripletAttributes v d = .ok r ↔
      ∃ l, g.incidentTripletIds v d = .ok l ∧
        List.Forall₂ (fun t x => g.vertices[t.1]? = some x.1 ∧ g.edges[t.2.1]? = some x.2.1 ∧
          g.vertices[t.2.2]? = some x.2.2) l r := by
  unfold Compass.Graph.incidentTripletAttributes
  cases hl : g.incidentTripletIds v d with
  | error x => simp
  | ok l =>
    simp only [Except.ok.injEq, exists_eq_left']
    exact Compass.Graph.tripletAttrsGo_ok_iff g l r

/-- … error arm: the error is that of `incident_triplet_ids`, or a `VertexNotFound` naming the first or third
id of one of its triplets at which there is no vertex record.  (The `?` on `get_edge` inside
`incident_triplet_attributes` is dead code: `incident_triplet_ids` has just read that record.) -/
theorem triplet_attributes_error {α : Type} (g : Compass.Graph α) (v : Nat) (d : Direction) (x : NetErr)
    (h : g.incidentTripletAttributes v d = .error x) :
    g.incidentTripletIds v d = .error x ∨
    ∃ l, g.incidentTripletIds v d = .ok l ∧ ∃ t ∈ l,
      (x = .vertexNotFound t.1 ∧ g.vertices[t.1]? = none) ∨
      (x = .vertexNotFound t.2.2 ∧ g.vertices[t.2.2]? = none) := by
  unfold Compass.Graph.incidentTripletAttributes at h
  cases hl : g.incidentTripletIds v d with
  | error y =>
    rw [hl] at h
    simp only [Except.error.injEq] at h
    exact Or.inl (by rw [h])
  | ok l =>
    rw [hl] at h
    obtain ⟨t, ht, hcase⟩ := Compass.Graph.tripletAttrsGo_error g l x h
    refine Or.inr ⟨l, rfl, t, ht, ?_⟩
    rcases hcase with h1 | h1 | h1
    · exact Or.inl h1
    · obtain ⟨ed, hed⟩ := Compass.Graph.tripletIdsGo_edges_exist g v d _ l hl t ht
      rw [h1.2] at hed
      cases hed
    · exact Or.inr h1

/-- on every network assembled from rows in the documented format (hence on every loaded network,
`C15.loaded_graph_is_buildGraph`) the call never fails, has one entry per listed edge leaving `v`, in file
order, and forward each entry is the `edge_triplet` of its edge -/
theorem triplet_attributes_loaded_forward {α : Type} (es : List (Edge α)) (vs : List (Vertex α)) (nV : Nat)
    (h : RowIds es) (hb : EndpointsBelow es nV) (hb' : EndpointsBelow es vs.length) (v : Nat) :
    ∃ r, (buildGraph es vs nV).incidentTripletAttributes v .forward = .ok r ∧
      List.Forall₂ (fun e t => (buildGraph es vs nV).edgeTriplet e.edgeId = .ok t)
        (es.filter (fun e => e.src = v)) r := by
  obtain ⟨r, hr, hf⟩ := tripletAttrsGo_listed es vs nV h hb' (es.filter (fun e => e.src = v))
    (fun e he => (List.mem_filter.1 he).1)
  refine ⟨r, ?_, hf⟩
  unfold Compass.Graph.incidentTripletAttributes
  rw [(C15.incident_triplet_ids_eq es vs nV h hb v).1]
  have : (es.filter (fun e => e.src = v)).map (fun e => (v, e.edgeId, e.dst)) =
      (es.filter (fun e => e.src = v)).map (fun e => (e.src, e.edgeId, e.dst)) := by
    apply List.map_congr_left
    intro e he
    have := (List.mem_filter.1 he).2
    simp only [decide_eq_true_eq] at this
    rw [this]
  simp only [this]
  exact hr

/-- … and in the reverse direction each entry is the `edge_triplet` of its edge with the two vertices swapped:
the first component is the vertex asked for, i.e. the edge's *destination* -/
theorem triplet_attributes_loaded_reverse {α : Type} (es : List (Edge α)) (vs : List (Vertex α)) (nV : Nat)
    (h : RowIds es) (hb : EndpointsBelow es nV) (hb' : EndpointsBelow es vs.length) (v : Nat) :
    ∃ r, (buildGraph es vs nV).incidentTripletAttributes v .reverse = .ok r ∧
      List.Forall₂ (fun e t => (buildGraph es vs nV).edgeTriplet e.edgeId = .ok (t.2.2, t.2.1, t.1))
        (es.filter (fun e => e.dst = v)) r := by
  obtain ⟨r, hr, hf⟩ := tripletAttrsGo_listed_rev es vs nV h hb' (es.filter (fun e => e.dst = v))
    (fun e he => (List.mem_filter.1 he).1)
  refine ⟨r, ?_, hf⟩
  unfold Compass.Graph.incidentTripletAttributes
  rw [(C15.incident_triplet_ids_eq es vs nV h hb v).2]
  have : (es.filter (fun e => e.dst = v)).map (fun e => (v, e.edgeId, e.src)) =
      (es.filter (fun e => e.dst = v)).map (fun e => (e.dst, e.edgeId, e.src)) := by
    apply List.map_congr_left
    intro e he
    have := (List.mem_filter.1 he).2
    simp only [decide_eq_true_eq] at this
    rw [this]
  simp only [this]
  exact hr

/-! ### the verified checker used by the correspondence run (applying it is testing) -/

/-- `isSccPartition` is sound and complete with respect to the reachability relation -/
theorem isSccPartition_sound_complete (g : Scc.Graph) (hwf : g.wfb = true) (cs : List (List Nat)) :
    isSccPartition g cs = true ↔ IsSccPartition g cs :=
  isSccPartition_iff (g.wf_of_wfb hwf) cs

/-- the checker accepts what the model computes -/
theorem scc_accepted_by_checker (g : Scc.Graph) (hwf : g.wfb = true) (cs : List (List Nat))
    (h : allScc g = .ok cs) : isSccPartition g cs = true :=
  (isSccPartition_sound_complete g hwf cs).2 (scc_correct g hwf cs h)

/-! ### non-vacuity -/

/-- four vertices `0 → 1`, `1 → 3`, `1 → 2`, `3 → 0` (edge ids in this order): classes `{0,1,3}` and `{2}` -/
def g4 : Scc.Graph :=
  { n := 4, edges := #[(0, 1), (1, 3), (1, 2), (3, 0)],
    adj := #[[0], [1, 2], [], [3]], rev := #[[3], [0], [2], [1]] }

example : g4.wfb = true := by decide
example : (Scc.Graph.ofEdges 4 [(0, 1), (1, 3), (1, 2), (3, 0)]).adj = g4.adj ∧
    (Scc.Graph.ofEdges 4 [(0, 1), (1, 3), (1, 2), (3, 0)]).rev = g4.rev := by decide

-- the hypotheses of the theorems are met and the conclusion is not trivial: two components, one of three
-- vertices; 2 and 3 are not in one component although 3 reaches 2
example : (match allScc g4 with
    | .ok cs => cs.length == 2 && cs.any (fun c => c.length == 3) && isSccPartition g4 cs &&
        !cs.any (fun c => c.contains 2 && c.contains 3)
    | .error _ => false) = true := by decide

example : (reachFrom g4 3).contains 2 = true ∧ (reachFrom g4 2).contains 3 = false := by decide

-- the checker rejects wrong answers (one block; a split class; a missing vertex; a repeated vertex)
example : isSccPartition g4 [[0, 1, 2, 3]] = false ∧ isSccPartition g4 [[0, 1], [3], [2]] = false ∧
    isSccPartition g4 [[0, 1, 3]] = false ∧ isSccPartition g4 [[0, 1, 3], [2], [2]] = false := by decide

example : (match largestScc g4 with | .ok big => big.length == 3 | .error _ => false) = true := by decide

/-- remark on DESIGN.md Appendix A.6: the finishing-order lemma in its naive form ("`r` above `y` on the
stack and `y ⇝ r` imply `r ⇝ y`") is false of the real traversal order: after the first pass on `g4`
vertex 2 lies above vertex 3, 3 reaches 2, and 2 does not reach 3.  The proof uses the weaker, true
form stated in `StackOk.order`. -/
theorem naive_finishing_order_is_false :
    (match pass1 g4 with
      | .ok (_, st) => decide (st.idxOf 2 < st.idxOf 3)
      | .error _ => false) = true ∧
    (reachFrom g4 3).contains 2 = true ∧ (reachFrom g4 2).contains 3 = false := by decide

/-- a `Graph` value that is not well formed (an edge record whose destination is not a vertex — the loader
refuses such a file since the endpoint check of `graph_loader.rs`, so only a hand-built value has this
shape) makes the analysis report an id that is not a vertex; such values are outside
the property ("directed graph") and outside the theorems above -/
example : (match allScc { n := 2, edges := #[(0, 1), (1, 5)], adj := #[[0], [1]], rev := #[[], [0]] } with
    | .ok cs => cs.any (fun c => c.contains 5)
    | .error _ => false) = true := by decide

/-! non-vacuity of the new parts -/

-- the frame-list model runs, and on `g4` gives what the recursive one gives
example : (match allSccIter g4, allScc g4 with
    | .ok a, .ok b => a == b && a.length == 2
    | _, _ => false) = true := by decide

def loadedEdges : List (Edge Nat) := [⟨0, 0, 1, 7⟩, ⟨1, 1, 0, 9⟩, ⟨2, 1, 2, 4⟩]
def loadedVertices : List (Vertex Nat) := [⟨0, 10, 20⟩, ⟨1, 11, 21⟩, ⟨2, 12, 22⟩]

-- a load that succeeds (scanned counts), two components, one of two vertices; five slots for three vertices
-- (declared count 5) load as well and give the same components
example : (match graphFromFiles ⟨true, 4, true, loadedEdges.map Row.ok⟩ ⟨true, 4, true, loadedVertices.map Row.ok⟩ none none with
    | .ok net => (match allSccIter (Scc.Graph.ofNet net) with
      | .ok cs => cs.length == 2 && cs.any (fun c => c.length == 2) && isSccPartition (Scc.Graph.ofNet net) cs
      | .error _ => false)
    | .error _ => false) = true := by decide

example : (match graphFromFiles ⟨true, 4, true, loadedEdges.map Row.ok⟩ ⟨true, 4, true, loadedVertices.map Row.ok⟩ (some 3) (some 5) with
    | .ok net => net.adj.length == 5 && (Scc.Graph.ofNet net).wfb &&
      (match allSccIter (Scc.Graph.ofNet net) with
      | .ok cs => cs.length == 2
      | .error _ => false)
    | .error _ => false) = true := by decide

-- `incident_triplet_attributes`: forward at vertex 1 two entries, first components vertex 1; reverse at vertex 1
-- one entry whose first component is vertex 1 (the edge's destination) and whose third is vertex 0 (its source);
-- an end point that is not a vertex is `VertexNotFound`, a slot naming a missing edge is `EdgeNotFound`
example : (match (buildGraph loadedEdges loadedVertices 3).incidentTripletAttributes 1 .forward with
    | .ok l => l.map (fun t => (t.1.vertexId, t.2.1.edgeId, t.2.2.vertexId)) == [(1, 1, 0), (1, 2, 2)]
    | .error _ => false) = true := by decide
example : (match (buildGraph loadedEdges loadedVertices 3).incidentTripletAttributes 1 .reverse with
    | .ok l => l.map (fun t => (t.1.vertexId, t.2.1.edgeId, t.2.2.vertexId)) == [(1, 0, 0)]
    | .error _ => false) = true := by decide
example : (match ({ adj := [[(0, 7)]], rev := [[]], edges := [⟨0, 0, 7, 1⟩], vertices := [⟨0, 0, 0⟩] } :
      Compass.Graph Nat).incidentTripletAttributes 0 .forward with
    | .error (.vertexNotFound 7) => true
    | _ => false) = true := by decide
example : (match ({ adj := [[(9, 0)]], rev := [[]], edges := [], vertices := [⟨0, 0, 0⟩] } :
      Compass.Graph Nat).incidentTripletAttributes 0 .forward with
    | .error (.edgeNotFound 9) => true
    | _ => false) = true := by decide

end C18
end Compass

namespace Compass
namespace C18
open Src

/-! ### Source decision ties

The relational operators at the named comparison sites of the Rust source are re-extracted on every run
by `tools/gen_model.py` into `Compass/Gen/Decisions.lean` (`Src.<site> : Src.Rel`).  Each theorem below
says that the hand-written model decides at that site by exactly the operator the source has there
(`Rel.nat` / `Rel.int` / `Rel.num` interpret the extracted operator; an unrecognised line is `none`).  A
source change that turns `<` into `<=`, `>` into `>=`, … at a site changes the generated constant and this
proof obligation stops checking, whether or not a generated case lands on the tie. -/

theorem src_scc_largest (cs : List (List Nat)) :
    Scc.largestOf cs =
      cs.foldl (fun best c => if scc_largest.nat c.length best.length = some true then c else best) [] := by
  simp [Scc.largestOf, scc_largest, Rel.nat]

end C18
end Compass
