/-
C18 — strongly connected components are exactly the mutual-reachability classes.
(milestone 1: selection of the largest component; the Kosaraju theorems follow)
-/
import Compass.Proofs.Scc

namespace Compass
namespace C18
open Compass.Scc

/-- the reported largest component is at least as long as every component, and it is one of them
(whenever some component is non-empty) -/
theorem largest_is_max (g : Graph) (cs : List (List Nat)) (big : List Nat)
    (hall : allScc g = .ok cs) (hbig : largestScc g = .ok big) :
    (∀ c ∈ cs, c.length ≤ big.length) ∧ ((∃ c ∈ cs, c ≠ []) → big ∈ cs) := by
  unfold largestScc at hbig
  rw [hall] at hbig
  injection hbig with hbig
  subst hbig
  exact ⟨largestOf_max cs, largestOf_mem cs⟩

end C18
end Compass
