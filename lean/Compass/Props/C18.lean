/-
C18 — strongly connected components are exactly the mutual-reachability classes.

Model: `Compass/Model/Scc.lean` (`allScc` = `all_strongly_connected_componenets`, `largestScc` =
`largest_strongly_connected_component`, recursion of the two depth-first searches fuelled).
Everything below is proved for **every** graph value that is well formed (`g.wfb = true`: one adjacency
slot per vertex, every edge record joins existing vertices, slot `v` of `adj`/`rev` lists exactly the edges
leaving/entering `v`, in any order) — that is, for every directed graph with any number of vertices,
self loops, parallel edges, isolated vertices, and every iteration order of the adjacency containers.
`Graph.wfb` is what `EdgeLoader` establishes when every edge end point is a vertex; `Graph` values that
are not well formed (public fields!) are not directed graphs and are covered by the correspondence run only.

Reachability is `Graph.Reach` (`Proofs/Scc.lean`): the reflexive-transitive closure of
`g.Edge u v := ∃ e, g.edges[e]? = some (u, v)`.

The proof is Kosaraju's argument (`Proofs/Scc.lean`): white-path specification of the functional DFS
together with a finishing-order property (for every pushed `x` and every `y` it reaches, some vertex
mutually reachable with `x` lies at or above `y` on the stack), then an invariant of the second pass
(visited = union of the emitted classes, closed under predecessors).  The fuel handed to the recursion by
the model is shown to suffice on every `Graph` value (`scc_never_diverges`).  A real stack overflow of the
recursive Rust functions on a very long path is outside the model (release build, 8 MiB stack: a one-way chain
of 36 091 vertices passes, one of 55 000 aborts the process).

The correspondence run (harness/src/c18.rs, Drv/C18.lean) additionally applies the verified checker
`isSccPartition` (`isSccPartition_sound_complete`) to the model's and to the implementation's output on
every well-formed case of at most 48 vertices; that part is testing, not proof.
-/
import Compass.Proofs.Scc

namespace Compass
namespace C18
open Compass.Scc

/-! ### the algorithm returns, and what it returns is the partition into mutual-reachability classes -/

/-- on a well-formed graph the component analysis returns a result: no `EdgeNotFound`, and the recursion
budget of the model is never exhausted -/
theorem scc_total (g : Scc.Graph) (hwf : g.wfb = true) : ∃ cs, allScc g = .ok cs := by
  obtain ⟨cs, h, _⟩ := allScc_good (g.wf_of_wfb hwf)
  exact ⟨cs, h⟩

/-- for **every** `Graph` value, well formed or not, the recursion budget of the model is never the reason
for an outcome: the model returns a result or `EdgeNotFound` (the fuel is a proof device, not a limit) -/
theorem scc_never_diverges (g : Scc.Graph) :
    allScc g ≠ .error .diverges ∧ largestScc g ≠ .error .diverges := by
  refine ⟨allScc_ne_diverges g, ?_⟩
  unfold largestScc
  cases h : allScc g with
  | error x =>
    have : x ≠ Err.diverges := fun hx => allScc_ne_diverges g (by rw [h, hx])
    simp [this]
  | ok cs => simp

/-- all four clauses at once -/
theorem scc_correct (g : Scc.Graph) (hwf : g.wfb = true) (cs : List (List Nat)) (h : allScc g = .ok cs) :
    IsSccPartition g cs := by
  obtain ⟨cs', h', hgood⟩ := allScc_good (g.wf_of_wfb hwf)
  rw [h] at h'
  injection h' with h'
  subst h'
  exact hgood.isSccPartition

/-- every vertex appears in exactly one component: no component is empty, the concatenation of all
components has no repetition, and it holds exactly the vertices `0 .. n-1` -/
theorem scc_partition (g : Scc.Graph) (hwf : g.wfb = true) (cs : List (List Nat)) (h : allScc g = .ok cs) :
    (∀ c ∈ cs, c ≠ []) ∧ cs.flatten.Nodup ∧ (∀ v, v ∈ cs.flatten ↔ v < g.n) :=
  let p := scc_correct g hwf cs h
  ⟨p.nonempty, p.nodup, p.cover⟩

/-- the same, said per vertex: there is exactly one component that holds `v` -/
theorem scc_exactly_one (g : Scc.Graph) (hwf : g.wfb = true) (cs : List (List Nat)) (h : allScc g = .ok cs)
    (v : Nat) (hv : v < g.n) : ∃ c, (c ∈ cs ∧ v ∈ c) ∧ ∀ c', (c' ∈ cs ∧ v ∈ c') → c' = c := by
  have p := scc_correct g hwf cs h
  obtain ⟨c, hc, hvc⟩ := List.mem_flatten.1 ((p.cover v).2 hv)
  exact ⟨c, ⟨hc, hvc⟩, fun c' ⟨hc', hvc'⟩ => unique_block cs p.nodup hc hc' hvc hvc'⟩

/-- two vertices in one component are mutually reachable -/
theorem scc_sound (g : Scc.Graph) (hwf : g.wfb = true) (cs : List (List Nat)) (h : allScc g = .ok cs)
    (c : List Nat) (hc : c ∈ cs) (u v : Nat) (hu : u ∈ c) (hv : v ∈ c) : g.Reach u v ∧ g.Reach v u :=
  ((scc_correct g hwf cs h).classes c hc u hu v).1 hv

/-- mutually reachable vertices share a component: the component of `u` holds every `v` with `u ⇝ v ⇝ u` -/
theorem scc_complete (g : Scc.Graph) (hwf : g.wfb = true) (cs : List (List Nat)) (h : allScc g = .ok cs)
    (u v : Nat) (huv : g.Reach u v) (hvu : g.Reach v u) (c : List Nat) (hc : c ∈ cs) (hu : u ∈ c) : v ∈ c :=
  ((scc_correct g hwf cs h).classes c hc u hu v).2 ⟨huv, hvu⟩

/-- … and such a component exists for every vertex -/
theorem scc_complete_exists (g : Scc.Graph) (hwf : g.wfb = true) (cs : List (List Nat)) (h : allScc g = .ok cs)
    (u v : Nat) (hun : u < g.n) (huv : g.Reach u v) (hvu : g.Reach v u) : ∃ c ∈ cs, u ∈ c ∧ v ∈ c := by
  have p := scc_correct g hwf cs h
  obtain ⟨c, hc, huc⟩ := List.mem_flatten.1 ((p.cover u).2 hun)
  exact ⟨c, hc, huc, scc_complete g hwf cs h u v huv hvu c hc huc⟩

/-- two vertices share a component exactly when each can reach the other -/
theorem scc_iff (g : Scc.Graph) (hwf : g.wfb = true) (cs : List (List Nat)) (h : allScc g = .ok cs)
    (u v : Nat) (hun : u < g.n) : (∃ c ∈ cs, u ∈ c ∧ v ∈ c) ↔ (g.Reach u v ∧ g.Reach v u) :=
  ⟨fun ⟨c, hc, hu, hv⟩ => scc_sound g hwf cs h c hc u v hu hv,
   fun ⟨h1, h2⟩ => scc_complete_exists g hwf cs h u v hun h1 h2⟩

/-! ### the two searches on their own (white-path theorem) -/

/-- `depth_first_search` from a vertex `v`, with `vis` already visited: it returns, pushes a repetition-free
block `new` on the stack, adds exactly that block to the visited set, and the block holds exactly the
vertices reachable from `v` along edges by a walk that avoids `vis` -/
theorem dfs_white_path (g : Scc.Graph) (hwf : g.wfb = true) (v : Nat) (hv : v < g.n) (vis st : List Nat) :
    ∃ new vis', dfs g g.fuel v (vis, st) = .ok (vis', new ++ st) ∧ new.Nodup ∧
      (∀ x, x ∈ vis' ↔ (x ∈ vis ∨ x ∈ new)) ∧
      ∀ y, y ∈ new ↔ RA g.Edge (fun u => u ∈ vis) v y := by
  obtain ⟨new, vis', h1, h2, h3⟩ := (g.wf_of_wfb hwf).dfs_ok g.fuel v vis st hv (fuel_ge g vis)
  refine ⟨new, vis', h1, h3.nodup, h2, fun y => ?_⟩
  rw [h3.reach y]
  simp

/-- `reverse_depth_first_search`: the same along reversed edges — the block holds exactly the vertices
from which `v` can be reached by a walk that avoids `vis` -/
theorem rdfs_white_path (g : Scc.Graph) (hwf : g.wfb = true) (v : Nat) (hv : v < g.n) (vis st : List Nat) :
    ∃ new vis', rdfs g g.fuel v (vis, st) = .ok (vis', new ++ st) ∧ new.Nodup ∧
      (∀ x, x ∈ vis' ↔ (x ∈ vis ∨ x ∈ new)) ∧
      ∀ y, y ∈ new ↔ RA g.Edge (fun u => u ∈ vis) y v := by
  obtain ⟨new, vis', h1, h2, h3⟩ := (g.wf_of_wfb hwf).rdfs_ok g.fuel v vis st hv (fuel_ge g vis)
  refine ⟨new, vis', h1, h3.nodup, h2, fun y => ?_⟩
  rw [h3.reach y]
  simp only [List.mem_singleton, exists_eq_left]
  exact ⟨fun h => h.flip, fun h => h.flip⟩

/-! ### the largest component -/

/-- the reported largest component is at least as long as every component, and it is one of them
(whenever some component is non-empty).  No well-formedness needed: this is the selection loop alone. -/
theorem largest_is_max (g : Scc.Graph) (cs : List (List Nat)) (big : List Nat)
    (hall : allScc g = .ok cs) (hbig : largestScc g = .ok big) :
    (∀ c ∈ cs, c.length ≤ big.length) ∧ ((∃ c ∈ cs, c ≠ []) → big ∈ cs) := by
  unfold largestScc at hbig
  rw [hall] at hbig
  injection hbig with hbig
  subst hbig
  exact ⟨largestOf_max cs, largestOf_mem cs⟩

/-- on a well-formed graph with at least one vertex the largest component is returned, it is a
mutual-reachability class, and no class is bigger -/
theorem largest_is_max_class (g : Scc.Graph) (hwf : g.wfb = true) (hn : 0 < g.n) :
    ∃ cs big, allScc g = .ok cs ∧ largestScc g = .ok big ∧ big ∈ cs ∧ (∀ c ∈ cs, c.length ≤ big.length) ∧
      ∀ u ∈ big, ∀ v, v ∈ big ↔ (g.Reach u v ∧ g.Reach v u) := by
  obtain ⟨cs, h⟩ := scc_total g hwf
  have p := scc_correct g hwf cs h
  have hbig : largestScc g = .ok (largestOf cs) := by simp [largestScc, h]
  have hex : ∃ c ∈ cs, c ≠ [] := by
    obtain ⟨c, hc, _⟩ := List.mem_flatten.1 ((p.cover 0).2 hn)
    exact ⟨c, hc, p.nonempty c hc⟩
  have hm := largest_is_max g cs _ h hbig
  exact ⟨cs, largestOf cs, h, hbig, hm.2 hex, hm.1, p.classes _ (hm.2 hex)⟩

/-- ties: of several components of maximal size the first one in result order is reported
(`>` in the selection loop, not `>=`) -/
theorem largest_ties_first (g : Scc.Graph) (pre suf : List (List Nat)) (c : List Nat)
    (hall : allScc g = .ok (pre ++ c :: suf)) (hc : c ≠ [])
    (hpre : ∀ a ∈ pre, a.length < c.length) (hsuf : ∀ a ∈ suf, a.length ≤ c.length) :
    largestScc g = .ok c := by
  simp [largestScc, hall, largestOf_first pre suf c hc hpre hsuf]

/-! ### every directed graph

`Graph.ofEdges n es` is the value `EdgeLoader` builds from `n` vertices and the edge list `es`; it is well
formed whenever every end point is a vertex, so the statements above hold for every vertex count and every
edge list (self loops, repeated pairs, vertices without edges included). -/

theorem scc_correct_every_digraph (n : Nat) (es : List (Nat × Nat)) (h : ∀ p ∈ es, p.1 < n ∧ p.2 < n) :
    (∀ u v, (Scc.Graph.ofEdges n es).Edge u v ↔ (u, v) ∈ es) ∧
    ∃ cs, allScc (Scc.Graph.ofEdges n es) = .ok cs ∧ IsSccPartition (Scc.Graph.ofEdges n es) cs := by
  refine ⟨ofEdges_edge n es, ?_⟩
  obtain ⟨cs, hcs⟩ := scc_total _ (ofEdges_wfb n es h)
  exact ⟨cs, hcs, scc_correct _ (ofEdges_wfb n es h) cs hcs⟩

/-! ### the verified checker used by the correspondence run (applying it is testing) -/

/-- `isSccPartition` is sound and complete with respect to the reachability relation -/
theorem isSccPartition_sound_complete (g : Scc.Graph) (hwf : g.wfb = true) (cs : List (List Nat)) :
    isSccPartition g cs = true ↔ IsSccPartition g cs :=
  isSccPartition_iff (g.wf_of_wfb hwf) cs

/-- the checker accepts what the model computes -/
theorem scc_accepted_by_checker (g : Scc.Graph) (hwf : g.wfb = true) (cs : List (List Nat))
    (h : allScc g = .ok cs) : isSccPartition g cs = true :=
  (isSccPartition_sound_complete g hwf cs).2 (scc_correct g hwf cs h)

/-! ### non-vacuity -/

/-- four vertices `0 → 1`, `1 → 3`, `1 → 2`, `3 → 0` (edge ids in this order): classes `{0,1,3}` and `{2}` -/
def g4 : Scc.Graph :=
  { n := 4, edges := #[(0, 1), (1, 3), (1, 2), (3, 0)],
    adj := #[[0], [1, 2], [], [3]], rev := #[[3], [0], [2], [1]] }

example : g4.wfb = true := by decide
example : (Scc.Graph.ofEdges 4 [(0, 1), (1, 3), (1, 2), (3, 0)]).adj = g4.adj ∧
    (Scc.Graph.ofEdges 4 [(0, 1), (1, 3), (1, 2), (3, 0)]).rev = g4.rev := by decide

-- the hypotheses of the theorems are met and the conclusion is not trivial: two components, one of three
-- vertices; 2 and 3 are not in one component although 3 reaches 2
example : (match allScc g4 with
    | .ok cs => cs.length == 2 && cs.any (fun c => c.length == 3) && isSccPartition g4 cs &&
        !cs.any (fun c => c.contains 2 && c.contains 3)
    | .error _ => false) = true := by decide

example : (reachFrom g4 3).contains 2 = true ∧ (reachFrom g4 2).contains 3 = false := by decide

-- the checker rejects wrong answers (one block; a split class; a missing vertex; a repeated vertex)
example : isSccPartition g4 [[0, 1, 2, 3]] = false ∧ isSccPartition g4 [[0, 1], [3], [2]] = false ∧
    isSccPartition g4 [[0, 1, 3]] = false ∧ isSccPartition g4 [[0, 1, 3], [2], [2]] = false := by decide

example : (match largestScc g4 with | .ok big => big.length == 3 | .error _ => false) = true := by decide

/-- remark on DESIGN.md Appendix A.6: the finishing-order lemma in its naive form ("`r` above `y` on the
stack and `y ⇝ r` imply `r ⇝ y`") is false of the real traversal order: after the first pass on `g4`
vertex 2 lies above vertex 3, 3 reaches 2, and 2 does not reach 3.  The proof uses the weaker, true
form stated in `StackOk.order`. -/
theorem naive_finishing_order_is_false :
    (match pass1 g4 with
      | .ok (_, st) => decide (st.idxOf 2 < st.idxOf 3)
      | .error _ => false) = true ∧
    (reachFrom g4 3).contains 2 = true ∧ (reachFrom g4 2).contains 3 = false := by decide

/-- a `Graph` value that is not well formed (an edge record whose destination is not a vertex — the loader
accepts such a file silently) makes the analysis report an id that is not a vertex; such values are outside
the property ("directed graph") and outside the theorems above -/
example : (match allScc { n := 2, edges := #[(0, 1), (1, 5)], adj := #[[0], [1]], rev := #[[], [0]] } with
    | .ok cs => cs.any (fun c => c.contains 5)
    | .error _ => false) = true := by decide

end C18
end Compass
