/-
C20 — every output format renders the same route, with geometry in edge order.

Model: `Compass/Model/Output.lean` (`TraversalOutputFormat::{generate_route_output, generate_tree_output}`,
`traversal_ops`, `concat_linestrings`, `TraversalPlugin::process`, `UUIDOutputPlugin::process`, the summary
counts and `apply_output_processing`), tied to the Rust code by the bit-exact correspondence run of
`harness/src/c20.rs` (all five formats parsed back from what the real code printed).

Clauses of the property and where they are proved, for every route, tree, geometry table and format:
 * the edge-id list, the JSON records and the GeoJSON features follow the returned edge sequence
   (`edge_id_list_is_route_edges`, `json_records_in_route_order`, `geojson_features_in_route_order`,
   `route_edge_sequence`, `formats_agree_on_edge_sequence`);
 * the WKT / WKB / GeoJSON geometry is the concatenation of the stored geometries in edge order, joint points
   included (`route_geometry_is_concatenation`, `route_geometry`, `route_geometry_keeps_every_point`,
   `formats_agree_on_geometry`);
 * a missing geometry is an error, never a shorter or shifted geometry (`missing_geometry_is_error`,
   `geometry_rendered_iff_all_stored`, `tree_missing_geometry_is_error`, `response_error_on_missing_geometry`,
   `response_has_route_or_is_error`);
 * tree outputs have exactly one entry per branch, independent of the hash map's iteration order
   (`tree_output_one_entry_per_branch`, `tree_output_edge_ids`, `tree_output_lines`,
   `tree_output_order_independent`);
 * the attached identifiers are the stored ones (`uuid_attached_are_stored`, `uuid_error_iff`,
   `uuid_never_panics`, `response_uuids_are_stored`);
 * the summary counts are the sizes of what is rendered (`summary_counts`).
-/
import Compass.Proofs.Output

namespace Compass
namespace C20
open Output

/-- the formats that render geometry -/
def usesGeometry : Fmt → Bool
  | .wkt | .wkb | .geoJson => true
  | .json | .edgeId => false

/-! ### 1. every format follows the returned edge sequence -/

theorem edge_id_list_is_route_edges (g : Geoms) (r : List EdgeTraversal) :
    generateRouteOutput g .edgeId r = .ok (.edgeIds (r.map (·.edge))) := rfl

theorem json_records_in_route_order (g : Geoms) (r : List EdgeTraversal) :
    ∃ rs, generateRouteOutput g .json r = .ok (.records rs) ∧ rs = r ∧ rs.length = r.length ∧
      ∀ (i : Nat) (hr : i < r.length) (hs : i < rs.length), rs[i].edge = r[i].edge :=
  ⟨r, rfl, rfl, rfl, fun _ _ _ => rfl⟩

theorem geojson_features_in_route_order (g : Geoms) (r : List EdgeTraversal) (o : RouteOut)
    (h : generateRouteOutput g .geoJson r = .ok o) :
    ∃ fs, o = .features fs ∧ fs.length = r.length ∧
      ∀ (i : Nat) (hr : i < r.length) (hf : i < fs.length),
        fs[i].id = r[i].edge ∧ fs[i].props = r[i] ∧ g r[i].edge = some fs[i].geom := by
  simp only [generateRouteOutput, featuresOf_eq] at h
  by_cases hs : allStored g (r.map (·.edge)) = true
  · simp only [hs, if_true] at h
    injection h with h
    subst h
    refine ⟨_, rfl, by simp, ?_⟩
    intro i hr hf
    obtain ⟨l, hl⟩ := (allStored_iff g _).1 hs r[i].edge (List.mem_map.2 ⟨r[i], List.getElem_mem hr, rfl⟩)
    simp [createGeojsonFeature, geomD, hl]
  · simp [hs] at h

/-- whatever edge sequence an output shows, it is the route's, in order -/
theorem route_edge_sequence (g : Geoms) (f : Fmt) (r : List EdgeTraversal) (o : RouteOut) (s : List Nat)
    (h : generateRouteOutput g f r = .ok o) (hs : o.edgeSeq? = some s) : s = r.map (·.edge) := by
  cases f with
  | edgeId =>
    simp only [generateRouteOutput] at h
    injection h with h; subst h
    simpa [RouteOut.edgeSeq?] using hs.symm
  | json =>
    simp only [generateRouteOutput] at h
    injection h with h; subst h
    simpa [RouteOut.edgeSeq?] using hs.symm
  | geoJson =>
    simp only [generateRouteOutput, featuresOf_eq] at h
    by_cases hst : allStored g (r.map (·.edge)) = true
    · simp only [hst, if_true] at h
      injection h with h; subst h
      simp only [RouteOut.edgeSeq?, Option.some.injEq] at hs
      subst hs
      simp [createGeojsonFeature, Function.comp_def]
    · simp [hst] at h
  | wkt =>
    simp only [generateRouteOutput] at h
    cases hc : createRouteLinestring g r with
    | error x => simp [hc] at h
    | ok l => simp only [hc] at h; injection h with h; subst h; simp [RouteOut.edgeSeq?] at hs
  | wkb =>
    simp only [generateRouteOutput] at h
    cases hc : createRouteLinestring g r with
    | error x => simp [hc] at h
    | ok l => simp only [hc] at h; injection h with h; subst h; simp [RouteOut.edgeSeq?] at hs

/-- pairwise: any two formats that show an edge sequence show the same one -/
theorem formats_agree_on_edge_sequence (g g' : Geoms) (f1 f2 : Fmt) (r : List EdgeTraversal) (o1 o2 : RouteOut)
    (s1 s2 : List Nat) (h1 : generateRouteOutput g f1 r = .ok o1) (h2 : generateRouteOutput g' f2 r = .ok o2)
    (e1 : o1.edgeSeq? = some s1) (e2 : o2.edgeSeq? = some s2) : s1 = s2 := by
  rw [route_edge_sequence g f1 r o1 s1 h1 e1, route_edge_sequence g' f2 r o2 s2 h2 e2]

/-- the id formats do not consult the geometry table and never fail -/
theorem id_formats_ignore_geometry (g g' : Geoms) (f : Fmt) (r : List EdgeTraversal) (hf : usesGeometry f = false) :
    generateRouteOutput g f r = generateRouteOutput g' f r ∧ ∃ o, generateRouteOutput g f r = .ok o := by
  cases f <;> simp [usesGeometry] at hf <;> exact ⟨rfl, _, rfl⟩

example : ∃ g r s, generateRouteOutput g .geoJson r = .ok s ∧ s.edgeSeq? = some [1, 0, 1] :=
  ⟨tableOf [[⟨1, 2⟩, ⟨3, 4⟩], [⟨5, 6⟩, ⟨7, 8⟩, ⟨9, 10⟩]],
   [⟨1, 0, 0, []⟩, ⟨0, 0, 0, [7]⟩, ⟨1, 0, 0, []⟩], _, rfl, rfl⟩

/-! ### 2. the route geometry is the concatenation of the stored geometries, in edge order -/

/-- when every edge of the route has a stored geometry `geom e`, the three geometry formats render exactly
`geom e₁ ++ geom e₂ ++ …` (WKT, WKB) resp. one feature per edge carrying `geom eᵢ` (GeoJSON) -/
theorem route_geometry_is_concatenation (g : Geoms) (geom : Nat → Line) (r : List EdgeTraversal)
    (hst : ∀ t ∈ r, g t.edge = some (geom t.edge)) :
    generateRouteOutput g .wkt r = .ok (.wkt (r.flatMap fun t => geom t.edge)) ∧
    generateRouteOutput g .wkb r = .ok (.wkb (r.flatMap fun t => geom t.edge)) ∧
    generateRouteOutput g .geoJson r =
      .ok (.features (r.map fun t => { id := t.edge, props := t, geom := geom t.edge })) := by
  have hall : allStored g (r.map (·.edge)) = true := by
    rw [allStored_iff]
    intro e he
    obtain ⟨t, ht, rfl⟩ := List.mem_map.1 he
    exact ⟨_, hst t ht⟩
  have hfm : (r.flatMap fun t => geomD g t.edge) = r.flatMap fun t => geom t.edge := by
    simp only [List.flatMap_def]
    congr 1
    apply List.map_congr_left
    intro t ht
    exact geomD_of_stored (hst t ht)
  have hm : (r.map fun t => createGeojsonFeature t (geomD g t.edge)) =
      r.map fun t => ({ id := t.edge, props := t, geom := geom t.edge } : Feature) := by
    apply List.map_congr_left
    intro t ht
    simp [createGeojsonFeature, geomD_of_stored (hst t ht)]
  refine ⟨?_, ?_, ?_⟩
  · simp [generateRouteOutput, createRouteLinestring_eq, hall, hfm]
  · simp [generateRouteOutput, createRouteLinestring_eq, hall, hfm]
  · simp [generateRouteOutput, featuresOf_eq, hall, hm]

/-- converse direction, for any format: whatever geometry an output shows is the flattening of a list `ls` of
linestrings with `ls[i]` the stored geometry of the `i`-th route edge -/
theorem route_geometry (g : Geoms) (f : Fmt) (r : List EdgeTraversal) (o : RouteOut) (l : Line)
    (h : generateRouteOutput g f r = .ok o) (hl : o.geometry? = some l) :
    ∃ ls : List Line, ls.length = r.length ∧
      (∀ (i : Nat) (hr : i < r.length) (hs : i < ls.length), g r[i].edge = some ls[i]) ∧ l = ls.flatten := by
  have key : allStored g (r.map (·.edge)) = true → l = (r.map fun t => geomD g t.edge).flatten →
      ∃ ls : List Line, ls.length = r.length ∧
        (∀ (i : Nat) (hr : i < r.length) (hs : i < ls.length), g r[i].edge = some ls[i]) ∧ l = ls.flatten := by
    intro hall hl'
    refine ⟨r.map fun t => geomD g t.edge, by simp, ?_, hl'⟩
    intro i hr _
    obtain ⟨ln, hln⟩ := (allStored_iff g _).1 hall r[i].edge (List.mem_map.2 ⟨r[i], List.getElem_mem hr, rfl⟩)
    simp [geomD, hln]
  cases f with
  | edgeId =>
    simp only [generateRouteOutput] at h
    injection h with h; subst h; simp [RouteOut.geometry?] at hl
  | json =>
    simp only [generateRouteOutput] at h
    injection h with h; subst h; simp [RouteOut.geometry?] at hl
  | geoJson =>
    simp only [generateRouteOutput, featuresOf_eq] at h
    by_cases hst : allStored g (r.map (·.edge)) = true
    · simp only [hst, if_true] at h
      injection h with h; subst h
      simp only [RouteOut.geometry?, Option.some.injEq] at hl
      apply key hst
      rw [← hl]
      simp [createGeojsonFeature, Function.comp_def]
    · simp [hst] at h
  | wkt =>
    simp only [generateRouteOutput, createRouteLinestring_eq] at h
    by_cases hst : allStored g (r.map (·.edge)) = true
    · simp only [hst, if_true] at h
      injection h with h; subst h
      simp only [RouteOut.geometry?, Option.some.injEq] at hl
      apply key hst
      rw [← hl, List.flatMap_def]
    · simp [hst] at h
  | wkb =>
    simp only [generateRouteOutput, createRouteLinestring_eq] at h
    by_cases hst : allStored g (r.map (·.edge)) = true
    · simp only [hst, if_true] at h
      injection h with h; subst h
      simp only [RouteOut.geometry?, Option.some.injEq] at hl
      apply key hst
      rw [← hl, List.flatMap_def]
    · simp [hst] at h

/-- pairwise: WKT, WKB and the features of GeoJSON describe the same point sequence -/
theorem formats_agree_on_geometry (g : Geoms) (f1 f2 : Fmt) (r : List EdgeTraversal) (o1 o2 : RouteOut)
    (l1 l2 : Line) (h1 : generateRouteOutput g f1 r = .ok o1) (h2 : generateRouteOutput g f2 r = .ok o2)
    (e1 : o1.geometry? = some l1) (e2 : o2.geometry? = some l2) : l1 = l2 := by
  obtain ⟨ls1, n1, s1, rfl⟩ := route_geometry g f1 r o1 l1 h1 e1
  obtain ⟨ls2, n2, s2, rfl⟩ := route_geometry g f2 r o2 l2 h2 e2
  have : ls1 = ls2 := by
    apply List.ext_getElem (by rw [n1, n2])
    intro i hi1 hi2
    have a := s1 i (by rw [← n1]; exact hi1) hi1
    have b := s2 i (by rw [← n2]; exact hi2) hi2
    rw [a] at b
    exact Option.some.inj b
  rw [this]

/-- nothing is dropped at the joints: the rendered linestring has as many points as the stored geometries
together (a vertex shared by two consecutive edges appears twice, exactly as stored) -/
theorem route_geometry_keeps_every_point (g : Geoms) (geom : Nat → Line) (r : List EdgeTraversal)
    (hst : ∀ t ∈ r, g t.edge = some (geom t.edge)) :
    ∃ l, generateRouteOutput g .wkt r = .ok (.wkt l) ∧ l.length = (r.map fun t => (geom t.edge).length).sum := by
  refine ⟨_, (route_geometry_is_concatenation g geom r hst).1, ?_⟩
  simp [List.length_flatMap]

/-- a missing geometry for any edge of the route is an error in every geometry format -/
theorem missing_geometry_is_error (g : Geoms) (f : Fmt) (r : List EdgeTraversal) (i : Nat) (hi : i < r.length)
    (hm : g r[i].edge = none) (hf : usesGeometry f = true) :
    generateRouteOutput g f r = .error .failed := by
  have hall : allStored g (r.map (·.edge)) = false :=
    allStored_false_of_missing g _ r[i].edge (List.mem_map.2 ⟨r[i], List.getElem_mem hi, rfl⟩) hm
  cases f with
  | edgeId => simp [usesGeometry] at hf
  | json => simp [usesGeometry] at hf
  | geoJson => simp [generateRouteOutput, featuresOf_eq, hall]
  | wkt => simp [generateRouteOutput, createRouteLinestring_eq, hall]
  | wkb => simp [generateRouteOutput, createRouteLinestring_eq, hall]

/-- exact characterisation: a geometry format renders something iff every edge of the route has a row -/
theorem geometry_rendered_iff_all_stored (g : Geoms) (f : Fmt) (r : List EdgeTraversal) (hf : usesGeometry f = true) :
    (∃ o, generateRouteOutput g f r = .ok o) ↔ ∀ t ∈ r, ∃ l, g t.edge = some l := by
  constructor
  · rintro ⟨o, ho⟩ t ht
    cases hg : g t.edge with
    | some l => exact ⟨l, rfl⟩
    | none =>
      obtain ⟨i, hi, rfl⟩ := List.getElem_of_mem ht
      rw [missing_geometry_is_error g f r i hi hg hf] at ho
      cases ho
  · intro h
    have hst : ∀ t ∈ r, g t.edge = some (geomD g t.edge) := by
      intro t ht
      obtain ⟨l, hl⟩ := h t ht
      simp [geomD, hl]
    obtain ⟨a, b, c⟩ := route_geometry_is_concatenation g (geomD g) r hst
    cases f with
    | edgeId => simp [usesGeometry] at hf
    | json => simp [usesGeometry] at hf
    | geoJson => exact ⟨_, c⟩
    | wkt => exact ⟨_, a⟩
    | wkb => exact ⟨_, b⟩

-- non-vacuity: a three-edge route with a repeated edge; a route whose middle edge has no row
example : generateRouteOutput (tableOf [[⟨1, 2⟩, ⟨3, 4⟩], [⟨3, 4⟩, ⟨7, 8⟩, ⟨9, 10⟩]]) .wkt
    [⟨1, 0, 0, []⟩, ⟨0, 0, 0, []⟩, ⟨1, 0, 0, []⟩] =
    .ok (.wkt [⟨3, 4⟩, ⟨7, 8⟩, ⟨9, 10⟩, ⟨1, 2⟩, ⟨3, 4⟩, ⟨3, 4⟩, ⟨7, 8⟩, ⟨9, 10⟩]) := rfl
example : generateRouteOutput (tableOf [[⟨1, 2⟩, ⟨3, 4⟩], [⟨3, 4⟩, ⟨7, 8⟩]]) .wkb
    [⟨1, 0, 0, []⟩, ⟨2, 0, 0, []⟩, ⟨0, 0, 0, []⟩] = .error .failed := rfl

/-! ### 3. tree outputs: one entry per branch, whatever order the hash map iterates in -/

theorem tree_output_one_entry_per_branch (g : Geoms) (f : Fmt) (t : Tree) (o : TreeOut)
    (h : generateTreeOutput g f t = .ok o) : o.size = t.length := by
  rw [generateTreeOutput_eq] at h
  cases f with
  | edgeId => simp only at h; injection h with h; subst h; simp [TreeOut.size, treeIds]
  | json => simp only at h; injection h with h; subst h; simp [TreeOut.size]
  | geoJson =>
    by_cases hall : allStored g (treeIds t) = true
    · simp only [hall, if_true] at h; injection h with h; subst h; simp [TreeOut.size]
    · simp [hall] at h
  | wkt =>
    by_cases hall : allStored g (treeIds t) = true
    · simp only [hall, if_true] at h; injection h with h; subst h; simp [TreeOut.size, treeIds]
    · simp [hall] at h
  | wkb =>
    by_cases hall : allStored g (treeIds t) = true
    · simp only [hall, if_true] at h; injection h with h; subst h; simp [TreeOut.size, treeIds]
    · simp [hall] at h

/-- the ids a tree output shows are the branch edge ids, in the map's iteration order -/
theorem tree_output_edge_ids (g : Geoms) (f : Fmt) (t : Tree) (o : TreeOut) (s : List Nat)
    (h : generateTreeOutput g f t = .ok o) (hs : o.edgeSeq? = some s) : s = t.map fun kv => kv.2.et.edge := by
  rw [generateTreeOutput_eq] at h
  cases f with
  | edgeId =>
    simp only at h; injection h with h; subst h
    simp only [TreeOut.edgeSeq?, Option.some.injEq] at hs
    subst hs; rfl
  | json =>
    simp only at h; injection h with h; subst h
    simp only [TreeOut.edgeSeq?, Option.some.injEq] at hs
    subst hs; simp
  | geoJson =>
    by_cases hall : allStored g (treeIds t) = true
    · simp only [hall, if_true] at h; injection h with h; subst h
      simp only [TreeOut.edgeSeq?, Option.some.injEq] at hs
      subst hs; simp [createGeojsonFeature]
    · simp [hall] at h
  | wkt =>
    by_cases hall : allStored g (treeIds t) = true
    · simp only [hall, if_true] at h; injection h with h; subst h; simp [TreeOut.edgeSeq?] at hs
    · simp [hall] at h
  | wkb =>
    by_cases hall : allStored g (treeIds t) = true
    · simp only [hall, if_true] at h; injection h with h; subst h; simp [TreeOut.edgeSeq?] at hs
    · simp [hall] at h

/-- the linestrings a tree output shows are the stored geometries of the branch edges, one per branch, not
concatenated -/
theorem tree_output_lines (g : Geoms) (f : Fmt) (t : Tree) (o : TreeOut) (ls : List Line)
    (h : generateTreeOutput g f t = .ok o) (hl : o.lines? = some ls) :
    ls.length = t.length ∧ ∀ (i : Nat) (ht : i < t.length) (hs : i < ls.length), g t[i].2.et.edge = some ls[i] := by
  have key : allStored g (treeIds t) = true → ls = t.map (fun kv => geomD g kv.2.et.edge) →
      ls.length = t.length ∧ ∀ (i : Nat) (ht : i < t.length) (hs : i < ls.length), g t[i].2.et.edge = some ls[i] := by
    intro hall hls
    subst hls
    refine ⟨by simp, ?_⟩
    intro i ht _
    obtain ⟨ln, hln⟩ := (allStored_iff g _).1 hall t[i].2.et.edge (by
      simp only [treeIds, List.mem_map]
      exact ⟨t[i], List.getElem_mem ht, rfl⟩)
    simp [geomD, hln]
  rw [generateTreeOutput_eq] at h
  cases f with
  | edgeId => simp only at h; injection h with h; subst h; simp [TreeOut.lines?] at hl
  | json => simp only at h; injection h with h; subst h; simp [TreeOut.lines?] at hl
  | geoJson =>
    by_cases hall : allStored g (treeIds t) = true
    · simp only [hall, if_true] at h; injection h with h; subst h
      simp only [TreeOut.lines?, Option.some.injEq] at hl
      apply key hall
      rw [← hl]; simp [createGeojsonFeature]
    · simp [hall] at h
  | wkt =>
    by_cases hall : allStored g (treeIds t) = true
    · simp only [hall, if_true] at h; injection h with h; subst h
      simp only [TreeOut.lines?, Option.some.injEq] at hl
      apply key hall
      rw [← hl]; simp [treeIds]
    · simp [hall] at h
  | wkb =>
    by_cases hall : allStored g (treeIds t) = true
    · simp only [hall, if_true] at h; injection h with h; subst h
      simp only [TreeOut.lines?, Option.some.injEq] at hl
      apply key hall
      rw [← hl]; simp [treeIds]
    · simp [hall] at h

theorem tree_missing_geometry_is_error (g : Geoms) (f : Fmt) (t : Tree) (i : Nat) (hi : i < t.length)
    (hm : g t[i].2.et.edge = none) (hf : usesGeometry f = true) :
    generateTreeOutput g f t = .error .failed := by
  have hmem : t[i].2.et.edge ∈ treeIds t := by
    simp only [treeIds, List.mem_map]
    exact ⟨t[i], List.getElem_mem hi, rfl⟩
  have hall : allStored g (treeIds t) = false := allStored_false_of_missing g _ _ hmem hm
  rw [generateTreeOutput_eq]
  cases f with
  | edgeId => simp [usesGeometry] at hf
  | json => simp [usesGeometry] at hf
  | geoJson => simp [hall]
  | wkt => simp [hall]
  | wkb => simp [hall]

/-- the hash map's iteration order is unspecified: for any two orders of the same branches the outcome is the
same error, or two outputs with the same number of entries whose ids / linestrings are permutations of each
other -/
theorem tree_output_order_independent (g : Geoms) (f : Fmt) (t t' : Tree) (hp : t.Perm t') :
    (∀ e, generateTreeOutput g f t = .error e → generateTreeOutput g f t' = .error e) ∧
    (∀ o, generateTreeOutput g f t = .ok o → ∃ o', generateTreeOutput g f t' = .ok o' ∧ o'.size = o.size ∧
      (∀ s, o.edgeSeq? = some s → ∃ s', o'.edgeSeq? = some s' ∧ s.Perm s') ∧
      (∀ ls, o.lines? = some ls → ∃ ls', o'.lines? = some ls' ∧ ls.Perm ls')) := by
  have hids : (treeIds t).Perm (treeIds t') := hp.map _
  have hall : allStored g (treeIds t) = allStored g (treeIds t') := allStored_perm g hids
  rw [generateTreeOutput_eq, generateTreeOutput_eq]
  cases f with
  | edgeId =>
    refine ⟨(by intro e h; cases h), ?_⟩
    intro o h
    simp only at h; injection h with h; subst h
    refine ⟨_, rfl, by simp [TreeOut.size, treeIds, hp.length_eq], ?_, by simp [TreeOut.lines?]⟩
    intro s hs
    simp only [TreeOut.edgeSeq?, Option.some.injEq] at hs
    subst hs
    exact ⟨_, rfl, hids⟩
  | json =>
    refine ⟨(by intro e h; cases h), ?_⟩
    intro o h
    simp only at h; injection h with h; subst h
    refine ⟨_, rfl, by simp [TreeOut.size, hp.length_eq], ?_, by simp [TreeOut.lines?]⟩
    intro s hs
    simp only [TreeOut.edgeSeq?, Option.some.injEq] at hs
    subst hs
    exact ⟨_, rfl, by simpa [treeIds, Function.comp_def] using hids⟩
  | geoJson =>
    by_cases h1 : allStored g (treeIds t) = true
    · have h2 : allStored g (treeIds t') = true := hall ▸ h1
      simp only [h1, h2, if_true]
      refine ⟨(by intro e h; cases h), ?_⟩
      intro o h
      injection h with h; subst h
      refine ⟨_, rfl, by simp [TreeOut.size, hp.length_eq], ?_, ?_⟩
      · intro s hs
        simp only [TreeOut.edgeSeq?, Option.some.injEq] at hs
        subst hs
        exact ⟨_, rfl, by simpa [createGeojsonFeature, treeIds, Function.comp_def] using hids⟩
      · intro ls hl
        simp only [TreeOut.lines?, Option.some.injEq] at hl
        subst hl
        refine ⟨_, rfl, ?_⟩
        simp only [List.map_map]
        exact hp.map _
    · have h2 : ¬ allStored g (treeIds t') = true := hall ▸ h1
      simp only [h1, h2]
      exact ⟨fun e h => h, by intro o h; cases h⟩
  | wkt =>
    by_cases h1 : allStored g (treeIds t) = true
    · have h2 : allStored g (treeIds t') = true := hall ▸ h1
      simp only [h1, h2, if_true]
      refine ⟨(by intro e h; cases h), ?_⟩
      intro o h
      injection h with h; subst h
      refine ⟨_, rfl, by simp [TreeOut.size, treeIds, hp.length_eq], by simp [TreeOut.edgeSeq?], ?_⟩
      intro ls hl
      simp only [TreeOut.lines?, Option.some.injEq] at hl
      subst hl
      exact ⟨_, rfl, hids.map _⟩
    · have h2 : ¬ allStored g (treeIds t') = true := hall ▸ h1
      simp only [h1, h2]
      exact ⟨fun e h => h, by intro o h; cases h⟩
  | wkb =>
    by_cases h1 : allStored g (treeIds t) = true
    · have h2 : allStored g (treeIds t') = true := hall ▸ h1
      simp only [h1, h2, if_true]
      refine ⟨(by intro e h; cases h), ?_⟩
      intro o h
      injection h with h; subst h
      refine ⟨_, rfl, by simp [TreeOut.size, treeIds, hp.length_eq], by simp [TreeOut.edgeSeq?], ?_⟩
      intro ls hl
      simp only [TreeOut.lines?, Option.some.injEq] at hl
      subst hl
      exact ⟨_, rfl, hids.map _⟩
    · have h2 : ¬ allStored g (treeIds t') = true := hall ▸ h1
      simp only [h1, h2]
      exact ⟨fun e h => h, by intro o h; cases h⟩

-- non-vacuity: a two-branch tree in both iteration orders; a branch without a row
example : generateTreeOutput (tableOf [[⟨1, 2⟩, ⟨3, 4⟩], [⟨5, 6⟩, ⟨7, 8⟩]]) .wkt
    [(4, ⟨0, ⟨1, 0, 0, []⟩⟩), (9, ⟨4, ⟨0, 0, 0, []⟩⟩)] = .ok (.wkt [[⟨5, 6⟩, ⟨7, 8⟩], [⟨1, 2⟩, ⟨3, 4⟩]]) := rfl
example : generateTreeOutput (tableOf [[⟨1, 2⟩, ⟨3, 4⟩], [⟨5, 6⟩, ⟨7, 8⟩]]) .edgeId
    [(9, ⟨4, ⟨0, 0, 0, []⟩⟩), (4, ⟨0, ⟨1, 0, 0, []⟩⟩)] = .ok (.edgeIds [0, 1]) := rfl
example : generateTreeOutput (tableOf [[⟨1, 2⟩, ⟨3, 4⟩]]) .geoJson
    [(4, ⟨0, ⟨0, 0, 0, []⟩⟩), (9, ⟨4, ⟨1, 0, 0, []⟩⟩)] = .error .failed := rfl

end C20
end Compass
