/-
C20 — every output format renders the same route, with geometry in edge order.

Model: `Compass/Model/Output.lean` (`TraversalOutputFormat::{generate_route_output, generate_tree_output}`,
`traversal_ops`, `concat_linestrings`, `geometry_to_wkb_string`, `TraversalPlugin::process`,
`UUIDOutputPlugin::process`, the summary counts, `apply_output_processing`, the table loaders and the builders),
tied to the Rust code by the correspondence run of `harness/src/c20.rs`.

WHAT THE THEOREMS ARE ABOUT.  The model's outputs are *structured values*: an edge-id list, a list of traversal
records, a list of features `{id, properties, geometry}`, a point list (WKT), a point list **plus the hex string**
(WKB).  Points, costs and state variables are opaque bit patterns.  Theorems therefore speak about the geometry
that is handed to the serialisers, and — for WKB only — about the first-party hex text.

Clauses of the property and the theorems that carry them (every route, tree, geometry table, format, id table):
 * the edge-id list, the JSON records and the GeoJSON features follow the returned edge sequence:
   `geojson_features_in_route_order`, `route_edge_sequence`, `formats_agree_on_edge_sequence`,
   `id_and_geometry_formats_agree` (`edge_id_list_is_route_edges`, `json_records_in_route_order` restate the
   one-line Rust arms);
 * the geometry handed to the WKT / WKB / GeoJSON serialisers is the concatenation of the stored geometries in
   edge order, joint points included: `route_geometry_is_concatenation`, `route_geometry`,
   `route_geometry_keeps_every_point`, `formats_agree_on_geometry` (between WKT and WKB this agreement holds by
   construction — both arms call `create_route_linestring`; its content is the agreement with the GeoJSON
   features); the WKB hex text decodes to exactly the bytes of that geometry: `wkb_text_is_hex_of_geometry`,
   `hex_text_decodes`, `wkb_text_length`;
 * a missing geometry is an error, never a shorter or shifted geometry: `missing_geometry_is_error`,
   `geometry_rendered_iff_all_stored`, `tree_missing_geometry_is_error`, `tree_geometry_rendered_iff_all_stored`,
   `response_error_on_missing_geometry`, `response_error_on_missing_tree_geometry`,
   `response_has_route_or_is_error`, `response_route_is_rendering`, `response_tree_is_rendering`;
 * tree outputs have exactly one entry per branch, independent of the hash map's iteration order:
   `tree_output_one_entry_per_branch`, `tree_output_edge_ids`, `tree_output_lines`,
   `tree_output_order_independent`;
 * the attached identifiers are the stored ones: `uuid_attached_are_stored`, `uuid_error_iff`,
   `uuid_never_panics`, `uuid_direct_matches_pipeline`, `response_uuids_are_stored`, `response_ids_and_counts`;
 * summary counts: `summary_counts_single`, `summary_process_on_object` (`summary_counts` restates the model).

MODELLED RATHER THAN VERIFIED (no theorem has content about these; the evidence is the differential run, which
compares what the real code printed with the model, textually):
 * WKT text: `wkt_string()` of the `wkt` crate and its `f32` printing.  The harness parses the real string back
   (the `wkt` crate and a second tiny parser must agree) and compares points bit for bit.
 * GeoJSON text: the `geojson` crate's `Feature` serialisation and `serde_json`'s `f64` printing; parsed back the
   same way.  JSON records: `serde` derive output, parsed back.
 * WKB bytes: the layout of `wkb::geom_to_wkb` v0.7.1 (`wkbLineString`, `wkbMultiLineString`) and the `f32 → f64`
   widening (`widenF32`) are written down in the model and compared **as exact hex text** with the real output;
   that `geom_to_wkb` never fails on a (Multi)LineString written into a `Vec` is read off its source
   (`geomToWkb` is total; the `map_err` arm of `geometry_to_wkb_string` is in the model and unreachable).
   `geometry_rendered_iff_all_stored` for `wkb` rests on that.
 * Lookup-table files (section 7): a file is modelled as `{readable, intact, rows}` with every row already
   classified by the third-party WKT parser as "denotes this linestring" or "rejected".  What the theorems of
   section 7 add is only the first-party part — `read_raw_file` keeps every row at its index and aborts on the
   first failure, the plugin's table is that list.  Line splitting (`BufRead::lines`, CRLF), gzip decoding, the
   WKT grammar and which texts it rejects are evidenced by the differential run (plain / CRLF / gzip files, 14
   kinds of rejected row, missing file, gzip cut off in the middle, non-UTF-8 line) and by nothing else.
 * `construct_route_output` also serialises the last state and the cost; of their failures only
   `StateIndexOutOfBounds` is modelled (`costSlots`).  `StateVariableNotFound` and the `serialize_cost_info`
   errors are internal inconsistencies of a `CostModel` that `CostModel::new` cannot produce; they would only add
   error responses (every response theorem has the form "if ok then …" or "… ⇒ error").
 * serde's deserialisation of the format parameter is modelled from its documented externally-tagged rule and
   checked differentially (`fmtParam`).
 * Payloads that are not finite: `serde_json` prints a NaN or infinite cost / state variable as `null`
   (`renderF64`, `rendered_record`); modelled from its rule and checked differentially.  Coordinates that are not
   finite cannot come from a table file since the repair of `parse_wkt_linestring`; for a table handed over in
   memory only the WKB text is modelled (`widenF32` quiets a signalling NaN as the conversion does), the WKT text
   (`NaN`, `inf`) and the GeoJSON `null` coordinate are not.
 * A lookup file that exists but does not open (no read permission) is distinguished from a missing one
   (`TableFile.isFile` vs `readable`, `build_traversal_file_errors`); exercised by calling the real builders as
   uid 65534 on a mode-000 file.

No defect of the code against the literal statement of C20 was found, so there is no `_counterexample` theorem.
Two behaviours turn a whole response into an error response although nothing is wrong with the route or tree;
they are outside the literal statement (nothing wrong is ever attached or rendered) and are recorded as theorems
and in the manifest text: `empty_route_is_error_response` (origin = destination with a route format configured)
and `destinationless_query_with_uuid_plugin_is_error_response` (a tree-only query through a pipeline that contains
the uuid plugin never delivers its tree).  One defect outside the statement was found and repaired:
`fs_utils::line_count` never returned on a gzip table cut off in the middle (`known_findings.txt`).
-/
import Compass.Proofs.Output

namespace Compass
namespace C20
open Output

/-- the formats that render geometry -/
def usesGeometry : Fmt → Bool
  | .wkt | .wkb | .geoJson => true
  | .json | .edgeId => false

/-! ### 1. every format follows the returned edge sequence -/

/-- restates the model line (the Rust arm is `route.iter().map(|e| e.edge_id).collect()`); its assurance is the
correspondence run -/
theorem edge_id_list_is_route_edges (g : Geoms) (r : List EdgeTraversal) :
    generateRouteOutput g .edgeId r = .ok (.edgeIds (r.map (·.edge))) := rfl

/-- restates the model line (the Rust arm is `serde_json::to_value(route)`): the records are the traversals
themselves, in order -/
theorem json_records_in_route_order (g : Geoms) (r : List EdgeTraversal) :
    generateRouteOutput g .json r = .ok (.records r) := rfl

theorem geojson_features_in_route_order (g : Geoms) (r : List EdgeTraversal) (o : RouteOut)
    (h : generateRouteOutput g .geoJson r = .ok o) :
    ∃ fs, o = .features fs ∧ fs.length = r.length ∧
      ∀ (i : Nat) (hr : i < r.length) (hf : i < fs.length),
        fs[i].id = r[i].edge ∧ fs[i].props = r[i] ∧ g r[i].edge = some fs[i].geom := by
  simp only [generateRouteOutput, featuresOf_eq] at h
  by_cases hs : allStored g (r.map (·.edge)) = true
  · simp only [hs, if_true] at h
    injection h with h
    subst h
    refine ⟨_, rfl, by simp, ?_⟩
    intro i hr hf
    obtain ⟨l, hl⟩ := (allStored_iff g _).1 hs r[i].edge (List.mem_map.2 ⟨r[i], List.getElem_mem hr, rfl⟩)
    simp [createGeojsonFeature, geomD, hl]
  · simp [hs] at h

/-- whatever edge sequence an output shows, it is the route's, in order -/
theorem route_edge_sequence (g : Geoms) (f : Fmt) (r : List EdgeTraversal) (o : RouteOut) (s : List Nat)
    (h : generateRouteOutput g f r = .ok o) (hs : o.edgeSeq? = some s) : s = r.map (·.edge) := by
  cases f with
  | edgeId =>
    simp only [generateRouteOutput] at h
    injection h with h; subst h
    simpa [RouteOut.edgeSeq?] using hs.symm
  | json =>
    simp only [generateRouteOutput] at h
    injection h with h; subst h
    simpa [RouteOut.edgeSeq?] using hs.symm
  | geoJson =>
    simp only [generateRouteOutput, featuresOf_eq] at h
    by_cases hst : allStored g (r.map (·.edge)) = true
    · simp only [hst, if_true] at h
      injection h with h; subst h
      simp only [RouteOut.edgeSeq?, Option.some.injEq] at hs
      subst hs
      simp [createGeojsonFeature, Function.comp_def]
    · simp [hst] at h
  | wkt =>
    simp only [generateRouteOutput] at h
    cases hc : createRouteLinestring g r with
    | error x => simp [hc] at h
    | ok l => simp only [hc] at h; injection h with h; subst h; simp [RouteOut.edgeSeq?] at hs
  | wkb =>
    simp only [generateRouteOutput] at h
    cases hc : createRouteLinestring g r with
    | error x => simp [hc] at h
    | ok l => simp only [hc] at h; injection h with h; subst h; simp [RouteOut.edgeSeq?] at hs

/-- pairwise: any two formats that show an edge sequence show the same one -/
theorem formats_agree_on_edge_sequence (g g' : Geoms) (f1 f2 : Fmt) (r : List EdgeTraversal) (o1 o2 : RouteOut)
    (s1 s2 : List Nat) (h1 : generateRouteOutput g f1 r = .ok o1) (h2 : generateRouteOutput g' f2 r = .ok o2)
    (e1 : o1.edgeSeq? = some s1) (e2 : o2.edgeSeq? = some s2) : s1 = s2 := by
  rw [route_edge_sequence g f1 r o1 s1 h1 e1, route_edge_sequence g' f2 r o2 s2 h2 e2]

/-- the id formats do not consult the geometry table and never fail -/
theorem id_formats_ignore_geometry (g g' : Geoms) (f : Fmt) (r : List EdgeTraversal) (hf : usesGeometry f = false) :
    generateRouteOutput g f r = generateRouteOutput g' f r ∧ ∃ o, generateRouteOutput g f r = .ok o := by
  cases f <;> simp [usesGeometry] at hf <;> exact ⟨rfl, _, rfl⟩

/-- how a record appears (json records, GeoJSON properties): the edge id and the number of state variables always;
a cost or state variable bit for bit exactly when it is finite, otherwise as `null` — so a route with a NaN or
infinite cost still shows its edge sequence in every format, only that payload is blanked (modelled from
`serde_json`'s rule, checked differentially with ±inf, NaNs, −0.0, subnormals) -/
theorem rendered_record (t : EdgeTraversal) :
    t.rendered.edge = t.edge ∧ t.rendered.state.length = t.state.length ∧
    (∀ bits b, renderF64 bits = some b ↔ (b = bits ∧ f64IsFinite bits = true)) ∧
    (∀ bits, renderF64 bits = none ↔ f64IsFinite bits = false) := by
  refine ⟨rfl, by simp [EdgeTraversal.rendered], ?_, ?_⟩
  · intro bits b
    unfold renderF64
    cases h : f64IsFinite bits <;> simp [eq_comm]
  · intro bits
    unfold renderF64
    cases h : f64IsFinite bits <;> simp

-- +inf, a NaN and −0.0: the first two are blanked, the negative zero is kept
example : (EdgeTraversal.rendered ⟨7, 0x7FF0000000000000, 0x7FF8000000000000, [0x8000000000000000]⟩) =
    { edge := 7, access := none, traversal := none, state := [some 0x8000000000000000] } := by decide

example : ∃ g r s, generateRouteOutput g .geoJson r = .ok s ∧ s.edgeSeq? = some [1, 0, 1] :=
  ⟨tableOf [[⟨1, 2⟩, ⟨3, 4⟩], [⟨5, 6⟩, ⟨7, 8⟩, ⟨9, 10⟩]],
   [⟨1, 0, 0, []⟩, ⟨0, 0, 0, [7]⟩, ⟨1, 0, 0, []⟩], _, rfl, rfl⟩

/-! ### 2. the route geometry is the concatenation of the stored geometries, in edge order -/

/-- when every edge of the route has a stored geometry `geom e`, the three geometry formats hand exactly
`geom e₁ ++ geom e₂ ++ …` to the WKT / WKB serialiser, resp. one feature per edge carrying `geom eᵢ` to the
GeoJSON serialiser; the WKB string is the hex text of the WKB bytes of that concatenation.  (What the third-party
serialisers make of a point list is outside Lean, see the file header.) -/
theorem route_geometry_is_concatenation (g : Geoms) (geom : Nat → Line) (r : List EdgeTraversal)
    (hst : ∀ t ∈ r, g t.edge = some (geom t.edge)) :
    generateRouteOutput g .wkt r = .ok (.wkt (r.flatMap fun t => geom t.edge)) ∧
    generateRouteOutput g .wkb r =
      .ok (.wkb (r.flatMap fun t => geom t.edge) (hexText (wkbLineString (r.flatMap fun t => geom t.edge)))) ∧
    generateRouteOutput g .geoJson r =
      .ok (.features (r.map fun t => { id := t.edge, props := t, geom := geom t.edge })) := by
  have hall : allStored g (r.map (·.edge)) = true := by
    rw [allStored_iff]
    intro e he
    obtain ⟨t, ht, rfl⟩ := List.mem_map.1 he
    exact ⟨_, hst t ht⟩
  have hfm : (r.flatMap fun t => geomD g t.edge) = r.flatMap fun t => geom t.edge := by
    simp only [List.flatMap_def]
    congr 1
    apply List.map_congr_left
    intro t ht
    exact geomD_of_stored (hst t ht)
  have hm : (r.map fun t => createGeojsonFeature t (geomD g t.edge)) =
      r.map fun t => ({ id := t.edge, props := t, geom := geom t.edge } : Feature) := by
    apply List.map_congr_left
    intro t ht
    simp [createGeojsonFeature, geomD_of_stored (hst t ht)]
  refine ⟨?_, ?_, ?_⟩
  · simp [generateRouteOutput, createRouteLinestring_eq, hall, hfm]
  · simp [generateRouteOutput, createRouteLinestring_eq, hall, hfm]
  · simp [generateRouteOutput, featuresOf_eq, hall, hm]

/-- converse direction, for any format: whatever geometry an output shows is the flattening of a list `ls` of
linestrings with `ls[i]` the stored geometry of the `i`-th route edge -/
theorem route_geometry (g : Geoms) (f : Fmt) (r : List EdgeTraversal) (o : RouteOut) (l : Line)
    (h : generateRouteOutput g f r = .ok o) (hl : o.geometry? = some l) :
    ∃ ls : List Line, ls.length = r.length ∧
      (∀ (i : Nat) (hr : i < r.length) (hs : i < ls.length), g r[i].edge = some ls[i]) ∧ l = ls.flatten := by
  have key : allStored g (r.map (·.edge)) = true → l = (r.map fun t => geomD g t.edge).flatten →
      ∃ ls : List Line, ls.length = r.length ∧
        (∀ (i : Nat) (hr : i < r.length) (hs : i < ls.length), g r[i].edge = some ls[i]) ∧ l = ls.flatten := by
    intro hall hl'
    refine ⟨r.map fun t => geomD g t.edge, by simp, ?_, hl'⟩
    intro i hr _
    obtain ⟨ln, hln⟩ := (allStored_iff g _).1 hall r[i].edge (List.mem_map.2 ⟨r[i], List.getElem_mem hr, rfl⟩)
    simp [geomD, hln]
  cases f with
  | edgeId =>
    simp only [generateRouteOutput] at h
    injection h with h; subst h; simp [RouteOut.geometry?] at hl
  | json =>
    simp only [generateRouteOutput] at h
    injection h with h; subst h; simp [RouteOut.geometry?] at hl
  | geoJson =>
    simp only [generateRouteOutput, featuresOf_eq] at h
    by_cases hst : allStored g (r.map (·.edge)) = true
    · simp only [hst, if_true] at h
      injection h with h; subst h
      simp only [RouteOut.geometry?, Option.some.injEq] at hl
      apply key hst
      rw [← hl]
      simp [createGeojsonFeature, Function.comp_def]
    · simp [hst] at h
  | wkt =>
    simp only [generateRouteOutput, createRouteLinestring_eq] at h
    by_cases hst : allStored g (r.map (·.edge)) = true
    · simp only [hst, if_true] at h
      injection h with h; subst h
      simp only [RouteOut.geometry?, Option.some.injEq] at hl
      apply key hst
      rw [← hl, List.flatMap_def]
    · simp [hst] at h
  | wkb =>
    simp only [generateRouteOutput, createRouteLinestring_eq] at h
    by_cases hst : allStored g (r.map (·.edge)) = true
    · simp only [hst, if_true] at h
      injection h with h; subst h
      simp only [RouteOut.geometry?, Option.some.injEq] at hl
      apply key hst
      rw [← hl, List.flatMap_def]
    · simp [hst] at h

/-- pairwise: WKT, WKB and the features of GeoJSON are given the same point sequence.  Between WKT and WKB this
holds by construction (both Rust arms call `create_route_linestring`, both model arms carry the same `Line`); the
content of the theorem is the agreement of either with the flattened GeoJSON features, which come from a different
function (`create_route_geojson`). -/
theorem formats_agree_on_geometry (g : Geoms) (f1 f2 : Fmt) (r : List EdgeTraversal) (o1 o2 : RouteOut)
    (l1 l2 : Line) (h1 : generateRouteOutput g f1 r = .ok o1) (h2 : generateRouteOutput g f2 r = .ok o2)
    (e1 : o1.geometry? = some l1) (e2 : o2.geometry? = some l2) : l1 = l2 := by
  obtain ⟨ls1, n1, s1, rfl⟩ := route_geometry g f1 r o1 l1 h1 e1
  obtain ⟨ls2, n2, s2, rfl⟩ := route_geometry g f2 r o2 l2 h2 e2
  have : ls1 = ls2 := by
    apply List.ext_getElem (by rw [n1, n2])
    intro i hi1 hi2
    have a := s1 i (by rw [← n1]; exact hi1) hi1
    have b := s2 i (by rw [← n2]; exact hi2) hi2
    rw [a] at b
    exact Option.some.inj b
  rw [this]

/-- the cross-group corollary: the edge sequence shown by an id format (edge_id, json, geo_json — even over a
different table `g'`) and the geometry handed to a geometry format (wkt, wkb, geo_json) describe the same route:
the geometry is the flattening of one stored linestring per listed edge id, in the listed order -/
theorem id_and_geometry_formats_agree (g g' : Geoms) (f1 f2 : Fmt) (r : List EdgeTraversal) (o1 o2 : RouteOut)
    (s : List Nat) (l : Line)
    (h1 : generateRouteOutput g' f1 r = .ok o1) (h2 : generateRouteOutput g f2 r = .ok o2)
    (e1 : o1.edgeSeq? = some s) (e2 : o2.geometry? = some l) :
    ∃ ls : List Line, ls.length = s.length ∧
      (∀ (i : Nat) (hs : i < s.length) (hl : i < ls.length), g s[i] = some ls[i]) ∧ l = ls.flatten := by
  have hs := route_edge_sequence g' f1 r o1 s h1 e1
  obtain ⟨ls, hn, hg, hl⟩ := route_geometry g f2 r o2 l h2 e2
  subst hs
  refine ⟨ls, by simpa using hn, ?_, hl⟩
  intro i hi hli
  have hi' : i < r.length := by simpa using hi
  have := hg i hi' hli
  simpa using this

/-- nothing is dropped at the joints: the rendered linestring has as many points as the stored geometries
together (a vertex shared by two consecutive edges appears twice, exactly as stored) -/
theorem route_geometry_keeps_every_point (g : Geoms) (geom : Nat → Line) (r : List EdgeTraversal)
    (hst : ∀ t ∈ r, g t.edge = some (geom t.edge)) :
    ∃ l, generateRouteOutput g .wkt r = .ok (.wkt l) ∧ l.length = (r.map fun t => (geom t.edge).length).sum := by
  refine ⟨_, (route_geometry_is_concatenation g geom r hst).1, ?_⟩
  simp [List.length_flatMap]

/-- a missing geometry for any edge of the route is an error in every geometry format -/
theorem missing_geometry_is_error (g : Geoms) (f : Fmt) (r : List EdgeTraversal) (i : Nat) (hi : i < r.length)
    (hm : g r[i].edge = none) (hf : usesGeometry f = true) :
    generateRouteOutput g f r = .error .failed := by
  have hall : allStored g (r.map (·.edge)) = false :=
    allStored_false_of_missing g _ r[i].edge (List.mem_map.2 ⟨r[i], List.getElem_mem hi, rfl⟩) hm
  cases f with
  | edgeId => simp [usesGeometry] at hf
  | json => simp [usesGeometry] at hf
  | geoJson => simp [generateRouteOutput, featuresOf_eq, hall]
  | wkt => simp [generateRouteOutput, createRouteLinestring_eq, hall]
  | wkb => simp [generateRouteOutput, createRouteLinestring_eq, hall]

/-- exact characterisation: a geometry format renders something iff every edge of the route has a row.  For
`wkb` the "if" direction uses that `wkb::geom_to_wkb` cannot fail on a linestring (`geomToWkb` is total in the
model; read off the crate's source, not proved) -/
theorem geometry_rendered_iff_all_stored (g : Geoms) (f : Fmt) (r : List EdgeTraversal) (hf : usesGeometry f = true) :
    (∃ o, generateRouteOutput g f r = .ok o) ↔ ∀ t ∈ r, ∃ l, g t.edge = some l := by
  constructor
  · rintro ⟨o, ho⟩ t ht
    cases hg : g t.edge with
    | some l => exact ⟨l, rfl⟩
    | none =>
      obtain ⟨i, hi, rfl⟩ := List.getElem_of_mem ht
      rw [missing_geometry_is_error g f r i hi hg hf] at ho
      cases ho
  · intro h
    have hst : ∀ t ∈ r, g t.edge = some (geomD g t.edge) := by
      intro t ht
      obtain ⟨l, hl⟩ := h t ht
      simp [geomD, hl]
    obtain ⟨a, b, c⟩ := route_geometry_is_concatenation g (geomD g) r hst
    cases f with
    | edgeId => simp [usesGeometry] at hf
    | json => simp [usesGeometry] at hf
    | geoJson => exact ⟨_, c⟩
    | wkt => exact ⟨_, a⟩
    | wkb => exact ⟨_, b⟩

/-- unfolds `tableOf` (`geoms.get(edge_id.0)` on the boxed slice read from the file): the rows that are missing
are exactly the edge ids at or beyond the number of rows, and row `e` is the geometry of edge `e` -/
theorem file_table_rows (rows : List Line) (e : Nat) :
    (tableOf rows e = none ↔ rows.length ≤ e) ∧ ∀ (h : e < rows.length), tableOf rows e = some rows[e] := by
  constructor
  · simp [tableOf]
  · intro h; simp [tableOf, h]

/-! #### the WKB text (first-party hex encoder over the modelled third-party byte layout) -/

/-- the string stored for the `wkb` format is the hex text of the WKB bytes of the very linestring that
`create_route_linestring` produced (no other geometry, nothing re-ordered in between) -/
theorem wkb_text_is_hex_of_geometry (g : Geoms) (r : List EdgeTraversal) (o : RouteOut)
    (h : generateRouteOutput g .wkb r = .ok o) :
    ∃ l, createRouteLinestring g r = .ok l ∧ o = .wkb l (hexText (wkbLineString l)) := by
  simp only [generateRouteOutput] at h
  cases hc : createRouteLinestring g r with
  | error x => simp [hc] at h
  | ok l =>
    simp only [hc, geometryToWkbString_lineString] at h
    injection h with h
    exact ⟨l, rfl, h.symm⟩

/-- the hex encoder loses nothing: reading the text two upper-case digits at a time gives the bytes back (so the
text determines the WKB bytes), for the route linestring and for the tree multilinestring -/
theorem hex_text_decodes (l : Line) (ls : List Line) :
    unhexChars (hexChars (wkbLineString l)) = some (wkbLineString l) ∧
    unhexChars (hexChars (wkbMultiLineString ls)) = some (wkbMultiLineString ls) :=
  ⟨unhexChars_hexChars _ (wkbLineString_lt l), unhexChars_hexChars _ (wkbMultiLineString_lt ls)⟩

/-- length of the text only: 9 header bytes and 16 bytes per point, two characters each (that the bytes are
the points of the concatenation, joint points included, is `wkb_text_is_hex_of_geometry`) -/
theorem wkb_text_length (l : Line) : (hexChars (wkbLineString l)).length = 2 * (9 + 16 * l.length) := by
  rw [hexChars_length, wkbLineString_length]

example : hexChars (wkbLineString []) = "010200000000000000".toList := by decide
-- 1.0f32 = 0x3F800000 widens to 0x3FF0000000000000, -2.0f32 = 0xC0000000 to 0xC000000000000000
example : hexChars (wkbLineString [⟨0x3F800000, 0xC0000000⟩]) =
    "010200000001000000000000000000F03F00000000000000C0".toList := by decide

-- non-vacuity: a three-edge route with a repeated edge; a route whose middle edge has no row
example : generateRouteOutput (tableOf [[⟨1, 2⟩, ⟨3, 4⟩], [⟨3, 4⟩, ⟨7, 8⟩, ⟨9, 10⟩]]) .wkt
    [⟨1, 0, 0, []⟩, ⟨0, 0, 0, []⟩, ⟨1, 0, 0, []⟩] =
    .ok (.wkt [⟨3, 4⟩, ⟨7, 8⟩, ⟨9, 10⟩, ⟨1, 2⟩, ⟨3, 4⟩, ⟨3, 4⟩, ⟨7, 8⟩, ⟨9, 10⟩]) := rfl
example : generateRouteOutput (tableOf [[⟨1, 2⟩, ⟨3, 4⟩], [⟨3, 4⟩, ⟨7, 8⟩]]) .wkb
    [⟨1, 0, 0, []⟩, ⟨2, 0, 0, []⟩, ⟨0, 0, 0, []⟩] = .error .failed := rfl

/-! ### 3. tree outputs: one entry per branch, whatever order the hash map iterates in -/

theorem tree_output_one_entry_per_branch (g : Geoms) (f : Fmt) (t : Tree) (o : TreeOut)
    (h : generateTreeOutput g f t = .ok o) : o.size = t.length := by
  rw [generateTreeOutput_eq] at h
  cases f with
  | edgeId => simp only at h; injection h with h; subst h; simp [TreeOut.size, treeIds]
  | json => simp only at h; injection h with h; subst h; simp [TreeOut.size]
  | geoJson =>
    by_cases hall : allStored g (treeIds t) = true
    · simp only [hall, if_true] at h; injection h with h; subst h; simp [TreeOut.size]
    · simp [hall] at h
  | wkt =>
    by_cases hall : allStored g (treeIds t) = true
    · simp only [hall, if_true] at h; injection h with h; subst h; simp [TreeOut.size, treeIds]
    · simp [hall] at h
  | wkb =>
    by_cases hall : allStored g (treeIds t) = true
    · simp only [hall, if_true] at h; injection h with h; subst h; simp [TreeOut.size, treeIds]
    · simp [hall] at h

/-- the ids a tree output shows are the branch edge ids, in the map's iteration order -/
theorem tree_output_edge_ids (g : Geoms) (f : Fmt) (t : Tree) (o : TreeOut) (s : List Nat)
    (h : generateTreeOutput g f t = .ok o) (hs : o.edgeSeq? = some s) : s = t.map fun kv => kv.2.et.edge := by
  rw [generateTreeOutput_eq] at h
  cases f with
  | edgeId =>
    simp only at h; injection h with h; subst h
    simp only [TreeOut.edgeSeq?, Option.some.injEq] at hs
    subst hs; rfl
  | json =>
    simp only at h; injection h with h; subst h
    simp only [TreeOut.edgeSeq?, Option.some.injEq] at hs
    subst hs; simp
  | geoJson =>
    by_cases hall : allStored g (treeIds t) = true
    · simp only [hall, if_true] at h; injection h with h; subst h
      simp only [TreeOut.edgeSeq?, Option.some.injEq] at hs
      subst hs; simp [createGeojsonFeature]
    · simp [hall] at h
  | wkt =>
    by_cases hall : allStored g (treeIds t) = true
    · simp only [hall, if_true] at h; injection h with h; subst h; simp [TreeOut.edgeSeq?] at hs
    · simp [hall] at h
  | wkb =>
    by_cases hall : allStored g (treeIds t) = true
    · simp only [hall, if_true] at h; injection h with h; subst h; simp [TreeOut.edgeSeq?] at hs
    · simp [hall] at h

/-- the linestrings a tree output shows are the stored geometries of the branch edges, one per branch, not
concatenated -/
theorem tree_output_lines (g : Geoms) (f : Fmt) (t : Tree) (o : TreeOut) (ls : List Line)
    (h : generateTreeOutput g f t = .ok o) (hl : o.lines? = some ls) :
    ls.length = t.length ∧ ∀ (i : Nat) (ht : i < t.length) (hs : i < ls.length), g t[i].2.et.edge = some ls[i] := by
  have key : allStored g (treeIds t) = true → ls = t.map (fun kv => geomD g kv.2.et.edge) →
      ls.length = t.length ∧ ∀ (i : Nat) (ht : i < t.length) (hs : i < ls.length), g t[i].2.et.edge = some ls[i] := by
    intro hall hls
    subst hls
    refine ⟨by simp, ?_⟩
    intro i ht _
    obtain ⟨ln, hln⟩ := (allStored_iff g _).1 hall t[i].2.et.edge (by
      simp only [treeIds, List.mem_map]
      exact ⟨t[i], List.getElem_mem ht, rfl⟩)
    simp [geomD, hln]
  rw [generateTreeOutput_eq] at h
  cases f with
  | edgeId => simp only at h; injection h with h; subst h; simp [TreeOut.lines?] at hl
  | json => simp only at h; injection h with h; subst h; simp [TreeOut.lines?] at hl
  | geoJson =>
    by_cases hall : allStored g (treeIds t) = true
    · simp only [hall, if_true] at h; injection h with h; subst h
      simp only [TreeOut.lines?, Option.some.injEq] at hl
      apply key hall
      rw [← hl]; simp [createGeojsonFeature]
    · simp [hall] at h
  | wkt =>
    by_cases hall : allStored g (treeIds t) = true
    · simp only [hall, if_true] at h; injection h with h; subst h
      simp only [TreeOut.lines?, Option.some.injEq] at hl
      apply key hall
      rw [← hl]; simp [treeIds]
    · simp [hall] at h
  | wkb =>
    by_cases hall : allStored g (treeIds t) = true
    · simp only [hall, if_true] at h; injection h with h; subst h
      simp only [TreeOut.lines?, Option.some.injEq] at hl
      apply key hall
      rw [← hl]; simp [treeIds]
    · simp [hall] at h

theorem tree_missing_geometry_is_error (g : Geoms) (f : Fmt) (t : Tree) (i : Nat) (hi : i < t.length)
    (hm : g t[i].2.et.edge = none) (hf : usesGeometry f = true) :
    generateTreeOutput g f t = .error .failed := by
  have hmem : t[i].2.et.edge ∈ treeIds t := by
    simp only [treeIds, List.mem_map]
    exact ⟨t[i], List.getElem_mem hi, rfl⟩
  have hall : allStored g (treeIds t) = false := allStored_false_of_missing g _ _ hmem hm
  rw [generateTreeOutput_eq]
  cases f with
  | edgeId => simp [usesGeometry] at hf
  | json => simp [usesGeometry] at hf
  | geoJson => simp [hall]
  | wkt => simp [hall]
  | wkb => simp [hall]

/-- exact characterisation for trees, as for routes: a geometry format renders a tree iff every branch edge has a
row (same caveat for `wkb` as in `geometry_rendered_iff_all_stored`: `geom_to_wkb` is taken not to fail) -/
theorem tree_geometry_rendered_iff_all_stored (g : Geoms) (f : Fmt) (t : Tree) (hf : usesGeometry f = true) :
    (∃ o, generateTreeOutput g f t = .ok o) ↔ ∀ kv ∈ t, ∃ l, g kv.2.et.edge = some l := by
  constructor
  · rintro ⟨o, ho⟩ kv hkv
    cases hg : g kv.2.et.edge with
    | some l => exact ⟨l, rfl⟩
    | none =>
      obtain ⟨i, hi, rfl⟩ := List.getElem_of_mem hkv
      rw [tree_missing_geometry_is_error g f t i hi hg hf] at ho
      cases ho
  · intro h
    have hall : allStored g (treeIds t) = true := by
      rw [allStored_iff]
      intro e he
      simp only [treeIds, List.mem_map] at he
      obtain ⟨kv, hkv, rfl⟩ := he
      exact h kv hkv
    rw [generateTreeOutput_eq]
    cases f <;> simp [hall]

/-- the hash map's iteration order is unspecified: for any two orders of the same branches the outcome is the
same error, or two outputs with the same number of entries whose ids / linestrings are permutations of each
other -/
theorem tree_output_order_independent (g : Geoms) (f : Fmt) (t t' : Tree) (hp : t.Perm t') :
    (∀ e, generateTreeOutput g f t = .error e → generateTreeOutput g f t' = .error e) ∧
    (∀ o, generateTreeOutput g f t = .ok o → ∃ o', generateTreeOutput g f t' = .ok o' ∧ o'.size = o.size ∧
      (∀ s, o.edgeSeq? = some s → ∃ s', o'.edgeSeq? = some s' ∧ s.Perm s') ∧
      (∀ ls, o.lines? = some ls → ∃ ls', o'.lines? = some ls' ∧ ls.Perm ls')) := by
  have hids : (treeIds t).Perm (treeIds t') := hp.map _
  have hall : allStored g (treeIds t) = allStored g (treeIds t') := allStored_perm g hids
  rw [generateTreeOutput_eq, generateTreeOutput_eq]
  cases f with
  | edgeId =>
    refine ⟨(by intro e h; cases h), ?_⟩
    intro o h
    simp only at h; injection h with h; subst h
    refine ⟨_, rfl, by simp [TreeOut.size, treeIds, hp.length_eq], ?_, by simp [TreeOut.lines?]⟩
    intro s hs
    simp only [TreeOut.edgeSeq?, Option.some.injEq] at hs
    subst hs
    exact ⟨_, rfl, hids⟩
  | json =>
    refine ⟨(by intro e h; cases h), ?_⟩
    intro o h
    simp only at h; injection h with h; subst h
    refine ⟨_, rfl, by simp [TreeOut.size, hp.length_eq], ?_, by simp [TreeOut.lines?]⟩
    intro s hs
    simp only [TreeOut.edgeSeq?, Option.some.injEq] at hs
    subst hs
    exact ⟨_, rfl, by simpa [treeIds, Function.comp_def] using hids⟩
  | geoJson =>
    by_cases h1 : allStored g (treeIds t) = true
    · have h2 : allStored g (treeIds t') = true := hall ▸ h1
      simp only [h1, h2, if_true]
      refine ⟨(by intro e h; cases h), ?_⟩
      intro o h
      injection h with h; subst h
      refine ⟨_, rfl, by simp [TreeOut.size, hp.length_eq], ?_, ?_⟩
      · intro s hs
        simp only [TreeOut.edgeSeq?, Option.some.injEq] at hs
        subst hs
        exact ⟨_, rfl, by simpa [createGeojsonFeature, treeIds, Function.comp_def] using hids⟩
      · intro ls hl
        simp only [TreeOut.lines?, Option.some.injEq] at hl
        subst hl
        refine ⟨_, rfl, ?_⟩
        simp only [List.map_map]
        exact hp.map _
    · have h2 : ¬ allStored g (treeIds t') = true := hall ▸ h1
      simp only [h1, h2]
      exact ⟨fun e h => h, by intro o h; cases h⟩
  | wkt =>
    by_cases h1 : allStored g (treeIds t) = true
    · have h2 : allStored g (treeIds t') = true := hall ▸ h1
      simp only [h1, h2, if_true]
      refine ⟨(by intro e h; cases h), ?_⟩
      intro o h
      injection h with h; subst h
      refine ⟨_, rfl, by simp [TreeOut.size, treeIds, hp.length_eq], by simp [TreeOut.edgeSeq?], ?_⟩
      intro ls hl
      simp only [TreeOut.lines?, Option.some.injEq] at hl
      subst hl
      exact ⟨_, rfl, hids.map _⟩
    · have h2 : ¬ allStored g (treeIds t') = true := hall ▸ h1
      simp only [h1, h2]
      exact ⟨fun e h => h, by intro o h; cases h⟩
  | wkb =>
    by_cases h1 : allStored g (treeIds t) = true
    · have h2 : allStored g (treeIds t') = true := hall ▸ h1
      simp only [h1, h2, if_true]
      refine ⟨(by intro e h; cases h), ?_⟩
      intro o h
      injection h with h; subst h
      refine ⟨_, rfl, by simp [TreeOut.size, treeIds, hp.length_eq], by simp [TreeOut.edgeSeq?], ?_⟩
      intro ls hl
      simp only [TreeOut.lines?, Option.some.injEq] at hl
      subst hl
      exact ⟨_, rfl, hids.map _⟩
    · have h2 : ¬ allStored g (treeIds t') = true := hall ▸ h1
      simp only [h1, h2]
      exact ⟨fun e h => h, by intro o h; cases h⟩

-- non-vacuity: a two-branch tree in both iteration orders; a branch without a row
example : generateTreeOutput (tableOf [[⟨1, 2⟩, ⟨3, 4⟩], [⟨5, 6⟩, ⟨7, 8⟩]]) .wkt
    [(4, ⟨0, ⟨1, 0, 0, []⟩⟩), (9, ⟨4, ⟨0, 0, 0, []⟩⟩)] = .ok (.wkt [[⟨5, 6⟩, ⟨7, 8⟩], [⟨1, 2⟩, ⟨3, 4⟩]]) := rfl
example : generateTreeOutput (tableOf [[⟨1, 2⟩, ⟨3, 4⟩], [⟨5, 6⟩, ⟨7, 8⟩]]) .edgeId
    [(9, ⟨4, ⟨0, 0, 0, []⟩⟩), (4, ⟨0, ⟨1, 0, 0, []⟩⟩)] = .ok (.edgeIds [0, 1]) := rfl
example : generateTreeOutput (tableOf [[⟨1, 2⟩, ⟨3, 4⟩]]) .geoJson
    [(4, ⟨0, ⟨0, 0, 0, []⟩⟩), (9, ⟨4, ⟨1, 0, 0, []⟩⟩)] = .error .failed := rfl

/-! ### 4. the attached identifiers are the stored ones -/

/-- what `get_od_vertex_ids` accepts: the output is an object whose `request` is an object holding unsigned
integers under `origin_vertex` and `destination_vertex` -/
theorem od_vertex_ids_are_request_fields (out : Json) (o d : Nat) (h : getOdVertexIds out = .ok (o, d)) :
    ∃ okvs kvs ov dv, out = .obj okvs ∧ Json.lookup okvs "request" = some (.obj kvs) ∧
      Json.lookup kvs "origin_vertex" = some ov ∧ ov.asU64? = some o ∧
      Json.lookup kvs "destination_vertex" = some dv ∧ dv.asU64? = some d := by
  unfold getOdVertexIds at h
  cases out with
  | obj okvs =>
    simp only [Json.get?] at h
    cases h1 : Json.lookup okvs "request" with
    | none => simp [h1] at h
    | some rq =>
      simp only [h1] at h
      cases rq with
      | obj kvs =>
        simp only [Json.asObject?] at h
        cases h2 : Json.lookup kvs "origin_vertex" with
        | none => simp [h2] at h
        | some ov =>
          simp only [h2] at h
          cases h3 : ov.asU64? with
          | none => simp [h3] at h
          | some o' =>
            simp only [h3] at h
            cases h4 : Json.lookup kvs "destination_vertex" with
            | none => simp [h4] at h
            | some dv =>
              simp only [h4] at h
              cases h5 : dv.asU64? with
              | none => simp [h5] at h
              | some d' =>
                simp only [h5] at h
                injection h with h
                injection h with ho hd
                subst ho; subst hd
                exact ⟨okvs, kvs, ov, dv, rfl, h1, h2, h3, h4, h5⟩
      | null => simp [Json.asObject?] at h
      | bool b => simp [Json.asObject?] at h
      | num l b => simp [Json.asObject?] at h
      | str s => simp [Json.asObject?] at h
      | arr xs => simp [Json.asObject?] at h
  | null => simp [Json.get?] at h
  | bool b => simp [Json.get?] at h
  | num l b => simp [Json.get?] at h
  | str s => simp [Json.get?] at h
  | arr xs => simp [Json.get?] at h

/-- on success the two keys hold exactly `table[origin_vertex]` and `table[destination_vertex]`, and every
other key of the output is untouched -/
theorem uuid_attached_are_stored (u : Uuids) (out out' : Json) (h : uuidProcess u true out = .ok out') :
    ∃ o d ou du, getOdVertexIds out = .ok (o, d) ∧ u o = some ou ∧ u d = some du ∧
      out'.get? "origin_vertex_uuid" = some (.str ou) ∧
      out'.get? "destination_vertex_uuid" = some (.str du) ∧
      ∀ k, k ≠ "origin_vertex_uuid" → k ≠ "destination_vertex_uuid" → out'.get? k = out.get? k := by
  simp only [uuidProcess, Bool.not_true, Bool.false_eq_true, if_false, uuidLookup] at h
  cases hg : getOdVertexIds out with
  | error x => simp [hg] at h
  | ok p =>
    obtain ⟨o, d⟩ := p
    simp only [hg] at h
    cases ho : u o with
    | none => simp [ho] at h
    | some ou =>
      simp only [ho] at h
      cases hd : u d with
      | none => simp [hd] at h
      | some du =>
        simp only [hd] at h
        obtain ⟨okvs, _, _, _, rfl, _⟩ := od_vertex_ids_are_request_fields out o d hg
        simp only [Json.indexAssign] at h
        injection h with h
        subst h
        refine ⟨o, d, ou, du, rfl, (by first | assumption | rfl), (by first | assumption | rfl), ?_, ?_, ?_⟩
        · simp only [Json.get?]
          rw [lookup_insertKv_other _ _ _ _ (by decide), lookup_insertKv_same]
        · simp only [Json.get?]
          rw [lookup_insertKv_same]
        · intro k h1 h2
          simp only [Json.get?]
          rw [lookup_insertKv_other _ _ _ _ h2, lookup_insertKv_other _ _ _ _ h1]

/-- the plugin fails exactly when the request does not name two vertices or one of them has no stored
identifier — it never attaches anything else, and it never panics -/
theorem uuid_error_iff (u : Uuids) (out : Json) :
    (∃ e, uuidProcess u true out = .err e) ↔
      ((∃ e, getOdVertexIds out = .error e) ∨ ∃ o d, getOdVertexIds out = .ok (o, d) ∧ (u o = none ∨ u d = none)) := by
  simp only [uuidProcess, Bool.not_true, Bool.false_eq_true, if_false, uuidLookup]
  cases hg : getOdVertexIds out with
  | error x => simp
  | ok p =>
    obtain ⟨o, d⟩ := p
    cases ho : u o with
    | none =>
      simp only [ho]
      exact ⟨fun _ => Or.inr ⟨o, d, rfl, Or.inl ho⟩, fun _ => ⟨_, rfl⟩⟩
    | some ou =>
      cases hd : u d with
      | none =>
        simp only [ho, hd]
        exact ⟨fun _ => Or.inr ⟨o, d, rfl, Or.inr hd⟩, fun _ => ⟨_, rfl⟩⟩
      | some du =>
        obtain ⟨okvs, _, _, _, rfl, _⟩ := od_vertex_ids_are_request_fields out o d hg
        simp [ho, hd, Json.indexAssign]

theorem uuid_never_panics (u : Uuids) (ok : Bool) (out : Json) (h : uuidProcess u ok out = .panic) : False := by
  cases ok with
  | false => simp [uuidProcess] at h
  | true =>
    simp only [uuidProcess, Bool.not_true, Bool.false_eq_true, if_false, uuidLookup] at h
    cases hg : getOdVertexIds out with
    | error x => simp [hg] at h
    | ok p =>
      obtain ⟨o, d⟩ := p
      obtain ⟨okvs, _, _, _, rfl, _⟩ := od_vertex_ids_are_request_fields out o d hg
      cases ho : u o with
      | none => simp [hg, ho] at h
      | some ou =>
        cases hd : u d with
        | none => simp [hg, ho, hd] at h
        | some du => simp [hg, ho, hd, Json.indexAssign] at h

/-- a failed search leaves the output alone (restates the `Err(_) => Ok(())` arm) -/
theorem uuid_failed_search_untouched (u : Uuids) (out : Json) : uuidProcess u false out = .ok out := rfl

/-- the direct call and the pipeline step are the same lookup: on the output object the pipeline works on
(`request` stored under its key, whatever other keys are present) `process` succeeds exactly when the pipeline
step does, with the same two identifiers, and fails with the same error -/
theorem uuid_direct_matches_pipeline (u : Uuids) (req : Json) (res : SearchResult) (r : Resp)
    (rest : List (String × Json)) :
    (∀ x, pluginStep req res (.uuid u) r = .error x →
      (match uuidProcess u true (.obj (("request", req) :: rest)) with | .err y => y = x | _ => False)) ∧
    (∀ r', pluginStep req res (.uuid u) r = .ok r' →
      ∃ ou du out', uuidProcess u true (.obj (("request", req) :: rest)) = .ok out' ∧
        r'.originUuid = some ou ∧ r'.destinationUuid = some du ∧
        out'.get? "origin_vertex_uuid" = some (.str ou) ∧ out'.get? "destination_vertex_uuid" = some (.str du)) := by
  have hg : getOdVertexIds (.obj (("request", req) :: rest)) = getOdVertexIds (.obj [("request", req)]) := by
    simp [getOdVertexIds, Json.get?, lookup_cons]
  have hl : uuidLookup u (.obj (("request", req) :: rest)) = uuidLookup u (.obj [("request", req)]) := by
    simp only [uuidLookup, hg]
  constructor
  · intro x hx
    simp only [pluginStep] at hx
    cases hu : uuidLookup u (.obj [("request", req)]) with
    | error y =>
      simp only [hu] at hx
      injection hx with hx
      simp [uuidProcess, hl, hu, hx]
    | ok p => obtain ⟨a, b⟩ := p; simp [hu] at hx
  · intro r' hr'
    obtain ⟨ou, du, hlk, hr⟩ := pluginStep_uuid req res u r r' hr'
    cases hp : uuidProcess u true (.obj (("request", req) :: rest)) with
    | ok out' =>
      obtain ⟨o, d, ou', du', hg', ho, hd, g1, g2, _⟩ := uuid_attached_are_stored u _ out' hp
      obtain ⟨o2, d2, hg2, ho2, hd2⟩ := uuidLookup_ok u _ ou du hlk
      rw [hg, hg2] at hg'
      injection hg' with hg'
      injection hg' with e1 e2
      subst e1; subst e2
      rw [ho2] at ho; rw [hd2] at hd
      injection ho with ho; injection hd with hd
      subst ho; subst hd
      exact ⟨ou, du, out', rfl, by rw [hr], by rw [hr], g1, g2⟩
    | err e =>
      exfalso
      simp only [uuidProcess, Bool.not_true, Bool.false_eq_true, if_false, hl, hlk] at hp
      simp [Json.indexAssign] at hp
    | panic => exact (uuid_never_panics u true _ hp).elim

-- non-vacuity (string-to-number parsing does not reduce in the kernel, so the two JSON numbers are taken as
-- given): ids 2 and 0 of a three-row table; a destination beyond the table; a query without destination
example (two zero : Json) (h2 : two.asU64? = some 2) (h0 : zero.asU64? = some 0) :
    uuidProcess (uuidTableOf ["a", "b", "c"]) true
      (.obj [("request", .obj [("origin_vertex", two), ("destination_vertex", zero)])]) =
    .ok (.obj [("request", .obj [("origin_vertex", two), ("destination_vertex", zero)]),
               ("origin_vertex_uuid", .str "c"), ("destination_vertex_uuid", .str "a")]) := by
  simp [uuidProcess, uuidLookup, getOdVertexIds, Json.get?, Json.lookup, Json.asObject?, h2, h0, uuidTableOf,
    Json.indexAssign, Json.insertKv]
example (two three : Json) (h2 : two.asU64? = some 2) (h3 : three.asU64? = some 3) :
    uuidLookup (uuidTableOf ["a", "b", "c"])
      (.obj [("request", .obj [("origin_vertex", two), ("destination_vertex", three)])]) = .error .failed := by
  simp [uuidLookup, getOdVertexIds, Json.get?, Json.lookup, Json.asObject?, h2, h3, uuidTableOf]
example (two : Json) (h2 : two.asU64? = some 2) :
    uuidLookup (uuidTableOf ["a", "b", "c"]) (.obj [("request", .obj [("origin_vertex", two)])]) =
    .error (.missingField "destination_vertex") := by
  simp [uuidLookup, getOdVertexIds, Json.get?, Json.lookup, Json.asObject?, h2]

/-! ### 5. the response: an error, or every configured key rendered from the returned routes and trees -/

/-- `null` / bare value / array is only a change of shape: nothing is lost -/
theorem shape_loses_nothing {α : Type} (l : List α) : (shape l).toList = l := by
  match l with
  | [] => rfl
  | [_] => rfl
  | _ :: _ :: _ => rfl

/-- what a successful `TraversalPlugin::process` stores: one rendered path per returned route, in order, each
the format's rendering of that (non-empty) route; one rendered tree per returned tree -/
theorem traversal_process_renders_every_route (cfg : TraversalCfg) (res : SearchResult) (r r' : Resp)
    (h : traversalProcess cfg res r = .ok r') :
    (∀ f, cfg.route = some f → ∃ outs, r'.route = some (shape outs) ∧ outs.length = res.routes.length ∧
      ∀ (i : Nat) (hr : i < res.routes.length) (ho : i < outs.length),
        res.routes[i] ≠ [] ∧ generateRouteOutput cfg.geoms f res.routes[i] = .ok outs[i]) ∧
    (∀ f, cfg.tree = some f → ∃ outs, r'.tree = some (shape outs) ∧ outs.length = res.trees.length ∧
      ∀ (i : Nat) (ht : i < res.trees.length) (ho : i < outs.length),
        generateTreeOutput cfg.geoms f res.trees[i] = .ok outs[i]) := by
  obtain ⟨a, _, c, _, _⟩ := traversalProcess_route cfg res r r' h
  constructor
  · intro f hf
    obtain ⟨outs, hm, ho⟩ := a f hf
    refine ⟨outs, ho, mapExcept_ok_length _ _ _ hm, ?_⟩
    intro i hr hi
    have hc := mapExcept_ok_get _ _ _ hm i hr hi
    unfold constructRouteOutput at hc
    cases hl : (res.routes[i]).getLast? with
    | none => simp [hl] at hc
    | some e =>
      simp only [hl] at hc
      constructor
      · intro hemp; rw [hemp] at hl; simp at hl
      · cases hg : generateRouteOutput cfg.geoms f res.routes[i] with
        | error x => simp [hg] at hc
        | ok o =>
          simp only [hg] at hc
          by_cases hlt : e.state.length < res.costSlots
          · simp [hlt] at hc
          · simpa [hlt] using hc
  · intro f hf
    obtain ⟨outs, hm, ho⟩ := c f hf
    exact ⟨outs, ho, mapExcept_ok_length _ _ _ hm, fun i ht hi => mapExcept_ok_get _ _ _ hm i ht hi⟩

/-- for **any** list of output plugins: whatever a (non-error) response carries under `route` was rendered by
one of the configured traversal plugins from the returned routes — one path per route, in order, each the
format's rendering of that route over that plugin's geometry table -/
theorem response_route_is_rendering (req : Json) (res : SearchResult) (plugins : List Plugin) (resp : Resp)
    (h : applyOutputProcessing req (some res) plugins = .ok resp) (sh : Shape RouteOut) (hs : resp.route = some sh) :
    ∃ cfg f, Plugin.traversal cfg ∈ plugins ∧ cfg.route = some f ∧ sh.toList.length = res.routes.length ∧
      ∀ (i : Nat) (hr : i < res.routes.length) (ho : i < sh.toList.length),
        res.routes[i] ≠ [] ∧ generateRouteOutput cfg.geoms f res.routes[i] = .ok sh.toList[i] := by
  let P : Resp → Prop := fun r => ∀ sh, r.route = some sh →
    ∃ cfg f outs, Plugin.traversal cfg ∈ plugins ∧ cfg.route = some f ∧
      mapExcept (constructRouteOutput res.costSlots cfg.geoms f) res.routes = .ok outs ∧ sh = shape outs
  have hstep : ∀ p ∈ plugins, ∀ r r', P r → pluginStep req res p r = .ok r' → P r' := by
    intro p hp r r' hP hq sh' hs'
    cases p with
    | traversal cfg =>
      obtain ⟨a, b, _⟩ := traversalProcess_route cfg res r r' hq
      cases hr : cfg.route with
      | none => rw [b hr] at hs'; exact hP sh' hs'
      | some f =>
        obtain ⟨outs, hm, ho⟩ := a f hr
        rw [ho] at hs'
        injection hs' with hs'
        exact ⟨cfg, f, outs, hp, hr, hm, hs'.symm⟩
    | summary =>
      rw [pluginStep_summary req res r r' hq] at hs'
      exact hP sh' hs'
    | uuid table =>
      obtain ⟨ou, du, _, hr'⟩ := pluginStep_uuid req res table r r' hq
      rw [hr'] at hs'
      exact hP sh' hs'
  simp only [applyOutputProcessing] at h
  obtain ⟨cfg, f, outs, hmem, hf, hm, rfl⟩ :=
    runPlugins_inv req res P plugins hstep plugins (fun _ hp => hp) {} resp (by intro sh' h'; cases h') h sh hs
  refine ⟨cfg, f, hmem, hf, ?_, ?_⟩
  · rw [shape_loses_nothing]; exact mapExcept_ok_length _ _ _ hm
  · intro i hr ho
    simp only [shape_loses_nothing] at ho ⊢
    have hc := mapExcept_ok_get _ _ _ hm i hr ho
    unfold constructRouteOutput at hc
    cases hl : (res.routes[i]).getLast? with
    | none => simp [hl] at hc
    | some e =>
      simp only [hl] at hc
      constructor
      · intro hemp; rw [hemp] at hl; simp at hl
      · cases hg : generateRouteOutput cfg.geoms f res.routes[i] with
        | error x => simp [hg] at hc
        | ok o =>
          simp only [hg] at hc
          by_cases hlt : e.state.length < res.costSlots
          · simp [hlt] at hc
          · simpa [hlt] using hc

/-- the same for `tree`: one rendered tree per returned tree -/
theorem response_tree_is_rendering (req : Json) (res : SearchResult) (plugins : List Plugin) (resp : Resp)
    (h : applyOutputProcessing req (some res) plugins = .ok resp) (sh : Shape TreeOut) (hs : resp.tree = some sh) :
    ∃ cfg f, Plugin.traversal cfg ∈ plugins ∧ cfg.tree = some f ∧ sh.toList.length = res.trees.length ∧
      ∀ (i : Nat) (ht : i < res.trees.length) (ho : i < sh.toList.length),
        generateTreeOutput cfg.geoms f res.trees[i] = .ok sh.toList[i] := by
  let P : Resp → Prop := fun r => ∀ sh, r.tree = some sh →
    ∃ cfg f outs, Plugin.traversal cfg ∈ plugins ∧ cfg.tree = some f ∧
      mapExcept (generateTreeOutput cfg.geoms f) res.trees = .ok outs ∧ sh = shape outs
  have hstep : ∀ p ∈ plugins, ∀ r r', P r → pluginStep req res p r = .ok r' → P r' := by
    intro p hp r r' hP hq sh' hs'
    cases p with
    | traversal cfg =>
      obtain ⟨_, _, c, d, _⟩ := traversalProcess_route cfg res r r' hq
      cases hr : cfg.tree with
      | none => rw [d hr] at hs'; exact hP sh' hs'
      | some f =>
        obtain ⟨outs, hm, ho⟩ := c f hr
        rw [ho] at hs'
        injection hs' with hs'
        exact ⟨cfg, f, outs, hp, hr, hm, hs'.symm⟩
    | summary =>
      rw [pluginStep_summary req res r r' hq] at hs'
      exact hP sh' hs'
    | uuid table =>
      obtain ⟨ou, du, _, hr'⟩ := pluginStep_uuid req res table r r' hq
      rw [hr'] at hs'
      exact hP sh' hs'
  simp only [applyOutputProcessing] at h
  obtain ⟨cfg, f, outs, hmem, hf, hm, rfl⟩ :=
    runPlugins_inv req res P plugins hstep plugins (fun _ hp => hp) {} resp (by intro sh' h'; cases h') h sh hs
  refine ⟨cfg, f, hmem, hf, ?_, ?_⟩
  · rw [shape_loses_nothing]; exact mapExcept_ok_length _ _ _ hm
  · intro i ht ho
    simp only [shape_loses_nothing] at ho ⊢
    exact mapExcept_ok_get _ _ _ hm i ht ho

/-- for any list of output plugins: identifiers in a response are `table[origin_vertex]` and
`table[destination_vertex]` of the request, for the table of one of the configured uuid plugins; counts are the
sizes of the returned routes and trees -/
theorem response_ids_and_counts (req : Json) (res : SearchResult) (plugins : List Plugin) (resp : Resp)
    (h : applyOutputProcessing req (some res) plugins = .ok resp) :
    (∀ s, resp.originUuid = some s → ∃ table o d, Plugin.uuid table ∈ plugins ∧
        getOdVertexIds (.obj [("request", req)]) = .ok (o, d) ∧ table o = some s) ∧
    (∀ s, resp.destinationUuid = some s → ∃ table o d, Plugin.uuid table ∈ plugins ∧
        getOdVertexIds (.obj [("request", req)]) = .ok (o, d) ∧ table d = some s) ∧
    (∀ n, resp.routeEdges = some n → n = (res.routes.map List.length).sum) ∧
    (∀ n, resp.treeSizeCount = some n → n = (res.trees.map List.length).sum) := by
  let P : Resp → Prop := fun r =>
    (∀ s, r.originUuid = some s → ∃ table o d, Plugin.uuid table ∈ plugins ∧
        getOdVertexIds (.obj [("request", req)]) = .ok (o, d) ∧ table o = some s) ∧
    (∀ s, r.destinationUuid = some s → ∃ table o d, Plugin.uuid table ∈ plugins ∧
        getOdVertexIds (.obj [("request", req)]) = .ok (o, d) ∧ table d = some s) ∧
    (∀ n, r.routeEdges = some n → n = (res.routes.map List.length).sum) ∧
    (∀ n, r.treeSizeCount = some n → n = (res.trees.map List.length).sum)
  have hstep : ∀ p ∈ plugins, ∀ r r', P r → pluginStep req res p r = .ok r' → P r' := by
    intro p hp r r' hP hq
    obtain ⟨p1, p2, p3, p4⟩ := hP
    cases p with
    | traversal cfg =>
      obtain ⟨_, _, _, _, e1, e2, e3, e4⟩ := traversalProcess_route cfg res r r' hq
      exact ⟨by rw [e3]; exact p1, by rw [e4]; exact p2, by rw [e1]; exact p3, by rw [e2]; exact p4⟩
    | summary =>
      rw [pluginStep_summary req res r r' hq]
      refine ⟨p1, p2, ?_, ?_⟩
      · intro n hn; simp only [summaryProcess, Option.some.injEq] at hn; exact hn.symm
      · intro n hn; simp only [summaryProcess, Option.some.injEq] at hn; exact hn.symm
    | uuid table =>
      obtain ⟨ou, du, hl, hr'⟩ := pluginStep_uuid req res table r r' hq
      obtain ⟨o, d, hg, ho, hd⟩ := uuidLookup_ok table _ ou du hl
      rw [hr']
      refine ⟨?_, ?_, p3, p4⟩
      · intro s hs; simp only [Option.some.injEq] at hs; subst hs; exact ⟨table, o, d, hp, hg, ho⟩
      · intro s hs; simp only [Option.some.injEq] at hs; subst hs; exact ⟨table, o, d, hp, hg, hd⟩
  simp only [applyOutputProcessing] at h
  exact runPlugins_inv req res P plugins hstep plugins (fun _ hp => hp) {} resp
    ⟨(by intro s h'; cases h'), (by intro s h'; cases h'), (by intro n h'; cases h'), (by intro n h'; cases h')⟩ h

/-- a missing geometry anywhere in a returned route (geometry format configured) makes the whole response an
error response, wherever the traversal plugin sits among the output plugins -/
theorem response_error_on_missing_geometry (req : Json) (res : SearchResult) (plugins : List Plugin)
    (cfg : TraversalCfg) (hp : Plugin.traversal cfg ∈ plugins) (f : Fmt) (hf : cfg.route = some f)
    (hg : usesGeometry f = true) (rt : List EdgeTraversal) (hrt : rt ∈ res.routes) (t : EdgeTraversal)
    (ht : t ∈ rt) (hm : cfg.geoms t.edge = none) :
    ∃ x, applyOutputProcessing req (some res) plugins = .error x := by
  obtain ⟨i, hi, rfl⟩ := List.getElem_of_mem ht
  have h1 : ∃ x, constructRouteOutput res.costSlots cfg.geoms f rt = .error x := by
    unfold constructRouteOutput
    cases rt.getLast? with
    | none => exact ⟨_, rfl⟩
    | some _ => simp only [missing_geometry_is_error cfg.geoms f rt i hi hm hg]; exact ⟨_, rfl⟩
  obtain ⟨x, hx⟩ := mapExcept_error_of_mem _ res.routes rt hrt h1
  have h2 : ∃ y, pluginStep req res (.traversal cfg) {} = .error y := by
    simp only [pluginStep, traversalProcess, hf, hx]
    exact ⟨_, rfl⟩
  exact runPlugins_error_of_mem req res _ {} h2 plugins hp {}

/-- the same for a tree branch without geometry -/
theorem response_error_on_missing_tree_geometry (req : Json) (res : SearchResult) (plugins : List Plugin)
    (cfg : TraversalCfg) (hp : Plugin.traversal cfg ∈ plugins) (f : Fmt) (hf : cfg.tree = some f)
    (hg : usesGeometry f = true) (tr : Tree) (htr : tr ∈ res.trees) (kv : Nat × Branch)
    (hkv : kv ∈ tr) (hm : cfg.geoms kv.2.et.edge = none) :
    ∃ x, applyOutputProcessing req (some res) plugins = .error x := by
  obtain ⟨i, hi, rfl⟩ := List.getElem_of_mem hkv
  have h1 : ∃ x, generateTreeOutput cfg.geoms f tr = .error x :=
    ⟨_, tree_missing_geometry_is_error cfg.geoms f tr i hi hm hg⟩
  obtain ⟨x, hx⟩ := mapExcept_error_of_mem _ res.trees tr htr h1
  have h2 : ∃ y, pluginStep req res (.traversal cfg) {} = .error y := by
    simp only [pluginStep, traversalProcess]
    cases hr : cfg.route with
    | none => simp only [hf, hx]; exact ⟨_, rfl⟩
    | some fr =>
      simp only
      cases hm : mapExcept (constructRouteOutput res.costSlots cfg.geoms fr) res.routes with
      | error y => exact ⟨_, rfl⟩
      | ok outs => simp only [hf, hx]; exact ⟨_, rfl⟩
  exact runPlugins_error_of_mem req res _ {} h2 plugins hp {}

/-- errors are never swallowed: with a route (tree) format configured the response is an error response or
carries the `route` (`tree`) key -/
theorem response_has_route_or_is_error (req : Json) (res : SearchResult) (plugins : List Plugin)
    (cfg : TraversalCfg) (hp : Plugin.traversal cfg ∈ plugins) :
    (∃ x, applyOutputProcessing req (some res) plugins = .error x) ∨
    ∃ resp, applyOutputProcessing req (some res) plugins = .ok resp ∧
      (cfg.route.isSome = true → resp.route.isSome = true) ∧ (cfg.tree.isSome = true → resp.tree.isSome = true) := by
  simp only [applyOutputProcessing]
  cases h : runPlugins req res plugins {} with
  | error x => exact Or.inl ⟨x, rfl⟩
  | ok resp => exact Or.inr ⟨resp, rfl, runPlugins_sets_route req res cfg plugins hp {} resp h⟩

/-- a failed search is an error response, whatever the plugins (restates the first arm of
`apply_output_processing` / `create_initial_output`) -/
theorem failed_search_is_error_response (req : Json) (plugins : List Plugin) :
    applyOutputProcessing req none plugins = .error .search := rfl

/-- behaviour worth knowing (not a clause of C20): a returned route with no edges — origin = destination —
makes `construct_route_output` fail ("cannot find result route state when route is empty"), so with a route
format configured the response is an error response in *every* format -/
theorem empty_route_is_error_response (req : Json) (res : SearchResult) (plugins : List Plugin)
    (cfg : TraversalCfg) (hp : Plugin.traversal cfg ∈ plugins) (f : Fmt) (hf : cfg.route = some f)
    (hrt : [] ∈ res.routes) : ∃ x, applyOutputProcessing req (some res) plugins = .error x := by
  obtain ⟨x, hx⟩ := mapExcept_error_of_mem (constructRouteOutput res.costSlots cfg.geoms f) res.routes [] hrt ⟨_, rfl⟩
  have h2 : ∃ y, pluginStep req res (.traversal cfg) {} = .error y := by
    simp only [pluginStep, traversalProcess, hf, hx]
    exact ⟨_, rfl⟩
  exact runPlugins_error_of_mem req res _ {} h2 plugins hp {}

/-- behaviour worth knowing (outside the literal statement of C20: nothing wrong is attached — nothing is
delivered): a query without `destination_vertex` — the ordinary way to ask for a search tree — or an
edge-oriented query (no `origin_vertex`) makes `get_od_vertex_ids` fail, so **any pipeline that contains the uuid
plugin answers it with an error response and the rendered tree is discarded**, whatever the other plugins do -/
theorem destinationless_query_with_uuid_plugin_is_error_response (kvs : List (String × Json))
    (res : SearchResult) (plugins : List Plugin) (u : Uuids) (hp : Plugin.uuid u ∈ plugins)
    (hq : Json.lookup kvs "origin_vertex" = none ∨ Json.lookup kvs "destination_vertex" = none) :
    ∃ x, applyOutputProcessing (.obj kvs) (some res) plugins = .error x := by
  have h2 : ∃ y, pluginStep (.obj kvs) res (.uuid u) {} = .error y := by
    simp only [pluginStep, uuidLookup, getOdVertexIds, Json.get?, lookup_cons, if_true, Json.asObject?]
    rcases hq with h | h
    · simp only [h]; exact ⟨_, rfl⟩
    · cases ho : Json.lookup kvs "origin_vertex" with
      | none => exact ⟨_, rfl⟩
      | some ov =>
        simp only
        cases ov.asU64? with
        | none => exact ⟨_, rfl⟩
        | some o => simp only [h]; exact ⟨_, rfl⟩
  exact runPlugins_error_of_mem _ res _ {} h2 plugins hp {}

/-- the default pipeline `traversal, summary, uuid`: everything the response carries, in one statement -/
theorem default_pipeline_response (req : Json) (res : SearchResult) (cfg : TraversalCfg) (u : Uuids) (resp : Resp)
    (h : applyOutputProcessing req (some res) [.traversal cfg, .summary, .uuid u] = .ok resp) :
    (∃ r1, traversalProcess cfg res {} = .ok r1 ∧ resp.route = r1.route ∧ resp.tree = r1.tree) ∧
    resp.routeEdges = some ((res.routes.map List.length).sum) ∧
    resp.treeSizeCount = some ((res.trees.map List.length).sum) ∧
    ∃ o d ou du, getOdVertexIds (.obj [("request", req)]) = .ok (o, d) ∧ u o = some ou ∧ u d = some du ∧
      resp.originUuid = some ou ∧ resp.destinationUuid = some du := by
  simp only [applyOutputProcessing, runPlugins, pluginStep] at h
  cases h1 : traversalProcess cfg res {} with
  | error x => simp [h1] at h
  | ok r1 =>
    simp only [h1, uuidLookup] at h
    cases hg : getOdVertexIds (.obj [("request", req)]) with
    | error x => simp [hg] at h
    | ok p =>
      obtain ⟨o, d⟩ := p
      simp only [hg] at h
      cases ho : u o with
      | none => simp [ho] at h
      | some ou =>
        simp only [ho] at h
        cases hd : u d with
        | none => simp [hd] at h
        | some du =>
          simp only [hd] at h
          injection h with h
          subst h
          exact ⟨⟨r1, rfl, rfl, rfl⟩, rfl, rfl, o, d, ou, du, rfl, ho, hd, rfl, rfl⟩

-- non-vacuity of `default_pipeline_response` / `response_uuids_are_stored` (string-to-number parsing does not
-- reduce in the kernel, so the two JSON numbers are taken as given; `#eval` on `.num "2" 0`, `.num "0" 0` and the
-- differential run exercise the closed instance)
example (two zero : Json) (h2 : two.asU64? = some 2) (h0 : zero.asU64? = some 0) :
    applyOutputProcessing (.obj [("origin_vertex", two), ("destination_vertex", zero)])
      (some { routes := [[⟨1, 0, 0, []⟩]], trees := [] })
      [.traversal { geoms := tableOf [[⟨1, 2⟩], [⟨3, 4⟩]], route := some .edgeId, tree := none }, .summary,
       .uuid (uuidTableOf ["a", "b", "c"])] =
    .ok { route := some (.one (.edgeIds [1])), routeEdges := some 1, treeSizeCount := some 0,
          originUuid := some "c", destinationUuid := some "a" } := by
  simp [applyOutputProcessing, runPlugins, pluginStep, traversalProcess, mapExcept, constructRouteOutput,
    generateRouteOutput, shape, summaryProcess, routeEdgesCount, treeSizeCount, uuidLookup, getOdVertexIds,
    Json.get?, Json.lookup, Json.asObject?, h2, h0, uuidTableOf]

/-- the identifiers in a response of the default pipeline are `table[origin_vertex]`, `table[destination_vertex]`
of the request -/
theorem response_uuids_are_stored (req : Json) (res : SearchResult) (cfg : TraversalCfg) (u : Uuids) (resp : Resp)
    (h : applyOutputProcessing req (some res) [.traversal cfg, .summary, .uuid u] = .ok resp) :
    ∃ kvs ov dv o d, req = .obj kvs ∧ Json.lookup kvs "origin_vertex" = some ov ∧ ov.asU64? = some o ∧
      Json.lookup kvs "destination_vertex" = some dv ∧ dv.asU64? = some d ∧
      resp.originUuid = u o ∧ resp.destinationUuid = u d ∧ (u o).isSome = true ∧ (u d).isSome = true := by
  obtain ⟨_, _, _, o, d, ou, du, hg, ho, hd, h1, h2⟩ := default_pipeline_response req res cfg u resp h
  obtain ⟨okvs, kvs, ov, dv, he, hl, a, b, c, e⟩ := od_vertex_ids_are_request_fields _ o d hg
  injection he with he
  subst he
  have : req = .obj kvs := by
    have := hl
    simp [lookup_cons] at this
    exact this
  exact ⟨kvs, ov, dv, o, d, this, a, b, c, e, by rw [h1, ho], by rw [h2, hd], by simp [ho], by simp [hd]⟩

/-! ### 6. summary counts -/

/-- restates `summaryProcess` (the Rust lines are `routes.iter().map(|r| r.len()).sum()` and the same for trees);
`summary_counts_single` below relates the counts to what the traversal plugin renders -/
theorem summary_counts (res : SearchResult) (r : Resp) :
    (summaryProcess res r).routeEdges = some ((res.routes.map List.length).sum) ∧
    (summaryProcess res r).treeSizeCount = some ((res.trees.map List.length).sum) ∧
    (summaryProcess res r).route = r.route ∧ (summaryProcess res r).tree = r.tree := ⟨rfl, rfl, rfl, rfl⟩

theorem summary_counts_single (g : Geoms) (rt : List EdgeTraversal) (tr : Tree) (f : Fmt) (o : TreeOut)
    (h : generateTreeOutput g f tr = .ok o) :
    routeEdgesCount { routes := [rt], trees := [tr] } = (rt.map (·.edge)).length ∧
    treeSizeCount { routes := [rt], trees := [tr] } = o.size := by
  rw [tree_output_one_entry_per_branch g f tr o h]
  simp [routeEdgesCount, treeSizeCount]

-- non-vacuity: one route, one tree, traversal + summary; then a route whose middle edge has no row
example : applyOutputProcessing .null
      (some { routes := [[⟨1, 0, 0, []⟩, ⟨0, 0, 0, []⟩]], trees := [[(3, ⟨0, ⟨1, 0, 0, []⟩⟩)]] })
      [.traversal { geoms := tableOf [[⟨1, 2⟩, ⟨3, 4⟩], [⟨5, 6⟩, ⟨7, 8⟩]], route := some .wkt, tree := some .edgeId },
       .summary] =
    .ok { route := some (.one (.wkt [⟨5, 6⟩, ⟨7, 8⟩, ⟨1, 2⟩, ⟨3, 4⟩])), tree := some (.one (.edgeIds [1])),
          routeEdges := some 2, treeSizeCount := some 1 } := rfl
example : ∃ x, applyOutputProcessing .null
      (some { routes := [[⟨1, 0, 0, []⟩, ⟨2, 0, 0, []⟩, ⟨0, 0, 0, []⟩]], trees := [] })
      [.summary, .traversal { geoms := tableOf [[⟨1, 2⟩, ⟨3, 4⟩], [⟨5, 6⟩, ⟨7, 8⟩]], route := some .geoJson, tree := none }]
      = .error x := ⟨_, rfl⟩

/-! ### 7. loading the lookup tables: every row in its place, or no table at all

What these theorems are: statements about the first-party reader (`read_raw_file` + `from_file`) over an
*abstract* file `{readable, intact, rows}` whose rows the third-party WKT parser has already classified.  "A
rejected row is not skipped" is the defining clause `none :: _ => .error .io` of `parseRows`, "cut off" is the
input flag `intact = false`; the theorems derive from these the index-exact table (`traversal_from_file_table`)
and the all-or-nothing behaviour.  That real files behave like this record (line splitting, CRLF, gzip, what the
WKT grammar rejects, a truncated gzip stream) is evidenced only by the differential run. -/

/-- the geometry reader returns a table exactly when the file opens, decodes to its end and every row parses;
the table then holds **every** row at its own index — a bad row is never skipped, so geometries never shift
against edge ids -/
theorem geometry_file_loads_all_rows_or_fails (f : TableFile GeomRow) (ls : List Line) :
    readLinestringTextFile f = .ok ls ↔ (f.readable = true ∧ f.intact = true ∧ f.rows = ls.map some) := by
  unfold readLinestringTextFile
  cases hr : f.readable with
  | false => simp
  | true =>
    cases hp : parseRows f.rows with
    | error x =>
      have : ¬ f.rows = ls.map some := fun h => by
        rw [(parseRows_ok_iff f.rows ls).2 h] at hp; cases hp
      simp [this]
    | ok ls' =>
      have h1 := (parseRows_ok_iff f.rows ls').1 hp
      cases hi : f.intact with
      | false => simp
      | true =>
        simp only [Bool.not_true, Bool.false_eq_true, if_false, if_true, true_and]
        constructor
        · intro h; injection h with h; subst h; exact h1
        · intro h
          rw [h1] at h
          have : ls' = ls := some_map_inj ls' ls h
          rw [this]

/-- any row the WKT parser rejects (blank line, other geometry type, quoted or CSV-prefixed text …), a file that
cannot be opened, or a byte stream that breaks off: the reader fails, and the plugin is not built -/
theorem geometry_file_bad_row_is_error (f : TableFile GeomRow) (route tree : Option Fmt)
    (h : f.readable = false ∨ f.intact = false ∨ none ∈ f.rows) :
    readLinestringTextFile f = .error .io ∧ traversalFromFile f route tree = .error .build := by
  have h1 : readLinestringTextFile f = .error .io := by
    unfold readLinestringTextFile
    cases hr : f.readable with
    | false => simp
    | true =>
      cases hp : parseRows f.rows with
      | error x => simp [parseRows_error_kind f.rows x hp]
      | ok ls =>
        rcases h with h | h | h
        · rw [hr] at h; cases h
        · simp [h]
        · rw [parseRows_error_of_mem f.rows h] at hp; cases hp
  exact ⟨h1, by simp [traversalFromFile, h1]⟩

/-- the plugin built from a file: row `e` of the file is the geometry of edge `e`, ids at or beyond the number of
rows have no geometry (the plugin never learns the number of edges: a short file shows up as missing rows, extra
rows are never looked at), and the configured formats are kept -/
theorem traversal_from_file_table (f : TableFile GeomRow) (route tree : Option Fmt) (cfg : TraversalCfg)
    (h : traversalFromFile f route tree = .ok cfg) :
    cfg.route = route ∧ cfg.tree = tree ∧ ∀ e, cfg.geoms e = (f.rows[e]?).bind id := by
  unfold traversalFromFile at h
  cases hr : readLinestringTextFile f with
  | error x => simp [hr] at h
  | ok ls =>
    simp only [hr] at h
    injection h with h
    subst h
    obtain ⟨_, _, hrows⟩ := (geometry_file_loads_all_rows_or_fails f ls).1 hr
    refine ⟨rfl, rfl, ?_⟩
    intro e
    simp only [tableOf, hrows, List.getElem?_map]
    cases ls[e]? <;> rfl

/-- the identifier file is taken row by row, verbatim -/
theorem uuid_from_file_table (f : TableFile String) (u : Uuids) (h : uuidFromFile f = .ok u) :
    f.readable = true ∧ f.intact = true ∧ ∀ i, u i = f.rows[i]? := by
  unfold uuidFromFile at h
  cases hr : f.readable <;> cases hi : f.intact <;> simp [hr, hi] at h
  subst h
  exact ⟨rfl, rfl, fun _ => rfl⟩

theorem uuid_from_file_error_iff (f : TableFile String) :
    uuidFromFile f = .error .build ↔ (f.readable = false ∨ f.intact = false) := by
  unfold uuidFromFile
  cases f.readable <;> cases f.intact <;> simp

/-- `parse_wkb_linestring` returns a linestring only for a linestring -/
theorem parse_wkb_linestring_ok_iff (r : WkbRow) (l : Line) :
    (∃ l', parseWkbLinestring r = .ok l' ∧ l' = l) ↔ r = .linestring l := by
  cases r <;> simp [parseWkbLinestring]

/-- modelled behaviour of an unused public helper (reported, not a clause of C20): it hands the bytes of the text
row to the WKB decoder undecoded, so a hex-encoded row (first byte `'0'`) or an unknown geometry type panics inside
the `wkb` crate instead of giving the `InvalidData` error -/
theorem parse_wkb_linestring_panics_iff (r : WkbRow) :
    (match parseWkbLinestring r with | .panic => True | _ => False) ↔ (r = .badByteOrder ∨ r = .unknownType) := by
  cases r <;> simp [parseWkbLinestring]

example : readLinestringTextFile { readable := true, intact := true, rows := [some [⟨1, 2⟩], none, some [⟨3, 4⟩]] } =
    .error .io := rfl
example : (traversalFromFile { readable := true, intact := true, rows := [some [⟨1, 2⟩], some [⟨3, 4⟩]] }
    (some .wkt) none).toOption.map (fun c => (c.geoms 1, c.geoms 2)) = some (some [⟨3, 4⟩], none) := rfl

/-! ### 8. the configuration builders -/

/-- the five configuration names denote the five formats, one each, in either accepted spelling: the plain
string and serde's single-key map form `{"<name>": null}` -/
theorem format_names_roundtrip (f : Fmt) :
    Fmt.ofName? f.name = some f ∧ fmtParam (some (.str f.name)) = .ok (some f) ∧
    fmtParam (some (.obj [(f.name, .null)])) = .ok (some f) := by
  have h1 : Fmt.ofName? f.name = some f := by cases f <;> decide
  exact ⟨h1, by simp [fmtParam, fmtOfName, h1], by simp [fmtParam, fmtOfName, h1]⟩

theorem format_names_distinct (f g : Fmt) (h : f.name = g.name) : f = g := by
  have hf := (format_names_roundtrip f).1
  have hg := (format_names_roundtrip g).1
  rw [h] at hf
  rw [hf] at hg
  exact Option.some.inj hg

/-- a name resolves exactly when it is one of the five -/
theorem format_of_name_ok_iff (s : String) (o : Option Fmt) :
    fmtOfName s = .ok o ↔ ∃ f, f.name = s ∧ o = some f := by
  unfold fmtOfName
  cases hn : Fmt.ofName? s with
  | none =>
    simp only
    constructor
    · intro h; cases h
    · rintro ⟨f, hf, _⟩
      rw [← hf, (format_names_roundtrip f).1] at hn
      cases hn
  | some f =>
    have hs : f.name = s := by
      unfold Fmt.ofName? at hn
      have := List.find?_some hn
      simpa using this
    simp only
    constructor
    · intro h; injection h with h; exact ⟨f, hs, h.symm⟩
    · rintro ⟨f', hf', ho⟩
      have : f' = f := format_names_distinct f' f (by rw [hf', hs])
      rw [ho, this]

/-- **the exact set of accepted values of the `route` / `tree` parameter** (model of
`serde_json::from_value::<TraversalOutputFormat>`, checked differentially on strings, `null`, numbers, arrays and
objects of every shape): an absent key means "do not render"; a present value is accepted iff it is one of the
five names written as a string or as the single-key object `{"<name>": null}`; it then denotes that format.
(An earlier version of this file claimed that only the five strings are accepted; that was false of the real
code — `{"wkt": null}` builds a WKT plugin — and is corrected here and in the model.) -/
theorem format_param_accepts_iff (v : Option Json) (o : Option Fmt) :
    fmtParam v = .ok o ↔
      ((v = none ∧ o = none) ∨
       ∃ f, o = some f ∧ (v = some (.str f.name) ∨ v = some (.obj [(f.name, .null)]))) := by
  constructor
  · intro h
    unfold fmtParam at h
    split at h
    · injection h with h; exact Or.inl ⟨rfl, h.symm⟩
    · obtain ⟨f, hf, ho⟩ := (format_of_name_ok_iff _ o).1 h
      exact Or.inr ⟨f, ho, Or.inl (by rw [hf])⟩
    · obtain ⟨f, hf, ho⟩ := (format_of_name_ok_iff _ o).1 h
      exact Or.inr ⟨f, ho, Or.inr (by rw [hf])⟩
    · cases h
  · rintro (⟨rfl, rfl⟩ | ⟨f, rfl, (rfl | rfl)⟩)
    · rfl
    · exact (format_names_roundtrip f).2.1
    · exact (format_names_roundtrip f).2.2

-- the accepted map form, and shapes that look similar but are rejected
example : (fmtParam (some (.obj [("wkt", .null)]))).toOption = some (some .wkt) := by decide
example : (fmtParam (some (.obj [("geo_json", .null)]))).toOption = some (some .geoJson) := by decide
example : (fmtParam (some (.obj [("wkt", .bool false)]))).toOption = none := by decide
example : (fmtParam (some (.obj [("wkt", .null), ("wkb", .null)]))).toOption = none := by decide
example : (fmtParam (some (.obj []))).toOption = none := by decide
example : (fmtParam (some .null)).toOption = none := by decide
example : (fmtParam (some (.str "WKT"))).toOption = none := by decide

/-- a traversal plugin is built only from an existing file whose every row parses and from known format names; it
then is exactly the plugin `from_file` gives for those formats (so `traversal_from_file_table` applies) -/
theorem build_traversal_ok (file : FileParam GeomRow) (route tree : Option Json) (cfg : TraversalCfg)
    (h : buildTraversal file route tree = .ok cfg) :
    ∃ f, file = .file f ∧ f.isFile = true ∧ f.readable = true ∧ fmtParam route = .ok cfg.route ∧
      fmtParam tree = .ok cfg.tree ∧
      traversalFromFile f cfg.route cfg.tree = .ok cfg := by
  unfold buildTraversal at h
  cases file with
  | absent => simp [filePath] at h
  | notString => simp [filePath] at h
  | noSuchFile => simp [filePath] at h
  | file f =>
    simp only [filePath] at h
    cases hf : f.isFile with
    | false => simp [hf] at h
    | true =>
      simp only [hf, if_true] at h
      cases h1 : fmtParam route with
      | error e => simp [h1] at h
      | ok r =>
        simp only [h1] at h
        cases h2 : fmtParam tree with
        | error e => simp [h2] at h
        | ok t =>
          simp only [h2] at h
          cases h3 : traversalFromFile f r t with
          | error e => simp [h3] at h
          | ok c =>
            simp only [h3] at h
            injection h with h
            subst h
            obtain ⟨a, b, _⟩ := traversal_from_file_table f r t c h3
            have hr : f.readable = true := by
              unfold traversalFromFile at h3
              cases hl : readLinestringTextFile f with
              | error x => simp [hl] at h3
              | ok ls => exact ((geometry_file_loads_all_rows_or_fails f ls).1 hl).1
            refine ⟨f, rfl, hf, hr, ?_, ?_, ?_⟩
            · rw [a]
            · rw [b]
            · rw [a, b]; exact h3

/-- the two ways a lookup file can be unusable reach different error arms: a path that is not a file is
`FileNotFoundForComponent` (before the format parameters are even looked at); a file that exists but does not
open (no read permission), is cut off or holds a rejected row is a `PluginError` wrapping the loader's
`BuildFailed` (after the format parameters have been accepted) -/
theorem build_traversal_file_errors (f : TableFile GeomRow) (route tree : Option Json) :
    (f.isFile = false → buildTraversal (.file f) route tree = .error .fileNotFound) ∧
    (f.isFile = true → (f.readable = false ∨ f.intact = false ∨ none ∈ f.rows) →
      ∀ r t, fmtParam route = .ok r → fmtParam tree = .ok t →
        buildTraversal (.file f) route tree = .error .plugin) := by
  constructor
  · intro h; simp [buildTraversal, filePath, h]
  · intro h hbad r t hr ht
    have := (geometry_file_bad_row_is_error f r t hbad).2
    simp [buildTraversal, filePath, h, hr, ht, this]

theorem build_uuid_ok (file : FileParam String) (u : Uuids) (h : buildUuid file = .ok u) :
    ∃ f, file = .file f ∧ ∀ i, u i = f.rows[i]? := by
  unfold buildUuid at h
  cases file with
  | absent => simp [filePath] at h
  | notString => simp [filePath] at h
  | noSuchFile => simp [filePath] at h
  | file f =>
    simp only [filePath] at h
    cases hr : f.isFile with
    | false => simp [hr] at h
    | true =>
      simp only [hr, if_true] at h
      cases h3 : uuidFromFile f with
      | error e => simp [h3] at h
      | ok c =>
        simp only [h3] at h
        injection h with h
        subst h
        exact ⟨f, rfl, (uuid_from_file_table f c h3).2.2⟩

example : ((buildTraversal (.file { readable := true, intact := true, rows := [some [⟨1, 2⟩]] })
    (some (.str "geo_json")) none).toOption.map (fun c => (c.route, c.tree))) = some (some .geoJson, none) := by
  decide
example : (buildTraversal (.file { readable := true, intact := true, rows := [some [⟨1, 2⟩]] })
    (some .null) none).toOption.isNone = true := by decide
-- exists, but no read permission: the loader's failure, not "file not found"
example : (match buildTraversal (.file { readable := false, isFile := true, intact := true, rows := [some [⟨1, 2⟩]] })
    (some (.str "wkt")) none with | .error .plugin => true | _ => false) = true := by decide
example : (match buildUuid (.file { readable := false, isFile := true, intact := true, rows := ["a"] })
    with | .error .plugin => true | _ => false) = true := by decide

/-! ### 9. the plugins called directly on a JSON output -/

/-- after a failed search every plugin leaves the output alone -/
theorem failed_search_leaves_output (cfg : TraversalCfg) (a : Bool) (u : Uuids) (out : Json) :
    (match traversalProcessOn cfg none a with | .ok none => True | _ => False) ∧
    (match summaryProcessOn none out with | .ok j => j = out | _ => False) ∧
    (match uuidProcess u false out with | .ok j => j = out | _ => False) := by
  simp [traversalProcessOn, summaryProcessOn, uuidProcess]

/-- on an object (or `null`) the direct call of the **traversal** plugin does what the pipeline model does, for
every combination of configured route / tree formats (the corresponding statements for the other two plugins are
`uuid_direct_matches_pipeline` and, for the two counts only, `summary_process_on_object`) -/
theorem traversal_process_on_object (cfg : TraversalCfg) (sr : SearchResult) :
    traversalProcessOn cfg (some sr) true =
      match traversalProcess cfg sr {} with
      | .ok r => .ok (some r)
      | .error x => .err x := by
  unfold traversalProcessOn traversalProcess
  cases hr : cfg.route with
  | none =>
    cases ht : cfg.tree with
    | none => simp
    | some ft =>
      simp only
      cases mapExcept (generateTreeOutput cfg.geoms ft) sr.trees <;> first | rfl | simp
  | some fr =>
    simp only
    cases mapExcept (constructRouteOutput sr.costSlots cfg.geoms fr) sr.routes with
    | error x => simp
    | ok outs =>
      cases ht : cfg.tree with
      | none => simp
      | some ft =>
        simp only [if_true]
        cases mapExcept (generateTreeOutput cfg.geoms ft) sr.trees <;> first | rfl | simp

/-- the index-assignment panic needs an output that is neither an object nor `null` **and** something to write:
`apply_output_processing` only ever passes an object, so it is unreachable from the application -/
theorem traversal_process_on_panic (cfg : TraversalCfg) (res : Option SearchResult) (a : Bool)
    (h : match traversalProcessOn cfg res a with | .panic => True | _ => False) :
    a = false ∧ (cfg.route.isSome = true ∨ cfg.tree.isSome = true) := by
  cases a with
  | true =>
    cases res with
    | none => simp [traversalProcessOn] at h
    | some sr =>
      rw [traversal_process_on_object] at h
      cases ht : traversalProcess cfg sr {} with
      | ok r => rw [ht] at h; exact h.elim
      | error x => rw [ht] at h; exact h.elim
  | false =>
    refine ⟨rfl, ?_⟩
    cases hr : cfg.route with
    | some f => simp
    | none =>
      cases ht : cfg.tree with
      | some f => simp
      | none =>
        cases res with
        | none => simp [traversalProcessOn] at h
        | some sr => simp [traversalProcessOn, hr, ht] at h

/-- `SummaryOutputPlugin::process` on an object: the two counts are the sizes of the routes and trees, and no key
other than its own six is touched -/
theorem summary_process_on_object (sr : SearchResult) (si : SummaryInput) (kvs : List (String × Json)) :
    ∃ kvs', summaryProcessOn (some (sr, si)) (.obj kvs) = .ok (.obj kvs') ∧
      Json.lookup kvs' "route_edges" = some (jnat ((sr.routes.map List.length).sum)) ∧
      Json.lookup kvs' "tree_size_count" = some (jnat ((sr.trees.map List.length).sum)) ∧
      ∀ k, k ∉ ["search_executed_time", "search_runtime", "route_edges", "tree_size_count",
                "search_result_size_mib", "iterations"] → Json.lookup kvs' k = Json.lookup kvs k := by
  refine ⟨_, by simp [summaryProcessOn, assignAll, Json.indexAssign]; rfl, ?_, ?_, ?_⟩
  · rw [lookup_insertKv_other _ _ _ _ (by decide), lookup_insertKv_other _ _ _ _ (by decide),
      lookup_insertKv_other _ _ _ _ (by decide), lookup_insertKv_same]
    rfl
  · rw [lookup_insertKv_other _ _ _ _ (by decide), lookup_insertKv_other _ _ _ _ (by decide),
      lookup_insertKv_same]
    rfl
  · intro k hk
    simp only [List.mem_cons, List.not_mem_nil, or_false, not_or] at hk
    obtain ⟨h1, h2, h3, h4, h5, h6⟩ := hk
    rw [lookup_insertKv_other _ _ _ _ h6, lookup_insertKv_other _ _ _ _ h5, lookup_insertKv_other _ _ _ _ h4,
      lookup_insertKv_other _ _ _ _ h3, lookup_insertKv_other _ _ _ _ h2, lookup_insertKv_other _ _ _ _ h1]

/-- the summary plugin panics exactly on an output that is neither an object nor `null` (after a successful
search); unreachable from `apply_output_processing` -/
theorem summary_process_on_panic_iff (sr : SearchResult) (si : SummaryInput) (out : Json) :
    (match summaryProcessOn (some (sr, si)) out with | .panic => True | _ => False) ↔
      (out.isObject = false ∧ out.isNull = false) := by
  cases out <;> simp [summaryProcessOn, assignAll, Json.indexAssign, Json.isObject, Json.isNull]

/-- `add_od_uuids` (public helper): the two identifiers are written into the request object, everything else —
other request fields, other output keys, key order — stays -/
theorem add_od_uuids_result (out out' : Json) (ou du : String) (h : addOdUuids out ou du = .ok out') :
    ∃ kvs rq rq', out = .obj kvs ∧ Json.lookup kvs "request" = some (.obj rq) ∧
      out' = .obj (replaceKv kvs "request" (.obj rq')) ∧
      Json.lookup (replaceKv kvs "request" (.obj rq')) "request" = some (.obj rq') ∧
      Json.lookup rq' "origin_vertex_uuid" = some (.str ou) ∧
      Json.lookup rq' "destination_vertex_uuid" = some (.str du) ∧
      (∀ k, k ≠ "origin_vertex_uuid" → k ≠ "destination_vertex_uuid" → Json.lookup rq' k = Json.lookup rq k) ∧
      (∀ k, k ≠ "request" → Json.lookup (replaceKv kvs "request" (.obj rq')) k = Json.lookup kvs k) := by
  unfold addOdUuids at h
  cases out with
  | obj kvs =>
    simp only at h
    cases hl : Json.lookup kvs "request" with
    | none => simp [hl] at h
    | some r =>
      cases r with
      | obj rq =>
        simp only [hl] at h
        injection h with h
        refine ⟨kvs, rq, _, rfl, hl, h.symm, lookup_replaceKv_same kvs _ _ _ hl, ?_, ?_, ?_, ?_⟩
        · rw [lookup_insertKv_other _ _ _ _ (by decide), lookup_insertKv_same]
        · rw [lookup_insertKv_same]
        · intro k h1 h2
          rw [lookup_insertKv_other _ _ _ _ h2, lookup_insertKv_other _ _ _ _ h1]
        · intro k hk
          exact lookup_replaceKv_other kvs _ _ _ hk
      | null => simp [hl] at h
      | bool b => simp [hl] at h
      | num l b => simp [hl] at h
      | str s => simp [hl] at h
      | arr xs => simp [hl] at h
  | null => simp at h
  | bool b => simp at h
  | num l b => simp at h
  | str s => simp at h
  | arr xs => simp at h

/-- `get_route_geometry_wkt` (unused public helper) succeeds exactly on a string stored under `route` -/
theorem get_route_geometry_wkt_ok_iff (out : Json) (w : String) :
    getRouteGeometryWkt out = .ok w ↔ out.get? "route" = some (.str w) := by
  unfold getRouteGeometryWkt
  cases h : out.get? "route" with
  | none => simp
  | some j => cases j <;> simp

example : summaryProcessOn (some ({ routes := [[⟨1, 0, 0, []⟩, ⟨0, 0, 0, []⟩]], trees := [] },
      { executedTime := "t", runtime := "0:00:00.000", iterations := 3 })) .null =
    .ok (.obj [("search_executed_time", .str "t"), ("search_runtime", .str "0:00:00.000"), ("route_edges", jnat 2),
      ("tree_size_count", jnat 0), ("search_result_size_mib", .null), ("iterations", jnat 3)]) := by
  simp [summaryProcessOn, assignAll, Json.indexAssign, Json.insertKv, routeEdgesCount, treeSizeCount]
example : (match traversalProcessOn { geoms := tableOf [], route := some .edgeId, tree := none }
      (some { routes := [[⟨0, 0, 0, []⟩]], trees := [] }) false with | .panic => true | _ => false) = true := rfl

end C20
end Compass
