/-
C16 — map matching picks the nearest admissible element and honours the tolerance.

Model: `Compass/Model/MapMatch.lean` (the selection logic of `RTreePlugin::process` and
`EdgeRtreeInputPlugin::process`).  Squared coordinate distances, great-circle distances and the verdict
of the vehicle restrictions are input tables (computed by the harness with the real functions);
`rstar`'s nearest-first iteration order is the hypothesis `Sorted` (checked by the harness on every case).

This property is thin on proof content: once the distances are tables, "nearest" is "head of a sorted
list" and the tolerance rule is one comparison.  What the theorems do pin down is *which* comparison the
code makes, in which unit, on which quantity.  (Until it was fixed the edge matcher compared the squared
coordinate-DEGREE distance with the tolerance in METRES; the old witness is kept as a regression `example`.)
(Until it was fixed the vertex matcher rejected a distance exactly AT the tolerance; regression `example` kept.)

Second part (model `Compass/Model/MapMatchIO.lean`): the query readers / writers of `InputJsonExtensions`, the
two builders with `RTreePlugin::new` / `EdgeRtreeInputPlugin::new`, and the range checks of `haversine`.

Modelled rather than verified (inputs or assumptions of the model, guarded by the harness only):
* `distance_2` (squared coordinate distance to the vertex / to the CENTROID of the linestring, not to the
  linestring), the great-circle value of `haversine`, the verdict of the vehicle restrictions: input tables;
* `rstar`: that its nearest-first list is sorted is the hypothesis `Sorted`; that it is a permutation of ALL
  vertices / edges cannot be stated here (the model has no vertex set) — both checked on every generated case;
  `oc` and `dc` are unrelated lists in the theorems; on ties the harness puts `nearest_neighbor`'s choice first;
* exact arithmetic: every theorem is over a linearly ordered field; f32 coordinates, the f32 `haversine`, f64
  rounding in the unit conversion and NaN are outside;
* the builders: "file exists / parses (finite coordinates) / has n rows / contains an empty linestring / contains a
  linestring with a non-finite coordinate or centroid" are abstract booleans and counts (`fileParses`, `EdgeFiles`),
  not file contents; of `serde`'s alternative spellings only `{"<unit>": null}` and `[mapping]` are modelled;
* `within_tolerance`'s "empty linestring" error is merged into `gc = none`; the panic of
  `EdgeRtreeRecord::distance_2` on an empty linestring is not an outcome of the model — excluded for plugins made
  by the builder (`edge_builder_consistent`), reachable only through the `pub` fields;
* `VehicleParameters::from_query(..).ok()`: malformed vehicle parameters count as absent (inside the `vehOk` table).
-/
import Compass.Gen.Decisions
import Compass.Proofs.Num
import Compass.Model.MapMatch
import Compass.Proofs.MapMatch

namespace Compass
namespace C16

open MapMatch Json

set_option linter.unusedSectionVars false

section
variable {α : Type} [Field α] [LinearOrder α] [IsStrictOrderedRing α] [Lit α] [LawfulLit α]

/-! ### nearest vertex -/

/-- C16 (vertex, nearest): when the plugin succeeds, the id written to `origin_vertex` (and to
`destination_vertex` when the query has a destination) is that of a vertex minimising the squared
coordinate distance over ALL vertices — given that `rstar` lists candidates nearest first. -/
theorem vertex_match_is_argmin (tol : Option (α × DistanceUnit)) (q : Json) (oc dc : List (VCand α))
    (hso : Sorted VCand.d2 oc) (hsd : Sorted VCand.d2 dc)
    (hok : (vertexProcess tol q oc dc).err = none) :
    (∃ c ∈ oc, (∀ c' ∈ oc, c.d2 ≤ c'.d2) ∧
        (vertexProcess tol q oc dc).query.get? "origin_vertex" = some (idJson c.id)) ∧
    (destinationCoordinate q = .ok true →
      ∃ c ∈ dc, (∀ c' ∈ dc, c.d2 ≤ c'.d2) ∧
        (vertexProcess tol q oc dc).query.get? "destination_vertex" = some (idJson c.id)) := by
  obtain ⟨co, ro, kvs, rfl, _, rfl, hcase⟩ := vertexProcess_ok hok
  rcases hcase with ⟨hd, hq⟩ | ⟨hd, cd, rd, rfl, _, hq⟩
  · refine ⟨⟨co, List.mem_cons_self, hso.head_le, ?_⟩, ?_⟩
    · rw [hq]; exact lookup_insertKv_same _ _ _
    · intro h; rw [hd] at h; cases h
  · refine ⟨⟨co, List.mem_cons_self, hso.head_le, ?_⟩, fun _ => ⟨cd, List.mem_cons_self, hsd.head_le, ?_⟩⟩
    · rw [hq]
      show lookup _ "origin_vertex" = _
      rw [lookup_insertKv_other _ _ _ _ (by decide)]
      exact lookup_insertKv_same _ _ _
    · rw [hq]; exact lookup_insertKv_same _ _ _

/-- the exhaustive scan really is an arg-min, on any list -/
theorem scanMin_is_argmin (l : List (VCand α)) (m : VCand α) (h : scanMin l = some m) :
    m ∈ l ∧ ∀ c ∈ l, m.d2 ≤ c.d2 := by
  induction l generalizing m with
  | nil => simp [scanMin] at h
  | cons c rest ih =>
    unfold scanMin at h
    cases hr : scanMin rest with
    | none =>
      simp only [hr] at h
      injection h with h; subst h
      cases rest with
      | nil => simp
      | cons c2 r2 =>
        unfold scanMin at hr
        split at hr
        · cases hr
        · split at hr <;> cases hr
    | some m' =>
      obtain ⟨hm', hle⟩ := ih m' hr
      simp only [hr] at h
      split at h
      · next hc =>
        injection h with h; subst h
        refine ⟨List.mem_cons_self, ?_⟩
        intro c' hc'
        rcases List.mem_cons.mp hc' with rfl | hmem
        · exact le_refl _
        · exact le_trans hc (hle c' hmem)
      · next hc =>
        injection h with h; subst h
        refine ⟨List.mem_cons_of_mem _ hm', ?_⟩
        intro c' hc'
        rcases List.mem_cons.mp hc' with rfl | hmem
        · exact le_of_lt (not_le.mp hc)
        · exact hle c' hmem

/-- C16 (vertex, "identical to an exhaustive scan"): on a nearest-first list the matcher's choice is the
exhaustive scan's choice (the scan keeps the earlier of two equidistant candidates) -/
theorem vertex_match_eq_scan (l : List (VCand α)) (hs : Sorted VCand.d2 l) : nearestVertex l = scanMin l := by
  cases l with
  | nil => rfl
  | cons c rest =>
    unfold scanMin nearestVertex
    cases hr : scanMin rest with
    | none => rfl
    | some m =>
      have hm := (scanMin_is_argmin rest m hr).1
      have : c.d2 ≤ m.d2 := (List.pairwise_cons.mp hs).1 m hm
      simp [this]

/-! ### vertex tolerance -/

/-- C16 (vertex, tolerance): for a query with well-formed coordinate fields the plugin succeeds exactly
when the nearest vertex of the origin — and of the destination, if there is one — passes the code's
comparison `distance (converted into the tolerance unit) ≤ tolerance`; without a configured tolerance it
succeeds whenever the network has a vertex. -/
theorem vertex_tolerance (tol : Option (α × DistanceUnit)) (kvs : List (String × Json)) (oc dc : List (VCand α))
    (hasDst : Bool) (ho : originCoordinate (.obj kvs) = .ok ())
    (hd : destinationCoordinate (.obj kvs) = .ok hasDst) :
    (vertexProcess tol (.obj kvs) oc dc).err = none ↔
      (∃ c, oc.head? = some c ∧ Passes tol c) ∧ (hasDst = true → ∃ c, dc.head? = some c ∧ Passes tol c) := by
  constructor
  · intro h
    obtain ⟨co, ro, kvs', rfl, hv, _, hcase⟩ := vertexProcess_ok h
    refine ⟨⟨co, rfl, (validateTolerance_ok_iff _ _).mp hv⟩, ?_⟩
    intro hdst
    rcases hcase with ⟨hd', _⟩ | ⟨_, cd, rd, rfl, hv2, _⟩
    · rw [hd] at hd'; injection hd' with hd'; rw [hd'] at hdst; cases hdst
    · exact ⟨cd, rfl, (validateTolerance_ok_iff _ _).mp hv2⟩
  · rintro ⟨⟨co, hco, hpo⟩, hdst⟩
    cases oc with
    | nil => simp at hco
    | cons c ro =>
      simp only [List.head?_cons, Option.some.injEq] at hco; subst hco
      have hvo := (validateTolerance_ok_iff tol c).mpr hpo
      cases hasDst with
      | false => simp [vertexProcess, ho, hd, matchVertexInto, nearestVertex, hvo, addField]
      | true =>
        obtain ⟨cd, hcd, hpd⟩ := hdst rfl
        cases dc with
        | nil => simp at hcd
        | cons c2 rd =>
          simp only [List.head?_cons, Option.some.injEq] at hcd; subst hcd
          have hvd := (validateTolerance_ok_iff tol c2).mpr hpd
          simp [vertexProcess, ho, hd, matchVertexInto, nearestVertex, hvo, hvd, addField]

/-- C16 (vertex, tolerance, the error side): with tolerance `t` in unit `u`, a nearest vertex whose
great-circle distance `g` satisfies `t < convert(g, metres → u)` makes the plugin fail with the tolerance
error and never a match. -/
theorem vertex_beyond_tolerance_is_error (t : α) (u : DistanceUnit) (kvs : List (String × Json))
    (c : VCand α) (ro dc : List (VCand α)) (g : α) (hasDst : Bool)
    (ho : originCoordinate (.obj kvs) = .ok ()) (hd : destinationCoordinate (.obj kvs) = .ok hasDst)
    (hg : c.gc = some g) (hbeyond : t < DistanceUnit.meters.convert u g) :
    vertexProcess (some (t, u)) (.obj kvs) (c :: ro) dc = ⟨some .beyondTolerance, .obj kvs⟩ := by
  have hv := (validateTolerance_beyond_iff t u c).mpr ⟨g, hg, hbeyond⟩
  simp [vertexProcess, ho, hd, matchVertexInto, nearestVertex, hv]

/-- C16 (vertex, tolerance, the destination's error side): the origin matched, the destination's nearest vertex is
beyond the tolerance: the plugin fails with the tolerance error — and, because the origin was written before the
destination was examined, the query it leaves behind carries `origin_vertex` (the `Result` is an error and no
search runs; only the echoed request shows it).  So "an error and never a match" holds of the RESULT, and of the
destination field, not of the whole mutated query (`vertex_error_writes_at_most_origin`). -/
theorem vertex_destination_beyond_tolerance_is_error (t : α) (u : DistanceUnit) (kvs : List (String × Json))
    (co cd : VCand α) (ro rd : List (VCand α)) (gd : α)
    (ho : originCoordinate (.obj kvs) = .ok ()) (hd : destinationCoordinate (.obj kvs) = .ok true)
    (hpo : Passes (some (t, u)) co) (hg : cd.gc = some gd) (hbeyond : t < DistanceUnit.meters.convert u gd) :
    vertexProcess (some (t, u)) (.obj kvs) (co :: ro) (cd :: rd) =
      ⟨some .beyondTolerance, .obj (insertKv kvs "origin_vertex" (idJson co.id))⟩ := by
  have hvo := (validateTolerance_ok_iff (some (t, u)) co).mpr hpo
  have hvd := (validateTolerance_beyond_iff t u cd).mpr ⟨gd, hg, hbeyond⟩
  simp [vertexProcess, ho, hd, matchVertexInto, nearestVertex, hvo, hvd, addField, Field.name]

/-- regression: the witness of the former defect `vertex-match/tolerance-boundary` (a vertex exactly 100 m
away, tolerance 100 m) now passes the tolerance test -/
example : validateTolerance (some ((100 : ℚ), DistanceUnit.meters)) ⟨0, 1 / 1000000, some 100⟩ = .ok () := by
  simp [validateTolerance, DistanceUnit.convert, DistanceUnit.factor, Factor.apply]

/-- the same comparison read in metres: the code's table factor `k(u)` (units of `u` per metre) is
positive, so `convert(g) ≤ t` is `g ≤ t / k(u)`: the tolerance cut-off sits at `t / k(u)` metres -/
theorem vertex_tolerance_in_metres (t g : α) (u : DistanceUnit) :
    0 < ((DistanceUnit.factor .meters u).ratio : α) ∧
    (DistanceUnit.meters.convert u g ≤ t ↔ g ≤ t / ((DistanceUnit.factor .meters u).ratio : α)) := by
  have hpos : 0 < ((DistanceUnit.factor .meters u).ratio : α) := by
    exact_mod_cast Factor.ratio_pos _ (meters_factor_wf u)
  refine ⟨hpos, ?_⟩
  unfold DistanceUnit.convert
  rw [Factor.apply_eq, le_div_iff₀ hpos]

/-! ### nearest admissible edge -/

/-- C16 (edge, first admissible): a match is the first admissible candidate of the nearest-first list;
every candidate before it was inadmissible (and had a road class wherever the filter asked for one), and it
passed the tolerance test. -/
theorem edge_match_first_admissible (tol : Option (α × DistanceUnit)) (classes : Option (List Nat))
    (hasLookup : Bool) (cands : List (ECand α)) (id : Nat)
    (h : searchEdge tol classes hasLookup cands = .ok (some id)) :
    ∃ pre c post, cands = pre ++ c :: post ∧ c.id = id ∧ Admissible classes hasLookup c ∧
      (∀ c' ∈ pre, ¬ Admissible classes hasLookup c') ∧ withinTolerance tol c = .ok true ∧
      LookupCovers classes hasLookup pre := by
  induction cands with
  | nil => simp [searchEdge] at h
  | cons c rest ih =>
    unfold searchEdge at h
    split at h
    · cases h
    · next vc hvc =>
      split at h
      · next hboth =>
        simp only [Bool.and_eq_true] at hboth
        split at h
        · cases h
        · next w hw =>
          split at h
          · next hwt =>
            injection h with h; injection h with h
            subst hwt
            exact ⟨[], c, rest, rfl, h, ⟨by rw [hvc, hboth.1], hboth.2⟩, by simp, hw, by intro _ _ c' hc'; simp at hc'⟩
          · cases h
      · next hboth =>
        obtain ⟨pre, c1, post, rfl, hid, hadm, hpre, hwt, hcov⟩ := ih h
        refine ⟨c :: pre, c1, post, rfl, hid, hadm, ?_, hwt, ?_⟩
        · intro c' hc'
          rcases List.mem_cons.mp hc' with rfl | hm
          · rintro ⟨h1, h2⟩
            rw [hvc] at h1; injection h1 with h1
            apply hboth; simp [h1, h2]
          · exact hpre c' hm
        · intro hl hc c' hc'
          rcases List.mem_cons.mp hc' with rfl | hm
          · intro hnone
            have : validClass classes true c' = .error .roadClassMissing := by
              cases classes with
              | none => simp at hc
              | some cs => simp [validClass, hnone]
            rw [hl] at hvc; rw [hvc] at this; cases this
          · exact hcov hl hc c' hm

/-- C16 (edge, nearest admissible): on a nearest-first list the match is admissible and no admissible
candidate is strictly nearer (under the plugin's distance measure) -/
theorem edge_match_is_nearest_admissible (tol : Option (α × DistanceUnit))
    (classes : Option (List Nat)) (hasLookup : Bool) (cands : List (ECand α)) (id : Nat)
    (hs : Sorted ECand.d2 cands) (h : searchEdge tol classes hasLookup cands = .ok (some id)) :
    ∃ c ∈ cands, c.id = id ∧ Admissible classes hasLookup c ∧
      ∀ c' ∈ cands, Admissible classes hasLookup c' → c.d2 ≤ c'.d2 := by
  obtain ⟨pre, c, post, rfl, hid, hadm, hpre, _, _⟩ := edge_match_first_admissible tol classes hasLookup cands id h
  refine ⟨c, by simp, hid, hadm, ?_⟩
  intro c' hc' hadm'
  rcases List.mem_append.mp hc' with hm | hm
  · exact absurd hadm' (hpre c' hm)
  · have hs2 : Sorted ECand.d2 (c :: post) := (List.pairwise_append.mp hs).2.1
    exact hs2.head_le c' hm

/-- C16 (edge, what is written): when the edge plugin succeeds, `origin_edge` holds the result of the
search from the origin and — if the query has a destination — `destination_edge` that of the search from
the destination, both run with the road classes read from the query (`edge_match_is_nearest_admissible`
says what a search result is). -/
theorem edge_process_writes_matches (tol : Option (α × DistanceUnit))
    (mapping : List (String × Nat)) (hasLookup : Bool) (q : Json) (oc dc : List (ECand α))
    (hok : (edgeProcess tol mapping hasLookup q oc dc).err = none) :
    ∃ classes eo, readRoadClasses mapping q = .ok classes ∧
      searchEdge tol classes hasLookup oc = .ok (some eo) ∧
      (edgeProcess tol mapping hasLookup q oc dc).query.get? "origin_edge" = some (idJson eo) ∧
      (destinationCoordinate q = .ok true → ∃ ed, searchEdge tol classes hasLookup dc = .ok (some ed) ∧
        (edgeProcess tol mapping hasLookup q oc dc).query.get? "destination_edge" = some (idJson ed)) := by
  unfold edgeProcess at hok ⊢
  cases hr : readRoadClasses mapping q with
  | error e => simp [hr] at hok
  | ok classes =>
    cases ho : originCoordinate q with
    | error e => simp [hr, ho] at hok
    | ok _ =>
      cases hd : destinationCoordinate q with
      | error e => simp [hr, ho, hd] at hok
      | ok hasDst =>
        cases hso : searchEdge tol classes hasLookup oc with
        | error e => simp [hr, ho, hd, searchEdge!, hso] at hok
        | ok ro =>
          cases ro with
          | none => simp [hr, ho, hd, searchEdge!, hso] at hok
          | some eo =>
            refine ⟨classes, eo, rfl, hso, ?_⟩
            cases q with
            | obj kvs =>
              cases hasDst with
              | false =>
                refine ⟨?_, fun h => by cases h⟩
                simp only [searchEdge!, hso, addField_obj, Bool.false_eq_true, if_false]
                exact lookup_insertKv_same _ _ _
              | true =>
                cases hsd : searchEdge tol classes hasLookup dc with
                | error e => simp [hr, ho, hd, searchEdge!, hso, hsd] at hok
                | ok rd =>
                  cases rd with
                  | none => simp [hr, ho, hd, searchEdge!, hso, hsd] at hok
                  | some ed =>
                    simp only [searchEdge!, hso, hsd, addField_obj, if_true]
                    refine ⟨?_, fun _ => ⟨ed, rfl, lookup_insertKv_same _ _ _⟩⟩
                    show lookup _ "origin_edge" = _
                    rw [lookup_insertKv_other _ _ _ _ (by decide)]
                    exact lookup_insertKv_same _ _ _
            | null => simp [numField, originCoordinate, Json.get?] at ho
            | bool b => simp [numField, originCoordinate, Json.get?] at ho
            | num l b => simp [numField, originCoordinate, Json.get?] at ho
            | str s => simp [numField, originCoordinate, Json.get?] at ho
            | arr xs => simp [numField, originCoordinate, Json.get?] at ho

/-! ### edge tolerance -/

/-- the search reaches the first admissible candidate and decides on it alone.  `hcov` is needed only when a
road-class lookup is loaded and the query filters by class: it excludes the "road class file missing edge"
error on a skipped candidate, which no plugin made by the builder can hit (`edge_builder_consistent`). -/
theorem searchEdge_first_admissible (tol : Option (α × DistanceUnit)) (classes : Option (List Nat))
    (hasLookup : Bool) (pre post : List (ECand α)) (c : ECand α)
    (hcov : LookupCovers classes hasLookup pre) (hpre : ∀ c' ∈ pre, ¬ Admissible classes hasLookup c')
    (hadm : Admissible classes hasLookup c) :
    searchEdge tol classes hasLookup (pre ++ c :: post) =
      match withinTolerance tol c with
      | .error e => .error e
      | .ok w => if w then .ok (some c.id) else .ok none := by
  induction pre with
  | nil =>
    obtain ⟨h1, h2⟩ := hadm
    simp only [List.nil_append, searchEdge, h1, h2, Bool.and_self, if_true]
    cases withinTolerance tol c <;> rfl
  | cons p rest ih =>
    simp only [List.cons_append]
    unfold searchEdge
    cases hvc : validClass classes hasLookup p with
    | error e =>
      obtain ⟨_, h2, h3, h4⟩ := validClass_error classes hasLookup p e hvc
      exact absurd h4 (hcov h2 h3 p List.mem_cons_self)
    | ok vc =>
      simp only
      split
      · next hboth =>
        exfalso
        simp only [Bool.and_eq_true] at hboth
        exact hpre p List.mem_cons_self ⟨by rw [hvc, hboth.1], hboth.2⟩
      · exact ih hcov.tail (fun c' hc' => hpre c' (List.mem_cons_of_mem _ hc'))

/-- the search matches `id` exactly when the list has a nearest admissible candidate `id` that passes the
tolerance test -/
theorem edge_search_matches_iff (tol : Option (α × DistanceUnit)) (classes : Option (List Nat))
    (hasLookup : Bool) (cands : List (ECand α)) (id : Nat) :
    searchEdge tol classes hasLookup cands = .ok (some id) ↔ Matchable tol classes hasLookup cands id := by
  constructor
  · intro h
    obtain ⟨pre, c, post, hsplit, hid, hadm, hpre, hwt, hcov⟩ := edge_match_first_admissible tol classes hasLookup cands id h
    exact ⟨pre, c, post, hsplit, hid, hcov, hpre, hadm, (withinTolerance_ok_true_iff tol c).mp hwt⟩
  · rintro ⟨pre, c, post, rfl, rfl, hcov, hpre, hadm, hpass⟩
    rw [searchEdge_first_admissible tol classes hasLookup pre post c hcov hpre hadm,
      (withinTolerance_ok_true_iff tol c).mpr hpass]
    rfl

/-- C16 (edge, tolerance, search level): let `c` be the nearest admissible candidate (the first admissible one
of the nearest-first list) and `g` its great-circle distance in metres.  With tolerance `t` in unit `u` the
search matches `c` when `convert(g, metres → u) ≤ t` and matches nothing when it is beyond.  (If `c.gc = none`
— `haversine` refuses the coordinate — the search is an error: `searchEdge_first_admissible`.) -/
theorem edge_tolerance (t : α) (u : DistanceUnit) (classes : Option (List Nat)) (hasLookup : Bool)
    (pre post : List (ECand α)) (c : ECand α) (g : α)
    (hcov : LookupCovers classes hasLookup pre) (hpre : ∀ c' ∈ pre, ¬ Admissible classes hasLookup c')
    (hadm : Admissible classes hasLookup c) (hg : c.gc = some g) :
    (DistanceUnit.meters.convert u g ≤ t →
      searchEdge (some (t, u)) classes hasLookup (pre ++ c :: post) = .ok (some c.id)) ∧
    (t < DistanceUnit.meters.convert u g →
      searchEdge (some (t, u)) classes hasLookup (pre ++ c :: post) = .ok none) := by
  rw [searchEdge_first_admissible _ classes hasLookup pre post c hcov hpre hadm]
  constructor
  · intro h; simp [withinTolerance, hg, h]
  · intro h; simp [withinTolerance, hg, not_le.mpr h]

/-- regression: the witness of the former defect `edge-match/tolerance-units` (an edge 333.58 m away,
`distance_2 = 0.000009` deg², tolerance 1 m) is no longer matched -/
example : searchEdge (some ((1 : ℚ), DistanceUnit.meters)) none false
    [⟨0, 9 / 1000000, none, true, some (33358 / 100)⟩] = .ok none := by
  simp [searchEdge, withinTolerance, validClass, DistanceUnit.convert, DistanceUnit.factor, Factor.apply]; norm_num

/-- without a configured tolerance the edge matcher returns the first admissible candidate whenever there
is one -/
theorem edge_no_tolerance_matches (classes : Option (List Nat)) (hasLookup : Bool)
    (cands : List (ECand α)) (hcov : LookupCovers classes hasLookup cands)
    (hex : ∃ c ∈ cands, Admissible classes hasLookup c) :
    ∃ id, searchEdge none classes hasLookup cands = .ok (some id) := by
  obtain ⟨cstar, hmem, hadm⟩ := hex
  induction cands with
  | nil => simp at hmem
  | cons c rest ih =>
    unfold searchEdge
    cases hvc : validClass classes hasLookup c with
    | error e =>
      obtain ⟨_, h2, h3, h4⟩ := validClass_error classes hasLookup c e hvc
      exact absurd h4 (hcov h2 h3 c List.mem_cons_self)
    | ok vc =>
      simp only
      split
      · exact ⟨c.id, by simp [withinTolerance]⟩
      · next hboth =>
        rcases List.mem_cons.mp hmem with rfl | hm
        · exfalso; apply hboth
          obtain ⟨h1, h2⟩ := hadm
          rw [hvc] at h1; injection h1 with h1
          simp [h1, h2]
        · exact ih hcov.tail hm

/-- the plugin succeeds as soon as the road classes are readable, the coordinate fields are well formed and the
search from the origin — and from the destination, if there is one — finds an edge -/
theorem edge_process_succeeds (tol : Option (α × DistanceUnit)) (mapping : List (String × Nat)) (hasLookup : Bool)
    (kvs : List (String × Json)) (oc dc : List (ECand α)) (classes : Option (List Nat)) (hasDst : Bool) (eo : Nat)
    (hr : readRoadClasses mapping (.obj kvs) = .ok classes)
    (ho : originCoordinate (.obj kvs) = .ok ()) (hd : destinationCoordinate (.obj kvs) = .ok hasDst)
    (hso : searchEdge tol classes hasLookup oc = .ok (some eo))
    (hsd : hasDst = true → ∃ ed, searchEdge tol classes hasLookup dc = .ok (some ed)) :
    (edgeProcess tol mapping hasLookup (.obj kvs) oc dc).err = none := by
  cases hasDst with
  | false => simp [edgeProcess, hr, ho, hd, searchEdge!, hso, addField]
  | true =>
    obtain ⟨ed, hed⟩ := hsd rfl
    simp [edgeProcess, hr, ho, hd, searchEdge!, hso, hed, addField]

/-- C16 (edge, tolerance, the PLUGIN): for a query with readable road classes and well-formed coordinate fields,
`EdgeRtreeInputPlugin::process` succeeds exactly when the origin — and the destination, if there is one — has a
nearest admissible candidate (first admissible in the nearest-first list, the skipped ones inadmissible) whose
great-circle distance, converted into the tolerance unit, is ≤ the tolerance (any such candidate when no tolerance
is configured).  "Beyond the tolerance yields an error and never a match; within tolerance always matches."
`Matchable` on the right-hand side carries `LookupCovers` of the skipped candidates (a skipped candidate
without a lookup entry is an error of the plugin, not a skip). -/
theorem edge_tolerance_process (tol : Option (α × DistanceUnit)) (mapping : List (String × Nat)) (hasLookup : Bool)
    (kvs : List (String × Json)) (oc dc : List (ECand α)) (classes : Option (List Nat)) (hasDst : Bool)
    (hr : readRoadClasses mapping (.obj kvs) = .ok classes)
    (ho : originCoordinate (.obj kvs) = .ok ()) (hd : destinationCoordinate (.obj kvs) = .ok hasDst) :
    (edgeProcess tol mapping hasLookup (.obj kvs) oc dc).err = none ↔
      (∃ id, Matchable tol classes hasLookup oc id) ∧ (hasDst = true → ∃ id, Matchable tol classes hasLookup dc id) := by
  constructor
  · intro h
    obtain ⟨classes', eo, hr', hso, _, hdst⟩ := edge_process_writes_matches tol mapping hasLookup (.obj kvs) oc dc h
    rw [hr] at hr'; injection hr' with hr'; subst hr'
    refine ⟨⟨eo, (edge_search_matches_iff _ _ _ _ _).mp hso⟩, ?_⟩
    intro hdt
    subst hdt
    obtain ⟨ed, hsd, _⟩ := hdst hd
    exact ⟨ed, (edge_search_matches_iff _ _ _ _ _).mp hsd⟩
  · rintro ⟨⟨eo, ho'⟩, hdst⟩
    refine edge_process_succeeds tol mapping hasLookup kvs oc dc classes hasDst eo hr ho hd
      ((edge_search_matches_iff _ _ _ _ _).mpr ho') ?_
    intro hdt
    obtain ⟨ed, hm⟩ := hdst hdt
    exact ⟨ed, (edge_search_matches_iff _ _ _ _ _).mpr hm⟩

/-- C16 (edge, tolerance, the error side at the plugin): when the origin's nearest admissible candidate lies
beyond the tolerance the plugin answers "unable to match" and the query is exactly as it was — whatever the
destination. -/
theorem edge_beyond_tolerance_is_error (t : α) (u : DistanceUnit) (mapping : List (String × Nat)) (hasLookup : Bool)
    (kvs : List (String × Json)) (pre post dc : List (ECand α)) (c : ECand α) (g : α)
    (classes : Option (List Nat)) (hasDst : Bool)
    (hr : readRoadClasses mapping (.obj kvs) = .ok classes)
    (ho : originCoordinate (.obj kvs) = .ok ()) (hd : destinationCoordinate (.obj kvs) = .ok hasDst)
    (hcov : LookupCovers classes hasLookup pre) (hpre : ∀ c' ∈ pre, ¬ Admissible classes hasLookup c')
    (hadm : Admissible classes hasLookup c) (hg : c.gc = some g) (hbeyond : t < DistanceUnit.meters.convert u g) :
    edgeProcess (some (t, u)) mapping hasLookup (.obj kvs) (pre ++ c :: post) dc = ⟨some .noEdgeMatch, .obj kvs⟩ := by
  have hs := (edge_tolerance t u classes hasLookup pre post c g hcov hpre hadm hg).2 hbeyond
  simp [edgeProcess, hr, ho, hd, searchEdge!, hs]

/-! ### all other fields are left unchanged -/

/-- C16 (other fields, vertex matcher): whatever the outcome, every key other than `origin_vertex` /
`destination_vertex` keeps its value and the other keys keep their relative order; a query that is not a
JSON object is left as it is. -/
theorem vertex_other_fields_unchanged (tol : Option (α × DistanceUnit)) (q : Json) (oc dc : List (VCand α)) :
    SameOthers ["origin_vertex", "destination_vertex"] q (vertexProcess tol q oc dc).query := by
  unfold vertexProcess
  split
  · exact SameOthers.refl _ _
  · split
    · exact SameOthers.refl _ _
    · split
      · exact SameOthers.refl _ _
      · next q1 hm =>
        have h1 : SameOthers ["origin_vertex", "destination_vertex"] q q1 :=
          matchVertexInto_sameOthers (by decide) hm
        split
        · split
          · exact h1
          · next q2 hm2 => exact h1.trans (matchVertexInto_sameOthers (by decide) hm2)
        · exact h1

/-- C16 (vertex matcher, what an error can leave behind): when the vertex plugin fails, at most
`origin_vertex` has been written (the origin is matched and written before the destination is examined);
`destination_vertex` and every other field are as they were. -/
theorem vertex_error_writes_at_most_origin (tol : Option (α × DistanceUnit)) (q : Json) (oc dc : List (VCand α))
    (h : (vertexProcess tol q oc dc).err ≠ none) :
    SameOthers ["origin_vertex"] q (vertexProcess tol q oc dc).query := by
  unfold vertexProcess at h ⊢
  split
  · exact SameOthers.refl _ _
  · split
    · exact SameOthers.refl _ _
    · split
      · exact SameOthers.refl _ _
      · next q1 hm =>
        have h1 : SameOthers ["origin_vertex"] q q1 := matchVertexInto_sameOthers (by decide) hm
        split
        · split
          · exact h1
          · simp_all
        · simp_all

/-- C16 (other fields, edge matcher): as above for `origin_edge` / `destination_edge`. -/
theorem edge_other_fields_unchanged (tol : Option (α × DistanceUnit))
    (mapping : List (String × Nat)) (hasLookup : Bool) (q : Json) (oc dc : List (ECand α)) :
    SameOthers ["origin_edge", "destination_edge"] q (edgeProcess tol mapping hasLookup q oc dc).query := by
  unfold edgeProcess
  split
  · exact SameOthers.refl _ _
  · split
    · exact SameOthers.refl _ _
    · split
      · exact SameOthers.refl _ _
      · split
        · exact SameOthers.refl _ _
        · split
          · split
            · exact SameOthers.refl _ _
            · split
              · exact SameOthers.refl _ _
              · next q1 h1 =>
                have s1 : SameOthers ["origin_edge", "destination_edge"] q q1 := addField_sameOthers (by decide) h1
                split
                · exact s1
                · next q2 h2 => exact s1.trans (addField_sameOthers (by decide) h2)
          · split
            · exact SameOthers.refl _ _
            · next q1 h1 => exact addField_sameOthers (by decide) h1

/-- C16 (edge matcher, an error is never a match): when the edge plugin fails, the query is exactly as it
was — no `origin_edge` / `destination_edge` is written.  (The vertex plugin differs: it writes
`origin_vertex` before it looks at the destination, see `vertexProcess`.) -/
theorem edge_error_leaves_query (tol : Option (α × DistanceUnit))
    (mapping : List (String × Nat)) (hasLookup : Bool) (q : Json) (oc dc : List (ECand α))
    (h : (edgeProcess tol mapping hasLookup q oc dc).err ≠ none) :
    (edgeProcess tol mapping hasLookup q oc dc).query = q := by
  unfold edgeProcess at h ⊢
  split
  · rfl
  · split
    · rfl
    · split
      · rfl
      · split
        · rfl
        · split
          · split
            · rfl
            · split
              · rfl
              · next q1 h1 =>
                obtain ⟨kvs, rfl, rfl⟩ := addField_ok h1
                simp only [addField_obj] at h ⊢
                simp_all
          · split
            · rfl
            · simp_all

/-! ### the destination is optional -/

/-- C16 (destination optional): a query without destination coordinates is matched on its origin alone —
the outcome does not depend on the destination table, and only `origin_vertex` may change. -/
theorem vertex_destination_optional (tol : Option (α × DistanceUnit)) (q : Json) (oc dc dc' : List (VCand α))
    (hd : q.get? "destination_x" = none ∧ q.get? "destination_y" = none) :
    vertexProcess tol q oc dc = vertexProcess tol q oc dc' ∧
    SameOthers ["origin_vertex"] q (vertexProcess tol q oc dc).query := by
  have hd' := (destinationCoordinate_false_iff q).mpr hd
  constructor
  · unfold vertexProcess
    rw [hd']
    split
    · rfl
    · simp
  · unfold vertexProcess
    rw [hd']
    split
    · exact SameOthers.refl _ _
    · simp only
      split
      · exact SameOthers.refl _ _
      · next q1 hm =>
        simp only [Bool.false_eq_true, if_false]
        exact matchVertexInto_sameOthers (by decide) hm

theorem edge_destination_optional (tol : Option (α × DistanceUnit))
    (mapping : List (String × Nat)) (hasLookup : Bool) (q : Json) (oc dc dc' : List (ECand α))
    (hd : q.get? "destination_x" = none ∧ q.get? "destination_y" = none) :
    edgeProcess tol mapping hasLookup q oc dc = edgeProcess tol mapping hasLookup q oc dc' ∧
    SameOthers ["origin_edge"] q (edgeProcess tol mapping hasLookup q oc dc).query := by
  have hd' := (destinationCoordinate_false_iff q).mpr hd
  constructor
  · unfold edgeProcess
    rw [hd']
    split
    · rfl
    · split
      · rfl
      · simp
  · unfold edgeProcess
    rw [hd']
    split
    · exact SameOthers.refl _ _
    · split
      · exact SameOthers.refl _ _
      · simp only
        split
        · exact SameOthers.refl _ _
        · simp only [Bool.false_eq_true, if_false]
          split
          · exact SameOthers.refl _ _
          · next q1 h1 => exact addField_sameOthers (by decide) h1

/-! ### reading the query: coordinates, and the ids the matchers wrote -/

/-- consistency of the MODEL (not a statement about the code): the coordinate readers used inside the two
`process` models are the value-returning readers of `MapMatchIO` with the value dropped — same acceptance, same
error, field by field.  Both model one Rust function each; what ties them to it is the correspondence run. -/
theorem coordinate_readers_agree (q : Json) :
    originCoordinate q = (originCoordinateBits q).map (fun _ => ()) ∧
    destinationCoordinate q = (destinationCoordinateBits q).map Option.isSome := by
  constructor
  · unfold originCoordinate originCoordinateBits numField numFieldBits
    cases q.get? Field.originX.name with
    | none => rfl
    | some x =>
      cases x <;> simp [Json.isNumber, Json.asF64Bits?, Except.map] <;>
      (cases q.get? Field.originY.name with
        | none => rfl
        | some y => cases y <;> simp [Json.isNumber, Json.asF64Bits?])
  · unfold destinationCoordinate destinationCoordinateBits
    cases q.get? Field.destinationX.name with
    | none => cases q.get? Field.destinationY.name <;> rfl
    | some x =>
      cases q.get? Field.destinationY.name with
      | none => rfl
      | some y => cases x <;> cases y <;> simp [Json.isNumber, Json.asF64Bits?, Except.map]

/-- C16 (the match can be read back): whatever id (below 2^64, i.e. any `usize`) one of the four writers puts
into a query, the corresponding reader of `InputJsonExtensions` returns exactly that id — also when the key was
there before, whatever it held. -/
theorem written_id_reads_back (q q' : Json) (n : Nat) (hn : n < 2 ^ 64) :
    (addField q .originVertex n = .ok q' → getOriginVertex q' = .ok n) ∧
    (addField q .destinationVertex n = .ok q' → getDestinationVertex q' = .ok (some n)) ∧
    (addField q .originEdge n = .ok q' → getOriginEdge q' = .ok n) ∧
    (addField q .destinationEdge n = .ok q' → getDestinationEdge q' = .ok (some n)) := by
  refine ⟨?_, ?_, ?_, ?_⟩ <;> intro h <;> obtain ⟨kvs, rfl, rfl⟩ := addField_ok h <;>
    simp [getOriginVertex, getDestinationVertex, getOriginEdge, getDestinationEdge, getRequiredId, getOptionalId,
      Json.get?, lookup_insertKv_same, asU64_idJson n hn]

/-- C16 (vertex, end to end): after a successful vertex match the search application reads, through
`get_origin_vertex`, the id of a vertex that minimises the squared coordinate distance over all vertices. -/
theorem vertex_match_reads_back_argmin (tol : Option (α × DistanceUnit)) (q : Json) (oc dc : List (VCand α))
    (hso : Sorted VCand.d2 oc) (hsd : Sorted VCand.d2 dc) (hid : ∀ c ∈ oc, c.id < 2 ^ 64)
    (hok : (vertexProcess tol q oc dc).err = none) :
    ∃ c ∈ oc, (∀ c' ∈ oc, c.d2 ≤ c'.d2) ∧ getOriginVertex (vertexProcess tol q oc dc).query = .ok c.id := by
  obtain ⟨⟨c, hc, hmin, hget⟩, _⟩ := vertex_match_is_argmin tol q oc dc hso hsd hok
  refine ⟨c, hc, hmin, ?_⟩
  unfold getOriginVertex getRequiredId
  show (match (vertexProcess tol q oc dc).query.get? "origin_vertex" with | none => _ | some v => _) = _
  rw [hget]
  simp [asU64_idJson c.id (hid c hc)]

/-- the two reader shapes only ever blame the field they are given.  This holds by the way `getRequiredId` /
`getOptionalId` are written; that `get_destination_edge` IS `getOptionalId .destinationEdge` (the code used to
pass `origin_edge` to the error) is a fact about the model's definition, tied to the code by the `x getde`
correspondence stream and the oracle key `ext/error-names-wrong-field`, not by this theorem. -/
theorem id_reader_errors_name_their_field (q : Json) (f : Field) (e : Err) :
    (getRequiredId q f = .error e → e = .missingField f ∨ e = .invalidType f) ∧
    (getOptionalId q f = .error e → e = .invalidType f) := by
  constructor
  · unfold getRequiredId
    intro h
    split at h
    · injection h with h; exact Or.inl h.symm
    · split at h
      · cases h
      · injection h with h; exact Or.inr h.symm
  · unfold getOptionalId
    intro h
    split at h
    · cases h
    · split at h
      · cases h
      · injection h with h; exact h.symm

/-- the writers refuse exactly the values that are not objects, and leave them alone -/
theorem writer_refuses_non_objects (q : Json) (f : Field) (n : Nat) :
    (∃ q', addField q f n = .ok q') ↔ q.isObject = true := by
  cases q <;> simp [addField, Json.isObject]

/-- the remaining accessors of `InputJsonExtensions` (they belong to the load balancer and to grid search, not
to map matching): a query weight estimate written by `add_query_weight_estimate` reads back through
`get_query_weight_estimate`, the writer refuses exactly non-objects, and it does not disturb `grid_search` -/
theorem weight_estimate_reads_back (q : Json) (lexeme : String) (bits : Nat) :
    ((∃ q', addQueryWeightEstimate q lexeme bits = .ok q') ↔ q.isObject = true) ∧
    (∀ q', addQueryWeightEstimate q lexeme bits = .ok q' →
      getQueryWeightEstimate q' = .ok (some bits) ∧ getGridSearch q' = getGridSearch q) := by
  constructor
  · cases q <;> simp [addQueryWeightEstimate, Json.isObject]
  · intro q' h
    cases q with
    | obj kvs =>
      simp only [addQueryWeightEstimate] at h
      injection h with h; subst h
      constructor
      · simp [getQueryWeightEstimate, Json.get?, lookup_insertKv_same, Json.asF64Bits?]
      · simp only [getGridSearch, Json.get?]
        exact lookup_insertKv_other _ _ _ _ (by decide)
    | null => simp [addQueryWeightEstimate] at h
    | bool b => simp [addQueryWeightEstimate] at h
    | num l b => simp [addQueryWeightEstimate] at h
    | str s => simp [addQueryWeightEstimate] at h
    | arr xs => simp [addQueryWeightEstimate] at h

/-- writing over a key that is already there keeps every key where it was; a new key goes last -/
theorem writer_keeps_key_order (kvs : List (String × Json)) (f : Field) (n : Nat) :
    (kvs.any (fun p => p.1 == f.name) = true →
      (insertKv kvs f.name (idJson n)).map Prod.fst = kvs.map Prod.fst) ∧
    (¬ kvs.any (fun p => p.1 == f.name) = true →
      (insertKv kvs f.name (idJson n)).map Prod.fst = kvs.map Prod.fst ++ [f.name]) :=
  ⟨keys_insertKv_of_mem kvs _ _, keys_insertKv_of_not_mem kvs _ _⟩

/-! ### the builders -/

/-- the tolerance a configuration yields: none without `distance_tolerance` (a lone `distance_unit` is
ignored), metres when only the tolerance is given, the stated unit otherwise.  This restates the four arms of
`resolveTolerance` (it holds by `rfl`); its content is that the default unit, taken from the translator-generated
`baseDistanceUnit`, is metres.  That the code's `match` has these arms is checked by the `b` streams. -/
theorem builder_tolerance_resolution (t : Nat) (u : DistanceUnit) :
    resolveTolerance (none : Option Nat) (none : Option DistanceUnit) = none ∧
    resolveTolerance (none : Option Nat) (some u) = none ∧
    resolveTolerance (some t) none = some (t, DistanceUnit.meters) ∧
    resolveTolerance (some t) (some u) = some (t, u) := ⟨rfl, rfl, rfl, rfl⟩

/-- `VertexRTreeBuilder::build` succeeds exactly on well-formed configurations, and then with the tolerance of
`builder_tolerance_resolution`; every other configuration is an error value (the model has no panic outcome:
that the real builder has none either is what the `b v` correspondence stream checks) -/
theorem vertex_builder_ok_iff (cfg : Json) (fileExists fileParses : Bool) (r : Option (Nat × DistanceUnit)) :
    vertexBuilder cfg fileExists fileParses = .ok r ↔
      (∃ p, cfgString cfg "vertices_input_file" = .ok p) ∧ fileExists = true ∧ fileParses = true ∧
      ∃ t u, cfgTolerance cfg = .ok t ∧ cfgUnit cfg = .ok u ∧ r = resolveTolerance t u := by
  unfold vertexBuilder
  cases hp : cfgString cfg "vertices_input_file" with
  | error e => simp
  | ok p =>
    cases fileExists with
    | false => simp
    | true =>
      cases ht : cfgTolerance cfg with
      | error e => simp
      | ok t =>
        cases hu : cfgUnit cfg with
        | error e => simp
        | ok u =>
          cases fileParses with
          | false => simp
          | true => simp [eq_comm]

/-- (by construction of the model: `edgeNew`'s match cascade read as one statement — its tie to the code is
the builder stream) `EdgeRtreeInputPlugin::new` accepts exactly readable files without an empty linestring
whose road-class lookup, if any, has the network's size -/
theorem edge_new_ok_iff (files : EdgeFiles) (tol : Option (Nat × DistanceUnit)) (hasRc hasVr : Bool) (pl : EdgePlugin) :
    edgeNew files tol hasRc hasVr = .ok pl ↔
      (⟨tol, hasRc, hasVr⟩ : EdgePlugin) = pl ∧ files.emptyLinestring = false ∧ files.nonFinite = false ∧
      files.geometry.isSome ∧
      (hasRc = true → files.roadClass = files.geometry) ∧ (hasVr = true → files.restrictionsOk = true) := by
  obtain ⟨rcl, rok, geo, empty, nonfin⟩ := files
  unfold edgeNew
  cases hasRc <;> cases hasVr <;> cases geo <;> cases empty <;> cases nonfin <;> cases rok <;> cases rcl <;> simp <;>
    (split <;> simp_all)

/-- (by construction of the model, as `edge_new_ok_iff`) `EdgeRtreeInputPluginBuilder::build` accepts exactly the configurations whose `geometry_input_file` is a
string, whose optional file entries are strings, whose tolerance / unit / road-class-parser entries deserialise,
and whose files `EdgeRtreeInputPlugin::new` accepts (`edge_new_ok_iff`); the plugin is then the one `new` makes
with the tolerance of `builder_tolerance_resolution`.  Every other configuration is an error value. -/
theorem edge_builder_ok_iff (cfg : Json) (files : EdgeFiles) (pl : EdgePlugin) :
    edgeBuilder cfg files = .ok pl ↔
      (∃ g, cfgString cfg "geometry_input_file" = .ok g) ∧
      ∃ rc vr t u, cfgStringOpt cfg "road_class_input_file" = .ok rc ∧
        cfgStringOpt cfg "vehicle_restriction_input_file" = .ok vr ∧
        cfgTolerance cfg = .ok t ∧ cfgUnit cfg = .ok u ∧ cfgParserOk cfg = true ∧
        edgeNew files (resolveTolerance t u) rc.isSome vr.isSome = .ok pl := by
  unfold edgeBuilder
  cases hg : cfgString cfg "geometry_input_file" with
  | error e => simp
  | ok g =>
    cases hrc : cfgStringOpt cfg "road_class_input_file" with
    | error e => simp
    | ok rc =>
      cases hvr : cfgStringOpt cfg "vehicle_restriction_input_file" with
      | error e => simp
      | ok vr =>
        cases ht : cfgTolerance cfg with
        | error e => simp
        | ok t =>
          cases hu : cfgUnit cfg with
          | error e => simp
          | ok u =>
            cases hp : cfgParserOk cfg <;> simp

/-- a plugin the edge builder accepts has a road-class lookup of exactly the network's size whenever it has
one, no empty linestring and no non-finite coordinate or centroid: the "road class file missing edge" arm of
`search`, the panic of the r-tree search on a NaN `distance_2` and the panic of
`EdgeRtreeRecord::distance_2` are out of reach of every built plugin; its tolerance is the one of
`builder_tolerance_resolution`.  Every other configuration is an error value (the model has no panic outcome:
that the real builder has none either is what the `b e` correspondence stream checks). -/
theorem edge_builder_consistent (cfg : Json) (files : EdgeFiles) (pl : EdgePlugin)
    (h : edgeBuilder cfg files = .ok pl) :
    files.emptyLinestring = false ∧ files.nonFinite = false ∧ files.geometry.isSome ∧
    (pl.hasLookup = true → files.roadClass = files.geometry) ∧
    (pl.hasRestrictions = true → files.restrictionsOk = true) ∧
    ∃ t u, cfgTolerance cfg = .ok t ∧ cfgUnit cfg = .ok u ∧ pl.tolerance = resolveTolerance t u := by
  unfold edgeBuilder at h
  cases hg : cfgString cfg "geometry_input_file" with
  | error e => simp [hg] at h
  | ok g =>
    cases hrc : cfgStringOpt cfg "road_class_input_file" with
    | error e => simp [hg, hrc] at h
    | ok rc =>
      cases hvr : cfgStringOpt cfg "vehicle_restriction_input_file" with
      | error e => simp [hg, hrc, hvr] at h
      | ok vr =>
        cases ht : cfgTolerance cfg with
        | error e => simp [hg, hrc, hvr, ht] at h
        | ok t =>
          cases hu : cfgUnit cfg with
          | error e => simp [hg, hrc, hvr, ht, hu] at h
          | ok u =>
            simp only [hg, hrc, hvr, ht, hu] at h
            split at h
            · cases h
            · obtain ⟨rfl, h1, h1', h2, h3, h4⟩ := (edge_new_ok_iff _ _ _ _ _).mp h
              exact ⟨h1, h1', h2, h3, h4, t, u, rfl, rfl, rfl⟩

/-! ### haversine: which coordinates it accepts -/

/-- `coord_distance_meters` answers exactly for coordinates inside [-180,180] × [-90,90] (both ends
included), for source and destination alike; `coord_distance` is the same answer converted.  (The second
conjunct — the answer is `value` — is true by construction: the trigonometric value is an input of the model.) -/
theorem haversine_accepts_iff_in_range (sx sy dx dy value : α) (u : DistanceUnit) :
    ((coordDistanceMeters sx sy dx dy value).isSome ↔
      (-180 ≤ sx ∧ sx ≤ 180) ∧ (-180 ≤ dx ∧ dx ≤ 180) ∧ (-90 ≤ sy ∧ sy ≤ 90) ∧ (-90 ≤ dy ∧ dy ≤ 90)) ∧
    (∀ m, coordDistanceMeters sx sy dx dy value = some m → m = value) ∧
    coordDistance sx sy dx dy value u = (coordDistanceMeters sx sy dx dy value).map (DistanceUnit.meters.convert u) := by
  refine ⟨?_, ?_, ?_⟩
  · unfold coordDistanceMeters coordsInRange inRange
    simp only [LawfulLit.lit_eq]
    split
    · next h =>
      simp only [Bool.and_eq_true, decide_eq_true_eq] at h
      simp only [Option.isSome_some, true_iff]
      norm_num at h ⊢
      tauto
    · next h =>
      simp only [Bool.and_eq_true, decide_eq_true_eq] at h
      simp only [Option.isSome_none, Bool.false_eq_true, false_iff]
      norm_num at h ⊢
      tauto
  · intro m h
    unfold coordDistanceMeters at h
    split at h
    · injection h with h; exact h.symm
    · cases h
  · unfold coordDistance
    cases coordDistanceMeters sx sy dx dy value <;> rfl

end

/-! ### non-vacuity -/

/-- a small query, two vertices 0.1° and 1° away (11 km / 111 km), in nearest-first order -/
def exQuery : Json := .obj [("origin_x", .num "0.1" 0), ("model", .str "m"), ("origin_y", .num "0" 0)]
def exVerts : List (VCand ℚ) := [⟨7, 1 / 100, some 11119⟩, ⟨3, 1, some 111195⟩]

-- the hypotheses of `vertex_match_is_argmin` are satisfiable and the match is vertex 7
example : Sorted VCand.d2 exVerts := by simp [Sorted, exVerts]; norm_num
example : (vertexProcess (none : Option (ℚ × DistanceUnit)) exQuery exVerts []).err = none := by
  simp [vertexProcess, exQuery, exVerts, originCoordinate, numField, destinationCoordinate, Json.get?, Json.lookup,
    Field.name, Json.isNumber, matchVertexInto, nearestVertex, validateTolerance, addField]
-- a 20 km tolerance accepts the 11 km vertex, a 5 km tolerance rejects it: both sides of `vertex_tolerance` occur
example : Passes (some ((20 : ℚ), DistanceUnit.kilometers)) ⟨7, 1 / 100, some 11119⟩ := by
  refine ⟨11119, rfl, ?_⟩
  simp [DistanceUnit.convert, DistanceUnit.factor, Factor.apply, Lit.lit]; norm_num
example : ¬ Passes (some ((5 : ℚ), DistanceUnit.kilometers)) ⟨7, 1 / 100, some 11119⟩ := by
  rintro ⟨g, hg, h⟩
  simp only [Option.some.injEq] at hg; subst hg
  simp [DistanceUnit.convert, DistanceUnit.factor, Factor.apply, Lit.lit] at h; norm_num at h
-- edges: the nearest candidate is of an excluded road class, the second is admissible and is the match
example : searchEdge (none : Option (ℚ × DistanceUnit)) (some [1, 2]) true
    [⟨4, 1 / 100, some 5, true, none⟩, ⟨9, 1 / 50, some 2, true, none⟩, ⟨1, 1 / 20, some 1, true, none⟩] = .ok (some 9) := by
  simp [searchEdge, withinTolerance, validClass]
-- the tolerance rule has both outcomes (11 km away: beyond 5 km, within 20 km)
example : searchEdge (some ((5 : ℚ), DistanceUnit.kilometers)) none false
    [⟨4, 1 / 100, none, true, some 11119⟩] = .ok none := by
  simp [searchEdge, withinTolerance, validClass, DistanceUnit.convert, DistanceUnit.factor, Factor.apply, Lit.lit]; norm_num
example : searchEdge (some ((20 : ℚ), DistanceUnit.kilometers)) none false
    [⟨4, 1 / 100, none, true, some 11119⟩] = .ok (some 4) := by
  simp [searchEdge, withinTolerance, validClass, DistanceUnit.convert, DistanceUnit.factor, Factor.apply, Lit.lit]; norm_num
-- other fields: the example query keeps `model` between the two coordinates
example : (vertexProcess (none : Option (ℚ × DistanceUnit)) exQuery exVerts []).query.get? "model" = some (.str "m") := by
  simp [vertexProcess, exQuery, exVerts, originCoordinate, numField, destinationCoordinate, Json.get?, Json.lookup,
    Field.name, Json.isNumber, matchVertexInto, nearestVertex, validateTolerance, addField, Json.insertKv]

/-! non-vacuity of the edge tolerance theorems on realistic configurations -/

/-- a plugin WITHOUT road-class lookup (`cls = none` everywhere, as the harness encodes it) but with vehicle
restrictions: the nearest edge is excluded by a restriction, the second, 11 km away, is admissible -/
def exPre : List (ECand ℚ) := [⟨1, 1 / 1000, none, false, some 100⟩]
def exEdge : ECand ℚ := ⟨4, 1 / 100, none, true, some 11119⟩

example : LookupCovers (none : Option (List Nat)) false exPre := by intro h; cases h
example : ∀ c' ∈ exPre, ¬ Admissible (none : Option (List Nat)) false c' := by
  intro c' hc'; simp [exPre] at hc'; subst hc'; simp [Admissible]
example : Admissible (none : Option (List Nat)) false exEdge := by simp [Admissible, validClass, exEdge]
-- `edge_tolerance` applied: 20 km matches edge 4, 5 km matches nothing
example : searchEdge (some ((20 : ℚ), DistanceUnit.kilometers)) none false (exPre ++ exEdge :: []) = .ok (some 4) :=
  (edge_tolerance 20 .kilometers none false exPre [] exEdge 11119 (by intro h; cases h)
    (by intro c' hc'; simp [exPre] at hc'; subst hc'; simp [Admissible])
    (by simp [Admissible, validClass, exEdge]) rfl).1
    (by simp [DistanceUnit.convert, DistanceUnit.factor, Factor.apply, Lit.lit]; norm_num)
example : searchEdge (some ((5 : ℚ), DistanceUnit.kilometers)) none false (exPre ++ exEdge :: []) = .ok none :=
  (edge_tolerance 5 .kilometers none false exPre [] exEdge 11119 (by intro h; cases h)
    (by intro c' hc'; simp [exPre] at hc'; subst hc'; simp [Admissible])
    (by simp [Admissible, validClass, exEdge]) rfl).2
    (by simp [DistanceUnit.convert, DistanceUnit.factor, Factor.apply, Lit.lit]; norm_num)

/-- a plugin WITH lookup and a query that filters by road class: the nearest edge is of an excluded class -/
def exPreCls : List (ECand ℚ) := [⟨4, 1 / 100, some 5, true, some 1000⟩]
def exEdgeCls : ECand ℚ := ⟨9, 1 / 50, some 2, true, some 1500⟩
example : LookupCovers (some [1, 2]) true exPreCls := by
  intro _ _ c hc; simp [exPreCls] at hc; subst hc; simp
-- `edge_no_tolerance_matches` applied
example : ∃ id, searchEdge (none : Option (ℚ × DistanceUnit)) (some [1, 2]) true (exPreCls ++ [exEdgeCls]) = .ok (some id) :=
  edge_no_tolerance_matches (some [1, 2]) true _
    (by intro _ _ c hc; simp [exPreCls, exEdgeCls] at hc; rcases hc with rfl | rfl <;> simp)
    ⟨exEdgeCls, by simp, by simp [Admissible, validClass, exEdgeCls]⟩

/-- a query with a destination, for the process-level theorems -/
def exQueryDst : List (String × Json) :=
  [("origin_x", .num "0.1" 0), ("origin_y", .num "0" 0), ("destination_x", .num "0.2" 0), ("destination_y", .num "0" 0)]
example : originCoordinate (.obj exQueryDst) = .ok () := by
  simp [exQueryDst, originCoordinate, numField, Json.get?, Json.lookup, Field.name, Json.isNumber]
example : destinationCoordinate (.obj exQueryDst) = .ok true := by
  simp [exQueryDst, destinationCoordinate, Json.get?, Json.lookup, Field.name, Json.isNumber]
example : readRoadClasses [] (.obj exQueryDst) = .ok none := by
  simp [exQueryDst, readRoadClasses, Json.get?, Json.lookup]
-- `edge_tolerance_process`: both sides matchable within 20 km, so the plugin succeeds (and the right-hand side is
-- not vacuous: with 5 km the origin is not matchable, `edge_beyond_tolerance_is_error`)
example : (edgeProcess (some ((20 : ℚ), DistanceUnit.kilometers)) [] false (.obj exQueryDst)
    (exPre ++ [exEdge]) [exEdge]).err = none := by
  refine (edge_tolerance_process _ [] false exQueryDst _ _ none true ?_ ?_ ?_).mpr ⟨⟨4, ?_⟩, fun _ => ⟨4, ?_⟩⟩
  · simp [exQueryDst, readRoadClasses, Json.get?, Json.lookup]
  · simp [exQueryDst, originCoordinate, numField, Json.get?, Json.lookup, Field.name, Json.isNumber]
  · simp [exQueryDst, destinationCoordinate, Json.get?, Json.lookup, Field.name, Json.isNumber]
  · refine ⟨exPre, exEdge, [], rfl, rfl, (by intro h; cases h), ?_, (by simp [Admissible, validClass, exEdge]), ?_⟩
    · intro c' hc'; simp [exPre] at hc'; subst hc'; simp [Admissible]
    · exact ⟨11119, rfl, by simp [DistanceUnit.convert, DistanceUnit.factor, Factor.apply, Lit.lit]; norm_num⟩
  · refine ⟨[], exEdge, [], rfl, rfl, (by intro h; cases h), (by simp), (by simp [Admissible, validClass, exEdge]), ?_⟩
    exact ⟨11119, rfl, by simp [DistanceUnit.convert, DistanceUnit.factor, Factor.apply, Lit.lit]; norm_num⟩
example : edgeProcess (some ((5 : ℚ), DistanceUnit.kilometers)) [] false (.obj exQueryDst)
    (exPre ++ exEdge :: []) [exEdge] = ⟨some .noEdgeMatch, .obj exQueryDst⟩ :=
  edge_beyond_tolerance_is_error 5 .kilometers [] false exQueryDst exPre [] [exEdge] exEdge 11119 none true
    (by simp [exQueryDst, readRoadClasses, Json.get?, Json.lookup])
    (by simp [exQueryDst, originCoordinate, numField, Json.get?, Json.lookup, Field.name, Json.isNumber])
    (by simp [exQueryDst, destinationCoordinate, Json.get?, Json.lookup, Field.name, Json.isNumber])
    (by intro h; cases h) (by intro c' hc'; simp [exPre] at hc'; subst hc'; simp [Admissible])
    (by simp [Admissible, validClass, exEdge]) rfl
    (by simp [DistanceUnit.convert, DistanceUnit.factor, Factor.apply, Lit.lit]; norm_num)
-- the vertex plugin with a destination: both conjuncts of `vertex_match_is_argmin` / `vertex_tolerance` have a witness,
-- and a destination beyond the tolerance leaves `origin_vertex` behind
example : (vertexProcess (some ((20 : ℚ), DistanceUnit.kilometers)) (.obj exQueryDst) exVerts exVerts).err = none := by
  refine (vertex_tolerance _ exQueryDst exVerts exVerts true ?_ ?_).mpr ⟨⟨_, rfl, ?_⟩, fun _ => ⟨_, rfl, ?_⟩⟩
  · simp [exQueryDst, originCoordinate, numField, Json.get?, Json.lookup, Field.name, Json.isNumber]
  · simp [exQueryDst, destinationCoordinate, Json.get?, Json.lookup, Field.name, Json.isNumber]
  · exact ⟨11119, rfl, by simp [DistanceUnit.convert, DistanceUnit.factor, Factor.apply, Lit.lit]; norm_num⟩
  · exact ⟨11119, rfl, by simp [DistanceUnit.convert, DistanceUnit.factor, Factor.apply, Lit.lit]; norm_num⟩
example : (vertexProcess (some ((20 : ℚ), DistanceUnit.kilometers)) (.obj exQueryDst) exVerts
    [⟨3, 1, some 111195⟩]).query.get? "origin_vertex" = some (idJson 7) := by
  unfold exVerts
  rw [vertex_destination_beyond_tolerance_is_error 20 .kilometers exQueryDst ⟨7, 1 / 100, some 11119⟩ ⟨3, 1, some 111195⟩
    [⟨3, 1, some 111195⟩] [] 111195
    (by simp [exQueryDst, originCoordinate, numField, Json.get?, Json.lookup, Field.name, Json.isNumber])
    (by simp [exQueryDst, destinationCoordinate, Json.get?, Json.lookup, Field.name, Json.isNumber])
    ⟨11119, rfl, by simp [DistanceUnit.convert, DistanceUnit.factor, Factor.apply, Lit.lit]; norm_num⟩ rfl
    (by simp [DistanceUnit.convert, DistanceUnit.factor, Factor.apply, Lit.lit]; norm_num)]
  show lookup (insertKv exQueryDst "origin_vertex" (idJson 7)) "origin_vertex" = _
  exact lookup_insertKv_same _ _ _

-- the readers accept what the writers wrote, and reject what is not an id
example : getOriginVertex (.obj [("origin_vertex", idJson 7)]) = .ok 7 := by
  simp [getOriginVertex, getRequiredId, Json.get?, Json.lookup, Field.name, asU64_idJson]
example : getDestinationEdge (.obj [("destination_edge", .str "7")]) = .error (.invalidType .destinationEdge) := by
  simp [getDestinationEdge, getOptionalId, Json.get?, Json.lookup, Field.name, Json.asU64?]
-- both outcomes of each builder occur
example : vertexBuilder (.obj [("vertices_input_file", .str "v.csv"), ("distance_tolerance", .num "10" 4621819117588971520)]) true true
    = .ok (some (4621819117588971520, DistanceUnit.meters)) := by
  simp [vertexBuilder, cfgString, cfgTolerance, cfgUnit, Json.get?, Json.lookup, Json.asStr?, Json.asF64Bits?,
    resolveTolerance, baseDistanceUnit]
example : vertexBuilder (.obj [("distance_tolerance", .num "10" 4621819117588971520)]) true true = .error .missingField := by
  simp [vertexBuilder, cfgString, Json.get?, Json.lookup]
example : edgeBuilder (.obj [("geometry_input_file", .str "g.txt")]) ⟨none, true, some 3, true, false⟩ = .error .userConfig := by
  simp [edgeBuilder, edgeNew, cfgParserOk, cfgString, cfgStringOpt, cfgTolerance, cfgUnit, Json.get?, Json.lookup, Json.asStr?]
example : (edgeBuilder (.obj [("geometry_input_file", .str "g.txt")]) ⟨none, true, some 3, false, false⟩).toOption.isSome = true := by
  simp [edgeBuilder, edgeNew, cfgParserOk, cfgString, cfgStringOpt, cfgTolerance, cfgUnit, Json.get?, Json.lookup, Json.asStr?,
    Except.toOption]
-- a geometry file with a non-finite coordinate or centroid (e.g. the all-finite row `LINESTRING (3e38 0, -3e38 0)`) is
-- refused at load (it used to build, and every query then panicked inside the r-tree)
example : edgeBuilder (.obj [("geometry_input_file", .str "g.txt")]) ⟨none, true, some 3, false, true⟩ = .error .userConfig := by
  simp [edgeBuilder, edgeNew, cfgParserOk, cfgString, cfgStringOpt, cfgTolerance, cfgUnit, Json.get?, Json.lookup, Json.asStr?]
-- serde's other spellings: a unit as {"kilometers": null}, the road-class parser as [mapping]
example : cfgUnit (.obj [("distance_unit", .obj [("kilometers", .null)])]) = .ok (some DistanceUnit.kilometers) := by
  simp [cfgUnit, serdeUnitName, Json.get?, Json.lookup]; decide
example : cfgUnit (.obj [("distance_unit", .obj [("kilometers", .num "1" 0)])]) = .error .serde := by
  simp [cfgUnit, serdeUnitName, Json.get?, Json.lookup]
example : parserOk (.arr [.obj [("primary", idJson 1)]]) = true := by
  simp [parserOk, u8MapOk, u8Of, asU64_idJson]
example : parserOk (.arr [.obj [("primary", .str "1")]]) = false := by
  simp [parserOk, u8MapOk, u8Of, Json.asU64?]
example : parserOk (.arr []) = false := by simp [parserOk]
-- haversine: the dateline itself is inside the range, a hair beyond it is not
example : (coordDistanceMeters (180 : ℚ) 0 (-180) 0 0).isSome = true := by
  simp [coordDistanceMeters, coordsInRange, inRange, Lit.lit]
example : (coordDistanceMeters (180 + 1 / 1000 : ℚ) 0 0 0 0).isSome = false := by
  simp [coordDistanceMeters, coordsInRange, inRange, Lit.lit]

end C16
end Compass

namespace Compass
namespace C16
open Src

/-! ### Source decision ties

The relational operators at the named comparison sites of the Rust source are re-extracted on every run
by `tools/gen_model.py` into `Compass/Gen/Decisions.lean` (`Src.<site> : Src.Rel`).  Each theorem below
says that the hand-written model decides at that site by exactly the operator the source has there
(`Rel.nat` / `Rel.int` / `Rel.num` interpret the extracted operator; an unrecognised line is `none`).  A
source change that turns `<` into `<=`, `>` into `>=`, … at a site changes the generated constant and this
proof obligation stops checking, whether or not a generated case lands on the tie. -/

open MapMatch in
theorem src_vertex_match_tolerance {α : Type} [Field α] [LinearOrder α] [IsStrictOrderedRing α] [Lit α] [LawfulLit α] (t : α) (u : DistanceUnit) (c : VCand α) (g : α) (hg : c.gc = some g) :
    some (validateTolerance (some (t, u)) c) =
      (vertex_match_tolerance.num (DistanceUnit.meters.convert u g) t).map
        fun beyond => if beyond then .error .beyondTolerance else .ok () := by
  simp [validateTolerance, hg, vertex_match_tolerance, Rel.num]
  split <;> simp_all

open MapMatch in
theorem src_edge_match_tolerance {α : Type} [Field α] [LinearOrder α] [IsStrictOrderedRing α] [Lit α] [LawfulLit α] (t : α) (u : DistanceUnit) (c : ECand α) (g : α) (hg : c.gc = some g) :
    some (withinTolerance (some (t, u)) c) =
      (edge_match_tolerance.num (DistanceUnit.meters.convert u g) t).map fun ok => .ok ok := by
  simp [withinTolerance, hg, edge_match_tolerance, Rel.num]

end C16
end Compass
