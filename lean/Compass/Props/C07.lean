/-
C07 — edge costs are finite and strictly positive; estimates are non-negative.

All theorems are about the executable model `Compass/Model/Cost.lean` (the functions the driver runs
at `Float` against the real `CostModel`), for every cost model value — index lists, weight / rate
vectors and state vectors of any length, `Combined` rates nested to any depth — over any linearly
ordered field `α`.  Finiteness is trivial there: every element of a field is finite; overflow and
rounding of `f64` are outside the theorems (DESIGN §3) and are watched by the oracle of the harness.

Notation (`Proofs/Cost.lean`): `m.wt i`, `m.vr i`, `m.nr i` are the weight, vehicle rate and network
rate of state index `i`; `stateDelta prev next i = next[i] − prev[i]`; `m.InRangeV prev next` says
every index of `m.indices` lies inside `prev`, `next`, `weights`, `vehicleRates`; `m.InRange` adds
`networkRates`.  `traversalTotal` / `accessTotal` are the values `traversal_cost` / `access_cost`
compute just before `Cost::enforce_strictly_positive`.
-/
import Compass.Proofs.Cost

namespace Compass
namespace C07

set_option linter.unusedSectionVars false

section
variable {α : Type} [Field α] [LinearOrder α] [IsStrictOrderedRing α] [Lit α] [LawfulLit α]

/-! ### 1. The charged costs are strictly positive, the estimate is non-negative -/

/-- the floor itself is strictly positive -/
theorem min_cost_pos : (0 : α) < minCost := minCost_pos

/-- `traversal_cost` = its pre-floor total when that is positive, the floor otherwise -/
theorem traversal_cost_eq (m : CostModel α) (e : Nat) (prev next : List α) :
    m.traversalCost e prev next
      = (m.traversalTotal e prev next).map (fun s => if 0 < s then s else minCost) := by
  unfold CostModel.traversalCost
  cases m.traversalTotal e prev next with
  | none => rfl
  | some s =>
    simp only [Option.map_some, enforceStrictlyPositive_eq]
    by_cases h : 0 < s
    · simp [h, not_le.mpr h]
    · simp [h, not_lt.mp h]

/-- `access_cost` = its pre-floor total when that is positive, the floor otherwise -/
theorem access_cost_eq (m : CostModel α) (pe ne : Nat) (prev next : List α) :
    m.accessCost pe ne prev next
      = (m.accessTotal pe ne prev next).map (fun s => if 0 < s then s else minCost) := by
  unfold CostModel.accessCost
  cases m.accessTotal pe ne prev next with
  | none => rfl
  | some s =>
    simp only [Option.map_some, enforceStrictlyPositive_eq]
    by_cases h : 0 < s
    · simp [h, not_le.mpr h]
    · simp [h, not_lt.mp h]

/-- `cost_estimate` = the aggregated vehicle cost clipped at zero -/
theorem cost_estimate_eq (m : CostModel α) (src dst : List α) :
    m.costEstimate src dst = (m.vehicleCosts src dst).map (fun v => max v 0) := by
  unfold CostModel.costEstimate
  cases m.vehicleCosts src dst with
  | none => rfl
  | some v => simp [enforceNonNegative_eq]

/-- C07: whenever `traversal_cost` returns, the cost is strictly positive — any weights, rates,
aggregation and state change -/
theorem traversal_cost_pos (m : CostModel α) (e : Nat) (prev next : List α) (c : α)
    (h : m.traversalCost e prev next = some c) : 0 < c := by
  unfold CostModel.traversalCost at h
  cases ht : m.traversalTotal e prev next with
  | none => simp [ht] at h
  | some t =>
    simp only [ht, Option.some.injEq] at h
    rw [← h]; exact enforceStrictlyPositive_pos t

/-- C07: whenever `access_cost` returns, the cost is strictly positive -/
theorem access_cost_pos (m : CostModel α) (pe ne : Nat) (prev next : List α) (c : α)
    (h : m.accessCost pe ne prev next = some c) : 0 < c := by
  unfold CostModel.accessCost at h
  cases ht : m.accessTotal pe ne prev next with
  | none => simp [ht] at h
  | some t =>
    simp only [ht, Option.some.injEq] at h
    rw [← h]; exact enforceStrictlyPositive_pos t

/-- C07: whenever `cost_estimate` returns, the estimate is not negative -/
theorem estimate_nonneg (m : CostModel α) (src dst : List α) (c : α)
    (h : m.costEstimate src dst = some c) : 0 ≤ c := by
  unfold CostModel.costEstimate at h
  cases hv : m.vehicleCosts src dst with
  | none => simp [hv] at h
  | some v =>
    simp only [hv, Option.some.injEq] at h
    rw [← h]; exact enforceNonNegative_nonneg v

/-- the charged cost is at least `min (pre-floor total) floor`; it is *not* always at least the floor:
a positive total below the floor is charged as it is (see `charged_below_floor_witness`) -/
theorem traversal_cost_ge (m : CostModel α) (e : Nat) (prev next : List α) (s c : α)
    (hs : m.traversalTotal e prev next = some s) (h : m.traversalCost e prev next = some c) :
    (0 < s → c = s) ∧ (s ≤ 0 → c = minCost) := by
  rw [traversal_cost_eq, hs] at h
  simp only [Option.map_some, Option.some.injEq] at h
  constructor
  · intro hp; simp [hp] at h; exact h.symm
  · intro hn; simp [not_lt.mpr hn] at h; exact h.symm

/-- `EdgeTraversal::total_cost()`: `access + (total − access)` is the traversal total, whatever the
access share (the per-turn surcharge enters the access share and is cancelled in the traversal share) -/
theorem edge_total_eq (access total : α) : edgeTotalCost access total = total := by
  unfold edgeTotalCost; ring

/-- C07: the cost charged for accessing plus traversing an edge is strictly positive, with or without
previous edge, whatever `access_cost` returned -/
theorem edge_total_pos (m : CostModel α) (e : Nat) (prev next : List α) (t : α) (ac : Option α)
    (h : m.traversalCost e prev next = some t) : 0 < edgeTotalCost (edgeAccessShare ac) t := by
  rw [edge_total_eq]; exact traversal_cost_pos m e prev next t h

/-! ### 2. When the functions return -/

/-- `traversal_cost` returns exactly when every feature index lies inside all five vectors -/
theorem traversal_cost_isSome_iff (m : CostModel α) (e : Nat) (prev next : List α) :
    (m.traversalCost e prev next).isSome ↔ m.InRange prev next := by
  rw [← CostModel.traversalTotal_isSome_iff m e]
  unfold CostModel.traversalCost
  cases m.traversalTotal e prev next <;> simp

/-- `access_cost` returns exactly when every feature index lies inside the state vectors, the weights
and the vehicle rates (a feature beyond `network_rates` contributes zero instead of failing) -/
theorem access_cost_isSome_iff (m : CostModel α) (pe ne : Nat) (prev next : List α) :
    (m.accessCost pe ne prev next).isSome ↔ m.InRangeV prev next := by
  rw [← CostModel.accessTotal_isSome_iff m pe ne]
  unfold CostModel.accessCost
  cases m.accessTotal pe ne prev next <;> simp

/-- `cost_estimate` returns exactly when every feature index lies inside the four vectors it reads -/
theorem cost_estimate_isSome_iff (m : CostModel α) (src dst : List α) :
    (m.costEstimate src dst).isSome ↔ m.InRangeV src dst := by
  rw [← CostModel.vehicleCosts_isSome_iff m]
  unfold CostModel.costEstimate
  cases m.vehicleCosts src dst <;> simp

/-- an index outside a state vector makes all three fail (`StateIndexOutOfBounds`) -/
theorem none_of_short_state (m : CostModel α) (e pe ne : Nat) (prev next : List α) (i : Nat)
    (hi : i ∈ m.indices) (h : prev.length ≤ i ∨ next.length ≤ i) :
    m.traversalCost e prev next = none ∧ m.accessCost pe ne prev next = none
      ∧ m.costEstimate prev next = none := by
  have hv : ¬ m.InRangeV prev next := fun hr => by
    have := hr i hi
    rcases h with h | h
    · exact absurd this.1 (not_lt.mpr h)
    · exact absurd this.2.1 (not_lt.mpr h)
  have hr : ¬ m.InRange prev next := fun hr => hv hr.toV
  rw [← traversal_cost_isSome_iff m e] at hr
  have hv' := hv
  rw [← access_cost_isSome_iff m pe ne] at hv
  rw [← cost_estimate_isSome_iff m] at hv'
  exact ⟨by simpa using hr, by simpa using hv, by simpa using hv'⟩

/-- all vectors at least as long as every index: all three return -/
theorem some_of_long_enough (m : CostModel α) (e pe ne : Nat) (prev next : List α) (n : Nat)
    (hi : ∀ i ∈ m.indices, i < n) (h1 : n ≤ prev.length) (h2 : n ≤ next.length)
    (h3 : n ≤ m.weights.length) (h4 : n ≤ m.vehicleRates.length) (h5 : n ≤ m.networkRates.length) :
    (m.traversalCost e prev next).isSome ∧ (m.accessCost pe ne prev next).isSome
      ∧ (m.costEstimate prev next).isSome := by
  have hr : m.InRange prev next := fun i h =>
    ⟨lt_of_lt_of_le (hi i h) h1, lt_of_lt_of_le (hi i h) h2, lt_of_lt_of_le (hi i h) h4,
      lt_of_lt_of_le (hi i h) h3, lt_of_lt_of_le (hi i h) h5⟩
  exact ⟨(traversal_cost_isSome_iff m e prev next).mpr hr,
    (access_cost_isSome_iff m pe ne prev next).mpr hr.toV,
    (cost_estimate_isSome_iff m prev next).mpr hr.toV⟩

/-- `CostModel::new` fails exactly when the weights (absent = 0) sum to zero -/
theorem new_eq_none_iff (feats : List (FeatureConfig α)) (agg : CostAggregation) :
    CostModel.new feats agg = none ↔ (feats.map FeatureConfig.weight).sum = 0 :=
  CostModel.new_eq_none_iff feats agg

/-- a cost model built by `CostModel::new` answers on every pair of state vectors that are at least as
long as the state model — and its weights do not sum to zero -/
theorem new_returns (feats : List (FeatureConfig α)) (agg : CostAggregation) (m : CostModel α)
    (hm : CostModel.new feats agg = some m) (e pe ne : Nat) (prev next : List α)
    (h1 : feats.length ≤ prev.length) (h2 : feats.length ≤ next.length) :
    (m.traversalCost e prev next).isSome ∧ (m.accessCost pe ne prev next).isSome
      ∧ (m.costEstimate prev next).isSome ∧ m.weights.sum ≠ 0 := by
  obtain ⟨hi, hw, hv, hn, _⟩ := CostModel.new_eq_some feats agg m hm
  have := some_of_long_enough m e pe ne prev next feats.length
    (by rw [hi]; intro i h; exact List.mem_range.mp h) h1 h2 (by simp [hw]) (by simp [hv]) (by simp [hn])
  refine ⟨this.1, this.2.1, this.2.2, ?_⟩
  rw [hw]
  intro h0
  have := (CostModel.new_eq_none_iff feats agg).mpr h0
  rw [hm] at this; cases this

/-! ### 3. Sum aggregation: the formula -/

/-- C07 (sum formula, traversal): the pre-floor value is
`Σᵢ wᵢ·rateᵢ(Δᵢ) + Σᵢ wᵢ·(per-edge surcharge of feature i)` -/
theorem sum_formula_traversal (m : CostModel α) (hs : m.agg = .sum) (e : Nat) (prev next : List α) (s : α)
    (h : m.traversalTotal e prev next = some s) :
    s = (m.indices.map fun i => m.wt i * (m.vr i).mapValue (stateDelta prev next i)).sum
      + (m.indices.map fun i => m.wt i * (m.nr i).traversalCost e).sum := by
  have hr : m.InRange prev next := (m.traversalTotal_isSome_iff e prev next).mp (by simp [h])
  rw [m.traversalTotal_eq e prev next hr, hs, agg_sum, agg_sum] at h
  simp only [Option.some.injEq] at h
  rw [← h]
  unfold CostModel.vehicleTerms CostModel.traversalTerms
  congr 2 <;> exact List.map_congr_left (fun i _ => by ring)

/-- C07 (sum formula, access): the pre-floor value is
`Σᵢ wᵢ·rateᵢ(Δᵢ) + Σᵢ wᵢ·(per-turn surcharge of feature i)` -/
theorem sum_formula_access (m : CostModel α) (hs : m.agg = .sum) (pe ne : Nat) (prev next : List α) (s : α)
    (h : m.accessTotal pe ne prev next = some s) :
    s = (m.indices.map fun i => m.wt i * (m.vr i).mapValue (stateDelta prev next i)).sum
      + (m.indices.map fun i => m.wt i * (m.nr i).accessCost pe ne).sum := by
  have hr : m.InRangeV prev next := (m.accessTotal_isSome_iff pe ne prev next).mp (by simp [h])
  rw [m.accessTotal_eq pe ne prev next hr, hs, agg_sum, agg_sum] at h
  simp only [Option.some.injEq] at h
  rw [← h]
  unfold CostModel.vehicleTerms CostModel.accessTerms
  congr 2 <;> exact List.map_congr_left (fun i _ => by ring)

/-- C07 (sum formula, estimate): the pre-clip value is `Σᵢ wᵢ·rateᵢ(Δᵢ)` -/
theorem sum_formula_estimate (m : CostModel α) (hs : m.agg = .sum) (src dst : List α) (v : α)
    (h : m.vehicleCosts src dst = some v) :
    v = (m.indices.map fun i => m.wt i * (m.vr i).mapValue (stateDelta src dst i)).sum := by
  have hr : m.InRangeV src dst := (m.vehicleCosts_isSome_iff src dst).mp (by simp [h])
  rw [m.vehicleCosts_eq src dst hr, hs, agg_sum] at h
  simp only [Option.some.injEq] at h
  rw [← h]
  unfold CostModel.vehicleTerms
  congr 1; exact List.map_congr_left (fun i _ => by ring)

/-- C07 (sum formula + floor): under sum aggregation the charged traversal cost is the formula when
that is positive and the floor exactly when it is `≤ 0` -/
theorem sum_formula (m : CostModel α) (hs : m.agg = .sum) (e : Nat) (prev next : List α) (c : α)
    (h : m.traversalCost e prev next = some c) :
    let s := (m.indices.map fun i => m.wt i * (m.vr i).mapValue (stateDelta prev next i)).sum
      + (m.indices.map fun i => m.wt i * (m.nr i).traversalCost e).sum
    (0 < s → c = s) ∧ (s ≤ 0 → c = minCost) := by
  intro s
  cases ht : m.traversalTotal e prev next with
  | none => rw [traversal_cost_eq, ht] at h; simp at h
  | some t =>
    have : t = s := sum_formula_traversal m hs e prev next t ht
    rw [← this]
    exact traversal_cost_ge m e prev next t c ht h

/-- the same for `access_cost` -/
theorem sum_formula_access_floor (m : CostModel α) (hs : m.agg = .sum) (pe ne : Nat) (prev next : List α) (c : α)
    (h : m.accessCost pe ne prev next = some c) :
    let s := (m.indices.map fun i => m.wt i * (m.vr i).mapValue (stateDelta prev next i)).sum
      + (m.indices.map fun i => m.wt i * (m.nr i).accessCost pe ne).sum
    (0 < s → c = s) ∧ (s ≤ 0 → c = minCost) := by
  intro s
  cases ht : m.accessTotal pe ne prev next with
  | none => rw [access_cost_eq, ht] at h; simp at h
  | some t =>
    have : t = s := sum_formula_access m hs pe ne prev next t ht
    rw [← this]
    rw [access_cost_eq, ht] at h
    simp only [Option.map_some, Option.some.injEq] at h
    constructor
    · intro hp; simp [hp] at h; exact h.symm
    · intro hn; simp [not_lt.mpr hn] at h; exact h.symm

/-- the same for `cost_estimate`: the formula when positive, `0` otherwise -/
theorem sum_formula_estimate_clip (m : CostModel α) (hs : m.agg = .sum) (src dst : List α) (c : α)
    (h : m.costEstimate src dst = some c) :
    c = max (m.indices.map fun i => m.wt i * (m.vr i).mapValue (stateDelta src dst i)).sum 0 := by
  cases hv : m.vehicleCosts src dst with
  | none => rw [cost_estimate_eq, hv] at h; simp at h
  | some v =>
    rw [cost_estimate_eq, hv] at h
    simp only [Option.map_some, Option.some.injEq] at h
    rw [← h, sum_formula_estimate m hs src dst v hv]

/-! ### 4. What the rates denote -/

/-- a combined vehicle rate applies its mappings one after the other (any nesting depth) -/
theorem vehicle_rate_combined (rs : List (VehicleCostRate α)) (x : α) :
    (VehicleCostRate.combined rs).mapValue x = rs.foldl (fun acc r => r.mapValue acc) x := by
  simp [VehicleCostRate.mapValue, VehicleCostRate.mapValueList_eq_foldl]

/-- the leaves: zero, raw, factor, offset -/
theorem vehicle_rate_leaves (f o x : α) :
    (VehicleCostRate.zero : VehicleCostRate α).mapValue x = 0 ∧ (VehicleCostRate.raw : VehicleCostRate α).mapValue x = x
      ∧ (VehicleCostRate.factor f).mapValue x = x * f ∧ (VehicleCostRate.offset o).mapValue x = x + o := by
  simp [VehicleCostRate.mapValue]

/-- every vehicle rate, however nested, is an affine map of the state change -/
theorem vehicle_rate_affine (r : VehicleCostRate α) (x : α) : r.mapValue x = r.slope * x + r.intercept :=
  r.mapValue_affine x

/-- a combined network rate charges the sum of its parts (per edge) -/
theorem network_rate_combined_traversal (rs : List (NetworkCostRate α)) (e : Nat) :
    (NetworkCostRate.combined rs).traversalCost e = (rs.map fun r => r.traversalCost e).sum := by
  simp [NetworkCostRate.traversalCost, NetworkCostRate.traversalCostList_eq]

/-- a combined network rate charges the sum of its parts (per turn) -/
theorem network_rate_combined_access (rs : List (NetworkCostRate α)) (p n : Nat) :
    (NetworkCostRate.combined rs).accessCost p n = (rs.map fun r => r.accessCost p n).sum := by
  simp [NetworkCostRate.accessCost, NetworkCostRate.accessCostList_eq]

/-- the leaves: an edge table charges per edge only, an edge-pair table per turn only; a key that is
not in the table costs nothing -/
theorem network_rate_leaves (t1 : List (Nat × α)) (t2 : List ((Nat × Nat) × α)) (e p n : Nat) :
    (NetworkCostRate.zero : NetworkCostRate α).traversalCost e = 0
      ∧ (NetworkCostRate.zero : NetworkCostRate α).accessCost p n = 0
      ∧ (NetworkCostRate.edgeLookup t1).traversalCost e = lookup1 t1 e
      ∧ (NetworkCostRate.edgeLookup t1).accessCost p n = 0
      ∧ (NetworkCostRate.edgeEdgeLookup t2).traversalCost e = 0
      ∧ (NetworkCostRate.edgeEdgeLookup t2).accessCost p n = lookup2 t2 (p, n) := by
  simp [NetworkCostRate.traversalCost, NetworkCostRate.accessCost]

/-- table lookups (keys unique, as in a `HashMap`): the stored value on a hit, zero on a miss -/
theorem lookup_hit_miss (t1 : List (Nat × α)) (t2 : List ((Nat × Nat) × α))
    (h1 : t1.Pairwise (fun p q => p.1 ≠ q.1)) (h2 : t2.Pairwise (fun p q => p.1 ≠ q.1)) :
    (∀ k v, (k, v) ∈ t1 → lookup1 t1 k = v) ∧ (∀ k, (∀ p ∈ t1, p.1 ≠ k) → lookup1 t1 k = 0)
      ∧ (∀ k v, (k, v) ∈ t2 → lookup2 t2 k = v) ∧ (∀ k, (∀ p ∈ t2, p.1 ≠ k) → lookup2 t2 k = 0) :=
  ⟨fun k v h => lookup1_of_mem t1 k v h1 h, fun k h => lookup1_of_not_mem t1 k h,
    fun k v h => lookup2_of_mem t2 k v h2 h, fun k h => lookup2_of_not_mem t2 k h⟩

/-! ### 5. Linear in the weights (sum aggregation) -/

/-- C07: under sum aggregation the pre-floor traversal value is a linear function of the weight vector -/
theorem linear_in_weights (m : CostModel α) (hs : m.agg = .sum) (w1 w2 : List α) (hl : w1.length = w2.length)
    (a b : α) (e : Nat) (prev next : List α) (s1 s2 : α)
    (h1 : ({ m with weights := w1 }).traversalTotal e prev next = some s1)
    (h2 : ({ m with weights := w2 }).traversalTotal e prev next = some s2) :
    ({ m with weights := List.zipWith (fun x y => a * x + b * y) w1 w2 }).traversalTotal e prev next
      = some (a * s1 + b * s2) := by
  have r1 : CostModel.InRange { m with weights := w1 } prev next :=
    (CostModel.traversalTotal_isSome_iff _ e prev next).mp (by simp [h1])
  have r2 : CostModel.InRange { m with weights := w2 } prev next :=
    (CostModel.traversalTotal_isSome_iff _ e prev next).mp (by simp [h2])
  have r3 : CostModel.InRange { m with weights := List.zipWith (fun x y => a * x + b * y) w1 w2 } prev next := by
    intro i hi
    have := r1 i hi
    refine ⟨this.1, this.2.1, this.2.2.1, ?_, this.2.2.2.2⟩
    have h4 : i < w1.length := this.2.2.2.1
    simp only [List.length_zipWith, ← hl, min_self]
    exact h4
  rw [m.traversalTotal_sum_weights hs _ e prev next r1] at h1
  rw [m.traversalTotal_sum_weights hs _ e prev next r2] at h2
  rw [m.traversalTotal_sum_weights hs _ e prev next r3]
  simp only [Option.some.injEq] at h1 h2 ⊢
  have hw : ∀ i ∈ m.indices, (List.zipWith (fun x y => a * x + b * y) w1 w2).getD i 0
      = a * w1.getD i 0 + b * w2.getD i 0 :=
    fun i hi => getD_zipWith_linear w1 w2 a b i (r1 i hi).2.2.2.1 (r2 i hi).2.2.2.1
  rw [← h1, ← h2, sum_terms_linear m.indices _ _ _ _ a b hw, sum_terms_linear m.indices _ _ _ _ a b hw]
  ring

/-- the same for the access value -/
theorem linear_in_weights_access (m : CostModel α) (hs : m.agg = .sum) (w1 w2 : List α) (hl : w1.length = w2.length)
    (a b : α) (pe ne : Nat) (prev next : List α) (s1 s2 : α)
    (h1 : ({ m with weights := w1 }).accessTotal pe ne prev next = some s1)
    (h2 : ({ m with weights := w2 }).accessTotal pe ne prev next = some s2) :
    ({ m with weights := List.zipWith (fun x y => a * x + b * y) w1 w2 }).accessTotal pe ne prev next
      = some (a * s1 + b * s2) := by
  have r1 : CostModel.InRangeV { m with weights := w1 } prev next :=
    (CostModel.accessTotal_isSome_iff _ pe ne prev next).mp (by simp [h1])
  have r2 : CostModel.InRangeV { m with weights := w2 } prev next :=
    (CostModel.accessTotal_isSome_iff _ pe ne prev next).mp (by simp [h2])
  have r3 : CostModel.InRangeV { m with weights := List.zipWith (fun x y => a * x + b * y) w1 w2 } prev next := by
    intro i hi
    have := r1 i hi
    refine ⟨this.1, this.2.1, this.2.2.1, ?_⟩
    have h4 : i < w1.length := this.2.2.2
    simp only [List.length_zipWith, ← hl, min_self]
    exact h4
  rw [m.accessTotal_sum_weights hs _ pe ne prev next r1] at h1
  rw [m.accessTotal_sum_weights hs _ pe ne prev next r2] at h2
  rw [m.accessTotal_sum_weights hs _ pe ne prev next r3]
  simp only [Option.some.injEq] at h1 h2 ⊢
  have hw : ∀ i ∈ m.indices, (List.zipWith (fun x y => a * x + b * y) w1 w2).getD i 0
      = a * w1.getD i 0 + b * w2.getD i 0 :=
    fun i hi => getD_zipWith_linear w1 w2 a b i (r1 i hi).2.2.2 (r2 i hi).2.2.2
  rw [← h1, ← h2, sum_terms_linear m.indices _ _ _ _ a b hw, sum_terms_linear m.indices _ _ _ _ a b hw]
  ring

/-- the same for the (pre-clip) estimate -/
theorem linear_in_weights_estimate (m : CostModel α) (hs : m.agg = .sum) (w1 w2 : List α) (hl : w1.length = w2.length)
    (a b : α) (src dst : List α) (s1 s2 : α)
    (h1 : ({ m with weights := w1 }).vehicleCosts src dst = some s1)
    (h2 : ({ m with weights := w2 }).vehicleCosts src dst = some s2) :
    ({ m with weights := List.zipWith (fun x y => a * x + b * y) w1 w2 }).vehicleCosts src dst
      = some (a * s1 + b * s2) := by
  have r1 : CostModel.InRangeV { m with weights := w1 } src dst :=
    (CostModel.vehicleCosts_isSome_iff _ src dst).mp (by simp [h1])
  have r2 : CostModel.InRangeV { m with weights := w2 } src dst :=
    (CostModel.vehicleCosts_isSome_iff _ src dst).mp (by simp [h2])
  have r3 : CostModel.InRangeV { m with weights := List.zipWith (fun x y => a * x + b * y) w1 w2 } src dst := by
    intro i hi
    have := r1 i hi
    refine ⟨this.1, this.2.1, this.2.2.1, ?_⟩
    have h4 : i < w1.length := this.2.2.2
    simp only [List.length_zipWith, ← hl, min_self]
    exact h4
  rw [m.vehicleCosts_sum_weights hs _ src dst r1] at h1
  rw [m.vehicleCosts_sum_weights hs _ src dst r2] at h2
  rw [m.vehicleCosts_sum_weights hs _ src dst r3]
  simp only [Option.some.injEq] at h1 h2 ⊢
  have hw : ∀ i ∈ m.indices, (List.zipWith (fun x y => a * x + b * y) w1 w2).getD i 0
      = a * w1.getD i 0 + b * w2.getD i 0 :=
    fun i hi => getD_zipWith_linear w1 w2 a b i (r1 i hi).2.2.2 (r2 i hi).2.2.2
  rw [← h1, ← h2, sum_terms_linear m.indices _ _ _ _ a b hw]

end

end C07
end Compass
