/-
C07 — edge costs are finite and strictly positive; estimates are non-negative.

All theorems are about the executable model `Compass/Model/Cost.lean` (the functions the driver runs
at `Float` against the real `CostModel`), for every cost model value — index lists, weight / rate
vectors and state vectors of any length, `Combined` rates nested to any depth — over any linearly
ordered field `α`.  Finiteness is trivial there: every element of a field is finite; overflow and
rounding of `f64` are outside the theorems (DESIGN §3) and are watched by the oracle of the harness.

Correction to the design sketch (DESIGN §5 C07 says "≥ floor > 0"): the charged cost is strictly
positive but **not** always at least `MIN_COST` — `enforce_strictly_positive` replaces only values
`≤ 0`, a positive total below the floor is charged as it is (`charged_below_floor_witness`).  The
property text only asks for strict positivity, which is what is proved.

The charged edge total and the per-turn surcharge (§3b): the property's formula for "the cost charged
for accessing plus traversing the edge" lists the per-turn surcharges; `EdgeTraversal::total_cost()`
never contains them.  `edge_total_sum_formula_partial` (full statement in its docstring) holds when the
weighted per-turn surcharge of the pair is zero; `edge_total_excludes_turn_surcharge` and
`edge_total_ignores_turn_tables` say what the code does for all inputs;
`edge_total_sum_formula_counterexample` is the witness (finding
`edge_traversal/turn-surcharge-not-charged`).  Positivity of the total (§1) is unaffected.

Second part (§9–§16, model `Compass/Model/CostIO.lean`): the order of `Cost` (`OrderedFloat`,
`ReverseCost`), `agg_iter` with `Err` items, `forward_traversal` / `reverse_traversal` with every error
arm, `serialize_cost` / `serialize_cost_info`, the serde form of the rate enums, `CostModelBuilder` /
`CostModelService`, `NetworkCostRateBuilder`.  Findings there: two repaired (`fixed:` 4844235, dac0f5c),
four recorded (`known:` keys `cost_rate_serde/*`, `serialize_cost*/feature-named-*`), each with a
`_partial` theorem and a `_counterexample`.

Modelled rather than verified (the theorems do not speak about these; the differential run does):
`f64` rounding / overflow / NaN (the NaN arms of the `OrderedFloat` order are in the model and compared
bit for bit, but over a field `cost_cmp_spec` only says the order is the order); lookup tables are
association lists with unique keys standing for `HashMap`s (iteration order never observed; the
harness sorts what came out of one); the serde decisions of §13 are a model of what `serde` 1.0 /
`serde_json` 1.0 do with these enum shapes, taken from observed behaviour, not from serde's source;
CSV / gzip decoding of lookup files is abstracted (the case carries the decoded rows, as in C15);
in `forward_traversal` / `reverse_traversal` the access and traversal models are scripted (they leave
a prescribed state or fail), the graph is reduced to "edge exists / end vertex exists".

Notation (`Proofs/Cost.lean`): `m.wt i`, `m.vr i`, `m.nr i` are the weight, vehicle rate and network
rate of state index `i`; `stateDelta prev next i = next[i] − prev[i]`; `m.InRangeV prev next` says
every index of `m.indices` lies inside `prev`, `next`, `weights`, `vehicleRates`; `m.InRange` adds
`networkRates`.  `traversalTotal` / `accessTotal` are the values `traversal_cost` / `access_cost`
compute just before `Cost::enforce_strictly_positive`.
-/
import Compass.Gen.Decisions
import Compass.Gen.FnsC07
import Compass.Proofs.Num
import Compass.Model.Cost
import Compass.Proofs.Cost
import Compass.Proofs.Graph
import Compass.Model.CostIO
import Mathlib.Data.List.Perm.Subperm

namespace Compass
namespace C07

set_option linter.unusedSectionVars false

section
variable {α : Type} [Field α] [LinearOrder α] [IsStrictOrderedRing α] [Lit α] [LawfulLit α]

/-! ### 1. The charged costs are strictly positive, the estimate is non-negative -/

/-- the floor itself is strictly positive -/
theorem min_cost_pos : (0 : α) < minCost := minCost_pos

/-- `traversal_cost` = its pre-floor total when that is positive, the floor otherwise -/
theorem traversal_cost_eq (m : CostModel α) (e : Nat) (prev next : List α) :
    m.traversalCost e prev next
      = (m.traversalTotal e prev next).map (fun s => if 0 < s then s else minCost) := by
  unfold CostModel.traversalCost
  cases m.traversalTotal e prev next with
  | none => rfl
  | some s =>
    simp only [Option.map_some, enforceStrictlyPositive_eq]
    by_cases h : 0 < s
    · simp [h, not_le.mpr h]
    · simp [h, not_lt.mp h]

/-- `access_cost` = its pre-floor total when that is positive, the floor otherwise -/
theorem access_cost_eq (m : CostModel α) (pe ne : Nat) (prev next : List α) :
    m.accessCost pe ne prev next
      = (m.accessTotal pe ne prev next).map (fun s => if 0 < s then s else minCost) := by
  unfold CostModel.accessCost
  cases m.accessTotal pe ne prev next with
  | none => rfl
  | some s =>
    simp only [Option.map_some, enforceStrictlyPositive_eq]
    by_cases h : 0 < s
    · simp [h, not_le.mpr h]
    · simp [h, not_lt.mp h]

/-- `cost_estimate` = the aggregated vehicle cost clipped at zero -/
theorem cost_estimate_eq (m : CostModel α) (src dst : List α) :
    m.costEstimate src dst = (m.vehicleCosts src dst).map (fun v => max v 0) := by
  unfold CostModel.costEstimate
  cases m.vehicleCosts src dst with
  | none => rfl
  | some v => simp [enforceNonNegative_eq]

/-- C07: whenever `traversal_cost` returns, the cost is strictly positive — any weights, rates,
aggregation and state change -/
theorem traversal_cost_pos (m : CostModel α) (e : Nat) (prev next : List α) (c : α)
    (h : m.traversalCost e prev next = some c) : 0 < c := by
  unfold CostModel.traversalCost at h
  cases ht : m.traversalTotal e prev next with
  | none => simp [ht] at h
  | some t =>
    simp only [ht, Option.some.injEq] at h
    rw [← h]; exact enforceStrictlyPositive_pos t

/-- C07: whenever `access_cost` returns, the cost is strictly positive -/
theorem access_cost_pos (m : CostModel α) (pe ne : Nat) (prev next : List α) (c : α)
    (h : m.accessCost pe ne prev next = some c) : 0 < c := by
  unfold CostModel.accessCost at h
  cases ht : m.accessTotal pe ne prev next with
  | none => simp [ht] at h
  | some t =>
    simp only [ht, Option.some.injEq] at h
    rw [← h]; exact enforceStrictlyPositive_pos t

/-- C07: whenever `cost_estimate` returns, the estimate is not negative -/
theorem estimate_nonneg (m : CostModel α) (src dst : List α) (c : α)
    (h : m.costEstimate src dst = some c) : 0 ≤ c := by
  unfold CostModel.costEstimate at h
  cases hv : m.vehicleCosts src dst with
  | none => simp [hv] at h
  | some v =>
    simp only [hv, Option.some.injEq] at h
    rw [← h]; exact enforceNonNegative_nonneg v

/-- the charged cost is at least `min (pre-floor total) floor`; it is *not* always at least the floor:
a positive total below the floor is charged as it is (see `charged_below_floor_witness`) -/
theorem traversal_cost_ge (m : CostModel α) (e : Nat) (prev next : List α) (s c : α)
    (hs : m.traversalTotal e prev next = some s) (h : m.traversalCost e prev next = some c) :
    (0 < s → c = s) ∧ (s ≤ 0 → c = minCost) := by
  rw [traversal_cost_eq, hs] at h
  simp only [Option.map_some, Option.some.injEq] at h
  constructor
  · intro hp; simp [hp] at h; exact h.symm
  · intro hn; simp [not_lt.mpr hn] at h; exact h.symm

/-- `EdgeTraversal::total_cost()`: `access + (total − access)` is the traversal total, whatever the
access share.  Consequence (a finding, §3b): a per-turn surcharge enters the access share, is cancelled
in the traversal share and is never part of the charged total. -/
theorem edge_total_eq (access total : α) : edgeTotalCost access total = total := by
  unfold edgeTotalCost; ring

/-- C07: the cost charged for accessing plus traversing an edge is strictly positive, with or without
previous edge, whatever `access_cost` returned -/
theorem edge_total_pos (m : CostModel α) (e : Nat) (prev next : List α) (t : α) (ac : Option α)
    (h : m.traversalCost e prev next = some t) : 0 < edgeTotalCost (edgeAccessShare ac) t := by
  rw [edge_total_eq]; exact traversal_cost_pos m e prev next t h

/-- C07, on the record `EdgeTraversal::forward_traversal` / `reverse_traversal` build (with or without
neighbouring edge, whatever state the access model produced): `total_cost()` is exactly what
`traversal_cost` charged for the edge, hence strictly positive; and the access share is non-negative -/
theorem edge_record_total_pos (m : CostModel α) (trav : Nat) (pair : Option (Nat × Nat))
    (prev accessed next : List α) (r : α × α)
    (h : m.edgeTraversal trav pair prev accessed next = some r) :
    m.traversalCost trav prev next = some (edgeRecordTotal r) ∧ 0 < edgeRecordTotal r ∧ 0 ≤ r.1 := by
  unfold CostModel.edgeTraversal at h
  cases pair with
  | none =>
    cases ht : m.traversalCost trav prev next with
    | none => simp [ht] at h
    | some t =>
      simp only [ht, Option.some.injEq] at h
      have hp := traversal_cost_pos m trav prev next t ht
      subst h
      simp only [edgeRecordTotal, edgeAccessShare, zero_eq]
      refine ⟨by congr 1; ring, by linarith, le_refl _⟩
  | some pn =>
    obtain ⟨pe, ne⟩ := pn
    cases ha : m.accessCost pe ne prev accessed with
    | none => simp [ha] at h
    | some a =>
      cases ht : m.traversalCost trav prev next with
      | none => simp [ha, ht] at h
      | some t =>
        simp only [ha, ht, Option.some.injEq] at h
        have hp := traversal_cost_pos m trav prev next t ht
        have hpa := access_cost_pos m pe ne prev accessed a ha
        subst h
        simp only [edgeRecordTotal, edgeAccessShare, zero_eq]
        refine ⟨by congr 1; ring, by linarith, by linarith⟩

/-! ### 2. When the functions return -/

/-- `traversal_cost` returns exactly when every feature index lies inside all five vectors -/
theorem traversal_cost_isSome_iff (m : CostModel α) (e : Nat) (prev next : List α) :
    (m.traversalCost e prev next).isSome ↔ m.InRange prev next := by
  rw [← CostModel.traversalTotal_isSome_iff m e]
  unfold CostModel.traversalCost
  cases m.traversalTotal e prev next <;> simp

/-- `access_cost` returns exactly when every feature index lies inside the state vectors, the weights
and the vehicle rates (a feature beyond `network_rates` contributes zero instead of failing) -/
theorem access_cost_isSome_iff (m : CostModel α) (pe ne : Nat) (prev next : List α) :
    (m.accessCost pe ne prev next).isSome ↔ m.InRangeV prev next := by
  rw [← CostModel.accessTotal_isSome_iff m pe ne]
  unfold CostModel.accessCost
  cases m.accessTotal pe ne prev next <;> simp

/-- `cost_estimate` returns exactly when every feature index lies inside the four vectors it reads -/
theorem cost_estimate_isSome_iff (m : CostModel α) (src dst : List α) :
    (m.costEstimate src dst).isSome ↔ m.InRangeV src dst := by
  rw [← CostModel.vehicleCosts_isSome_iff m]
  unfold CostModel.costEstimate
  cases m.vehicleCosts src dst <;> simp

/-- an index outside a state vector makes all three fail (`StateIndexOutOfBounds`) -/
theorem none_of_short_state (m : CostModel α) (e pe ne : Nat) (prev next : List α) (i : Nat)
    (hi : i ∈ m.indices) (h : prev.length ≤ i ∨ next.length ≤ i) :
    m.traversalCost e prev next = none ∧ m.accessCost pe ne prev next = none
      ∧ m.costEstimate prev next = none := by
  have hv : ¬ m.InRangeV prev next := fun hr => by
    have := hr i hi
    rcases h with h | h
    · exact absurd this.1 (not_lt.mpr h)
    · exact absurd this.2.1 (not_lt.mpr h)
  have hr : ¬ m.InRange prev next := fun hr => hv hr.toV
  rw [← traversal_cost_isSome_iff m e] at hr
  have hv' := hv
  rw [← access_cost_isSome_iff m pe ne] at hv
  rw [← cost_estimate_isSome_iff m] at hv'
  exact ⟨by simpa using hr, by simpa using hv, by simpa using hv'⟩

/-- all vectors at least as long as every index: all three return -/
theorem some_of_long_enough (m : CostModel α) (e pe ne : Nat) (prev next : List α) (n : Nat)
    (hi : ∀ i ∈ m.indices, i < n) (h1 : n ≤ prev.length) (h2 : n ≤ next.length)
    (h3 : n ≤ m.weights.length) (h4 : n ≤ m.vehicleRates.length) (h5 : n ≤ m.networkRates.length) :
    (m.traversalCost e prev next).isSome ∧ (m.accessCost pe ne prev next).isSome
      ∧ (m.costEstimate prev next).isSome := by
  have hr : m.InRange prev next := fun i h =>
    ⟨lt_of_lt_of_le (hi i h) h1, lt_of_lt_of_le (hi i h) h2, lt_of_lt_of_le (hi i h) h4,
      lt_of_lt_of_le (hi i h) h3, lt_of_lt_of_le (hi i h) h5⟩
  exact ⟨(traversal_cost_isSome_iff m e prev next).mpr hr,
    (access_cost_isSome_iff m pe ne prev next).mpr hr.toV,
    (cost_estimate_isSome_iff m prev next).mpr hr.toV⟩

/-- `CostModel::new` fails exactly when the weights (absent = 0) sum to zero -/
theorem new_eq_none_iff (feats : List (FeatureConfig α)) (agg : CostAggregation) :
    CostModel.new feats agg = none ↔ (feats.map FeatureConfig.weight).sum = 0 :=
  CostModel.new_eq_none_iff feats agg

/-- a cost model built by `CostModel::new` answers on every pair of state vectors that are at least as
long as the state model — and its weights do not sum to zero -/
theorem new_returns (feats : List (FeatureConfig α)) (agg : CostAggregation) (m : CostModel α)
    (hm : CostModel.new feats agg = some m) (e pe ne : Nat) (prev next : List α)
    (h1 : feats.length ≤ prev.length) (h2 : feats.length ≤ next.length) :
    (m.traversalCost e prev next).isSome ∧ (m.accessCost pe ne prev next).isSome
      ∧ (m.costEstimate prev next).isSome ∧ m.weights.sum ≠ 0 := by
  obtain ⟨hi, hw, hv, hn, _⟩ := CostModel.new_eq_some feats agg m hm
  have := some_of_long_enough m e pe ne prev next feats.length
    (by rw [hi]; intro i h; exact List.mem_range.mp h) h1 h2 (by simp [hw]) (by simp [hv]) (by simp [hn])
  refine ⟨this.1, this.2.1, this.2.2, ?_⟩
  rw [hw]
  intro h0
  have := (CostModel.new_eq_none_iff feats agg).mpr h0
  rw [hm] at this; cases this

/-- in a cost model built by `CostModel::new`, feature `i` carries what the three mappings hold for its
name, an absent name standing for weight `0` / rate `Zero` (so an unlisted feature is a zero-weight
feature and is ignored, `zero_weight_ignored`) -/
theorem new_accessors (feats : List (FeatureConfig α)) (agg : CostAggregation) (m : CostModel α)
    (hm : CostModel.new feats agg = some m) (i : Nat) (hi : i < feats.length) :
    m.wt i = feats[i].weight ∧ m.vr i = feats[i].vehicleRate ∧ m.nr i = feats[i].networkRate
      ∧ (feats[i].1 = none → m.wt i = 0) := by
  obtain ⟨_, hw, hv, hn, _⟩ := CostModel.new_eq_some feats agg m hm
  have e1 : m.wt i = feats[i].weight := by
    unfold CostModel.wt; rw [hw]; simp [List.getD, hi]
  refine ⟨e1, ?_, ?_, ?_⟩
  · unfold CostModel.vr; rw [hv]; simp [List.getD, hi]
  · unfold CostModel.nr; rw [hn]; simp [List.getD, hi]
  · intro h; rw [e1]; unfold FeatureConfig.weight; rw [h]; simp

/-! ### 3. Sum aggregation: the formula -/

/-- C07 (sum formula, traversal): the pre-floor value is
`Σᵢ wᵢ·rateᵢ(Δᵢ) + Σᵢ wᵢ·(per-edge surcharge of feature i)` -/
theorem sum_formula_traversal (m : CostModel α) (hs : m.agg = .sum) (e : Nat) (prev next : List α) (s : α)
    (h : m.traversalTotal e prev next = some s) :
    s = (m.indices.map fun i => m.wt i * (m.vr i).mapValue (stateDelta prev next i)).sum
      + (m.indices.map fun i => m.wt i * (m.nr i).traversalCost e).sum := by
  have hr : m.InRange prev next := (m.traversalTotal_isSome_iff e prev next).mp (by simp [h])
  rw [m.traversalTotal_eq e prev next hr, hs, agg_sum, agg_sum] at h
  simp only [Option.some.injEq] at h
  rw [← h]
  unfold CostModel.vehicleTerms CostModel.traversalTerms
  congr 2 <;> exact List.map_congr_left (fun i _ => by ring)

/-- C07 (sum formula, access): the pre-floor value is
`Σᵢ wᵢ·rateᵢ(Δᵢ) + Σᵢ wᵢ·(per-turn surcharge of feature i)` -/
theorem sum_formula_access (m : CostModel α) (hs : m.agg = .sum) (pe ne : Nat) (prev next : List α) (s : α)
    (h : m.accessTotal pe ne prev next = some s) :
    s = (m.indices.map fun i => m.wt i * (m.vr i).mapValue (stateDelta prev next i)).sum
      + (m.indices.map fun i => m.wt i * (m.nr i).accessCost pe ne).sum := by
  have hr : m.InRangeV prev next := (m.accessTotal_isSome_iff pe ne prev next).mp (by simp [h])
  rw [m.accessTotal_eq pe ne prev next hr, hs, agg_sum, agg_sum] at h
  simp only [Option.some.injEq] at h
  rw [← h]
  unfold CostModel.vehicleTerms CostModel.accessTerms
  congr 2 <;> exact List.map_congr_left (fun i _ => by ring)

/-- C07 (sum formula, estimate): the pre-clip value is `Σᵢ wᵢ·rateᵢ(Δᵢ)` -/
theorem sum_formula_estimate (m : CostModel α) (hs : m.agg = .sum) (src dst : List α) (v : α)
    (h : m.vehicleCosts src dst = some v) :
    v = (m.indices.map fun i => m.wt i * (m.vr i).mapValue (stateDelta src dst i)).sum := by
  have hr : m.InRangeV src dst := (m.vehicleCosts_isSome_iff src dst).mp (by simp [h])
  rw [m.vehicleCosts_eq src dst hr, hs, agg_sum] at h
  simp only [Option.some.injEq] at h
  rw [← h]
  unfold CostModel.vehicleTerms
  congr 1; exact List.map_congr_left (fun i _ => by ring)

/-- C07 (sum formula + floor): under sum aggregation the charged traversal cost is the formula when
that is positive and the floor exactly when it is `≤ 0` -/
theorem sum_formula (m : CostModel α) (hs : m.agg = .sum) (e : Nat) (prev next : List α) (c : α)
    (h : m.traversalCost e prev next = some c) :
    let s := (m.indices.map fun i => m.wt i * (m.vr i).mapValue (stateDelta prev next i)).sum
      + (m.indices.map fun i => m.wt i * (m.nr i).traversalCost e).sum
    (0 < s → c = s) ∧ (s ≤ 0 → c = minCost) := by
  intro s
  cases ht : m.traversalTotal e prev next with
  | none => rw [traversal_cost_eq, ht] at h; simp at h
  | some t =>
    have : t = s := sum_formula_traversal m hs e prev next t ht
    rw [← this]
    exact traversal_cost_ge m e prev next t c ht h

/-- the same for `access_cost` -/
theorem sum_formula_access_floor (m : CostModel α) (hs : m.agg = .sum) (pe ne : Nat) (prev next : List α) (c : α)
    (h : m.accessCost pe ne prev next = some c) :
    let s := (m.indices.map fun i => m.wt i * (m.vr i).mapValue (stateDelta prev next i)).sum
      + (m.indices.map fun i => m.wt i * (m.nr i).accessCost pe ne).sum
    (0 < s → c = s) ∧ (s ≤ 0 → c = minCost) := by
  intro s
  cases ht : m.accessTotal pe ne prev next with
  | none => rw [access_cost_eq, ht] at h; simp at h
  | some t =>
    have : t = s := sum_formula_access m hs pe ne prev next t ht
    rw [← this]
    rw [access_cost_eq, ht] at h
    simp only [Option.map_some, Option.some.injEq] at h
    constructor
    · intro hp; simp [hp] at h; exact h.symm
    · intro hn; simp [not_lt.mpr hn] at h; exact h.symm

/-- the same for `cost_estimate`: the formula when positive, `0` otherwise -/
theorem sum_formula_estimate_clip (m : CostModel α) (hs : m.agg = .sum) (src dst : List α) (c : α)
    (h : m.costEstimate src dst = some c) :
    c = max (m.indices.map fun i => m.wt i * (m.vr i).mapValue (stateDelta src dst i)).sum 0 := by
  cases hv : m.vehicleCosts src dst with
  | none => rw [cost_estimate_eq, hv] at h; simp at h
  | some v =>
    rw [cost_estimate_eq, hv] at h
    simp only [Option.map_some, Option.some.injEq] at h
    rw [← h, sum_formula_estimate m hs src dst v hv]

/-! ### 3b. The charged edge total and the per-turn surcharge -/

/-- What `total_cost()` of the record is, for ALL inputs (sum aggregation): the floored sum of the
weighted rated state changes (over the whole step `prev → next`, access included) and the per-EDGE
surcharges.  The per-turn surcharge of the pair is not in it. -/
theorem edge_total_excludes_turn_surcharge (m : CostModel α) (hs : m.agg = .sum) (trav : Nat)
    (pair : Option (Nat × Nat)) (prev accessed next : List α) (r : α × α)
    (h : m.edgeTraversal trav pair prev accessed next = some r) :
    let s := (m.indices.map fun i => m.wt i * (m.vr i).mapValue (stateDelta prev next i)).sum
      + (m.indices.map fun i => m.wt i * (m.nr i).traversalCost trav).sum
    (0 < s → edgeRecordTotal r = s) ∧ (s ≤ 0 → edgeRecordTotal r = minCost) :=
  sum_formula m hs trav prev next (edgeRecordTotal r) (edge_record_total_pos m trav pair prev accessed next r h).1

/-- C07 (sum formula of the charged edge total), PARTIAL.
Full statement (the property): under sum aggregation the cost charged for accessing plus traversing
the edge — `total_cost()` of the record — equals
`S = Σᵢ wᵢ·rateᵢ(Δᵢ) + Σᵢ wᵢ·(per-edge surcharge) + Σᵢ wᵢ·(per-turn surcharge of the edge pair)` when
`S > 0`, and the floor otherwise.
Proved only when the weighted per-turn surcharge of the pair is zero (no neighbouring edge, no
edge-pair table, a pair that misses every table, zero weights).  Excluded: every configuration in
which the pair hits an edge-pair table with a non-zero weighted value — there the statement is FALSE
of the code: the surcharge enters `access_cost` and is subtracted again in the traversal share
(`traversal_cost = total − access_cost`), so `total_cost()` never contains it
(`edge_total_excludes_turn_surcharge`, `edge_total_ignores_turn_tables`,
`edge_total_sum_formula_counterexample`; finding `edge_traversal/turn-surcharge-not-charged`). -/
theorem edge_total_sum_formula_partial (m : CostModel α) (hs : m.agg = .sum) (trav : Nat)
    (pair : Option (Nat × Nat)) (prev accessed next : List α) (r : α × α)
    (h : m.edgeTraversal trav pair prev accessed next = some r)
    (hturn : turnSurcharge m pair = 0) :
    let S := (m.indices.map fun i => m.wt i * (m.vr i).mapValue (stateDelta prev next i)).sum
      + (m.indices.map fun i => m.wt i * (m.nr i).traversalCost trav).sum
      + turnSurcharge m pair
    (0 < S → edgeRecordTotal r = S) ∧ (S ≤ 0 → edgeRecordTotal r = minCost) := by
  intro S
  have := edge_total_excludes_turn_surcharge m hs trav pair prev accessed next r h
  simp only [S, hturn, add_zero]
  exact this

/-- A configured per-turn surcharge never reaches the charged edge total, for ALL inputs and BOTH
aggregations: removing every edge-pair table from the cost model (`dropTurns`) leaves `total_cost()` of
every record unchanged (and a record exists for the one exactly when it exists for the other) — so
labels, the frontier order and the route chosen are the same with and without the turn surcharges;
only the split into access share and traversal share moves. -/
theorem edge_total_ignores_turn_tables (m : CostModel α) (trav : Nat) (pair : Option (Nat × Nat))
    (prev accessed next : List α) :
    (m.dropTurns.edgeTraversal trav pair prev accessed next).map edgeRecordTotal
      = (m.edgeTraversal trav pair prev accessed next).map edgeRecordTotal := by
  have ht := m.traversalCost_dropTurns trav prev next
  unfold CostModel.edgeTraversal
  cases pair with
  | none =>
    simp only [ht]
  | some pn =>
    obtain ⟨pe, ne⟩ := pn
    simp only [ht]
    have hiff : (m.dropTurns.accessCost pe ne prev accessed).isSome = (m.accessCost pe ne prev accessed).isSome := by
      rw [Bool.eq_iff_iff, access_cost_isSome_iff, access_cost_isSome_iff]
      exact Iff.rfl
    cases ha : m.accessCost pe ne prev accessed with
    | none =>
      have : m.dropTurns.accessCost pe ne prev accessed = none := by
        rw [ha] at hiff; simpa using hiff
      simp [this]
    | some a =>
      have : ∃ a', m.dropTurns.accessCost pe ne prev accessed = some a' := by
        rw [ha] at hiff; exact Option.isSome_iff_exists.mp (by simpa using hiff)
      obtain ⟨a', ha'⟩ := this
      simp only [ha']
      cases m.traversalCost trav prev next with
      | none => rfl
      | some t =>
        simp only [Option.map_some, edgeRecordTotal, edgeAccessShare, zero_eq, Option.some.injEq]
        ring


/-! ### 4. What the rates denote -/

/-- a combined vehicle rate applies its mappings one after the other (any nesting depth) -/
theorem vehicle_rate_combined (rs : List (VehicleCostRate α)) (x : α) :
    (VehicleCostRate.combined rs).mapValue x = rs.foldl (fun acc r => r.mapValue acc) x := by
  simp [VehicleCostRate.mapValue, VehicleCostRate.mapValueList_eq_foldl]

/-- the leaves: zero, raw, factor, offset -/
theorem vehicle_rate_leaves (f o x : α) :
    (VehicleCostRate.zero : VehicleCostRate α).mapValue x = 0 ∧ (VehicleCostRate.raw : VehicleCostRate α).mapValue x = x
      ∧ (VehicleCostRate.factor f).mapValue x = x * f ∧ (VehicleCostRate.offset o).mapValue x = x + o := by
  simp [VehicleCostRate.mapValue]

/-- every vehicle rate, however nested, is an affine map of the state change -/
theorem vehicle_rate_affine (r : VehicleCostRate α) (x : α) : r.mapValue x = r.slope * x + r.intercept :=
  r.mapValue_affine x

/-- a combined network rate charges the sum of its parts (per edge) -/
theorem network_rate_combined_traversal (rs : List (NetworkCostRate α)) (e : Nat) :
    (NetworkCostRate.combined rs).traversalCost e = (rs.map fun r => r.traversalCost e).sum := by
  simp [NetworkCostRate.traversalCost, NetworkCostRate.traversalCostList_eq]

/-- a combined network rate charges the sum of its parts (per turn) -/
theorem network_rate_combined_access (rs : List (NetworkCostRate α)) (p n : Nat) :
    (NetworkCostRate.combined rs).accessCost p n = (rs.map fun r => r.accessCost p n).sum := by
  simp [NetworkCostRate.accessCost, NetworkCostRate.accessCostList_eq]

/-- the leaves: an edge table charges per edge only, an edge-pair table per turn only; a key that is
not in the table costs nothing -/
theorem network_rate_leaves (t1 : List (Nat × α)) (t2 : List ((Nat × Nat) × α)) (e p n : Nat) :
    (NetworkCostRate.zero : NetworkCostRate α).traversalCost e = 0
      ∧ (NetworkCostRate.zero : NetworkCostRate α).accessCost p n = 0
      ∧ (NetworkCostRate.edgeLookup t1).traversalCost e = lookup1 t1 e
      ∧ (NetworkCostRate.edgeLookup t1).accessCost p n = 0
      ∧ (NetworkCostRate.edgeEdgeLookup t2).traversalCost e = 0
      ∧ (NetworkCostRate.edgeEdgeLookup t2).accessCost p n = lookup2 t2 (p, n) := by
  simp [NetworkCostRate.traversalCost, NetworkCostRate.accessCost]

/-- table lookups (keys unique, as in a `HashMap`): the stored value on a hit, zero on a miss -/
theorem lookup_hit_miss (t1 : List (Nat × α)) (t2 : List ((Nat × Nat) × α))
    (h1 : t1.Pairwise (fun p q => p.1 ≠ q.1)) (h2 : t2.Pairwise (fun p q => p.1 ≠ q.1)) :
    (∀ k v, (k, v) ∈ t1 → lookup1 t1 k = v) ∧ (∀ k, (∀ p ∈ t1, p.1 ≠ k) → lookup1 t1 k = 0)
      ∧ (∀ k v, (k, v) ∈ t2 → lookup2 t2 k = v) ∧ (∀ k, (∀ p ∈ t2, p.1 ≠ k) → lookup2 t2 k = 0) :=
  ⟨fun k v h => lookup1_of_mem t1 k v h1 h, fun k h => lookup1_of_not_mem t1 k h,
    fun k v h => lookup2_of_mem t2 k v h2 h, fun k h => lookup2_of_not_mem t2 k h⟩

/-! ### 5. Linear in the weights (sum aggregation) -/

/-- C07: under sum aggregation the pre-floor traversal value is a linear function of the weight vector -/
theorem linear_in_weights (m : CostModel α) (hs : m.agg = .sum) (w1 w2 : List α) (hl : w1.length = w2.length)
    (a b : α) (e : Nat) (prev next : List α) (s1 s2 : α)
    (h1 : ({ m with weights := w1 }).traversalTotal e prev next = some s1)
    (h2 : ({ m with weights := w2 }).traversalTotal e prev next = some s2) :
    ({ m with weights := List.zipWith (fun x y => a * x + b * y) w1 w2 }).traversalTotal e prev next
      = some (a * s1 + b * s2) := by
  have r1 : CostModel.InRange { m with weights := w1 } prev next :=
    (CostModel.traversalTotal_isSome_iff _ e prev next).mp (by simp [h1])
  have r2 : CostModel.InRange { m with weights := w2 } prev next :=
    (CostModel.traversalTotal_isSome_iff _ e prev next).mp (by simp [h2])
  have r3 : CostModel.InRange { m with weights := List.zipWith (fun x y => a * x + b * y) w1 w2 } prev next := by
    intro i hi
    have := r1 i hi
    refine ⟨this.1, this.2.1, this.2.2.1, ?_, this.2.2.2.2⟩
    have h4 : i < w1.length := this.2.2.2.1
    simp only [List.length_zipWith, ← hl, min_self]
    exact h4
  rw [m.traversalTotal_sum_weights hs _ e prev next r1] at h1
  rw [m.traversalTotal_sum_weights hs _ e prev next r2] at h2
  rw [m.traversalTotal_sum_weights hs _ e prev next r3]
  simp only [Option.some.injEq] at h1 h2 ⊢
  have hw : ∀ i ∈ m.indices, (List.zipWith (fun x y => a * x + b * y) w1 w2).getD i 0
      = a * w1.getD i 0 + b * w2.getD i 0 :=
    fun i hi => getD_zipWith_linear w1 w2 a b i (r1 i hi).2.2.2.1 (r2 i hi).2.2.2.1
  rw [← h1, ← h2, sum_terms_linear m.indices _ _ _ _ a b hw, sum_terms_linear m.indices _ _ _ _ a b hw]
  ring

/-- the same for the access value -/
theorem linear_in_weights_access (m : CostModel α) (hs : m.agg = .sum) (w1 w2 : List α) (hl : w1.length = w2.length)
    (a b : α) (pe ne : Nat) (prev next : List α) (s1 s2 : α)
    (h1 : ({ m with weights := w1 }).accessTotal pe ne prev next = some s1)
    (h2 : ({ m with weights := w2 }).accessTotal pe ne prev next = some s2) :
    ({ m with weights := List.zipWith (fun x y => a * x + b * y) w1 w2 }).accessTotal pe ne prev next
      = some (a * s1 + b * s2) := by
  have r1 : CostModel.InRangeV { m with weights := w1 } prev next :=
    (CostModel.accessTotal_isSome_iff _ pe ne prev next).mp (by simp [h1])
  have r2 : CostModel.InRangeV { m with weights := w2 } prev next :=
    (CostModel.accessTotal_isSome_iff _ pe ne prev next).mp (by simp [h2])
  have r3 : CostModel.InRangeV { m with weights := List.zipWith (fun x y => a * x + b * y) w1 w2 } prev next := by
    intro i hi
    have := r1 i hi
    refine ⟨this.1, this.2.1, this.2.2.1, ?_⟩
    have h4 : i < w1.length := this.2.2.2
    simp only [List.length_zipWith, ← hl, min_self]
    exact h4
  rw [m.accessTotal_sum_weights hs _ pe ne prev next r1] at h1
  rw [m.accessTotal_sum_weights hs _ pe ne prev next r2] at h2
  rw [m.accessTotal_sum_weights hs _ pe ne prev next r3]
  simp only [Option.some.injEq] at h1 h2 ⊢
  have hw : ∀ i ∈ m.indices, (List.zipWith (fun x y => a * x + b * y) w1 w2).getD i 0
      = a * w1.getD i 0 + b * w2.getD i 0 :=
    fun i hi => getD_zipWith_linear w1 w2 a b i (r1 i hi).2.2.2 (r2 i hi).2.2.2
  rw [← h1, ← h2, sum_terms_linear m.indices _ _ _ _ a b hw, sum_terms_linear m.indices _ _ _ _ a b hw]
  ring

/-- the same for the (pre-clip) estimate -/
theorem linear_in_weights_estimate (m : CostModel α) (hs : m.agg = .sum) (w1 w2 : List α) (hl : w1.length = w2.length)
    (a b : α) (src dst : List α) (s1 s2 : α)
    (h1 : ({ m with weights := w1 }).vehicleCosts src dst = some s1)
    (h2 : ({ m with weights := w2 }).vehicleCosts src dst = some s2) :
    ({ m with weights := List.zipWith (fun x y => a * x + b * y) w1 w2 }).vehicleCosts src dst
      = some (a * s1 + b * s2) := by
  have r1 : CostModel.InRangeV { m with weights := w1 } src dst :=
    (CostModel.vehicleCosts_isSome_iff _ src dst).mp (by simp [h1])
  have r2 : CostModel.InRangeV { m with weights := w2 } src dst :=
    (CostModel.vehicleCosts_isSome_iff _ src dst).mp (by simp [h2])
  have r3 : CostModel.InRangeV { m with weights := List.zipWith (fun x y => a * x + b * y) w1 w2 } src dst := by
    intro i hi
    have := r1 i hi
    refine ⟨this.1, this.2.1, this.2.2.1, ?_⟩
    have h4 : i < w1.length := this.2.2.2
    simp only [List.length_zipWith, ← hl, min_self]
    exact h4
  rw [m.vehicleCosts_sum_weights hs _ src dst r1] at h1
  rw [m.vehicleCosts_sum_weights hs _ src dst r2] at h2
  rw [m.vehicleCosts_sum_weights hs _ src dst r3]
  simp only [Option.some.injEq] at h1 h2 ⊢
  have hw : ∀ i ∈ m.indices, (List.zipWith (fun x y => a * x + b * y) w1 w2).getD i 0
      = a * w1.getD i 0 + b * w2.getD i 0 :=
    fun i hi => getD_zipWith_linear w1 w2 a b i (r1 i hi).2.2.2 (r2 i hi).2.2.2
  rw [← h1, ← h2, sum_terms_linear m.indices _ _ _ _ a b hw]

/-! ### 6. Zero-weight features are ignored -/

/-- C07: a feature whose weight is zero is ignored — neither its state variables nor its vehicle and
network rates influence any of the three results (`m'`, `prev'`, `next'` differ from `m`, `prev`,
`next` only at zero-weight features).  This holds for both aggregations; under sum aggregation the
feature can moreover be dropped altogether (`zero_weight_removable`), under mul aggregation it
annihilates the product instead (`mul_zero_weight_floor`). -/
theorem zero_weight_ignored (m m' : CostModel α)
    (hagg : m'.agg = m.agg) (hidx : m'.indices = m.indices) (hw : m'.weights = m.weights)
    (hvl : m'.vehicleRates.length = m.vehicleRates.length)
    (hnl : m'.networkRates.length = m.networkRates.length)
    (prev next prev' next' : List α) (hp : prev'.length = prev.length) (hn : next'.length = next.length)
    (h : ∀ i ∈ m.indices, m.wt i = 0 ∨
      (m'.vr i = m.vr i ∧ m'.nr i = m.nr i ∧ prev'.getD i 0 = prev.getD i 0 ∧ next'.getD i 0 = next.getD i 0))
    (e pe ne : Nat) :
    m'.traversalCost e prev' next' = m.traversalCost e prev next
      ∧ m'.accessCost pe ne prev' next' = m.accessCost pe ne prev next
      ∧ m'.costEstimate prev' next' = m.costEstimate prev next := by
  have hwt : ∀ i, m'.wt i = m.wt i := fun i => by unfold CostModel.wt; rw [hw]
  have hV : m'.InRangeV prev' next' ↔ m.InRangeV prev next := by
    unfold CostModel.InRangeV; rw [hidx, hp, hn, hvl, hw]
  have hR : m'.InRange prev' next' ↔ m.InRange prev next := by
    unfold CostModel.InRange; rw [hidx, hp, hn, hvl, hw, hnl]
  have hvt : m'.vehicleTerms prev' next' = m.vehicleTerms prev next := by
    unfold CostModel.vehicleTerms; rw [hidx]
    apply List.map_congr_left
    intro i hi
    rcases h i hi with h0 | ⟨h1, _, h3, h4⟩
    · rw [hwt, h0]; simp
    · rw [hwt, h1]; unfold stateDelta; rw [h3, h4]
  have htt : m'.traversalTerms e = m.traversalTerms e := by
    unfold CostModel.traversalTerms; rw [hidx]
    apply List.map_congr_left
    intro i hi
    rcases h i hi with h0 | ⟨_, h2, _, _⟩
    · rw [hwt, h0]; simp
    · rw [hwt, h2]
  have hat : m'.accessTerms pe ne = m.accessTerms pe ne := by
    unfold CostModel.accessTerms; rw [hidx]
    apply List.map_congr_left
    intro i hi
    rcases h i hi with h0 | ⟨_, h2, _, _⟩
    · rw [hwt, h0]; simp
    · rw [hwt, h2]
  have hveh : m'.vehicleCosts prev' next' = m.vehicleCosts prev next := by
    by_cases hr : m.InRangeV prev next
    · rw [m.vehicleCosts_eq prev next hr, m'.vehicleCosts_eq prev' next' (hV.mpr hr), hvt, hagg]
    · have n1 : m.vehicleCosts prev next = none := by
        rw [← Option.not_isSome_iff_eq_none, m.vehicleCosts_isSome_iff]; exact hr
      have n2 : m'.vehicleCosts prev' next' = none := by
        rw [← Option.not_isSome_iff_eq_none, m'.vehicleCosts_isSome_iff, hV]; exact hr
      rw [n1, n2]
  have htot : m'.traversalTotal e prev' next' = m.traversalTotal e prev next := by
    by_cases hr : m.InRange prev next
    · rw [m.traversalTotal_eq e prev next hr, m'.traversalTotal_eq e prev' next' (hR.mpr hr), hvt, htt, hagg]
    · have n1 : m.traversalTotal e prev next = none := by
        rw [← Option.not_isSome_iff_eq_none, m.traversalTotal_isSome_iff]; exact hr
      have n2 : m'.traversalTotal e prev' next' = none := by
        rw [← Option.not_isSome_iff_eq_none, m'.traversalTotal_isSome_iff, hR]; exact hr
      rw [n1, n2]
  have hacc : m'.accessTotal pe ne prev' next' = m.accessTotal pe ne prev next := by
    by_cases hr : m.InRangeV prev next
    · rw [m.accessTotal_eq pe ne prev next hr, m'.accessTotal_eq pe ne prev' next' (hV.mpr hr), hvt, hat, hagg]
    · have n1 : m.accessTotal pe ne prev next = none := by
        rw [← Option.not_isSome_iff_eq_none, m.accessTotal_isSome_iff]; exact hr
      have n2 : m'.accessTotal pe ne prev' next' = none := by
        rw [← Option.not_isSome_iff_eq_none, m'.accessTotal_isSome_iff, hV]; exact hr
      rw [n1, n2]
  refine ⟨?_, ?_, ?_⟩
  · unfold CostModel.traversalCost; rw [htot]
  · unfold CostModel.accessCost; rw [hacc]
  · unfold CostModel.costEstimate; rw [hveh]

/-- C07 (sum aggregation): a zero-weight feature can be removed from the model without changing any
result (when the results exist) -/
theorem zero_weight_removable (m : CostModel α) (hs : m.agg = .sum) (k : Nat) (hk : m.wt k = 0)
    (prev next : List α) (hr : m.InRange prev next) (e pe ne : Nat) :
    let m' : CostModel α := { m with indices := m.indices.filter (fun j => j != k) }
    m'.traversalCost e prev next = m.traversalCost e prev next
      ∧ m'.accessCost pe ne prev next = m.accessCost pe ne prev next
      ∧ m'.costEstimate prev next = m.costEstimate prev next := by
  intro m'
  have hr' : m'.InRange prev next := fun i hi => hr i (List.mem_of_mem_filter hi)
  have key : ∀ f : Nat → α, f k = 0 →
      ((m.indices.filter (fun j => j != k)).map f).sum = (m.indices.map f).sum := by
    intro f hf
    induction m.indices with
    | nil => simp
    | cons j l ih =>
      rw [List.filter_cons]
      split
      · simp only [List.map_cons, List.sum_cons, ih]
      · rename_i hj
        have : j = k := by simpa using hj
        simp only [List.map_cons, List.sum_cons, ih, this, hf, zero_add]
  have hvt : (m'.vehicleTerms prev next).sum = (m.vehicleTerms prev next).sum :=
    key (fun i => (m.vr i).mapValue (stateDelta prev next i) * m.wt i) (by simp [hk])
  have htt : (m'.traversalTerms e).sum = (m.traversalTerms e).sum :=
    key (fun i => (m.nr i).traversalCost e * m.wt i) (by simp [hk])
  have hat : (m'.accessTerms pe ne).sum = (m.accessTerms pe ne).sum :=
    key (fun i => (m.nr i).accessCost pe ne * m.wt i) (by simp [hk])
  refine ⟨?_, ?_, ?_⟩
  · unfold CostModel.traversalCost
    rw [m.traversalTotal_eq e prev next hr, m'.traversalTotal_eq e prev next hr', hs, agg_sum, agg_sum,
      agg_sum, agg_sum, hvt, htt]
  · unfold CostModel.accessCost
    rw [m.accessTotal_eq pe ne prev next hr.toV, m'.accessTotal_eq pe ne prev next hr'.toV, hs, agg_sum,
      agg_sum, agg_sum, agg_sum, hvt, hat]
  · unfold CostModel.costEstimate
    rw [m.vehicleCosts_eq prev next hr.toV, m'.vehicleCosts_eq prev next hr'.toV, hs, agg_sum, agg_sum, hvt]

/-! ### 7. Multiplication aggregation, exactly as the code behaves -/

/-- under mul aggregation each part is the product of the per-feature costs — `0` for an empty
feature list — and the two parts are *added*; the total is then floored like any other -/
theorem mul_formula_traversal (m : CostModel α) (hm : m.agg = .mul) (e : Nat) (prev next : List α) (s : α)
    (h : m.traversalTotal e prev next = some s) :
    s = (if m.indices = [] then 0
          else (m.indices.map fun i => (m.vr i).mapValue (stateDelta prev next i) * m.wt i).prod)
      + (if m.indices = [] then 0 else (m.indices.map fun i => (m.nr i).traversalCost e * m.wt i).prod) := by
  have hr : m.InRange prev next := (m.traversalTotal_isSome_iff e prev next).mp (by simp [h])
  rw [m.traversalTotal_eq e prev next hr, hm, agg_mul, agg_mul] at h
  simp only [Option.some.injEq] at h
  rw [← h]
  unfold CostModel.vehicleTerms CostModel.traversalTerms
  simp only [List.map_eq_nil_iff]

/-- the same for the access value -/
theorem mul_formula_access (m : CostModel α) (hm : m.agg = .mul) (pe ne : Nat) (prev next : List α) (s : α)
    (h : m.accessTotal pe ne prev next = some s) :
    s = (if m.indices = [] then 0
          else (m.indices.map fun i => (m.vr i).mapValue (stateDelta prev next i) * m.wt i).prod)
      + (if m.indices = [] then 0 else (m.indices.map fun i => (m.nr i).accessCost pe ne * m.wt i).prod) := by
  have hr : m.InRangeV prev next := (m.accessTotal_isSome_iff pe ne prev next).mp (by simp [h])
  rw [m.accessTotal_eq pe ne prev next hr, hm, agg_mul, agg_mul] at h
  simp only [Option.some.injEq] at h
  rw [← h]
  unfold CostModel.vehicleTerms CostModel.accessTerms
  simp only [List.map_eq_nil_iff]

/-- the same for the (pre-clip) estimate -/
theorem mul_formula_estimate (m : CostModel α) (hm : m.agg = .mul) (src dst : List α) (v : α)
    (h : m.vehicleCosts src dst = some v) :
    v = (if m.indices = [] then 0
          else (m.indices.map fun i => (m.vr i).mapValue (stateDelta src dst i) * m.wt i).prod) := by
  have hr : m.InRangeV src dst := (m.vehicleCosts_isSome_iff src dst).mp (by simp [h])
  rw [m.vehicleCosts_eq src dst hr, hm, agg_mul] at h
  simp only [Option.some.injEq] at h
  rw [← h]
  unfold CostModel.vehicleTerms
  simp only [List.map_eq_nil_iff]

/-- C07 (mul aggregation): the charged cost is still strictly positive: the product formula when that
is positive, the floor otherwise -/
theorem mul_aggregation_pos (m : CostModel α) (hm : m.agg = .mul) (e : Nat) (prev next : List α) (c : α)
    (h : m.traversalCost e prev next = some c) :
    let s := (if m.indices = [] then 0
          else (m.indices.map fun i => (m.vr i).mapValue (stateDelta prev next i) * m.wt i).prod)
      + (if m.indices = [] then 0 else (m.indices.map fun i => (m.nr i).traversalCost e * m.wt i).prod)
    0 < c ∧ (0 < s → c = s) ∧ (s ≤ 0 → c = minCost) := by
  intro s
  refine ⟨traversal_cost_pos m e prev next c h, ?_⟩
  cases ht : m.traversalTotal e prev next with
  | none => rw [traversal_cost_eq, ht] at h; simp at h
  | some t =>
    have : t = s := mul_formula_traversal m hm e prev next t ht
    rw [← this]
    exact traversal_cost_ge m e prev next t c ht h

/-- under mul aggregation a zero-weight feature is *not* ignored: it annihilates both products, so the
floor is charged and the estimate is zero -/
theorem mul_zero_weight_floor (m : CostModel α) (hm : m.agg = .mul) (k : Nat) (hk : k ∈ m.indices)
    (h0 : m.wt k = 0) (e pe ne : Nat) (prev next : List α) (hr : m.InRange prev next) :
    m.traversalCost e prev next = some minCost ∧ m.accessCost pe ne prev next = some minCost
      ∧ m.costEstimate prev next = some 0 := by
  have hne : m.indices ≠ [] := List.ne_nil_of_mem hk
  have z : ∀ f : Nat → α, (m.indices.map fun i => f i * m.wt i).prod = 0 := by
    intro f
    apply list_prod_eq_zero
    exact List.mem_map.mpr ⟨k, hk, by simp [h0]⟩
  have hv : m.agg.agg (m.vehicleTerms prev next) = 0 := by
    rw [hm, agg_mul]; unfold CostModel.vehicleTerms; simp [hne, z]
  have ht : m.agg.agg (m.traversalTerms e) = 0 := by
    rw [hm, agg_mul]; unfold CostModel.traversalTerms; simp [hne, z]
  have ha : m.agg.agg (m.accessTerms pe ne) = 0 := by
    rw [hm, agg_mul]; unfold CostModel.accessTerms; simp [hne, z]
  refine ⟨?_, ?_, ?_⟩
  · rw [traversal_cost_eq, m.traversalTotal_eq e prev next hr, hv, ht]; simp
  · rw [access_cost_eq, m.accessTotal_eq pe ne prev next hr.toV, hv, ha]; simp
  · rw [cost_estimate_eq, m.vehicleCosts_eq prev next hr.toV, hv]; simp

end

/-! ### 8. Witness and non-vacuity (evaluated by the kernel on `ℚ`) -/

/-- The floor is not a lower bound of the charged cost: a positive pre-floor total below the floor is
charged as it is (`enforce_strictly_positive` only replaces values `≤ 0`).  So "result ≥ MIN_COST"
does not hold; "result > 0" (`traversal_cost_pos`) does. -/
theorem charged_below_floor_witness :
    ∃ (m : CostModel ℚ) (e : Nat) (prev next : List ℚ) (c : ℚ),
      m.traversalCost e prev next = some c ∧ 0 < c ∧ c < minCost :=
  ⟨{ indices := [0], weights := [1], vehicleRates := [.raw], networkRates := [.zero], agg := .sum },
    0, [0], [minCost / 2], minCost / 2, by decide +kernel, by decide +kernel, by decide +kernel⟩

/-- two features; the first rated by a nested combined rate and charged per edge and per turn, the
second with weight zero -/
def exSum : CostModel ℚ :=
  { indices := [0, 1], weights := [2, 0],
    vehicleRates := [.combined [.factor 3, .combined [.offset (-1), .combined []], .raw], .raw],
    networkRates := [.combined [.edgeLookup [(3, 1/4)], .edgeEdgeLookup [((1, 3), 4)]], .edgeLookup [(3, 100)]],
    agg := .sum }

/-- the same under mul aggregation, both weights non-zero -/
def exMul : CostModel ℚ := { exSum with weights := [2, -1], agg := .mul }

/-- finding `edge_traversal/turn-surcharge-not-charged`: `exSum` charges the turn `(1, 3)` a surcharge
of `4` on a feature of weight `2`.  Entering edge `3` from edge `1` the property's formula gives
`4 + ½ + 8 = 12½`; `access_cost` is `12`, the traversal share `4½ − 12 = −7½`, and `total_cost()` is
`4½` — exactly what the cost model without any turn table charges. -/
theorem edge_total_sum_formula_counterexample :
    (exSum.edgeTraversal 3 (some (1, 3)) [1, 0] [2, 7] [2, 7]) = some (12, 4 + 1/2 - 12)
      ∧ (exSum.edgeTraversal 3 (some (1, 3)) [1, 0] [2, 7] [2, 7]).map edgeRecordTotal = some (4 + 1/2)
      ∧ turnSurcharge exSum (some (1, 3)) = 8
      ∧ (exSum.indices.map fun i => exSum.wt i * (exSum.vr i).mapValue (stateDelta [1, 0] [2, 7] i)).sum
          + (exSum.indices.map fun i => exSum.wt i * (exSum.nr i).traversalCost 3).sum
          + turnSurcharge exSum (some (1, 3)) = 12 + 1/2
      ∧ (exSum.dropTurns.edgeTraversal 3 (some (1, 3)) [1, 0] [2, 7] [2, 7]).map edgeRecordTotal = some (4 + 1/2)
      ∧ exSum.dropTurns.accessCost 1 3 [1, 0] [2, 7] = some 4 := by
  decide +kernel

-- non-vacuity of `edge_total_sum_formula_partial`: a pair that misses the table, and no neighbouring
-- edge; every hypothesis instantiated, the theorem applied
example : (exSum.edgeTraversal 3 (some (0, 3)) [1, 0] [2, 7] [2, 7]).map edgeRecordTotal = some (4 + 1/2) := by
  have h : exSum.edgeTraversal 3 (some (0, 3)) [1, 0] [2, 7] [2, 7] = some (4, 4 + 1/2 - 4) := by decide +kernel
  have hs : exSum.agg = .sum := rfl
  have ht : turnSurcharge exSum (some (0, 3)) = 0 := by decide +kernel
  have := (edge_total_sum_formula_partial exSum hs 3 (some (0, 3)) [1, 0] [2, 7] [2, 7] _ h ht).1
  have hS : (exSum.indices.map fun i => exSum.wt i * (exSum.vr i).mapValue (stateDelta [1, 0] [2, 7] i)).sum
      + (exSum.indices.map fun i => exSum.wt i * (exSum.nr i).traversalCost 3).sum
      + turnSurcharge exSum (some (0, 3)) = 4 + 1/2 := by decide +kernel
  rw [hS] at this
  rw [h]
  simp only [Option.map_some, Option.some.injEq]
  exact this (by norm_num)


-- §1: the functions return on in-range input; positive delta: the formula; the per-turn surcharge
-- goes to the access cost only, the per-edge surcharge to the traversal cost only
example : exSum.traversalCost 3 [1, 0] [2, 7] = some (2 * ((1 * 3 - 1)) + 2 * (1/4)) := by decide +kernel
example : exSum.accessCost 1 3 [1, 0] [2, 7] = some (2 * ((1 * 3 - 1)) + 2 * 4) := by decide +kernel
example : exSum.costEstimate [1, 0] [2, 7] = some (2 * ((1 * 3 - 1))) := by decide +kernel
-- negative delta (regained energy): floor, and the estimate is clipped to zero
example : exSum.traversalCost 0 [2, 0] [1, 7] = some minCost := by decide +kernel
example : exSum.accessCost 0 0 [2, 0] [1, 7] = some minCost := by decide +kernel
example : exSum.costEstimate [2, 0] [1, 7] = some 0 := by decide +kernel
-- zero delta with a negative offset: floor
example : exSum.traversalCost 0 [1, 0] [1, 0] = some minCost := by decide +kernel
-- §1: the edge record, with a previous edge
example : edgeTotalCost (edgeAccessShare (exSum.accessCost 1 3 [1, 0] [2, 7])) (4 + 1/2) = 4 + 1/2 := by
  decide +kernel
example : (exSum.edgeTraversal 3 (some (1, 3)) [1, 0] [1, 0] [2, 7]).map edgeRecordTotal = some (4 + 1/2) := by
  decide +kernel
-- … the traversal share of the record may well be negative (turn surcharge above the edge's total)
example : (exSum.edgeTraversal 3 (some (1, 3)) [1, 0] [2, 7] [2, 7]).map (·.2) = some (4 + 1/2 - 12) := by
  decide +kernel
-- §2: too short a state vector: none from all three; `new` accepts / rejects
example : exSum.traversalCost 3 [1] [2, 7] = none ∧ exSum.accessCost 1 3 [1, 0] [2] = none
    ∧ exSum.costEstimate [] [] = none := by decide +kernel
example : (CostModel.new [((some 1 : Option ℚ), some .raw, none), (none, none, none)] .sum).isSome = true := by
  decide +kernel
example : CostModel.new [((some 1 : Option ℚ), some .raw, none), (some (-1), none, none)] .sum = none := by
  decide +kernel
example : CostModel.new ([] : List (FeatureConfig ℚ)) .sum = none := by decide +kernel
-- §3/§5: the hypotheses of the formula and linearity theorems are satisfiable
example : exSum.agg = .sum ∧ (exSum.traversalTotal 3 [1, 0] [2, 7]).isSome = true
    ∧ (({ exSum with weights := [1, 1] }).traversalTotal 3 [1, 0] [2, 7]).isSome = true := by decide +kernel
-- §5: the pre-floor value of weights 2·(2,0) + 3·(1,1) is 2·(…) + 3·(…), also when it is negative
example : ({ exSum with weights := [7, 3] }).traversalTotal 3 [2, 0] [1, 7]
    = (do let a ← exSum.traversalTotal 3 [2, 0] [1, 7]
          let b ← ({ exSum with weights := [1, 1] }).traversalTotal 3 [2, 0] [1, 7]
          pure (2 * a + 3 * b)) := by decide +kernel
-- §6: feature 1 has weight zero: its state and rates do not matter
example : exSum.wt 1 = 0 := by decide +kernel
example : exSum.traversalCost 3 [1, 5] [2, -9] = exSum.traversalCost 3 [1, 0] [2, 7] := by decide +kernel
-- §7: mul aggregation: product of the per-feature costs plus product of the surcharges
example : exMul.accessCost 1 3 [1, 7] [2, 0] = some ((2 * 2) * (-7 * -1) + (4 * 2) * (0 * -1)) := by
  decide +kernel
example : exMul.traversalCost 3 [1, 0] [2, 7] = some minCost := by decide +kernel
-- a zero weight annihilates the product
example : ({ exSum with agg := .mul }).traversalCost 3 [1, 0] [2, 7] = some minCost := by decide +kernel

/-! ## Second part: the rest of the anchor files (model `Compass/Model/CostIO.lean`) -/

section
variable {α : Type} [Field α] [LinearOrder α] [IsStrictOrderedRing α] [Lit α] [LawfulLit α]

/-! ### 9. The order of `Cost` (`unit/cost.rs`) -/

/-- a linearly ordered field has no NaN -/
theorem cost_is_nan_false (x : α) : costIsNaN x = false := by
  simp [costIsNaN]

/-- over a linear order `OrderedFloat::cmp` is the order itself -/
theorem cost_cmp_spec (a b : α) :
    (costCmp a b = .lt ↔ a < b) ∧ (costCmp a b = .eq ↔ a = b) ∧ (costCmp a b = .gt ↔ b < a) := by
  unfold costCmp
  simp only [cost_is_nan_false, Bool.false_or, Bool.not_eq_true', decide_eq_false_iff_not, not_le]
  rcases lt_trichotomy a b with h | h | h
  · simp [h, ne_of_lt h, not_lt.mpr (le_of_lt h)]
  · subst h; simp
  · simp [h, not_lt.mpr (le_of_lt h), ne_of_gt h]

/-- `ReverseCost` reverses it (the frontier is a max-heap over `ReverseCost`: the least cost pops first) -/
theorem reverse_cost_cmp_spec (a b : α) :
    (reverseCostCmp a b = .lt ↔ b < a) ∧ (reverseCostCmp a b = .eq ↔ a = b) ∧ (reverseCostCmp a b = .gt ↔ a < b) := by
  unfold reverseCostCmp
  obtain ⟨h1, h2, h3⟩ := cost_cmp_spec b a
  exact ⟨h1, by rw [h2]; exact eq_comm, h3⟩

/-- `Ord::max` / `Ord::min` on costs -/
theorem cost_max_min (a b : α) : costMax a b = max a b ∧ costMin a b = min a b := by
  unfold costMax costMin
  by_cases h : b < a
  · have := (cost_cmp_spec a b).2.2.mpr h
    simp [this, max_eq_left (le_of_lt h), min_eq_right (le_of_lt h)]
  · have : costCmp a b ≠ .gt := fun hh => h ((cost_cmp_spec a b).2.2.mp hh)
    simp [this, max_eq_right (not_lt.mp h), min_eq_left (not_lt.mp h)]

/-- the floor and the clip written with the derived comparison of `Cost` (what the code evaluates)
are the functions of §1 -/
theorem enforce_cmp_eq (c : α) :
    enforceStrictlyPositiveCmp c = enforceStrictlyPositive c ∧ enforceNonNegativeCmp c = enforceNonNegative c := by
  unfold enforceStrictlyPositiveCmp enforceNonNegativeCmp costLe costLt enforceStrictlyPositive enforceNonNegative
  simp only [zero_eq]
  obtain ⟨h1, _, h3⟩ := cost_cmp_spec c (0 : α)
  constructor
  · by_cases h : c ≤ (0 : α)
    · have : costCmp c (0 : α) ≠ .gt := fun hh => absurd (h3.mp hh) (not_lt.mpr h)
      simp [h, this]
    · have : costCmp c (0 : α) = .gt := h3.mpr (not_le.mp h)
      simp [h, this]
  · by_cases h : c < (0 : α)
    · simp [h, h1.mpr h]
    · have : costCmp c (0 : α) ≠ .lt := fun hh => h (h1.mp hh)
      simp [h, this]

/-! ### 10. `CostAggregation::agg_iter` / `agg` called directly -/

/-- `agg_iter` fails exactly when some item is an `Err`, and then `firstNone` names the first one:
the item at that position is an `Err` and every earlier one is a cost -/
theorem agg_iter_error (a : CostAggregation) (items : List (Option α)) :
    (a.aggIter items = none ↔ ∃ x ∈ items, x = none) ∧
    (∀ k, firstNone items = some k → items[k]? = some none ∧ ∀ j, j < k → ∃ c, items[j]? = some (some c)) ∧
    (firstNone items = none ↔ ∀ x ∈ items, x ≠ none) := by
  refine ⟨?_, ?_, ?_⟩
  · unfold CostAggregation.aggIter
    induction items with
    | nil => simp [allSome]
    | cons x r ih =>
      cases x with
      | none => simp [allSome]
      | some c =>
        cases hr : allSome r with
        | none => simp [allSome, hr] at ih ⊢; exact ih
        | some l => simp [allSome, hr] at ih ⊢; exact ih
  · induction items with
    | nil => intro k h; simp [firstNone] at h
    | cons x r ih =>
      intro k h
      cases x with
      | none =>
        simp only [firstNone, Option.some.injEq] at h
        subst h
        exact ⟨by simp, fun j hj => absurd hj (Nat.not_lt_zero j)⟩
      | some c =>
        simp only [firstNone, Option.map_eq_some_iff] at h
        obtain ⟨k', hk', rfl⟩ := h
        obtain ⟨h1, h2⟩ := ih k' hk'
        refine ⟨by simpa using h1, ?_⟩
        intro j hj
        cases j with
        | zero => exact ⟨c, by simp⟩
        | succ j' =>
          obtain ⟨c', hc'⟩ := h2 j' (by omega)
          exact ⟨c', by simpa using hc'⟩
  · induction items with
    | nil => simp [firstNone]
    | cons x r ih =>
      cases x with
      | none => simp [firstNone]
      | some c => simp [firstNone, ih]

/-- without `Err` item the result is the aggregate: the sum in order (`0` for no component), or the
product in order — `0`, not `1`, for no component; a single component is returned unchanged -/
theorem agg_iter_value (a : CostAggregation) (cs : List α) :
    a.aggIter (cs.map some) = some (a.agg cs) ∧
    CostAggregation.sum.agg cs = cs.sum ∧ CostAggregation.mul.agg cs = (if cs = [] then 0 else cs.prod) ∧
    (∀ c : α, CostAggregation.sum.agg [c] = c ∧ CostAggregation.mul.agg [c] = c) := by
  refine ⟨?_, agg_sum cs, agg_mul cs, fun c => ⟨by simp [agg_sum], by simp [agg_mul]⟩⟩
  have := aggIter_map_some a cs (fun c => some c) id (fun _ _ => rfl)
  simpa using this

/-! ### 11. `EdgeTraversal::forward_traversal` / `reverse_traversal`, every arm -/

/-- C07 on the real constructors: whenever either returns a record, its `total_cost()` is what
`traversal_cost` charged for the traversed edge on the state the traversal model left — strictly
positive — and the access share is non-negative; whatever graph, models and neighbouring edge -/
theorem access_step_nonneg (m : CostModel α) (env : ETEnv α) (forward : Bool) (trav : Nat)
    (nbr : Option Nat) (prev : List α) (acc : α)
    (h : m.accessStep env forward trav nbr prev = .ok acc) : 0 ≤ acc := by
  unfold CostModel.accessStep at h
  cases nbr with
  | none =>
    simp only [Except.ok.injEq] at h
    rw [← h]; simp [edgeAccessShare]
  | some k =>
    simp only at h
    cases he : env.edge k with
    | none => simp [he] at h
    | some sd =>
      simp only [he] at h
      by_cases hv : env.vertex (if forward = true then sd.1 else sd.2) = false
      · simp [hv] at h
      · rw [if_neg hv] at h
        cases ha : env.access with
        | none => simp [ha] at h
        | some accessed =>
          simp only [ha] at h
          cases hc : m.accessCost (if forward = true then k else trav) (if forward = true then trav else k) prev accessed with
          | none => simp [hc] at h
          | some a =>
            simp only [hc, Except.ok.injEq] at h
            have := access_cost_pos m _ _ prev accessed a hc
            rw [← h]; simp only [edgeAccessShare, zero_eq]; linarith

theorem edge_traversal_total_pos (m : CostModel α) (env : ETEnv α) (forward : Bool) (trav : Nat)
    (nbr : Option Nat) (prev : List α) (r : α × α)
    (h : m.edgeTraversalE env forward trav nbr prev = .ok r) :
    ∃ next, env.traverse = some next ∧ m.traversalCost trav prev next = some (edgeRecordTotal r)
      ∧ 0 < edgeRecordTotal r ∧ 0 ≤ r.1 := by
  unfold CostModel.edgeTraversalE at h
  by_cases hg : env.tripletOk trav = false
  · simp [hg] at h
  · rw [if_neg hg] at h
    cases hs : m.accessStep env forward trav nbr prev with
    | error e => simp [hs] at h
    | ok acc =>
      simp only [hs] at h
      cases htr : env.traverse with
      | none => simp [htr] at h
      | some next =>
        cases ht : m.traversalCost trav prev next with
        | none => simp [htr, ht] at h
        | some t =>
          simp only [htr, ht, Except.ok.injEq] at h
          have hp := traversal_cost_pos m trav prev next t ht
          have hacc0 := access_step_nonneg m env forward trav nbr prev acc hs
          subst h
          refine ⟨next, rfl, ?_, ?_, hacc0⟩
          · rw [ht]; simp only [edgeRecordTotal]; congr 1; ring
          · simp only [edgeRecordTotal]; linarith

/-- the error arms, in the order the code takes them -/
theorem edge_traversal_errors (m : CostModel α) (env : ETEnv α) (forward : Bool) (trav : Nat)
    (nbr : Option Nat) (prev : List α) :
    -- an unknown traversed edge, or one whose end vertex is not in the graph: network error, first of all
    (env.tripletOk trav = false → m.edgeTraversalE env forward trav nbr prev = .error .network) ∧
    -- an unknown neighbouring edge: network error
    (∀ k, env.tripletOk trav = true → nbr = some k → env.edge k = none →
      m.edgeTraversalE env forward trav nbr prev = .error .network) ∧
    -- a failing access model (graph lookups fine): access error
    (∀ k s d, env.tripletOk trav = true → nbr = some k → env.edge k = some (s, d) →
      env.vertex (if forward then s else d) = true → env.access = none →
      m.edgeTraversalE env forward trav nbr prev = .error .access) ∧
    -- without neighbouring edge a failing traversal model: traversal error
    (env.tripletOk trav = true → nbr = none → env.traverse = none →
      m.edgeTraversalE env forward trav nbr prev = .error .traversal) ∧
    -- without neighbouring edge, a traversal model that leaves a state the cost model rejects: cost error
    (∀ next, env.tripletOk trav = true → nbr = none → env.traverse = some next →
      m.traversalCost trav prev next = none →
      m.edgeTraversalE env forward trav nbr prev = .error .cost) := by
  refine ⟨?_, ?_, ?_, ?_, ?_⟩
  · intro h; simp [CostModel.edgeTraversalE, h]
  · intro k h hn he; subst hn; simp [CostModel.edgeTraversalE, CostModel.accessStep, h, he]
  · intro k s d h hn he hv ha; subst hn; simp [CostModel.edgeTraversalE, CostModel.accessStep, h, he, hv, ha]
  · intro h hn ht; subst hn; simp [CostModel.edgeTraversalE, CostModel.accessStep, h, ht]
  · intro next h hn ht hc; subst hn; simp [CostModel.edgeTraversalE, CostModel.accessStep, h, ht, hc]

/-! ### 12. `serialize_cost` / `serialize_cost_info` -/

theorem foldl_kvInsert_distinct {β : Type} (l acc : List (String × β)) (hl : (l.map Prod.fst).Nodup)
    (hd : ∀ p ∈ l, ∀ q ∈ acc, q.1 ≠ p.1) :
    l.foldl (fun acc p => kvInsert acc p.1 p.2) acc = acc ++ l := by
  induction l generalizing acc with
  | nil => simp
  | cons p l ih =>
    simp only [List.map_cons, List.nodup_cons] at hl
    have hno : acc.any (fun q => q.1 == p.1) = false := by
      simp only [List.any_eq_false, beq_iff_eq]
      intro q hq; exact hd p (by simp) q hq
    have e : kvInsert acc p.1 p.2 = acc ++ [p] := by simp [kvInsert, hno]
    simp only [List.foldl_cons, e]
    rw [ih (acc ++ [p]) hl.2]
    · simp
    · intro p' hp' q hq
      rcases List.mem_append.mp hq with hq | hq
      · exact hd p' (by simp [hp']) q hq
      · simp only [List.mem_singleton] at hq; subst hq
        intro heq
        exact hl.1 (List.mem_map.mpr ⟨p', hp', heq.symm⟩)

/-- `serialize_cost`, PARTIAL.  Full statement: the result holds one entry per state feature — the
feature's name with the rated value of its state variable — and `total_cost`, their sum in feature
order.  Proved when no feature is named `total_cost` (and the names are distinct, one per index, every
index inside the state and the vehicle rates); a feature of that name loses its entry
(`serialize_cost_total_cost_counterexample`). -/
theorem serialize_cost_partial (m : CostModel α) (names : List String) (state : List α)
    (hn : names.Nodup) (ht : "total_cost" ∉ names) (hlen : names.length = m.indices.length)
    (hr : ∀ i ∈ m.indices, i < state.length ∧ i < m.vehicleRates.length) :
    m.serializeCost names state
      = some ((names.zip m.indices).map (fun p => (p.1, (m.vr p.2).mapValue (state.getD p.2 0)))
          ++ [("total_cost", (m.indices.map fun i => (m.vr i).mapValue (state.getD i 0)).sum)]) := by
  have hfc : m.featureCosts names state
      = some ((names.zip m.indices).map (fun p => (p.1, (m.vr p.2).mapValue (state.getD p.2 0)))) := by
    unfold CostModel.featureCosts
    apply allSome_map_some
    intro p hp
    have hi := hr p.2 (List.of_mem_zip hp).2
    obtain ⟨name, i⟩ := p
    simp only at hi ⊢
    rw [getElem?_eq_some_getD state i 0 hi.1, getElem?_eq_some_getD m.vehicleRates i .zero hi.2]
    rfl
  have hkeys : ((names.zip m.indices).map (fun p => (p.1, (m.vr p.2).mapValue (state.getD p.2 0)))).map Prod.fst
      = names := by
    rw [List.map_map]
    have : ((fun p : String × α => p.1) ∘ fun p : String × Nat => (p.1, (m.vr p.2).mapValue (state.getD p.2 0)))
        = Prod.fst := rfl
    rw [this]
    exact List.map_fst_zip (le_of_eq hlen)
  have hvals : ((names.zip m.indices).map (fun p => (p.1, (m.vr p.2).mapValue (state.getD p.2 0)))).map Prod.snd
      = m.indices.map fun i => (m.vr i).mapValue (state.getD i 0) := by
    rw [List.map_map]
    have : ((fun p : String × α => p.2) ∘ fun p : String × Nat => (p.1, (m.vr p.2).mapValue (state.getD p.2 0)))
        = (fun i => (m.vr i).mapValue (state.getD i 0)) ∘ Prod.snd := rfl
    rw [this, ← List.map_map, List.map_snd_zip (le_of_eq hlen.symm)]
  unfold CostModel.serializeCost
  rw [hfc]
  simp only
  rw [foldl_kvInsert_distinct _ [] (by rw [hkeys]; exact hn) (by simp), List.nil_append, hvals,
    zero_eq, ← List.sum_eq_foldl]
  have hno : ((names.zip m.indices).map (fun p => (p.1, (m.vr p.2).mapValue (state.getD p.2 0)))).any
      (fun q => q.1 == "total_cost") = false := by
    simp only [List.any_eq_false, beq_iff_eq]
    intro q hq heq
    apply ht
    rw [← hkeys]
    exact List.mem_map.mpr ⟨q, hq, heq⟩
  congr 1
  unfold kvInsert
  rw [hno]
  simp only [Bool.false_eq_true, if_false]

/-- a state vector that does not reach a feature's index: `serialize_cost` fails
(`StateIndexOutOfBounds`) -/
theorem serialize_cost_short_state (m : CostModel α) (names : List String) (state : List α)
    (p : String × Nat) (hp : p ∈ names.zip m.indices) (hs : state.length ≤ p.2) :
    m.serializeCost names state = none := by
  have : m.featureCosts names state = none := by
    unfold CostModel.featureCosts
    apply allSome_map_none
    refine ⟨p, hp, ?_⟩
    simp [List.getElem?_eq_none hs]
  simp [CostModel.serializeCost, this]

theorem find_map_replace (kvs : List (String × Json)) (k : String) (v : Json)
    (h : kvs.any (fun p => p.1 == k) = true) :
    (kvs.map (fun p => if p.1 == k then (k, v) else p)).find? (fun p => p.1 == k) = some (k, v) := by
  induction kvs with
  | nil => simp at h
  | cons q r ih =>
    rw [List.map_cons]
    by_cases hq : (q.1 == k) = true
    · rw [List.find?_cons_of_pos]
      · simp [hq]
      · simp [hq]
    · have hr : r.any (fun p => p.1 == k) = true := by
        simp only [List.any_cons, Bool.or_eq_true] at h
        rcases h with h | h
        · exact absurd h hq
        · exact h
      rw [List.find?_cons_of_neg]
      · exact ih hr
      · simp [hq]

theorem lookup_insertKv (kvs : List (String × Json)) (k : String) (v : Json) :
    Json.lookup (Json.insertKv kvs k v) k = some v := by
  unfold Json.insertKv Json.lookup
  by_cases h : kvs.any (fun p => p.1 == k) = true
  · rw [if_pos h, find_map_replace kvs k v h]
  · rw [if_neg h]
    have hn : kvs.find? (fun p => p.1 == k) = none := by
      rw [List.find?_eq_none]
      intro p hp hpk
      apply h
      exact List.any_eq_true.mpr ⟨p, hp, hpk⟩
    simp [List.find?_append, hn]

/-- `serialize_cost_info`, PARTIAL.  Full statement: for every cost model `CostModel::new` accepts the
description of the model is returned.  Proved when every rate has a serde form (no `Combined` rate, no
edge-pair lookup with entries); then the result is an object that reports the aggregation under
`cost_aggregation`.  Otherwise it fails (`serialize_cost_info_counterexample`; a panic before 4844235). -/
theorem serialize_cost_info_partial (m : CostModel α) (enc : α → Json) (names : List String)
    (hr : ∀ i ∈ m.indices, ∃ w v n, m.weights[i]? = some w ∧ m.vehicleRates[i]? = some v
      ∧ m.networkRates[i]? = some n ∧ (v.toJson? enc).isSome ∧ (n.toJson? enc).isSome) :
    ∃ kvs, m.serializeCostInfo enc names = some (.obj kvs)
      ∧ Json.lookup kvs "cost_aggregation" = some m.agg.toJson := by
  have key : ∀ (l : List (String × Nat)) (acc : List (String × Json)), (∀ p ∈ l, p.2 ∈ m.indices) →
      ∃ kvs, m.costInfoEntries enc l acc = some kvs := by
    intro l
    induction l with
    | nil => intro acc _; exact ⟨acc, rfl⟩
    | cons p l ih =>
      intro acc hp
      obtain ⟨w, v, n, hw, hv, hn, hvj, hnj⟩ := hr p.2 (hp p (by simp))
      obtain ⟨vj, hvj'⟩ := Option.isSome_iff_exists.mp hvj
      obtain ⟨nj, hnj'⟩ := Option.isSome_iff_exists.mp hnj
      obtain ⟨name, i⟩ := p
      simp only [CostModel.costInfoEntries, hw, hv, hn, hvj', hnj']
      exact ih _ (fun q hq => hp q (by simp [hq]))
  obtain ⟨kvs, hk⟩ := key (names.zip m.indices) [] (fun p hp => (List.of_mem_zip hp).2)
  refine ⟨Json.insertKv kvs "cost_aggregation" m.agg.toJson, ?_, lookup_insertKv _ _ _⟩
  simp [CostModel.serializeCostInfo, hk]

/-! ### 13. The serde form of the rates and of the aggregation -/

/-- whatever serde writes for a vehicle rate reads back as that rate (`num` decodes what `enc` writes).
`Combined` is not written at all (`vehicle_rate_combined_not_written`). -/
theorem vehicle_rate_serde_roundtrip (num : Json → Option α) (enc : α → Json) (hne : ∀ x, num (enc x) = some x)
    (r : VehicleCostRate α) (j : Json) (h : r.toJson? enc = some j) : parseVehicleRate num j = some r := by
  cases r with
  | zero => simp only [VehicleCostRate.toJson?, Option.some.injEq] at h; subst h; simp [parseVehicleRate, Json.lookup]
  | raw => simp only [VehicleCostRate.toJson?, Option.some.injEq] at h; subst h; simp [parseVehicleRate, Json.lookup]
  | factor f =>
    simp only [VehicleCostRate.toJson?, Option.some.injEq] at h; subst h
    simp [parseVehicleRate, Json.lookup, hne]
  | offset o =>
    simp only [VehicleCostRate.toJson?, Option.some.injEq] at h; subst h
    simp [parseVehicleRate, Json.lookup, hne]
  | combined rs => simp [VehicleCostRate.toJson?] at h

/-- the known limits of the serde form (finding `cost_rate_serde/not-serializable`): a `Combined` rate
of either kind, and an edge-pair lookup with entries, cannot be written -/
theorem vehicle_rate_combined_not_written (enc : α → Json) (rs : List (VehicleCostRate α))
    (ns : List (NetworkCostRate α)) (p : (Nat × Nat) × α) (t : List ((Nat × Nat) × α)) :
    (VehicleCostRate.combined rs).toJson? enc = none ∧ (NetworkCostRate.combined ns).toJson? enc = none
      ∧ (NetworkCostRate.edgeEdgeLookup (p :: t)).toJson? enc = none := by
  simp [VehicleCostRate.toJson?, NetworkCostRate.toJson?]

/-- a `Combined` vehicle rate is read from the sequence form `["combined", r₁, r₂, …]` only: the
object form is rejected whatever else it holds -/
theorem vehicle_rate_combined_forms (num : Json → Option α) (js : List Json) (kvs : List (String × Json))
    (hk : Json.lookup kvs "type" = some (.str "combined")) :
    parseVehicleRate num (.arr (.str "combined" :: js)) = (parseVehicleRateList num js).map .combined
      ∧ parseVehicleRate num (.obj kvs) = none := by
  constructor
  · simp [parseVehicleRate]
  · simp [parseVehicleRate, hk]

/-- anything that is neither an object nor a sequence is rejected, as is a missing, non-string or
unknown tag (an error, never a panic) -/
theorem rate_malformed_rejected (num : Json → Option α) (b : Bool) (l : String) (n : Nat) (s : String)
    (kvs : List (String × Json)) (hk : Json.lookup kvs "type" = none) :
    parseVehicleRate num .null = none ∧ parseVehicleRate num (.bool b) = none
      ∧ parseVehicleRate num (.num l n) = none ∧ parseVehicleRate num (.str s) = none
      ∧ parseVehicleRate num (.arr []) = none ∧ parseVehicleRate num (.obj kvs) = none
      ∧ parseNetworkRate (α := α) .null = none ∧ parseNetworkRate (α := α) (.str s) = none
      ∧ parseNetworkRate (α := α) (.arr []) = none ∧ parseNetworkRate (α := α) (.obj kvs) = none := by
  simp [parseVehicleRate, parseNetworkRate, hk]

/-- NETWORK RATES, PARTIAL.  Full statement: whatever serde writes for a network rate reads back as
that rate.  Proved for `Zero` and for the two lookups without entries; an edge lookup with entries is
written and then rejected (`network_rate_serde_roundtrip_counterexample`). -/
theorem network_rate_serde_roundtrip_partial (enc : α → Json) :
    parseNetworkRate (α := α) ((NetworkCostRate.zero : NetworkCostRate α).toJson? enc |>.getD .null) = some .zero
      ∧ parseNetworkRate (α := α) ((NetworkCostRate.edgeLookup ([] : List (Nat × α))).toJson? enc |>.getD .null)
          = some (.edgeLookup [])
      ∧ parseNetworkRate (α := α) ((NetworkCostRate.edgeEdgeLookup ([] : List ((Nat × Nat) × α))).toJson? enc |>.getD .null)
          = some (.edgeEdgeLookup []) := by
  simp [NetworkCostRate.toJson?, parseNetworkRate, Json.lookup, parseEmptyLookup]

/-- finding `cost_rate_serde/lookup-not-deserializable`: an edge lookup with an entry is written as
`{"type":"edge_lookup","lookup":{"<id>":cost,…}}` and that text is rejected on reading — per-edge
surcharges cannot be configured -/
theorem network_rate_serde_roundtrip_counterexample (enc : α → Json) (p : Nat × α) (t : List (Nat × α)) :
    ∃ j, (NetworkCostRate.edgeLookup (p :: t)).toJson? enc = some j ∧ parseNetworkRate (α := α) j = none := by
  refine ⟨_, rfl, ?_⟩
  simp [parseNetworkRate, Json.lookup, parseEmptyLookup]

/-- the aggregation round trip -/
theorem aggregation_serde_roundtrip (a : CostAggregation) : parseAggregation a.toJson = some a := by
  cases a <;> rfl

/-! ### 14. `CostModelBuilder::build` and `CostModelService::build` -/

/-- a configuration without any of the five keys (or that is no object): no rates, no weights, sum
aggregation, unknown weights ignored -/
theorem build_cost_service_defaults (num : Json → Option α) (config : Json)
    (h : ∀ k, config.get? k = none) :
    buildCostService num config
      = some (CostService.mk [] [] [] CostAggregation.sum true) := by
  simp [buildCostService, optField, h]

/-- a section that is present and does not deserialise fails the build (shown for `weights`; the
other four keys are read the same way) -/
theorem build_cost_service_malformed (num : Json → Option α) (config v : Json)
    (hw : config.get? "weights" = some v) (hbad : parseMap num v = none) :
    buildCostService num config = none := by
  unfold buildCostService
  have : optField (parseMap num) config "weights" = none := by simp [optField, hw, hbad]
  rw [this]
  split <;> simp_all

/-- with the ignore flag on (the default) unknown weights never fail the query -/
theorem service_build_ignore (s : CostService α) (num : Json → Option α) (query : Json) (names : List String)
    (hi : s.ignoreUnknownWeights = true) : s.build num query names ≠ .error .unknownWeights := by
  unfold CostService.build
  cases optField (parseMap num) query "weights" with
  | none => simp
  | some wq =>
    simp only [hi]
    cases optField (parseMap (parseVehicleRate num)) query "vehicle_rates" with
    | none => simp
    | some vq =>
      cases optField parseAggregation query "cost_aggregation" with
      | none => simp
      | some aq =>
        simp only
        split
        · simp_all
        · split <;> simp

/-- with the ignore flag off, a weight for a name that is no state feature fails the query
(weights from the query when it has any, else the configured ones; names distinct) -/
theorem service_build_unknown_weights (s : CostService α) (num : Json → Option α) (query : Json)
    (names : List String) (wq : Option (List (String × α)))
    (hq : optField (parseMap num) query "weights" = some wq)
    (hi : s.ignoreUnknownWeights = false) (hn : names.Nodup)
    (u : String) (hu : u ∈ (wq.getD s.weights).map Prod.fst) (hun : u ∉ names) :
    s.build num query names = .error .unknownWeights := by
  unfold CostService.build
  rw [hq]
  simp only [hi]
  have hlt : (names.filter fun n => (wq.getD s.weights).any fun p => p.1 == n).length
      < (wq.getD s.weights).length := by
    set ws := wq.getD s.weights with hws
    have hsub : (names.filter fun n => ws.any fun p => p.1 == n) ⊆ (ws.map Prod.fst).erase u := by
      intro n hnm
      rw [List.mem_filter] at hnm
      obtain ⟨hnn, hany⟩ := hnm
      rw [List.any_eq_true] at hany
      obtain ⟨p, hp, hpe⟩ := hany
      have hne : n ≠ u := fun h => hun (h ▸ hnn)
      have : n ∈ ws.map Prod.fst := List.mem_map.mpr ⟨p, hp, by simpa using hpe⟩
      exact (List.mem_erase_of_ne hne).mpr this
    have hle := (List.subperm_of_subset (hn.filter _) hsub).length_le
    rw [List.length_erase_of_mem hu, List.length_map] at hle
    have hpos : 0 < ws.length := by
      rw [← List.length_map (f := Prod.fst)]; exact List.length_pos_of_mem hu
    omega
  have hne : (wq.getD s.weights).length ≠ (names.filter fun n => (wq.getD s.weights).any fun p => p.1 == n).length :=
    fun h => by omega
  simp [hne]

/-- a cost model the service returns answers on every pair of state vectors as long as the state
model, with strictly positive costs (§1) -/
theorem service_build_returns (s : CostService α) (num : Json → Option α) (query : Json) (names : List String)
    (m : CostModel α) (h : s.build num query names = .ok m) (e pe ne : Nat) (prev next : List α)
    (h1 : names.length ≤ prev.length) (h2 : names.length ≤ next.length) :
    (m.traversalCost e prev next).isSome ∧ (m.accessCost pe ne prev next).isSome
      ∧ (m.costEstimate prev next).isSome ∧ m.weights.sum ≠ 0 := by
  unfold CostService.build at h
  cases hw : optField (parseMap num) query "weights" with
  | none => simp [hw] at h
  | some wq =>
    simp only [hw] at h
    split at h
    · cases h
    · cases hv : optField (parseMap (parseVehicleRate num)) query "vehicle_rates" with
      | none => simp [hv] at h
      | some vq =>
        simp only [hv] at h
        cases ha : optField parseAggregation query "cost_aggregation" with
        | none => simp [ha] at h
        | some aq =>
          simp only [ha] at h
          split at h
          · cases h
          · rename_i m' hm'
            simp only [Except.ok.injEq] at h
            subst h
            have := new_returns _ _ m' hm' e pe ne prev next (by simpa using h1) (by simpa using h2)
            exact this

/-! ### 15. `NetworkCostRateBuilder::build` -/

theorem decodeRows_map_ok {ρ : Type} (rows : List ρ) : decodeRows (rows.map Row.ok) = .ok rows := by
  induction rows with
  | nil => rfl
  | cons x xs ih => simp [decodeRows, ih]

theorem collectTable_subset {κ : Type} [BEq κ] (rows : List (κ × α)) :
    ∀ p ∈ collectTable rows, p ∈ rows := by
  unfold collectTable
  have key : ∀ (l acc : List (κ × α)), ∀ p ∈ l.foldl (fun acc r =>
      if acc.any (fun p => p.1 == r.1) then acc.map (fun p => if p.1 == r.1 then r else p) else acc ++ [r]) acc,
      p ∈ acc ∨ p ∈ l := by
    intro l
    induction l with
    | nil => intro acc p hp; exact Or.inl hp
    | cons r rest ih =>
      intro acc p hp
      rw [List.foldl_cons] at hp
      rcases ih _ p hp with h | h
      · split at h
        · rw [List.mem_map] at h
          obtain ⟨q, hq, rfl⟩ := h
          split
          · exact Or.inr (by simp)
          · exact Or.inl hq
        · rcases List.mem_append.mp h with h | h
          · exact Or.inl h
          · exact Or.inr (by simp at h; simp [h])
      · exact Or.inr (by simp [h])
  intro p hp
  rcases key rows [] p hp with h | h
  · simp at h
  · exact h

/-- a lookup builder returns a rate exactly when its file can be read, every row decodes and every
cost is finite; the table then holds rows of the file only — so every surcharge it can add is a
finite number (C07 "finite", for the one place where a non-finite number could enter from a file) -/
theorem lookup_builder_build (finite : α → Bool) (f : CsvFile (Nat × α)) :
    (∀ r, (NetworkCostRateBuilder.edgeLookup f).build finite = some r →
      ∃ rows, f.present = true ∧ f.hasHeader = true ∧ f.rows = rows.map Row.ok ∧ r = .edgeLookup (collectTable rows)
        ∧ ∀ p ∈ collectTable rows, finite p.2 = true) ∧
    (∀ rows, f.present = true → f.hasHeader = true → f.rows = rows.map Row.ok → (∀ p ∈ rows, finite p.2 = true) →
      (NetworkCostRateBuilder.edgeLookup f).build finite = some (.edgeLookup (collectTable rows))) := by
  constructor
  · intro r h
    simp only [NetworkCostRateBuilder.build, readCsv] at h
    by_cases hp : f.present = false
    · simp [hp] at h
    · rw [if_neg hp] at h
      by_cases hh : f.hasHeader = false
      · simp [hh] at h
      · rw [if_neg hh] at h
        cases hd : decodeRows f.rows with
        | error e => simp [hd] at h
        | ok rows =>
          simp only [hd] at h
          split at h
          · rename_i hall
            simp only [Option.some.injEq] at h
            refine ⟨rows, by simpa using hp, by simpa using hh, decodeRows_eq_ok _ _ hd, h.symm, ?_⟩
            intro p hp'
            exact List.all_eq_true.mp hall p (collectTable_subset rows p hp')
          · cases h
  · intro rows hp hh hr hf
    have hd : decodeRows (rows.map Row.ok) = .ok rows := decodeRows_map_ok rows
    have hall : rows.all (fun r => finite r.2) = true := List.all_eq_true.mpr hf
    simp [NetworkCostRateBuilder.build, readCsv, hp, hh, hr, hd, hall]

/-- the same for the edge-pair builder -/
theorem pair_lookup_builder_build (finite : α → Bool) (f : CsvFile ((Nat × Nat) × α)) :
    (∀ r, (NetworkCostRateBuilder.edgeEdgeLookup f).build finite = some r →
      ∃ rows, f.present = true ∧ f.hasHeader = true ∧ f.rows = rows.map Row.ok ∧ r = .edgeEdgeLookup (collectTable rows)
        ∧ ∀ p ∈ collectTable rows, finite p.2 = true) ∧
    (∀ rows, f.present = true → f.hasHeader = true → f.rows = rows.map Row.ok → (∀ p ∈ rows, finite p.2 = true) →
      (NetworkCostRateBuilder.edgeEdgeLookup f).build finite = some (.edgeEdgeLookup (collectTable rows))) := by
  constructor
  · intro r h
    simp only [NetworkCostRateBuilder.build, readCsv] at h
    by_cases hp : f.present = false
    · simp [hp] at h
    · rw [if_neg hp] at h
      by_cases hh : f.hasHeader = false
      · simp [hh] at h
      · rw [if_neg hh] at h
        cases hd : decodeRows f.rows with
        | error e => simp [hd] at h
        | ok rows =>
          simp only [hd] at h
          split at h
          · rename_i hall
            simp only [Option.some.injEq] at h
            refine ⟨rows, by simpa using hp, by simpa using hh, decodeRows_eq_ok _ _ hd, h.symm, ?_⟩
            intro p hp'
            exact List.all_eq_true.mp hall p (collectTable_subset rows p hp')
          · cases h
  · intro rows hp hh hr hf
    have hd : decodeRows (rows.map Row.ok) = .ok rows := decodeRows_map_ok rows
    have hall : rows.all (fun r => finite r.2) = true := List.all_eq_true.mpr hf
    simp [NetworkCostRateBuilder.build, readCsv, hp, hh, hr, hd, hall]

/-- a combined builder builds every part, in order, and fails when one of them fails -/
theorem combined_builder_build (finite : α → Bool) (bs : List (NetworkCostRateBuilder α)) :
    (NetworkCostRateBuilder.combined bs).build finite
      = (allSome (bs.map fun b => b.build finite)).map .combined := by
  have key : ∀ l : List (NetworkCostRateBuilder α),
      NetworkCostRateBuilder.buildList finite l = allSome (l.map fun b => b.build finite) := by
    intro l
    induction l with
    | nil => simp [NetworkCostRateBuilder.buildList, allSome]
    | cons b r ih =>
      cases hb : b.build finite with
      | none => simp [NetworkCostRateBuilder.buildList, allSome, hb]
      | some x =>
        cases hr : NetworkCostRateBuilder.buildList finite r with
        | none => simp [NetworkCostRateBuilder.buildList, allSome, hb, hr, ← ih]
        | some l' => simp [NetworkCostRateBuilder.buildList, allSome, hb, hr, ← ih]
  simp [NetworkCostRateBuilder.build, key]

theorem find_map_replace_key (acc : List (Nat × α)) (r : Nat × α) (k : Nat) :
    (acc.map (fun p => if p.1 == r.1 then r else p)).find? (fun p => p.1 == k)
      = if r.1 = k then (if acc.any (fun p => p.1 == r.1) then some r else none)
        else acc.find? (fun p => p.1 == k) := by
  induction acc with
  | nil => simp
  | cons q rest ih =>
    simp only [List.map_cons, List.find?_cons, List.any_cons]
    simp only [beq_eq_decide] at ih ⊢
    by_cases hq : q.1 = r.1 <;> by_cases hk : r.1 = k <;> by_cases hqk : q.1 = k <;> simp_all
    have hne : ¬ q.1 = r.1 := fun h => hqk (h.trans hk)
    rw [decide_eq_false hne, Bool.false_or]

/-- one row more: the new row answers for its own key, every other key is answered as before -/
theorem lookup1_collect_step (acc : List (Nat × α)) (r : Nat × α) (k : Nat) :
    lookup1 (if acc.any (fun p => p.1 == r.1) then acc.map (fun p => if p.1 == r.1 then r else p) else acc ++ [r]) k
      = if r.1 = k then r.2 else lookup1 acc k := by
  unfold lookup1
  by_cases ha : acc.any (fun p => p.1 == r.1) = true
  · rw [if_pos ha, find_map_replace_key]
    by_cases hk : r.1 = k
    · rw [if_pos hk, if_pos hk, if_pos ha]
    · rw [if_neg hk, if_neg hk]
  · rw [if_neg ha, List.find?_append]
    by_cases hk : r.1 = k
    · have hn : acc.find? (fun p => p.1 == k) = none := by
        rw [List.find?_eq_none]
        intro p hp hpk
        apply ha
        exact List.any_eq_true.mpr ⟨p, hp, by rw [hk]; exact hpk⟩
      simp [hn, hk]
    · cases acc.find? (fun p => p.1 == k) <;> simp [hk]

/-- a key that occurs in several rows of a lookup file is charged the cost of its LAST row (the rows
are collected into a `HashMap`); a key without row costs nothing -/
theorem lookup_builder_last_row_wins (rows : List (Nat × α)) (k : Nat) :
    lookup1 (collectTable rows) k
      = match rows.reverse.find? (fun p => p.1 == k) with
        | some p => p.2
        | none => 0 := by
  have key : ∀ (l acc : List (Nat × α)),
      lookup1 (l.foldl (fun acc r =>
        if acc.any (fun p => p.1 == r.1) then acc.map (fun p => if p.1 == r.1 then r else p) else acc ++ [r]) acc) k
      = match l.reverse.find? (fun p => p.1 == k) with
        | some p => p.2
        | none => lookup1 acc k := by
    intro l
    induction l with
    | nil => intro acc; simp
    | cons r rest ih =>
      intro acc
      rw [List.foldl_cons, ih, lookup1_collect_step, List.reverse_cons, List.find?_append]
      cases rest.reverse.find? (fun p => p.1 == k) with
      | some p => simp
      | none =>
        by_cases hk : r.1 = k
        · simp [hk]
        · simp [hk]
  have := key rows []
  unfold collectTable
  rw [this]
  simp [lookup1]

end

/-! ### 16. Witnesses of the findings and non-vacuity of §9–§15 (kernel-evaluated on `ℚ`) -/

/-- numbers of the examples: the JSON number's second component read as a natural number -/
def numQ : Json → Option ℚ
  | .num _ b => some (b : ℚ)
  | _ => none
def encQ : ℚ → Json := fun _ => .null
def errOf {β : Type} : Except ServiceErr β → Option ServiceErr
  | .error e => some e
  | .ok _ => none

def exTwo : CostModel ℚ :=
  { indices := [0, 1], weights := [1, 1], vehicleRates := [.raw, .raw], networkRates := [.zero, .zero], agg := .sum }

/-- finding `serialize_cost/feature-named-total_cost-lost`: with features `distance`, `total_cost` and
state `[1, 5]` the report is `{distance: 1, total_cost: 6}` — the feature's own cost `5` is gone -/
theorem serialize_cost_total_cost_counterexample :
    exTwo.serializeCost ["distance", "total_cost"] [1, 5] = some [("distance", 1), ("total_cost", 6)] := by
  decide +kernel

/-- finding `cost_rate_serde/not-serializable` (a panic before 4844235): a cost model `CostModel::new`
accepts — one feature rated by a `Combined` rate — has no `serialize_cost_info` -/
theorem serialize_cost_info_counterexample :
    ((CostModel.new [((some 1 : Option ℚ), some (.combined [.factor 2, .offset 1]), none)] .sum).map
      fun m => (m.serializeCostInfo encQ ["time"]).isNone) = some true := by
  decide +kernel

-- §9: the order on concrete costs
example : costCmp (1 : ℚ) 2 = .lt ∧ costCmp (2 : ℚ) 2 = .eq ∧ reverseCostCmp (1 : ℚ) 2 = .gt
    ∧ costMax (1 : ℚ) 2 = 2 ∧ costMin (1 : ℚ) 2 = 1 := by decide +kernel
-- §10: the second item is the first error; no component costs nothing under either aggregation
example : CostAggregation.mul.aggIter [some (2 : ℚ), none, none] = none
    ∧ firstNone [some (2 : ℚ), none, none] = some 1
    ∧ CostAggregation.mul.aggIter ([] : List (Option ℚ)) = some 0
    ∧ CostAggregation.sum.aggIter [some (2 : ℚ), some (-3)] = some (-1)
    ∧ CostAggregation.mul.aggIter [some (-2 : ℚ), some (-3)] = some 6 := by decide +kernel
-- §11: a record, and the error arms
def exEnv : ETEnv ℚ :=
  { edge := fun e => if e < 3 then some (e, e + 1) else if e = 3 then some (3, 9) else none,
    vertex := fun v => decide (v < 4), access := some [1, 0], traverse := some [2, 7] }
example : (exSum.edgeTraversalE exEnv true 1 (some 0) [1, 0]).toOption.map edgeRecordTotal
    = exSum.traversalCost 1 [1, 0] [2, 7] := by decide +kernel
example : (exSum.edgeTraversalE exEnv true 7 none [1, 0]).toOption = none
    ∧ (exSum.edgeTraversalE exEnv true 3 none [1, 0]).toOption = none
    ∧ (exSum.edgeTraversalE exEnv false 1 (some 7) [1, 0]).toOption = none
    ∧ (exSum.edgeTraversalE { exEnv with access := none } true 1 (some 0) [1, 0]).toOption = none
    ∧ (exSum.edgeTraversalE { exEnv with traverse := some [2] } true 1 none [1, 0]).toOption = none := by
  decide +kernel
-- §12: the report of a model whose rates all have a serde form
example : exTwo.serializeCost ["distance", "time"] [1, 5] = some [("distance", 1), ("time", 5), ("total_cost", 6)] := by
  decide +kernel
example : (exTwo.serializeCostInfo encQ ["distance", "time"]).isSome = true
    ∧ exTwo.serializeCost ["distance", "time"] [1] = none := by decide +kernel
-- §13: both serde forms; the rate read from `["combined", {"type":"factor","factor":2}, ["offset", 1]]` maps 3 to 7
example : ((parseVehicleRate numQ (.arr [.str "combined", .obj [("type", .str "factor"), ("factor", .num "2" 2)],
      .arr [.str "offset", .num "1" 1]])).map fun r => r.mapValue 3) = some 7 := by decide +kernel
example : (parseVehicleRate numQ (.obj [("type", .str "combined"), ("mappings", .arr [])])).isNone = true
    ∧ (parseVehicleRate numQ (.obj [("type", .str "factor"), ("factor", .str "2")])).isNone = true
    ∧ (parseNetworkRate (α := ℚ) (.obj [("type", .str "edge_lookup"), ("lookup", .obj [("3", .num "1" 1)])])).isNone = true
    ∧ (parseNetworkRate (α := ℚ) (.obj [("type", .str "edge_lookup"), ("lookup", .obj [])])).isSome = true
    ∧ parseAggregation (.obj [("mul", .null)]) = some .mul ∧ parseAggregation (.str "Sum") = none := by
  decide +kernel
-- §14: a configuration and a query; the ignore flag; weights that sum to zero
def exConfig : Json :=
  .obj [("vehicle_rates", .obj [("distance", .obj [("type", .str "raw")])]),
        ("weights", .obj [("distance", .num "2" 2)]),
        ("ignore_unknown_user_provided_weights", .bool false)]
example : ((buildCostService numQ exConfig).map fun s =>
      ((s.build numQ (.obj []) ["distance", "time"]).toOption.bind fun m => m.traversalCost 0 [0, 0] [3, 4]))
    = some (some 6) := by decide +kernel
example : ((buildCostService numQ exConfig).map fun s =>
      (errOf (s.build numQ (.obj [("weights", .obj [("distance", .num "1" 1), ("toll", .num "1" 1)])]) ["distance", "time"]),
       errOf (s.build numQ (.obj [("weights", .obj [("distance", .num "0" 0)])]) ["distance", "time"]),
       errOf (s.build numQ (.obj [("weights", .str "distance")]) ["distance", "time"])))
    = some (some .unknownWeights, some .newFailed, some .serde) := by decide +kernel
-- §15: two rows for edge 3, the last one counts; a missing file, an undecodable row, a non-finite cost,
-- a file without any content (no header row) fail
example : ((NetworkCostRateBuilder.edgeLookup (CsvFile.mk true 4 true [.ok (3, (1 : ℚ)), .ok (5, 2), .ok (3, 7)])).build
      (fun _ => true)).map
      (fun r => (r.traversalCost 3, r.traversalCost 5, r.traversalCost 4)) = some (7, 2, 0) := by decide +kernel
example : ((NetworkCostRateBuilder.edgeLookup (CsvFile.mk false 0 true ([] : List (Row (Nat × ℚ))))).build
      (fun _ => true)).isNone = true
    ∧ ((NetworkCostRateBuilder.edgeLookup (CsvFile.mk true 2 true [.ok (3, (1 : ℚ)), .bad])).build
      (fun _ => true)).isNone = true
    ∧ ((NetworkCostRateBuilder.edgeLookup (CsvFile.mk true 2 true [.ok (3, (1 : ℚ))])).build
      (fun x => decide (x ≠ 1))).isNone = true
    ∧ ((NetworkCostRateBuilder.edgeLookup (CsvFile.mk true 0 false ([] : List (Row (Nat × ℚ))))).build
      (fun _ => true)).isNone = true := by decide +kernel

end C07
end Compass

namespace Compass
namespace C07
open Src

/-! ### Source decision ties

The relational operators at the named comparison sites of the Rust source are re-extracted on every run
by `tools/gen_model.py` into `Compass/Gen/Decisions.lean` (`Src.<site> : Src.Rel`).  Each theorem below
says that the hand-written model decides at that site by exactly the operator the source has there
(`Rel.nat` / `Rel.int` / `Rel.num` interpret the extracted operator; an unrecognised line is `none`).  A
source change that turns `<` into `<=`, `>` into `>=`, … at a site changes the generated constant and this
proof obligation stops checking, whether or not a generated case lands on the tie. -/

theorem src_cost_strictly_positive {α : Type} [Field α] [LinearOrder α] [IsStrictOrderedRing α] [Lit α] [LawfulLit α] (c : α) :
    some (enforceStrictlyPositive c) =
      (cost_strictly_positive.num c (zero : α)).map fun b => if b then minCost else c := by
  simp [enforceStrictlyPositive, cost_strictly_positive, Rel.num]

theorem src_cost_non_negative {α : Type} [Field α] [LinearOrder α] [IsStrictOrderedRing α] [Lit α] [LawfulLit α] (c : α) :
    some (enforceNonNegative c) =
      (cost_non_negative.num c (zero : α)).map fun b => if b then (zero : α) else c := by
  simp [enforceNonNegative, cost_non_negative, Rel.num]


/-! ### Generated function bodies

`tools/gen_fns.py` re-translates the body of the Rust function on every run into `Compass/Gen/FnsC07.lean`
(`Gen.<Type>_<fn>`; conventions in the header of the tool).  Each `gen_*_eq` theorem below says that the
generated definition *is* the hand-written model function the property theorems are about.  A source
change to the function changes the generated definition and the proof stops checking (a body the
translator no longer recognises is not emitted: the theorem no longer elaborates). -/

theorem gen_agg_fold1_eq {α : Type} [Field α] (cs : List (String × α)) (acc : α) :
    Gen.CostAggregation_agg_fold1 cs acc = (cs.map (·.2)).foldl (· + ·) acc := by
  induction cs generalizing acc with
  | nil => simp [Gen.CostAggregation_agg_fold1]
  | cons c cs ih => obtain ⟨s, c⟩ := c; simp [Gen.CostAggregation_agg_fold1, ih]

theorem gen_agg_fold2_eq {α : Type} [Field α] (cs : List (String × α)) (acc : α) :
    Gen.CostAggregation_agg_fold2 cs acc = (cs.map (·.2)).foldl (· * ·) acc := by
  induction cs generalizing acc with
  | nil => simp [Gen.CostAggregation_agg_fold2]
  | cons c cs ih => obtain ⟨s, c⟩ := c; simp [Gen.CostAggregation_agg_fold2, ih]

/-- `CostAggregation::agg` takes `(name, cost)` pairs; the model's `agg` the costs -/
theorem gen_agg_eq {α : Type} [Field α] [LinearOrder α] [IsStrictOrderedRing α] [Lit α] [LawfulLit α] (a : CostAggregation) (cs : List (String × α)) :
    Gen.CostAggregation_agg a cs = a.agg (cs.map (·.2)) := by
  cases a with
  | sum => simp [Gen.CostAggregation_agg, CostAggregation.agg, gen_agg_fold1_eq]
  | mul => simp [Gen.CostAggregation_agg, CostAggregation.agg, gen_agg_fold2_eq]

mutual
theorem gen_map_value_eq {α : Type} [Field α] [LinearOrder α] [IsStrictOrderedRing α] [Lit α] [LawfulLit α] (r : VehicleCostRate α) (x : α) :
    Gen.VehicleCostRate_map_value r x = r.mapValue x := by
  cases r with
  | zero => simp [Gen.VehicleCostRate_map_value, VehicleCostRate.mapValue]
  | raw => simp [Gen.VehicleCostRate_map_value, VehicleCostRate.mapValue]
  | factor f => simp [Gen.VehicleCostRate_map_value, VehicleCostRate.mapValue]
  | offset o => simp [Gen.VehicleCostRate_map_value, VehicleCostRate.mapValue]
  | combined rs =>
    simp only [Gen.VehicleCostRate_map_value, VehicleCostRate.mapValue]
    exact gen_map_value_fold_eq rs x
theorem gen_map_value_fold_eq {α : Type} [Field α] [LinearOrder α] [IsStrictOrderedRing α] [Lit α] [LawfulLit α] (rs : List (VehicleCostRate α)) (x : α) :
    Gen.VehicleCostRate_map_value_fold1 rs x = VehicleCostRate.mapValueList rs x := by
  cases rs with
  | nil => simp [Gen.VehicleCostRate_map_value_fold1, VehicleCostRate.mapValueList]
  | cons r rs =>
    simp only [Gen.VehicleCostRate_map_value_fold1, VehicleCostRate.mapValueList]
    rw [gen_map_value_eq r x]
    exact gen_map_value_fold_eq rs (r.mapValue x)
end

theorem gen_enforce_strictly_positive_eq {α : Type} [Field α] [LinearOrder α] [IsStrictOrderedRing α] [Lit α] [LawfulLit α] (c : α) :
    Gen.Cost_enforce_strictly_positive c = enforceStrictlyPositive c := rfl

theorem gen_enforce_non_negative_eq {α : Type} [Field α] [LinearOrder α] [IsStrictOrderedRing α] [Lit α] [LawfulLit α] (c : α) :
    Gen.Cost_enforce_non_negative c = enforceNonNegative c := rfl


theorem gen_network_traversal_fold_eq {α : Type} [Field α] (xs : List α) (a : α) :
    Gen.NetworkCostRate_traversal_cost_fold2 xs a = xs.foldl (· + ·) a := by
  induction xs generalizing a with
  | nil => simp [Gen.NetworkCostRate_traversal_cost_fold2]
  | cons x xs ih => simp [Gen.NetworkCostRate_traversal_cost_fold2, ih]

theorem gen_network_access_fold_eq {α : Type} [Field α] (xs : List α) (a : α) :
    Gen.NetworkCostRate_access_cost_fold2 xs a = xs.foldl (· + ·) a := by
  induction xs generalizing a with
  | nil => simp [Gen.NetworkCostRate_access_cost_fold2]
  | cons x xs ih => simp [Gen.NetworkCostRate_access_cost_fold2, ih]

theorem gen_traversalCostList_foldl {α : Type} [Field α] [LinearOrder α] [IsStrictOrderedRing α] [Lit α] [LawfulLit α]
    (rs : List (NetworkCostRate α)) (e : Nat) (acc : α) :
    NetworkCostRate.traversalCostList rs e acc = (rs.map (·.traversalCost e)).foldl (· + ·) acc := by
  induction rs generalizing acc with
  | nil => simp [NetworkCostRate.traversalCostList]
  | cons r rs ih => simp [NetworkCostRate.traversalCostList, ih]

theorem gen_accessCostList_foldl {α : Type} [Field α] [LinearOrder α] [IsStrictOrderedRing α] [Lit α] [LawfulLit α]
    (rs : List (NetworkCostRate α)) (p n : Nat) (acc : α) :
    NetworkCostRate.accessCostList rs p n acc = (rs.map (·.accessCost p n)).foldl (· + ·) acc := by
  induction rs generalizing acc with
  | nil => simp [NetworkCostRate.accessCostList]
  | cons r rs ih => simp [NetworkCostRate.accessCostList, ih]

mutual
/-- `NetworkCostRate::traversal_cost` never returns `Err`; the edge is its `edge_id`, the `HashMap` an
association list with unique keys -/
theorem gen_traversal_cost_eq {α : Type} [Field α] [LinearOrder α] [IsStrictOrderedRing α] [Lit α] [LawfulLit α]
    (r : NetworkCostRate α) (e : Nat) :
    Gen.NetworkCostRate_traversal_cost r e = some (r.traversalCost e) := by
  cases r with
  | zero => simp [Gen.NetworkCostRate_traversal_cost, NetworkCostRate.traversalCost]
  | edgeLookup tbl =>
    simp only [Gen.NetworkCostRate_traversal_cost, NetworkCostRate.traversalCost, lookup1]
    cases List.find? (fun p : Nat × α => p.1 == e) tbl <;> rfl
  | edgeEdgeLookup tbl => simp [Gen.NetworkCostRate_traversal_cost, NetworkCostRate.traversalCost]
  | combined rs =>
    simp only [Gen.NetworkCostRate_traversal_cost, NetworkCostRate.traversalCost]
    rw [gen_traversal_cost_collect_eq rs e]
    simp [gen_network_traversal_fold_eq, gen_traversalCostList_foldl]
theorem gen_traversal_cost_collect_eq {α : Type} [Field α] [LinearOrder α] [IsStrictOrderedRing α] [Lit α] [LawfulLit α]
    (rs : List (NetworkCostRate α)) (e : Nat) :
    Gen.NetworkCostRate_traversal_cost_collect1 e rs = some (rs.map (·.traversalCost e)) := by
  cases rs with
  | nil => simp [Gen.NetworkCostRate_traversal_cost_collect1]
  | cons r rs =>
    simp only [Gen.NetworkCostRate_traversal_cost_collect1]
    rw [gen_traversal_cost_eq r e, gen_traversal_cost_collect_eq rs e]
    simp
end

theorem gen_lookup2_pred (a b : Nat) {α : Type} :
    (fun p : (Nat × Nat) × α => p.1 == (a, b)) = (fun p => p.1.1 == a && p.1.2 == b) := by
  funext p
  rcases p with ⟨⟨x, y⟩, c⟩
  rw [Bool.eq_iff_iff]
  simp

mutual
theorem gen_access_cost_eq {α : Type} [Field α] [LinearOrder α] [IsStrictOrderedRing α] [Lit α] [LawfulLit α]
    (r : NetworkCostRate α) (p n : Nat) :
    Gen.NetworkCostRate_access_cost r p n = some (r.accessCost p n) := by
  cases r with
  | zero => simp [Gen.NetworkCostRate_access_cost, NetworkCostRate.accessCost]
  | edgeLookup tbl => simp [Gen.NetworkCostRate_access_cost, NetworkCostRate.accessCost]
  | edgeEdgeLookup tbl =>
    simp only [Gen.NetworkCostRate_access_cost, NetworkCostRate.accessCost, lookup2, gen_lookup2_pred]
    cases List.find? (fun q : (Nat × Nat) × α => q.1.1 == p && q.1.2 == n) tbl <;> rfl
  | combined rs =>
    simp only [Gen.NetworkCostRate_access_cost, NetworkCostRate.accessCost]
    rw [gen_access_cost_collect_eq rs p n]
    simp [gen_network_access_fold_eq, gen_accessCostList_foldl]
theorem gen_access_cost_collect_eq {α : Type} [Field α] [LinearOrder α] [IsStrictOrderedRing α] [Lit α] [LawfulLit α]
    (rs : List (NetworkCostRate α)) (p n : Nat) :
    Gen.NetworkCostRate_access_cost_collect1 p n rs = some (rs.map (·.accessCost p n)) := by
  cases rs with
  | nil => simp [Gen.NetworkCostRate_access_cost_collect1]
  | cons r rs =>
    simp only [Gen.NetworkCostRate_access_cost_collect1]
    rw [gen_access_cost_eq r p n, gen_access_cost_collect_eq rs p n]
    simp
end

end C07
end Compass
