/-
C07 — edge costs are finite and strictly positive; estimates are non-negative.

All theorems are about the executable model `Compass/Model/Cost.lean` (the functions the driver runs
at `Float` against the real `CostModel`), for every cost model value — index lists, weight / rate
vectors and state vectors of any length, `Combined` rates nested to any depth — over any linearly
ordered field `α`.  Finiteness is trivial there: every element of a field is finite; overflow and
rounding of `f64` are outside the theorems (DESIGN §3) and are watched by the oracle of the harness.

Correction to the design sketch (DESIGN §5 C07 says "≥ floor > 0"): the charged cost is strictly
positive but **not** always at least `MIN_COST` — `enforce_strictly_positive` replaces only values
`≤ 0`, a positive total below the floor is charged as it is (`charged_below_floor_witness`).  The
property text only asks for strict positivity, which is what is proved.

Notation (`Proofs/Cost.lean`): `m.wt i`, `m.vr i`, `m.nr i` are the weight, vehicle rate and network
rate of state index `i`; `stateDelta prev next i = next[i] − prev[i]`; `m.InRangeV prev next` says
every index of `m.indices` lies inside `prev`, `next`, `weights`, `vehicleRates`; `m.InRange` adds
`networkRates`.  `traversalTotal` / `accessTotal` are the values `traversal_cost` / `access_cost`
compute just before `Cost::enforce_strictly_positive`.
-/
import Compass.Proofs.Cost

namespace Compass
namespace C07

set_option linter.unusedSectionVars false

section
variable {α : Type} [Field α] [LinearOrder α] [IsStrictOrderedRing α] [Lit α] [LawfulLit α]

/-! ### 1. The charged costs are strictly positive, the estimate is non-negative -/

/-- the floor itself is strictly positive -/
theorem min_cost_pos : (0 : α) < minCost := minCost_pos

/-- `traversal_cost` = its pre-floor total when that is positive, the floor otherwise -/
theorem traversal_cost_eq (m : CostModel α) (e : Nat) (prev next : List α) :
    m.traversalCost e prev next
      = (m.traversalTotal e prev next).map (fun s => if 0 < s then s else minCost) := by
  unfold CostModel.traversalCost
  cases m.traversalTotal e prev next with
  | none => rfl
  | some s =>
    simp only [Option.map_some, enforceStrictlyPositive_eq]
    by_cases h : 0 < s
    · simp [h, not_le.mpr h]
    · simp [h, not_lt.mp h]

/-- `access_cost` = its pre-floor total when that is positive, the floor otherwise -/
theorem access_cost_eq (m : CostModel α) (pe ne : Nat) (prev next : List α) :
    m.accessCost pe ne prev next
      = (m.accessTotal pe ne prev next).map (fun s => if 0 < s then s else minCost) := by
  unfold CostModel.accessCost
  cases m.accessTotal pe ne prev next with
  | none => rfl
  | some s =>
    simp only [Option.map_some, enforceStrictlyPositive_eq]
    by_cases h : 0 < s
    · simp [h, not_le.mpr h]
    · simp [h, not_lt.mp h]

/-- `cost_estimate` = the aggregated vehicle cost clipped at zero -/
theorem cost_estimate_eq (m : CostModel α) (src dst : List α) :
    m.costEstimate src dst = (m.vehicleCosts src dst).map (fun v => max v 0) := by
  unfold CostModel.costEstimate
  cases m.vehicleCosts src dst with
  | none => rfl
  | some v => simp [enforceNonNegative_eq]

/-- C07: whenever `traversal_cost` returns, the cost is strictly positive — any weights, rates,
aggregation and state change -/
theorem traversal_cost_pos (m : CostModel α) (e : Nat) (prev next : List α) (c : α)
    (h : m.traversalCost e prev next = some c) : 0 < c := by
  unfold CostModel.traversalCost at h
  cases ht : m.traversalTotal e prev next with
  | none => simp [ht] at h
  | some t =>
    simp only [ht, Option.some.injEq] at h
    rw [← h]; exact enforceStrictlyPositive_pos t

/-- C07: whenever `access_cost` returns, the cost is strictly positive -/
theorem access_cost_pos (m : CostModel α) (pe ne : Nat) (prev next : List α) (c : α)
    (h : m.accessCost pe ne prev next = some c) : 0 < c := by
  unfold CostModel.accessCost at h
  cases ht : m.accessTotal pe ne prev next with
  | none => simp [ht] at h
  | some t =>
    simp only [ht, Option.some.injEq] at h
    rw [← h]; exact enforceStrictlyPositive_pos t

/-- C07: whenever `cost_estimate` returns, the estimate is not negative -/
theorem estimate_nonneg (m : CostModel α) (src dst : List α) (c : α)
    (h : m.costEstimate src dst = some c) : 0 ≤ c := by
  unfold CostModel.costEstimate at h
  cases hv : m.vehicleCosts src dst with
  | none => simp [hv] at h
  | some v =>
    simp only [hv, Option.some.injEq] at h
    rw [← h]; exact enforceNonNegative_nonneg v

/-- the charged cost is at least `min (pre-floor total) floor`; it is *not* always at least the floor:
a positive total below the floor is charged as it is (see `charged_below_floor_witness`) -/
theorem traversal_cost_ge (m : CostModel α) (e : Nat) (prev next : List α) (s c : α)
    (hs : m.traversalTotal e prev next = some s) (h : m.traversalCost e prev next = some c) :
    (0 < s → c = s) ∧ (s ≤ 0 → c = minCost) := by
  rw [traversal_cost_eq, hs] at h
  simp only [Option.map_some, Option.some.injEq] at h
  constructor
  · intro hp; simp [hp] at h; exact h.symm
  · intro hn; simp [not_lt.mpr hn] at h; exact h.symm

/-- `EdgeTraversal::total_cost()`: `access + (total − access)` is the traversal total, whatever the
access share (the per-turn surcharge enters the access share and is cancelled in the traversal share) -/
theorem edge_total_eq (access total : α) : edgeTotalCost access total = total := by
  unfold edgeTotalCost; ring

/-- C07: the cost charged for accessing plus traversing an edge is strictly positive, with or without
previous edge, whatever `access_cost` returned -/
theorem edge_total_pos (m : CostModel α) (e : Nat) (prev next : List α) (t : α) (ac : Option α)
    (h : m.traversalCost e prev next = some t) : 0 < edgeTotalCost (edgeAccessShare ac) t := by
  rw [edge_total_eq]; exact traversal_cost_pos m e prev next t h

/-- C07, on the record `EdgeTraversal::forward_traversal` / `reverse_traversal` build (with or without
neighbouring edge, whatever state the access model produced): `total_cost()` is exactly what
`traversal_cost` charged for the edge, hence strictly positive; and the access share is non-negative -/
theorem edge_record_total_pos (m : CostModel α) (trav : Nat) (pair : Option (Nat × Nat))
    (prev accessed next : List α) (r : α × α)
    (h : m.edgeTraversal trav pair prev accessed next = some r) :
    m.traversalCost trav prev next = some (edgeRecordTotal r) ∧ 0 < edgeRecordTotal r ∧ 0 ≤ r.1 := by
  unfold CostModel.edgeTraversal at h
  cases pair with
  | none =>
    cases ht : m.traversalCost trav prev next with
    | none => simp [ht] at h
    | some t =>
      simp only [ht, Option.some.injEq] at h
      have hp := traversal_cost_pos m trav prev next t ht
      subst h
      simp only [edgeRecordTotal, edgeAccessShare, zero_eq]
      refine ⟨by congr 1; ring, by linarith, le_refl _⟩
  | some pn =>
    obtain ⟨pe, ne⟩ := pn
    cases ha : m.accessCost pe ne prev accessed with
    | none => simp [ha] at h
    | some a =>
      cases ht : m.traversalCost trav prev next with
      | none => simp [ha, ht] at h
      | some t =>
        simp only [ha, ht, Option.some.injEq] at h
        have hp := traversal_cost_pos m trav prev next t ht
        have hpa := access_cost_pos m pe ne prev accessed a ha
        subst h
        simp only [edgeRecordTotal, edgeAccessShare, zero_eq]
        refine ⟨by congr 1; ring, by linarith, by linarith⟩

/-! ### 2. When the functions return -/

/-- `traversal_cost` returns exactly when every feature index lies inside all five vectors -/
theorem traversal_cost_isSome_iff (m : CostModel α) (e : Nat) (prev next : List α) :
    (m.traversalCost e prev next).isSome ↔ m.InRange prev next := by
  rw [← CostModel.traversalTotal_isSome_iff m e]
  unfold CostModel.traversalCost
  cases m.traversalTotal e prev next <;> simp

/-- `access_cost` returns exactly when every feature index lies inside the state vectors, the weights
and the vehicle rates (a feature beyond `network_rates` contributes zero instead of failing) -/
theorem access_cost_isSome_iff (m : CostModel α) (pe ne : Nat) (prev next : List α) :
    (m.accessCost pe ne prev next).isSome ↔ m.InRangeV prev next := by
  rw [← CostModel.accessTotal_isSome_iff m pe ne]
  unfold CostModel.accessCost
  cases m.accessTotal pe ne prev next <;> simp

/-- `cost_estimate` returns exactly when every feature index lies inside the four vectors it reads -/
theorem cost_estimate_isSome_iff (m : CostModel α) (src dst : List α) :
    (m.costEstimate src dst).isSome ↔ m.InRangeV src dst := by
  rw [← CostModel.vehicleCosts_isSome_iff m]
  unfold CostModel.costEstimate
  cases m.vehicleCosts src dst <;> simp

/-- an index outside a state vector makes all three fail (`StateIndexOutOfBounds`) -/
theorem none_of_short_state (m : CostModel α) (e pe ne : Nat) (prev next : List α) (i : Nat)
    (hi : i ∈ m.indices) (h : prev.length ≤ i ∨ next.length ≤ i) :
    m.traversalCost e prev next = none ∧ m.accessCost pe ne prev next = none
      ∧ m.costEstimate prev next = none := by
  have hv : ¬ m.InRangeV prev next := fun hr => by
    have := hr i hi
    rcases h with h | h
    · exact absurd this.1 (not_lt.mpr h)
    · exact absurd this.2.1 (not_lt.mpr h)
  have hr : ¬ m.InRange prev next := fun hr => hv hr.toV
  rw [← traversal_cost_isSome_iff m e] at hr
  have hv' := hv
  rw [← access_cost_isSome_iff m pe ne] at hv
  rw [← cost_estimate_isSome_iff m] at hv'
  exact ⟨by simpa using hr, by simpa using hv, by simpa using hv'⟩

/-- all vectors at least as long as every index: all three return -/
theorem some_of_long_enough (m : CostModel α) (e pe ne : Nat) (prev next : List α) (n : Nat)
    (hi : ∀ i ∈ m.indices, i < n) (h1 : n ≤ prev.length) (h2 : n ≤ next.length)
    (h3 : n ≤ m.weights.length) (h4 : n ≤ m.vehicleRates.length) (h5 : n ≤ m.networkRates.length) :
    (m.traversalCost e prev next).isSome ∧ (m.accessCost pe ne prev next).isSome
      ∧ (m.costEstimate prev next).isSome := by
  have hr : m.InRange prev next := fun i h =>
    ⟨lt_of_lt_of_le (hi i h) h1, lt_of_lt_of_le (hi i h) h2, lt_of_lt_of_le (hi i h) h4,
      lt_of_lt_of_le (hi i h) h3, lt_of_lt_of_le (hi i h) h5⟩
  exact ⟨(traversal_cost_isSome_iff m e prev next).mpr hr,
    (access_cost_isSome_iff m pe ne prev next).mpr hr.toV,
    (cost_estimate_isSome_iff m prev next).mpr hr.toV⟩

/-- `CostModel::new` fails exactly when the weights (absent = 0) sum to zero -/
theorem new_eq_none_iff (feats : List (FeatureConfig α)) (agg : CostAggregation) :
    CostModel.new feats agg = none ↔ (feats.map FeatureConfig.weight).sum = 0 :=
  CostModel.new_eq_none_iff feats agg

/-- a cost model built by `CostModel::new` answers on every pair of state vectors that are at least as
long as the state model — and its weights do not sum to zero -/
theorem new_returns (feats : List (FeatureConfig α)) (agg : CostAggregation) (m : CostModel α)
    (hm : CostModel.new feats agg = some m) (e pe ne : Nat) (prev next : List α)
    (h1 : feats.length ≤ prev.length) (h2 : feats.length ≤ next.length) :
    (m.traversalCost e prev next).isSome ∧ (m.accessCost pe ne prev next).isSome
      ∧ (m.costEstimate prev next).isSome ∧ m.weights.sum ≠ 0 := by
  obtain ⟨hi, hw, hv, hn, _⟩ := CostModel.new_eq_some feats agg m hm
  have := some_of_long_enough m e pe ne prev next feats.length
    (by rw [hi]; intro i h; exact List.mem_range.mp h) h1 h2 (by simp [hw]) (by simp [hv]) (by simp [hn])
  refine ⟨this.1, this.2.1, this.2.2, ?_⟩
  rw [hw]
  intro h0
  have := (CostModel.new_eq_none_iff feats agg).mpr h0
  rw [hm] at this; cases this

/-- in a cost model built by `CostModel::new`, feature `i` carries what the three mappings hold for its
name, an absent name standing for weight `0` / rate `Zero` (so an unlisted feature is a zero-weight
feature and is ignored, `zero_weight_ignored`) -/
theorem new_accessors (feats : List (FeatureConfig α)) (agg : CostAggregation) (m : CostModel α)
    (hm : CostModel.new feats agg = some m) (i : Nat) (hi : i < feats.length) :
    m.wt i = feats[i].weight ∧ m.vr i = feats[i].vehicleRate ∧ m.nr i = feats[i].networkRate
      ∧ (feats[i].1 = none → m.wt i = 0) := by
  obtain ⟨_, hw, hv, hn, _⟩ := CostModel.new_eq_some feats agg m hm
  have e1 : m.wt i = feats[i].weight := by
    unfold CostModel.wt; rw [hw]; simp [List.getD, hi]
  refine ⟨e1, ?_, ?_, ?_⟩
  · unfold CostModel.vr; rw [hv]; simp [List.getD, hi]
  · unfold CostModel.nr; rw [hn]; simp [List.getD, hi]
  · intro h; rw [e1]; unfold FeatureConfig.weight; rw [h]; simp

/-! ### 3. Sum aggregation: the formula -/

/-- C07 (sum formula, traversal): the pre-floor value is
`Σᵢ wᵢ·rateᵢ(Δᵢ) + Σᵢ wᵢ·(per-edge surcharge of feature i)` -/
theorem sum_formula_traversal (m : CostModel α) (hs : m.agg = .sum) (e : Nat) (prev next : List α) (s : α)
    (h : m.traversalTotal e prev next = some s) :
    s = (m.indices.map fun i => m.wt i * (m.vr i).mapValue (stateDelta prev next i)).sum
      + (m.indices.map fun i => m.wt i * (m.nr i).traversalCost e).sum := by
  have hr : m.InRange prev next := (m.traversalTotal_isSome_iff e prev next).mp (by simp [h])
  rw [m.traversalTotal_eq e prev next hr, hs, agg_sum, agg_sum] at h
  simp only [Option.some.injEq] at h
  rw [← h]
  unfold CostModel.vehicleTerms CostModel.traversalTerms
  congr 2 <;> exact List.map_congr_left (fun i _ => by ring)

/-- C07 (sum formula, access): the pre-floor value is
`Σᵢ wᵢ·rateᵢ(Δᵢ) + Σᵢ wᵢ·(per-turn surcharge of feature i)` -/
theorem sum_formula_access (m : CostModel α) (hs : m.agg = .sum) (pe ne : Nat) (prev next : List α) (s : α)
    (h : m.accessTotal pe ne prev next = some s) :
    s = (m.indices.map fun i => m.wt i * (m.vr i).mapValue (stateDelta prev next i)).sum
      + (m.indices.map fun i => m.wt i * (m.nr i).accessCost pe ne).sum := by
  have hr : m.InRangeV prev next := (m.accessTotal_isSome_iff pe ne prev next).mp (by simp [h])
  rw [m.accessTotal_eq pe ne prev next hr, hs, agg_sum, agg_sum] at h
  simp only [Option.some.injEq] at h
  rw [← h]
  unfold CostModel.vehicleTerms CostModel.accessTerms
  congr 2 <;> exact List.map_congr_left (fun i _ => by ring)

/-- C07 (sum formula, estimate): the pre-clip value is `Σᵢ wᵢ·rateᵢ(Δᵢ)` -/
theorem sum_formula_estimate (m : CostModel α) (hs : m.agg = .sum) (src dst : List α) (v : α)
    (h : m.vehicleCosts src dst = some v) :
    v = (m.indices.map fun i => m.wt i * (m.vr i).mapValue (stateDelta src dst i)).sum := by
  have hr : m.InRangeV src dst := (m.vehicleCosts_isSome_iff src dst).mp (by simp [h])
  rw [m.vehicleCosts_eq src dst hr, hs, agg_sum] at h
  simp only [Option.some.injEq] at h
  rw [← h]
  unfold CostModel.vehicleTerms
  congr 1; exact List.map_congr_left (fun i _ => by ring)

/-- C07 (sum formula + floor): under sum aggregation the charged traversal cost is the formula when
that is positive and the floor exactly when it is `≤ 0` -/
theorem sum_formula (m : CostModel α) (hs : m.agg = .sum) (e : Nat) (prev next : List α) (c : α)
    (h : m.traversalCost e prev next = some c) :
    let s := (m.indices.map fun i => m.wt i * (m.vr i).mapValue (stateDelta prev next i)).sum
      + (m.indices.map fun i => m.wt i * (m.nr i).traversalCost e).sum
    (0 < s → c = s) ∧ (s ≤ 0 → c = minCost) := by
  intro s
  cases ht : m.traversalTotal e prev next with
  | none => rw [traversal_cost_eq, ht] at h; simp at h
  | some t =>
    have : t = s := sum_formula_traversal m hs e prev next t ht
    rw [← this]
    exact traversal_cost_ge m e prev next t c ht h

/-- the same for `access_cost` -/
theorem sum_formula_access_floor (m : CostModel α) (hs : m.agg = .sum) (pe ne : Nat) (prev next : List α) (c : α)
    (h : m.accessCost pe ne prev next = some c) :
    let s := (m.indices.map fun i => m.wt i * (m.vr i).mapValue (stateDelta prev next i)).sum
      + (m.indices.map fun i => m.wt i * (m.nr i).accessCost pe ne).sum
    (0 < s → c = s) ∧ (s ≤ 0 → c = minCost) := by
  intro s
  cases ht : m.accessTotal pe ne prev next with
  | none => rw [access_cost_eq, ht] at h; simp at h
  | some t =>
    have : t = s := sum_formula_access m hs pe ne prev next t ht
    rw [← this]
    rw [access_cost_eq, ht] at h
    simp only [Option.map_some, Option.some.injEq] at h
    constructor
    · intro hp; simp [hp] at h; exact h.symm
    · intro hn; simp [not_lt.mpr hn] at h; exact h.symm

/-- the same for `cost_estimate`: the formula when positive, `0` otherwise -/
theorem sum_formula_estimate_clip (m : CostModel α) (hs : m.agg = .sum) (src dst : List α) (c : α)
    (h : m.costEstimate src dst = some c) :
    c = max (m.indices.map fun i => m.wt i * (m.vr i).mapValue (stateDelta src dst i)).sum 0 := by
  cases hv : m.vehicleCosts src dst with
  | none => rw [cost_estimate_eq, hv] at h; simp at h
  | some v =>
    rw [cost_estimate_eq, hv] at h
    simp only [Option.map_some, Option.some.injEq] at h
    rw [← h, sum_formula_estimate m hs src dst v hv]

/-! ### 4. What the rates denote -/

/-- a combined vehicle rate applies its mappings one after the other (any nesting depth) -/
theorem vehicle_rate_combined (rs : List (VehicleCostRate α)) (x : α) :
    (VehicleCostRate.combined rs).mapValue x = rs.foldl (fun acc r => r.mapValue acc) x := by
  simp [VehicleCostRate.mapValue, VehicleCostRate.mapValueList_eq_foldl]

/-- the leaves: zero, raw, factor, offset -/
theorem vehicle_rate_leaves (f o x : α) :
    (VehicleCostRate.zero : VehicleCostRate α).mapValue x = 0 ∧ (VehicleCostRate.raw : VehicleCostRate α).mapValue x = x
      ∧ (VehicleCostRate.factor f).mapValue x = x * f ∧ (VehicleCostRate.offset o).mapValue x = x + o := by
  simp [VehicleCostRate.mapValue]

/-- every vehicle rate, however nested, is an affine map of the state change -/
theorem vehicle_rate_affine (r : VehicleCostRate α) (x : α) : r.mapValue x = r.slope * x + r.intercept :=
  r.mapValue_affine x

/-- a combined network rate charges the sum of its parts (per edge) -/
theorem network_rate_combined_traversal (rs : List (NetworkCostRate α)) (e : Nat) :
    (NetworkCostRate.combined rs).traversalCost e = (rs.map fun r => r.traversalCost e).sum := by
  simp [NetworkCostRate.traversalCost, NetworkCostRate.traversalCostList_eq]

/-- a combined network rate charges the sum of its parts (per turn) -/
theorem network_rate_combined_access (rs : List (NetworkCostRate α)) (p n : Nat) :
    (NetworkCostRate.combined rs).accessCost p n = (rs.map fun r => r.accessCost p n).sum := by
  simp [NetworkCostRate.accessCost, NetworkCostRate.accessCostList_eq]

/-- the leaves: an edge table charges per edge only, an edge-pair table per turn only; a key that is
not in the table costs nothing -/
theorem network_rate_leaves (t1 : List (Nat × α)) (t2 : List ((Nat × Nat) × α)) (e p n : Nat) :
    (NetworkCostRate.zero : NetworkCostRate α).traversalCost e = 0
      ∧ (NetworkCostRate.zero : NetworkCostRate α).accessCost p n = 0
      ∧ (NetworkCostRate.edgeLookup t1).traversalCost e = lookup1 t1 e
      ∧ (NetworkCostRate.edgeLookup t1).accessCost p n = 0
      ∧ (NetworkCostRate.edgeEdgeLookup t2).traversalCost e = 0
      ∧ (NetworkCostRate.edgeEdgeLookup t2).accessCost p n = lookup2 t2 (p, n) := by
  simp [NetworkCostRate.traversalCost, NetworkCostRate.accessCost]

/-- table lookups (keys unique, as in a `HashMap`): the stored value on a hit, zero on a miss -/
theorem lookup_hit_miss (t1 : List (Nat × α)) (t2 : List ((Nat × Nat) × α))
    (h1 : t1.Pairwise (fun p q => p.1 ≠ q.1)) (h2 : t2.Pairwise (fun p q => p.1 ≠ q.1)) :
    (∀ k v, (k, v) ∈ t1 → lookup1 t1 k = v) ∧ (∀ k, (∀ p ∈ t1, p.1 ≠ k) → lookup1 t1 k = 0)
      ∧ (∀ k v, (k, v) ∈ t2 → lookup2 t2 k = v) ∧ (∀ k, (∀ p ∈ t2, p.1 ≠ k) → lookup2 t2 k = 0) :=
  ⟨fun k v h => lookup1_of_mem t1 k v h1 h, fun k h => lookup1_of_not_mem t1 k h,
    fun k v h => lookup2_of_mem t2 k v h2 h, fun k h => lookup2_of_not_mem t2 k h⟩

/-! ### 5. Linear in the weights (sum aggregation) -/

/-- C07: under sum aggregation the pre-floor traversal value is a linear function of the weight vector -/
theorem linear_in_weights (m : CostModel α) (hs : m.agg = .sum) (w1 w2 : List α) (hl : w1.length = w2.length)
    (a b : α) (e : Nat) (prev next : List α) (s1 s2 : α)
    (h1 : ({ m with weights := w1 }).traversalTotal e prev next = some s1)
    (h2 : ({ m with weights := w2 }).traversalTotal e prev next = some s2) :
    ({ m with weights := List.zipWith (fun x y => a * x + b * y) w1 w2 }).traversalTotal e prev next
      = some (a * s1 + b * s2) := by
  have r1 : CostModel.InRange { m with weights := w1 } prev next :=
    (CostModel.traversalTotal_isSome_iff _ e prev next).mp (by simp [h1])
  have r2 : CostModel.InRange { m with weights := w2 } prev next :=
    (CostModel.traversalTotal_isSome_iff _ e prev next).mp (by simp [h2])
  have r3 : CostModel.InRange { m with weights := List.zipWith (fun x y => a * x + b * y) w1 w2 } prev next := by
    intro i hi
    have := r1 i hi
    refine ⟨this.1, this.2.1, this.2.2.1, ?_, this.2.2.2.2⟩
    have h4 : i < w1.length := this.2.2.2.1
    simp only [List.length_zipWith, ← hl, min_self]
    exact h4
  rw [m.traversalTotal_sum_weights hs _ e prev next r1] at h1
  rw [m.traversalTotal_sum_weights hs _ e prev next r2] at h2
  rw [m.traversalTotal_sum_weights hs _ e prev next r3]
  simp only [Option.some.injEq] at h1 h2 ⊢
  have hw : ∀ i ∈ m.indices, (List.zipWith (fun x y => a * x + b * y) w1 w2).getD i 0
      = a * w1.getD i 0 + b * w2.getD i 0 :=
    fun i hi => getD_zipWith_linear w1 w2 a b i (r1 i hi).2.2.2.1 (r2 i hi).2.2.2.1
  rw [← h1, ← h2, sum_terms_linear m.indices _ _ _ _ a b hw, sum_terms_linear m.indices _ _ _ _ a b hw]
  ring

/-- the same for the access value -/
theorem linear_in_weights_access (m : CostModel α) (hs : m.agg = .sum) (w1 w2 : List α) (hl : w1.length = w2.length)
    (a b : α) (pe ne : Nat) (prev next : List α) (s1 s2 : α)
    (h1 : ({ m with weights := w1 }).accessTotal pe ne prev next = some s1)
    (h2 : ({ m with weights := w2 }).accessTotal pe ne prev next = some s2) :
    ({ m with weights := List.zipWith (fun x y => a * x + b * y) w1 w2 }).accessTotal pe ne prev next
      = some (a * s1 + b * s2) := by
  have r1 : CostModel.InRangeV { m with weights := w1 } prev next :=
    (CostModel.accessTotal_isSome_iff _ pe ne prev next).mp (by simp [h1])
  have r2 : CostModel.InRangeV { m with weights := w2 } prev next :=
    (CostModel.accessTotal_isSome_iff _ pe ne prev next).mp (by simp [h2])
  have r3 : CostModel.InRangeV { m with weights := List.zipWith (fun x y => a * x + b * y) w1 w2 } prev next := by
    intro i hi
    have := r1 i hi
    refine ⟨this.1, this.2.1, this.2.2.1, ?_⟩
    have h4 : i < w1.length := this.2.2.2
    simp only [List.length_zipWith, ← hl, min_self]
    exact h4
  rw [m.accessTotal_sum_weights hs _ pe ne prev next r1] at h1
  rw [m.accessTotal_sum_weights hs _ pe ne prev next r2] at h2
  rw [m.accessTotal_sum_weights hs _ pe ne prev next r3]
  simp only [Option.some.injEq] at h1 h2 ⊢
  have hw : ∀ i ∈ m.indices, (List.zipWith (fun x y => a * x + b * y) w1 w2).getD i 0
      = a * w1.getD i 0 + b * w2.getD i 0 :=
    fun i hi => getD_zipWith_linear w1 w2 a b i (r1 i hi).2.2.2 (r2 i hi).2.2.2
  rw [← h1, ← h2, sum_terms_linear m.indices _ _ _ _ a b hw, sum_terms_linear m.indices _ _ _ _ a b hw]
  ring

/-- the same for the (pre-clip) estimate -/
theorem linear_in_weights_estimate (m : CostModel α) (hs : m.agg = .sum) (w1 w2 : List α) (hl : w1.length = w2.length)
    (a b : α) (src dst : List α) (s1 s2 : α)
    (h1 : ({ m with weights := w1 }).vehicleCosts src dst = some s1)
    (h2 : ({ m with weights := w2 }).vehicleCosts src dst = some s2) :
    ({ m with weights := List.zipWith (fun x y => a * x + b * y) w1 w2 }).vehicleCosts src dst
      = some (a * s1 + b * s2) := by
  have r1 : CostModel.InRangeV { m with weights := w1 } src dst :=
    (CostModel.vehicleCosts_isSome_iff _ src dst).mp (by simp [h1])
  have r2 : CostModel.InRangeV { m with weights := w2 } src dst :=
    (CostModel.vehicleCosts_isSome_iff _ src dst).mp (by simp [h2])
  have r3 : CostModel.InRangeV { m with weights := List.zipWith (fun x y => a * x + b * y) w1 w2 } src dst := by
    intro i hi
    have := r1 i hi
    refine ⟨this.1, this.2.1, this.2.2.1, ?_⟩
    have h4 : i < w1.length := this.2.2.2
    simp only [List.length_zipWith, ← hl, min_self]
    exact h4
  rw [m.vehicleCosts_sum_weights hs _ src dst r1] at h1
  rw [m.vehicleCosts_sum_weights hs _ src dst r2] at h2
  rw [m.vehicleCosts_sum_weights hs _ src dst r3]
  simp only [Option.some.injEq] at h1 h2 ⊢
  have hw : ∀ i ∈ m.indices, (List.zipWith (fun x y => a * x + b * y) w1 w2).getD i 0
      = a * w1.getD i 0 + b * w2.getD i 0 :=
    fun i hi => getD_zipWith_linear w1 w2 a b i (r1 i hi).2.2.2 (r2 i hi).2.2.2
  rw [← h1, ← h2, sum_terms_linear m.indices _ _ _ _ a b hw]

/-! ### 6. Zero-weight features are ignored -/

/-- C07: a feature whose weight is zero is ignored — neither its state variables nor its vehicle and
network rates influence any of the three results (`m'`, `prev'`, `next'` differ from `m`, `prev`,
`next` only at zero-weight features).  This holds for both aggregations; under sum aggregation the
feature can moreover be dropped altogether (`zero_weight_removable`), under mul aggregation it
annihilates the product instead (`mul_zero_weight_floor`). -/
theorem zero_weight_ignored (m m' : CostModel α)
    (hagg : m'.agg = m.agg) (hidx : m'.indices = m.indices) (hw : m'.weights = m.weights)
    (hvl : m'.vehicleRates.length = m.vehicleRates.length)
    (hnl : m'.networkRates.length = m.networkRates.length)
    (prev next prev' next' : List α) (hp : prev'.length = prev.length) (hn : next'.length = next.length)
    (h : ∀ i ∈ m.indices, m.wt i = 0 ∨
      (m'.vr i = m.vr i ∧ m'.nr i = m.nr i ∧ prev'.getD i 0 = prev.getD i 0 ∧ next'.getD i 0 = next.getD i 0))
    (e pe ne : Nat) :
    m'.traversalCost e prev' next' = m.traversalCost e prev next
      ∧ m'.accessCost pe ne prev' next' = m.accessCost pe ne prev next
      ∧ m'.costEstimate prev' next' = m.costEstimate prev next := by
  have hwt : ∀ i, m'.wt i = m.wt i := fun i => by unfold CostModel.wt; rw [hw]
  have hV : m'.InRangeV prev' next' ↔ m.InRangeV prev next := by
    unfold CostModel.InRangeV; rw [hidx, hp, hn, hvl, hw]
  have hR : m'.InRange prev' next' ↔ m.InRange prev next := by
    unfold CostModel.InRange; rw [hidx, hp, hn, hvl, hw, hnl]
  have hvt : m'.vehicleTerms prev' next' = m.vehicleTerms prev next := by
    unfold CostModel.vehicleTerms; rw [hidx]
    apply List.map_congr_left
    intro i hi
    rcases h i hi with h0 | ⟨h1, _, h3, h4⟩
    · rw [hwt, h0]; simp
    · rw [hwt, h1]; unfold stateDelta; rw [h3, h4]
  have htt : m'.traversalTerms e = m.traversalTerms e := by
    unfold CostModel.traversalTerms; rw [hidx]
    apply List.map_congr_left
    intro i hi
    rcases h i hi with h0 | ⟨_, h2, _, _⟩
    · rw [hwt, h0]; simp
    · rw [hwt, h2]
  have hat : m'.accessTerms pe ne = m.accessTerms pe ne := by
    unfold CostModel.accessTerms; rw [hidx]
    apply List.map_congr_left
    intro i hi
    rcases h i hi with h0 | ⟨_, h2, _, _⟩
    · rw [hwt, h0]; simp
    · rw [hwt, h2]
  have hveh : m'.vehicleCosts prev' next' = m.vehicleCosts prev next := by
    by_cases hr : m.InRangeV prev next
    · rw [m.vehicleCosts_eq prev next hr, m'.vehicleCosts_eq prev' next' (hV.mpr hr), hvt, hagg]
    · have n1 : m.vehicleCosts prev next = none := by
        rw [← Option.not_isSome_iff_eq_none, m.vehicleCosts_isSome_iff]; exact hr
      have n2 : m'.vehicleCosts prev' next' = none := by
        rw [← Option.not_isSome_iff_eq_none, m'.vehicleCosts_isSome_iff, hV]; exact hr
      rw [n1, n2]
  have htot : m'.traversalTotal e prev' next' = m.traversalTotal e prev next := by
    by_cases hr : m.InRange prev next
    · rw [m.traversalTotal_eq e prev next hr, m'.traversalTotal_eq e prev' next' (hR.mpr hr), hvt, htt, hagg]
    · have n1 : m.traversalTotal e prev next = none := by
        rw [← Option.not_isSome_iff_eq_none, m.traversalTotal_isSome_iff]; exact hr
      have n2 : m'.traversalTotal e prev' next' = none := by
        rw [← Option.not_isSome_iff_eq_none, m'.traversalTotal_isSome_iff, hR]; exact hr
      rw [n1, n2]
  have hacc : m'.accessTotal pe ne prev' next' = m.accessTotal pe ne prev next := by
    by_cases hr : m.InRangeV prev next
    · rw [m.accessTotal_eq pe ne prev next hr, m'.accessTotal_eq pe ne prev' next' (hV.mpr hr), hvt, hat, hagg]
    · have n1 : m.accessTotal pe ne prev next = none := by
        rw [← Option.not_isSome_iff_eq_none, m.accessTotal_isSome_iff]; exact hr
      have n2 : m'.accessTotal pe ne prev' next' = none := by
        rw [← Option.not_isSome_iff_eq_none, m'.accessTotal_isSome_iff, hV]; exact hr
      rw [n1, n2]
  refine ⟨?_, ?_, ?_⟩
  · unfold CostModel.traversalCost; rw [htot]
  · unfold CostModel.accessCost; rw [hacc]
  · unfold CostModel.costEstimate; rw [hveh]

/-- C07 (sum aggregation): a zero-weight feature can be removed from the model without changing any
result (when the results exist) -/
theorem zero_weight_removable (m : CostModel α) (hs : m.agg = .sum) (k : Nat) (hk : m.wt k = 0)
    (prev next : List α) (hr : m.InRange prev next) (e pe ne : Nat) :
    let m' : CostModel α := { m with indices := m.indices.filter (fun j => j != k) }
    m'.traversalCost e prev next = m.traversalCost e prev next
      ∧ m'.accessCost pe ne prev next = m.accessCost pe ne prev next
      ∧ m'.costEstimate prev next = m.costEstimate prev next := by
  intro m'
  have hr' : m'.InRange prev next := fun i hi => hr i (List.mem_of_mem_filter hi)
  have key : ∀ f : Nat → α, f k = 0 →
      ((m.indices.filter (fun j => j != k)).map f).sum = (m.indices.map f).sum := by
    intro f hf
    induction m.indices with
    | nil => simp
    | cons j l ih =>
      rw [List.filter_cons]
      split
      · simp only [List.map_cons, List.sum_cons, ih]
      · rename_i hj
        have : j = k := by simpa using hj
        simp only [List.map_cons, List.sum_cons, ih, this, hf, zero_add]
  have hvt : (m'.vehicleTerms prev next).sum = (m.vehicleTerms prev next).sum :=
    key (fun i => (m.vr i).mapValue (stateDelta prev next i) * m.wt i) (by simp [hk])
  have htt : (m'.traversalTerms e).sum = (m.traversalTerms e).sum :=
    key (fun i => (m.nr i).traversalCost e * m.wt i) (by simp [hk])
  have hat : (m'.accessTerms pe ne).sum = (m.accessTerms pe ne).sum :=
    key (fun i => (m.nr i).accessCost pe ne * m.wt i) (by simp [hk])
  refine ⟨?_, ?_, ?_⟩
  · unfold CostModel.traversalCost
    rw [m.traversalTotal_eq e prev next hr, m'.traversalTotal_eq e prev next hr', hs, agg_sum, agg_sum,
      agg_sum, agg_sum, hvt, htt]
  · unfold CostModel.accessCost
    rw [m.accessTotal_eq pe ne prev next hr.toV, m'.accessTotal_eq pe ne prev next hr'.toV, hs, agg_sum,
      agg_sum, agg_sum, agg_sum, hvt, hat]
  · unfold CostModel.costEstimate
    rw [m.vehicleCosts_eq prev next hr.toV, m'.vehicleCosts_eq prev next hr'.toV, hs, agg_sum, agg_sum, hvt]

/-! ### 7. Multiplication aggregation, exactly as the code behaves -/

/-- under mul aggregation each part is the product of the per-feature costs — `0` for an empty
feature list — and the two parts are *added*; the total is then floored like any other -/
theorem mul_formula_traversal (m : CostModel α) (hm : m.agg = .mul) (e : Nat) (prev next : List α) (s : α)
    (h : m.traversalTotal e prev next = some s) :
    s = (if m.indices = [] then 0
          else (m.indices.map fun i => (m.vr i).mapValue (stateDelta prev next i) * m.wt i).prod)
      + (if m.indices = [] then 0 else (m.indices.map fun i => (m.nr i).traversalCost e * m.wt i).prod) := by
  have hr : m.InRange prev next := (m.traversalTotal_isSome_iff e prev next).mp (by simp [h])
  rw [m.traversalTotal_eq e prev next hr, hm, agg_mul, agg_mul] at h
  simp only [Option.some.injEq] at h
  rw [← h]
  unfold CostModel.vehicleTerms CostModel.traversalTerms
  simp only [List.map_eq_nil_iff]

/-- the same for the access value -/
theorem mul_formula_access (m : CostModel α) (hm : m.agg = .mul) (pe ne : Nat) (prev next : List α) (s : α)
    (h : m.accessTotal pe ne prev next = some s) :
    s = (if m.indices = [] then 0
          else (m.indices.map fun i => (m.vr i).mapValue (stateDelta prev next i) * m.wt i).prod)
      + (if m.indices = [] then 0 else (m.indices.map fun i => (m.nr i).accessCost pe ne * m.wt i).prod) := by
  have hr : m.InRangeV prev next := (m.accessTotal_isSome_iff pe ne prev next).mp (by simp [h])
  rw [m.accessTotal_eq pe ne prev next hr, hm, agg_mul, agg_mul] at h
  simp only [Option.some.injEq] at h
  rw [← h]
  unfold CostModel.vehicleTerms CostModel.accessTerms
  simp only [List.map_eq_nil_iff]

/-- the same for the (pre-clip) estimate -/
theorem mul_formula_estimate (m : CostModel α) (hm : m.agg = .mul) (src dst : List α) (v : α)
    (h : m.vehicleCosts src dst = some v) :
    v = (if m.indices = [] then 0
          else (m.indices.map fun i => (m.vr i).mapValue (stateDelta src dst i) * m.wt i).prod) := by
  have hr : m.InRangeV src dst := (m.vehicleCosts_isSome_iff src dst).mp (by simp [h])
  rw [m.vehicleCosts_eq src dst hr, hm, agg_mul] at h
  simp only [Option.some.injEq] at h
  rw [← h]
  unfold CostModel.vehicleTerms
  simp only [List.map_eq_nil_iff]

/-- C07 (mul aggregation): the charged cost is still strictly positive: the product formula when that
is positive, the floor otherwise -/
theorem mul_aggregation_pos (m : CostModel α) (hm : m.agg = .mul) (e : Nat) (prev next : List α) (c : α)
    (h : m.traversalCost e prev next = some c) :
    let s := (if m.indices = [] then 0
          else (m.indices.map fun i => (m.vr i).mapValue (stateDelta prev next i) * m.wt i).prod)
      + (if m.indices = [] then 0 else (m.indices.map fun i => (m.nr i).traversalCost e * m.wt i).prod)
    0 < c ∧ (0 < s → c = s) ∧ (s ≤ 0 → c = minCost) := by
  intro s
  refine ⟨traversal_cost_pos m e prev next c h, ?_⟩
  cases ht : m.traversalTotal e prev next with
  | none => rw [traversal_cost_eq, ht] at h; simp at h
  | some t =>
    have : t = s := mul_formula_traversal m hm e prev next t ht
    rw [← this]
    exact traversal_cost_ge m e prev next t c ht h

/-- under mul aggregation a zero-weight feature is *not* ignored: it annihilates both products, so the
floor is charged and the estimate is zero -/
theorem mul_zero_weight_floor (m : CostModel α) (hm : m.agg = .mul) (k : Nat) (hk : k ∈ m.indices)
    (h0 : m.wt k = 0) (e pe ne : Nat) (prev next : List α) (hr : m.InRange prev next) :
    m.traversalCost e prev next = some minCost ∧ m.accessCost pe ne prev next = some minCost
      ∧ m.costEstimate prev next = some 0 := by
  have hne : m.indices ≠ [] := List.ne_nil_of_mem hk
  have z : ∀ f : Nat → α, (m.indices.map fun i => f i * m.wt i).prod = 0 := by
    intro f
    apply list_prod_eq_zero
    exact List.mem_map.mpr ⟨k, hk, by simp [h0]⟩
  have hv : m.agg.agg (m.vehicleTerms prev next) = 0 := by
    rw [hm, agg_mul]; unfold CostModel.vehicleTerms; simp [hne, z]
  have ht : m.agg.agg (m.traversalTerms e) = 0 := by
    rw [hm, agg_mul]; unfold CostModel.traversalTerms; simp [hne, z]
  have ha : m.agg.agg (m.accessTerms pe ne) = 0 := by
    rw [hm, agg_mul]; unfold CostModel.accessTerms; simp [hne, z]
  refine ⟨?_, ?_, ?_⟩
  · rw [traversal_cost_eq, m.traversalTotal_eq e prev next hr, hv, ht]; simp
  · rw [access_cost_eq, m.accessTotal_eq pe ne prev next hr.toV, hv, ha]; simp
  · rw [cost_estimate_eq, m.vehicleCosts_eq prev next hr.toV, hv]; simp

end

/-! ### 8. Witness and non-vacuity (evaluated by the kernel on `ℚ`) -/

/-- The floor is not a lower bound of the charged cost: a positive pre-floor total below the floor is
charged as it is (`enforce_strictly_positive` only replaces values `≤ 0`).  So "result ≥ MIN_COST"
does not hold; "result > 0" (`traversal_cost_pos`) does. -/
theorem charged_below_floor_witness :
    ∃ (m : CostModel ℚ) (e : Nat) (prev next : List ℚ) (c : ℚ),
      m.traversalCost e prev next = some c ∧ 0 < c ∧ c < minCost :=
  ⟨{ indices := [0], weights := [1], vehicleRates := [.raw], networkRates := [.zero], agg := .sum },
    0, [0], [minCost / 2], minCost / 2, by decide +kernel, by decide +kernel, by decide +kernel⟩

/-- two features; the first rated by a nested combined rate and charged per edge and per turn, the
second with weight zero -/
def exSum : CostModel ℚ :=
  { indices := [0, 1], weights := [2, 0],
    vehicleRates := [.combined [.factor 3, .combined [.offset (-1), .combined []], .raw], .raw],
    networkRates := [.combined [.edgeLookup [(3, 1/4)], .edgeEdgeLookup [((1, 3), 4)]], .edgeLookup [(3, 100)]],
    agg := .sum }

/-- the same under mul aggregation, both weights non-zero -/
def exMul : CostModel ℚ := { exSum with weights := [2, -1], agg := .mul }

-- §1: the functions return on in-range input; positive delta: the formula; the per-turn surcharge
-- goes to the access cost only, the per-edge surcharge to the traversal cost only
example : exSum.traversalCost 3 [1, 0] [2, 7] = some (2 * ((1 * 3 - 1)) + 2 * (1/4)) := by decide +kernel
example : exSum.accessCost 1 3 [1, 0] [2, 7] = some (2 * ((1 * 3 - 1)) + 2 * 4) := by decide +kernel
example : exSum.costEstimate [1, 0] [2, 7] = some (2 * ((1 * 3 - 1))) := by decide +kernel
-- negative delta (regained energy): floor, and the estimate is clipped to zero
example : exSum.traversalCost 0 [2, 0] [1, 7] = some minCost := by decide +kernel
example : exSum.accessCost 0 0 [2, 0] [1, 7] = some minCost := by decide +kernel
example : exSum.costEstimate [2, 0] [1, 7] = some 0 := by decide +kernel
-- zero delta with a negative offset: floor
example : exSum.traversalCost 0 [1, 0] [1, 0] = some minCost := by decide +kernel
-- §1: the edge record, with a previous edge
example : edgeTotalCost (edgeAccessShare (exSum.accessCost 1 3 [1, 0] [2, 7])) (4 + 1/2) = 4 + 1/2 := by
  decide +kernel
example : (exSum.edgeTraversal 3 (some (1, 3)) [1, 0] [1, 0] [2, 7]).map edgeRecordTotal = some (4 + 1/2) := by
  decide +kernel
-- … the traversal share of the record may well be negative (turn surcharge above the edge's total)
example : (exSum.edgeTraversal 3 (some (1, 3)) [1, 0] [2, 7] [2, 7]).map (·.2) = some (4 + 1/2 - 12) := by
  decide +kernel
-- §2: too short a state vector: none from all three; `new` accepts / rejects
example : exSum.traversalCost 3 [1] [2, 7] = none ∧ exSum.accessCost 1 3 [1, 0] [2] = none
    ∧ exSum.costEstimate [] [] = none := by decide +kernel
example : (CostModel.new [((some 1 : Option ℚ), some .raw, none), (none, none, none)] .sum).isSome = true := by
  decide +kernel
example : CostModel.new [((some 1 : Option ℚ), some .raw, none), (some (-1), none, none)] .sum = none := by
  decide +kernel
example : CostModel.new ([] : List (FeatureConfig ℚ)) .sum = none := by decide +kernel
-- §3/§5: the hypotheses of the formula and linearity theorems are satisfiable
example : exSum.agg = .sum ∧ (exSum.traversalTotal 3 [1, 0] [2, 7]).isSome = true
    ∧ (({ exSum with weights := [1, 1] }).traversalTotal 3 [1, 0] [2, 7]).isSome = true := by decide +kernel
-- §5: the pre-floor value of weights 2·(2,0) + 3·(1,1) is 2·(…) + 3·(…), also when it is negative
example : ({ exSum with weights := [7, 3] }).traversalTotal 3 [2, 0] [1, 7]
    = (do let a ← exSum.traversalTotal 3 [2, 0] [1, 7]
          let b ← ({ exSum with weights := [1, 1] }).traversalTotal 3 [2, 0] [1, 7]
          pure (2 * a + 3 * b)) := by decide +kernel
-- §6: feature 1 has weight zero: its state and rates do not matter
example : exSum.wt 1 = 0 := by decide +kernel
example : exSum.traversalCost 3 [1, 5] [2, -9] = exSum.traversalCost 3 [1, 0] [2, 7] := by decide +kernel
-- §7: mul aggregation: product of the per-feature costs plus product of the surcharges
example : exMul.accessCost 1 3 [1, 7] [2, 0] = some ((2 * 2) * (-7 * -1) + (4 * 2) * (0 * -1)) := by
  decide +kernel
example : exMul.traversalCost 3 [1, 0] [2, 7] = some minCost := by decide +kernel
-- a zero weight annihilates the product
example : ({ exSum with agg := .mul }).traversalCost 3 [1, 0] [2, 7] = some minCost := by decide +kernel

end C07
end Compass
