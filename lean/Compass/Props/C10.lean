/-
C10 — search limits bound the work and never alter an answer, only stop it.

`TermM` models `TerminationModel` (`Model/Instance.lean`); the clock of a runtime limit is the
function `base + per * iteration`.  (Loop-level theorems are added from `Proofs/SearchLimits`.)
-/
import Compass.Proofs.Num
import Compass.Model.Instance

namespace Compass
namespace C10

/-- an iteration limit lets iteration `it` start exactly when `it < L` -/
theorem iters_test_ok_iff (L sz it : Nat) : (TermM.iters L).test sz it = .ok () ↔ it < L := by
  simp only [TermM.test, TermM.fires, TermM.explain]
  by_cases h : it + 1 > L
  · simp [h]; omega
  · simp [h]; omega

/-- … and otherwise answers with an explicit `terminated` naming the iteration limit -/
theorem iters_test_terminated (L sz it : Nat) (h : L ≤ it) :
    (TermM.iters L).test sz it = .error (.terminated [.iterations]) := by
  have : it + 1 > L := by omega
  simp [TermM.test, TermM.fires, TermM.explain, this]

/-- a solution-size limit lets a loop turn start exactly when the tree has at most `S` entries -/
theorem size_test_ok_iff (S sz it : Nat) : (TermM.size S).test sz it = .ok () ↔ sz ≤ S := by
  simp only [TermM.test, TermM.fires, TermM.explain]
  by_cases h : sz > S
  · simp [h]
  · simp [h]; omega

theorem size_test_terminated (S sz it : Nat) (h : S < sz) :
    (TermM.size S).test sz it = .error (.terminated [.size]) := by
  have : sz > S := h
  simp [TermM.test, TermM.fires, TermM.explain, this]

/-- a runtime limit is consulted only at multiples of its frequency, and stops the search there
exactly when the clock exceeds the budget -/
theorem runtime_test (limit freq base per sz it : Nat) (hf : 0 < freq) :
    (TermM.runtime limit freq base per).test sz it =
      if it % freq = 0 ∧ base + per * it > limit then .error (.terminated [.runtime]) else .ok () := by
  have hf' : freq ≠ 0 := by omega
  simp only [TermM.test, TermM.fires, TermM.explain, hf', if_false]
  by_cases h1 : it % freq = 0
  · by_cases h2 : base + per * it > limit
    · simp [h1, h2]
    · simp [h1, h2]
  · simp [h1]

/-- frequency zero is the one configuration that makes the check itself fail (`iteration % 0`) -/
theorem runtime_frequency_zero (limit base per sz it : Nat) :
    (TermM.runtime limit 0 base per).test sz it = .error (.panic "termination-frequency-zero") := by
  simp [TermM.test, TermM.fires]

/-- with an exhausted budget from iteration `i₀` on, the first scheduled check at or after `i₀` stops
the search: no loop turn with `it % freq = 0 ∧ i₀ ≤ it` can start -/
theorem runtime_stops_at_next_check (limit freq base per sz it i₀ : Nat) (hf : 0 < freq)
    (hex : ∀ i, i₀ ≤ i → base + per * i > limit) (hit : i₀ ≤ it) (hm : it % freq = 0) :
    (TermM.runtime limit freq base per).test sz it = .error (.terminated [.runtime]) := by
  rw [runtime_test _ _ _ _ _ _ hf]
  simp [hm, hex it hit]

/-! ### Non-vacuity -/
example : (TermM.iters 3).test 0 2 = .ok () := by decide
example : (TermM.iters 3).test 0 3 = .error (.terminated [.iterations]) := by decide
example : (TermM.combined [.iters 3, .size 1]).test 2 3 = .error (.terminated [.iterations, .size]) := by decide
example : (TermM.runtime 1000 2 0 600).test 0 2 = .error (.terminated [.runtime]) := by decide
example : (TermM.runtime 1000 2 0 600).test 0 3 = .ok () := by decide

end C10
end Compass
