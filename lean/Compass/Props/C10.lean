/-
C10 — search limits bound the work and never alter an answer, only stop it.

`TermM` models `TerminationModel` (`Model/Instance.lean`); the clock of a runtime limit is the
function `base + per * iteration`.  (Loop-level theorems are added from `Proofs/SearchLimits`.)
-/
import Compass.Proofs.Num
import Compass.Model.Instance
import Compass.Proofs.SearchLimits

namespace Compass
namespace C10

/-- an iteration limit lets iteration `it` start exactly when `it < L` -/
theorem iters_test_ok_iff (L sz it : Nat) : (TermM.iters L).test sz it = .ok () ↔ it < L := by
  simp only [TermM.test, TermM.fires, TermM.explain]
  by_cases h : it + 1 > L
  · simp [h]; omega
  · simp [h]; omega

/-- … and otherwise answers with an explicit `terminated` naming the iteration limit -/
theorem iters_test_terminated (L sz it : Nat) (h : L ≤ it) :
    (TermM.iters L).test sz it = .error (.terminated [.iterations]) := by
  have : it + 1 > L := by omega
  simp [TermM.test, TermM.fires, TermM.explain, this]

/-- a solution-size limit lets a loop turn start exactly when the tree has at most `S` entries -/
theorem size_test_ok_iff (S sz it : Nat) : (TermM.size S).test sz it = .ok () ↔ sz ≤ S := by
  simp only [TermM.test, TermM.fires, TermM.explain]
  by_cases h : sz > S
  · simp [h]
  · simp [h]; omega

theorem size_test_terminated (S sz it : Nat) (h : S < sz) :
    (TermM.size S).test sz it = .error (.terminated [.size]) := by
  have : sz > S := h
  simp [TermM.test, TermM.fires, TermM.explain, this]

/-- a runtime limit is consulted only at multiples of its frequency, and stops the search there
exactly when the clock exceeds the budget -/
theorem runtime_test (limit freq base per sz it : Nat) (hf : 0 < freq) :
    (TermM.runtime limit freq base per).test sz it =
      if it % freq = 0 ∧ base + per * it > limit then .error (.terminated [.runtime]) else .ok () := by
  have hf' : freq ≠ 0 := by omega
  simp only [TermM.test, TermM.fires, TermM.explain, hf', if_false]
  by_cases h1 : it % freq = 0
  · by_cases h2 : base + per * it > limit
    · simp [h1, h2]
    · simp [h1, h2]
  · simp [h1]

/-- frequency zero is the one configuration that makes the check itself fail (`iteration % 0`) -/
theorem runtime_frequency_zero (limit base per sz it : Nat) :
    (TermM.runtime limit 0 base per).test sz it = .error (.panic "termination-frequency-zero") := by
  simp [TermM.test, TermM.fires]

/-- with an exhausted budget from iteration `i₀` on, the first scheduled check at or after `i₀` stops
the search: no loop turn with `it % freq = 0 ∧ i₀ ≤ it` can start -/
theorem runtime_stops_at_next_check (limit freq base per sz it i₀ : Nat) (hf : 0 < freq)
    (hex : ∀ i, i₀ ≤ i → base + per * i > limit) (hit : i₀ ≤ it) (hm : it % freq = 0) :
    (TermM.runtime limit freq base per).test sz it = .error (.terminated [.runtime]) := by
  rw [runtime_test _ _ _ _ _ _ hf]
  simp [hm, hex it hit]


/-! ### Loop level (every configuration, source, target and schedule) -/

section
open SearchLimits
variable {α : Type} [Field α] [LinearOrder α] [IsStrictOrderedRing α] [Lit α] [LawfulLit α]

/-- With an iteration limit `L` anywhere in the configured termination model a search never performs
more than `L` expansion steps: a returned result has at most `L` iterations, and the loop never
consumes more than `L` scheduled pops (the run is unchanged when the schedule is cut after `L`). -/
theorem iterations_le_limit (c : Config α) {L : Nat} (hl : Leaf (.iters L) c.term)
    (source : Nat) (target : Option Nat) (sched : List Nat) :
    (∀ s, runAStar c.inst source target sched = .ok s → s.iters ≤ L) ∧
    runAStar c.inst source target sched = runAStar c.inst source target (sched.take L) :=
  ⟨fun _ h => (config_iterations_le_limit c hl h).1, config_runAStar_take c hl source target sched⟩

/-- With a solution-size limit `S` the tree never exceeds `S` by more than one vertex's degree `D`
(and a tree that is returned has at most `S` entries). -/
theorem size_le_limit_plus_degree (c : Config α) {S D : Nat} (hl : Leaf (.size S) c.term)
    (hD : ∀ v, (c.inst.incident v).length ≤ D) {source : Nat} {target : Option Nat}
    {sched : List Nat} {s : SState α} (hrun : runAStar c.inst source target sched = .ok s) :
    s.solSize ≤ S + D ∧ s.solSize ≤ S :=
  config_size_le_limit_plus_degree c hl hD hrun

/-- With a time budget exhausted from iteration `i₀` on, the search stops at the next scheduled
check: no result is returned after `nextCheck freq i₀` iterations. -/
theorem runtime_stops_at_next_scheduled_check (c : Config α) {limitNs freq baseNs perNs i₀ : Nat}
    (hl : Leaf (.runtime limitNs freq baseNs perNs) c.term) (hf : 0 < freq)
    (hex : ∀ i, i₀ ≤ i → limitNs < baseNs + perNs * i) {source : Nat} {target : Option Nat}
    {sched : List Nat} {s : SState α} (hrun : runAStar c.inst source target sched = .ok s) :
    s.iters ≤ nextCheck freq i₀ :=
  (config_runtime_stops_at_next_check c hl hf hex hrun).1

/-- A search that hits a limit returns the explicit `terminated` error naming the limit(s) that
fired at that loop head — never a route, a tree or "no path". -/
theorem terminated_names_fired_limits (c : Config α) {source : Nat} {target : Option Nat}
    {ks : List TermKind} (sched : List Nat) (s : SState α)
    (h : runLoop c.inst source target sched s = .error (.terminated ks)) :
    ∃ pre rest hd, sched = pre ++ rest ∧ Reach c.inst source target pre s hd ∧
      c.term.test hd.solSize hd.iters = .error (.terminated ks) ∧ ks ≠ [] ∧
      ∀ k ∈ ks, ∃ l, Leaf l c.term ∧ kindOf l = k ∧ l.fires hd.solSize hd.iters = some true :=
  config_terminated_from_limit c sched s h

/-- the termination model never answers with the "unable to explain" internal error -/
theorem termination_never_unexplained (m : TermM) (sz it : Nat) : m.test sz it ≠ .error .internal :=
  test_ne_internal m sz it

/-- Whenever a search returns under limits its result is identical to the unlimited result … -/
theorem limited_result_is_unlimited_result (c : Config α) {source : Nat} {target : Option Nat}
    {sched : List Nat} {r : SearchResult α}
    (h : runVertexOriented c.inst source target sched = .ok r) :
    runVertexOriented ({ c with term := .combined [] } : Config α).inst source target sched = .ok r :=
  config_limited_prefix c h

/-- … and success is monotone in the limits: any termination model that lets pass everything the
configured one lets pass returns the same result. -/
theorem success_monotone_in_limits (c : Config α) (m₂ : TermM)
    (hmono : ∀ sz it, c.term.test sz it = .ok () → m₂.test sz it = .ok ())
    {source : Nat} {target : Option Nat} {sched : List Nat} {r : SearchResult α}
    (h : runVertexOriented c.inst source target sched = .ok r) :
    runVertexOriented ({ c with term := m₂ } : Config α).inst source target sched = .ok r :=
  config_success_monotone c m₂ hmono h

end

/-! ### Non-vacuity -/
example : (TermM.iters 3).test 0 2 = .ok () := by decide
example : (TermM.iters 3).test 0 3 = .error (.terminated [.iterations]) := by decide
example : (TermM.combined [.iters 3, .size 1]).test 2 3 = .error (.terminated [.iterations, .size]) := by decide
example : (TermM.runtime 1000 2 0 600).test 0 2 = .error (.terminated [.runtime]) := by decide
example : (TermM.runtime 1000 2 0 600).test 0 3 = .ok () := by decide

end C10
end Compass
