/-
C10 — search limits bound the work and never alter an answer, only stop it.

`TermM` models `TerminationModel` (`Model/Instance.lean`).  The clock of a runtime limit in the
configured model is the *affine* function `base + per * iteration` nanoseconds — the harness's virtual
clock (hook in `TerminationModel`), which is what makes a runtime limit replayable; the loop-level
statement `runtime_stops_at_next_scheduled_check_any_clock` holds for an arbitrary clock function.
Loop-level theorems (`Proofs/SearchLimits`) are for `run_a_star` / `run_vertex_oriented`; the
edge-oriented wrapper has its own section (it adds its pseudo-steps to `iterations` and, when the two
edges are adjacent, runs no search and consults no limit).  Each sub-search of the k-shortest-path
algorithms is a `run_vertex_oriented` call, so the theorems apply to it; how a limit hit of a
sub-search surfaces is C13's (`Props/C13.lean`).

Modelled rather than verified: `IterationsLimit` computes `iteration + 1 > limit` in `u64`:
`terminate_search(_, 0, u64::MAX)` wraps to `0 > limit`, false, in a release build (and panics in a
debug build), where `(TermM.iters limit).fires 0 (2^64 - 1) = some true` over the unbounded naturals
of the model.  Unreachable from `run_a_star`, whose counter starts at 0 and grows by one per
expansion (2^64 expansions), and outside the builder's reach; the limits `u64::MAX`, `usize::MAX` and 0
themselves are generated (extreme-value stream of harness/src/searchprops.rs).
-/
import Compass.Model.Search
import Compass.Gen.Decisions
import Compass.Gen.FnsC10
import Compass.Proofs.Num
import Compass.Model.Instance
import Compass.Proofs.SearchLimits
import Compass.Proofs.Build
import Compass.Proofs.SearchTermination
import Compass.Proofs.SearchRoute

namespace Compass
namespace C10

/-- an iteration limit lets iteration `it` start exactly when `it < L` -/
theorem iters_test_ok_iff (L sz it : Nat) : (TermM.iters L).test sz it = .ok () ↔ it < L := by
  simp only [TermM.test, TermM.fires, TermM.explain]
  by_cases h : it + 1 > L
  · simp [h]; omega
  · simp [h]; omega

/-- … and otherwise answers with an explicit `terminated` naming the iteration limit -/
theorem iters_test_terminated (L sz it : Nat) (h : L ≤ it) :
    (TermM.iters L).test sz it = .error (.terminated [.iterations]) := by
  have : it + 1 > L := by omega
  simp [TermM.test, TermM.fires, TermM.explain, this]

/-- a solution-size limit lets a loop turn start exactly when the tree has at most `S` entries -/
theorem size_test_ok_iff (S sz it : Nat) : (TermM.size S).test sz it = .ok () ↔ sz ≤ S := by
  simp only [TermM.test, TermM.fires, TermM.explain]
  by_cases h : sz > S
  · simp [h]
  · simp [h]; omega

theorem size_test_terminated (S sz it : Nat) (h : S < sz) :
    (TermM.size S).test sz it = .error (.terminated [.size]) := by
  have : sz > S := h
  simp [TermM.test, TermM.fires, TermM.explain, this]

/-- a runtime limit is consulted only at multiples of its frequency, and stops the search there
exactly when the clock exceeds the budget -/
theorem runtime_test (limit freq base per sz it : Nat) (hf : 0 < freq) :
    (TermM.runtime limit freq base per).test sz it =
      if it % freq = 0 ∧ base + per * it > limit then .error (.terminated [.runtime]) else .ok () := by
  have hf' : freq ≠ 0 := by omega
  simp only [TermM.test, TermM.fires, TermM.explain, hf', if_false]
  by_cases h1 : it % freq = 0
  · by_cases h2 : base + per * it > limit
    · simp [h1, h2]
    · simp [h1, h2]
  · simp [h1]

/-- frequency zero is the one configuration that makes the check itself fail (`iteration % 0`) -/
theorem runtime_frequency_zero (limit base per sz it : Nat) :
    (TermM.runtime limit 0 base per).test sz it = .error (.panic "termination-frequency-zero") := by
  simp [TermM.test, TermM.fires]

/-- with an exhausted budget from iteration `i₀` on, the first scheduled check at or after `i₀` stops
the search: no loop turn with `it % freq = 0 ∧ i₀ ≤ it` can start -/
theorem runtime_stops_at_next_check (limit freq base per sz it i₀ : Nat) (hf : 0 < freq)
    (hex : ∀ i, i₀ ≤ i → base + per * i > limit) (hit : i₀ ≤ it) (hm : it % freq = 0) :
    (TermM.runtime limit freq base per).test sz it = .error (.terminated [.runtime]) := by
  rw [runtime_test _ _ _ _ _ _ hf]
  simp [hm, hex it hit]


/-! ### Loop level (every configuration, source, target and schedule) -/

section
open SearchLimits
variable {α : Type} [Field α] [LinearOrder α] [IsStrictOrderedRing α] [Lit α] [LawfulLit α]

/-- With an iteration limit `L` anywhere in the configured termination model a search never performs
more than `L` expansion steps: a returned result has at most `L` iterations, and the loop never
consumes more than `L` scheduled pops (the run is unchanged when the schedule is cut after `L`). -/
theorem iterations_le_limit (c : Config α) {L : Nat} (hl : Leaf (.iters L) c.term)
    (source : Nat) (target : Option Nat) (sched : List Nat) :
    (∀ s, runAStar c.inst source target sched = .ok s → s.iters ≤ L) ∧
    runAStar c.inst source target sched = runAStar c.inst source target (sched.take L) :=
  ⟨fun _ h => (config_iterations_le_limit c hl h).1, config_runAStar_take c hl source target sched⟩

/-- With a solution-size limit `S` anywhere in the configured termination model, `D` a bound on the
number of incident edges of a vertex (the out-degree, in a reverse search the in-degree):
(1) DURING a run — at every loop head the run reaches, returning or not, in particular the one at
which the limit fires — the tree has at most `S + D` entries: it never exceeds the limit by more than
one vertex's degree;
(2) inside an expansion, after the edges `es` of the expanded vertex have been relaxed, it has at most
`S + |es|` entries;
(3) a tree that is returned has at most `S` entries (the result is produced at a loop head that
passed the test). -/
theorem size_le_limit_plus_degree (c : Config α) {S D : Nat} (hl : Leaf (.size S) c.term)
    (hD : ∀ v, (c.inst.incident v).length ≤ D) (source : Nat) (target : Option Nat) :
    (∀ (pre : List Nat) (f0 : α) (h : SState α),
      Reach c.inst source target pre (initState source f0) h → h.solSize ≤ S + D) ∧
    (∀ (pre : List Nat) (f0 : α) (h : SState α),
      Reach c.inst source target pre (initState source f0) h →
      c.term.test h.solSize h.iters = .ok () →
      ∀ (hasTarget : Bool) (lastEdge : Option Nat) (st : List α) (v : Nat) (es : List Nat)
        (s2 : SState α), relaxAll c.inst hasTarget lastEdge st es (popped h v) = .ok s2 →
        s2.solSize ≤ S + es.length) ∧
    (∀ (sched : List Nat) (s : SState α),
      runAStar c.inst source target sched = .ok s → s.solSize ≤ S) := by
  have hS : SizeLimit c.inst S := sizeLimit_of_leaf (I := c.inst) rfl hl
  refine ⟨fun pre f0 h hr => ?_, fun pre f0 h _ hterm hasT le st v es s2 hrel => ?_,
    fun sched s hrun => (config_size_le_limit_plus_degree c hl hD hrun).2⟩
  · rcases reach_size_le hS hD hr with rfl | hle
    · cases hr
      simp [initState]
    · exact hle
  · exact relaxAll_size_le hS hterm hrel

/-- With a time budget exhausted from iteration `i₀` on, the search stops at the next scheduled
check: no result is returned after `nextCheck freq i₀` iterations.  The clock of the configured model
is affine, `baseNs + perNs * iteration` (the virtual clock of the harness); for an arbitrary clock see
`runtime_stops_at_next_scheduled_check_any_clock`. -/
theorem runtime_stops_at_next_scheduled_check (c : Config α) {limitNs freq baseNs perNs i₀ : Nat}
    (hl : Leaf (.runtime limitNs freq baseNs perNs) c.term) (hf : 0 < freq)
    (hex : ∀ i, i₀ ≤ i → limitNs < baseNs + perNs * i) {source : Nat} {target : Option Nat}
    {sched : List Nat} {s : SState α} (hrun : runAStar c.inst source target sched = .ok s) :
    s.iters ≤ nextCheck freq i₀ :=
  (config_runtime_stops_at_next_check c hl hf hex hrun).1

/-- The same for an arbitrary clock: any instance whose limit function refuses a loop head whenever
the iteration is a multiple of `freq` and the clock reading `clock iteration` exceeds `limit` (the
code's `iteration % frequency == 0 && elapsed > limit`, whatever else the limit function tests).  If
the budget is exhausted from iteration `i₀` on — for a monotone clock: as soon as it is exhausted at
`i₀` — no result is returned after the first multiple of `freq` that is `≥ i₀`. -/
theorem runtime_stops_at_next_scheduled_check_any_clock {I : Inst α} {freq i₀ limit : Nat}
    (clock : Nat → Nat) (hf : 0 < freq)
    (hI : ∀ sz it, it % freq = 0 → limit < clock it → ∃ k, I.term sz it = .error k)
    (hex : (∀ i, i₀ ≤ i → limit < clock i) ∨ (Monotone clock ∧ limit < clock i₀))
    {source : Nat} {target : Option Nat} {sched : List Nat} {s : SState α}
    (hrun : runAStar I source target sched = .ok s) :
    s.iters ≤ nextCheck freq i₀ ∧ (target ≠ some source → s.iters < nextCheck freq i₀) := by
  have hex' : ∀ i, i₀ ≤ i → limit < clock i := by
    rcases hex with h | ⟨hm, h0⟩
    · exact h
    · exact fun i hi => lt_of_lt_of_le h0 (hm hi)
  exact SearchLimits.runtime_stops_at_next_check hf
    (fun sz it hmod hi => hI sz it hmod (hex' it hi)) hrun

/-- A search that hits a limit returns the explicit `terminated` error naming the limit(s) that
fired at that loop head — never a route, a tree or "no path". -/
theorem terminated_names_fired_limits (c : Config α) {source : Nat} {target : Option Nat}
    {ks : List TermKind} (sched : List Nat) (s : SState α)
    (h : runLoop c.inst source target sched s = .error (.terminated ks)) :
    ∃ pre rest hd, sched = pre ++ rest ∧ Reach c.inst source target pre s hd ∧
      c.term.test hd.solSize hd.iters = .error (.terminated ks) ∧ ks ≠ [] ∧
      ∀ k ∈ ks, ∃ l, Leaf l c.term ∧ kindOf l = k ∧ l.fires hd.solSize hd.iters = some true :=
  config_terminated_from_limit c sched s h

/-- the termination model never answers with the "unable to explain" internal error -/
theorem termination_never_unexplained (m : TermM) (sz it : Nat) : m.test sz it ≠ .error .internal :=
  test_ne_internal m sz it

/-- membership in the kinds a combined model names -/
theorem explainList_mem (sz it : Nat) (k : TermKind) :
    ∀ (ms : List TermM) (m : TermM), m ∈ ms → k ∈ m.explain sz it →
      k ∈ TermM.explain.explainList ms sz it
  | [], _, h, _ => by cases h
  | m' :: ms, m, h, hk => by
    simp only [TermM.explain.explainList, List.mem_append]
    rcases List.mem_cons.1 h with rfl | h
    · exact Or.inl hk
    · exact Or.inr (explainList_mem sz it k ms m h hk)

/-- a limit of the model that fires is named by `explain_termination` -/
theorem fired_leaf_is_named {l m : TermM} (hl : Leaf l m) (sz it : Nat)
    (hf : l.fires sz it = some true) : kindOf l ∈ m.explain sz it := by
  induction hl with
  | runtime l f b p => simp [TermM.explain, hf, kindOf]
  | size l => simp [TermM.explain, hf, kindOf]
  | iters l => simp [TermM.explain, hf, kindOf]
  | combined hm _ ih =>
    simp only [TermM.explain]
    exact explainList_mem sz it _ _ _ hm (ih hf)

/-- the converse of `terminated_names_fired_limits` ("every named limit fired"): **every limit that
fired is named** — together: the explicit `terminated` error names exactly the kinds of the limits of
the model that fire at that loop head -/
theorem terminated_names_every_fired_limit (m : TermM) (sz it : Nat) {ks : List TermKind}
    (h : m.test sz it = .error (.terminated ks)) {l : TermM} (hl : Leaf l m)
    (hf : l.fires sz it = some true) : kindOf l ∈ ks := by
  have hk := fired_leaf_is_named hl sz it hf
  unfold TermM.test at h
  split at h
  · cases h
  · cases h
  · split at h
    · cases h
    · injection h with h
      injection h with h
      rw [← h]; exact hk

/-- non-vacuity: a nested model in which two limits fire and one stays silent -/
example : (TermM.combined [.iters 0, .size 100, .combined [.size 0]]).test 1 0 =
      .error (.terminated [.iterations, .size]) ∧
    TermKind.iterations ∈ [TermKind.iterations, TermKind.size] := by
  refine ⟨by decide, ?_⟩
  exact terminated_names_every_fired_limit (.combined [.iters 0, .size 100, .combined [.size 0]]) 1 0
    (by decide) (Leaf.combined (by simp) (Leaf.iters 0)) (by decide)

/-- Whenever a search returns under limits its result is identical to the unlimited result … -/
theorem limited_result_is_unlimited_result (c : Config α) {source : Nat} {target : Option Nat}
    {sched : List Nat} {r : SearchResult α}
    (h : runVertexOriented c.inst source target sched = .ok r) :
    runVertexOriented ({ c with term := .combined [] } : Config α).inst source target sched = .ok r :=
  config_limited_prefix c h

/-- … and success is monotone in the limits: any termination model that lets pass everything the
configured one lets pass returns the same result. -/
theorem success_monotone_in_limits (c : Config α) (m₂ : TermM)
    (hmono : ∀ sz it, c.term.test sz it = .ok () → m₂.test sz it = .ok ())
    {source : Nat} {target : Option Nat} {sched : List Nat} {r : SearchResult α}
    (h : runVertexOriented c.inst source target sched = .ok r) :
    runVertexOriented ({ c with term := m₂ } : Config α).inst source target sched = .ok r :=
  config_success_monotone c m₂ hmono h

end

/-! ### The edge-oriented wrapper (`search_algorithm::run_edge_oriented`, `Config.runEdge`)

The wrapper runs one vertex-oriented search (from the origin edge's head to the destination edge's
tail, or without destination) under the configured limits and adds its own pseudo-steps to the
iteration count (`+ 1` for the origin edge, `+ 1` for the destination edge).  When the destination
edge starts where the origin edge ends it runs no search at all and consults no limit: it reports
`iterations = 1` whatever the limits (even `iterations` limit 0).  Tree-size and runtime statements
are about the inner search (the theorems above apply to it verbatim); they are not restated for the
wrapper. -/

section
open SearchLimits
variable {α : Type} [Field α] [LinearOrder α] [IsStrictOrderedRing α] [Lit α] [LawfulLit α]

/-- a returned vertex-oriented result performed at most `L` expansions -/
theorem runVertex_iterations_le_limit (c : Config α) {L : Nat} (hl : Leaf (.iters L) c.term)
    {source : Nat} {target : Option Nat} {sched : List Nat} {r : AlgResult α}
    (h : c.runVertex source target sched = .ok r) : r.iterations ≤ L := by
  obtain ⟨res, hres, _, _, hit⟩ := SearchRoute.runVertex_ok h
  rw [hit]
  have hra : runAStar c.inst source target sched = .ok res.final := by
    unfold runVertexOriented at hres
    split at hres
    · cases hres
    · rename_i s hs
      cases target with
      | none => cases hres; exact hs
      | some t =>
        simp only at hres
        split at hres
        · cases hres
        · cases hres; exact hs
  exact (config_iterations_le_limit c hl hra).1

/-- With an iteration limit `L` the edge-oriented wrapper reports at most `L + 2` iterations: at most
`L` expansions of the inner search plus its own two pseudo-steps. -/
theorem edge_oriented_iterations_le_limit (c : Config α) {L : Nat} (hl : Leaf (.iters L) c.term)
    {source : Nat} {target : Option Nat} {sched : List Nat} {r : AlgResult α}
    (h : c.runEdge source target sched = .ok r) : r.iterations ≤ L + 2 := by
  unfold Config.runEdge at h
  simp only at h
  cases he : c.edges[source]? with
  | none => simp only [he] at h; cases h
  | some e1 =>
    simp only [he] at h
    cases target with
    | none =>
      simp only at h
      cases hr : c.runVertex e1.dst none sched with
      | error k => simp only [hr] at h; cases h
      | ok r' =>
        simp only [hr] at h
        cases h
        have := runVertex_iterations_le_limit c hl hr
        simp only
        omega
    | some tgt =>
      simp only at h
      cases he2 : c.edges[tgt]? with
      | none => simp only [he2] at h; cases h
      | some e2 =>
        simp only [he2] at h
        by_cases hst : source = tgt
        · simp only [hst, if_true] at h; cases h; simp
        · simp only [hst, if_false] at h
          by_cases hadj : e1.dst = e2.src
          · simp only [hadj, if_true] at h
            split at h
            · cases h
            · split at h
              · cases h
              · cases h; simp
          · simp only [hadj, if_false] at h
            cases hr : c.runVertex e1.dst (some e2.src) sched with
            | error k => simp only [hr] at h; cases h
            | ok r' =>
              simp only [hr] at h
              have := runVertex_iterations_le_limit c hl hr
              split at h
              · cases h
              · split at h
                · cases h
                · cases h
                  simp only
                  omega

/-- Whenever the wrapper returns under limits its result is identical to the result under any
termination model that lets pass everything the configured one lets pass — in particular the
unlimited one (`combined []`): success is monotone in the limits. -/
theorem edge_oriented_success_monotone_in_limits (c : Config α) (m₂ : TermM)
    (hmono : ∀ sz it, c.term.test sz it = .ok () → m₂.test sz it = .ok ())
    {source : Nat} {target : Option Nat} {sched : List Nat} {r : AlgResult α}
    (h : c.runEdge source target sched = .ok r) :
    ({ c with term := m₂ } : Config α).runEdge source target sched = .ok r := by
  have hv : ∀ s t r', c.runVertex s t sched = .ok r' →
      ({ c with term := m₂ } : Config α).runVertex s t sched = .ok r' :=
    fun s t r' h' => config_runVertex_mono c m₂ hmono h'
  unfold Config.runEdge at h ⊢
  simp only at h ⊢
  cases he : c.edges[source]? with
  | none => simp only [he] at h; cases h
  | some e1 =>
    simp only [he] at h ⊢
    cases target with
    | none =>
      simp only at h ⊢
      cases hr : c.runVertex e1.dst none sched with
      | error k => simp only [hr] at h; cases h
      | ok r' =>
        simp only [hr] at h
        rw [hv _ _ _ hr]
        exact h
    | some tgt =>
      simp only at h ⊢
      cases he2 : c.edges[tgt]? with
      | none => simp only [he2] at h; cases h
      | some e2 =>
        simp only [he2] at h ⊢
        by_cases hst : source = tgt
        · simp only [hst, if_true] at h ⊢; exact h
        · simp only [hst, if_false] at h ⊢
          by_cases hadj : e1.dst = e2.src
          · simp only [hadj, if_true] at h ⊢
            exact h
          · simp only [hadj, if_false] at h ⊢
            cases hr : c.runVertex e1.dst (some e2.src) sched with
            | error k => simp only [hr] at h; cases h
            | ok r' =>
              simp only [hr] at h
              rw [hv _ _ _ hr]
              exact h

/-- the limited result is the unlimited result -/
theorem edge_oriented_limited_result_is_unlimited_result (c : Config α)
    {source : Nat} {target : Option Nat} {sched : List Nat} {r : AlgResult α}
    (h : c.runEdge source target sched = .ok r) :
    ({ c with term := .combined [] } : Config α).runEdge source target sched = .ok r :=
  edge_oriented_success_monotone_in_limits c (.combined [])
    (fun sz it _ => combined_nil_test sz it) h

omit [Field α] [LinearOrder α] [IsStrictOrderedRing α] [Lit α] [LawfulLit α] in
/-- the wrapper's route fix-up fails only where one application fails -/
theorem fixAll_error_internal (fix : List (Branch α) → Except ErrKind (List (Branch α)))
    (hfix : ∀ rt k, fix rt = .error k → k = .internal) :
    ∀ (rts : List (List (Branch α))) (k : ErrKind),
      Config.runEdge.fixAll fix rts = .error k → k = .internal
  | [], k, h => by simp [Config.runEdge.fixAll] at h
  | rt :: rest, k, h => by
    simp only [Config.runEdge.fixAll] at h
    cases hfx : fix rt with
    | error k' =>
      simp only [hfx] at h
      cases h
      exact hfix _ _ hfx
    | ok a =>
      cases hfa : Config.runEdge.fixAll fix rest with
      | error k' =>
        simp only [hfx, hfa] at h
        cases h
        exact fixAll_error_internal fix hfix rest _ hfa
      | ok b => simp only [hfx, hfa] at h; cases h

/-- A `terminated` outcome of the wrapper is the `terminated` outcome of a vertex-oriented search on the
same schedule, handed on unchanged (so it names the limits that fired,
`terminated_names_fired_limits`): the wrapper never turns a limit hit into a route, a tree or
"no path", and has no limit of its own.  Which search — its inner search, from the origin edge's head —
is `edge_oriented_terminated_from_inner`. -/
theorem edge_oriented_terminated_from_search (c : Config α) {source : Nat} {target : Option Nat}
    {sched : List Nat} {ks : List TermKind}
    (h : c.runEdge source target sched = .error (.terminated ks)) :
    ∃ s t, c.runVertex s t sched = .error (.terminated ks) := by
  have hC := config_components_not_terminated ({ c with reverse := false } : Config α)
  unfold Config.runEdge at h
  simp only at h
  cases he : c.edges[source]? with
  | none => simp only [he] at h; cases h
  | some e1 =>
    simp only [he] at h
    cases target with
    | none =>
      simp only at h
      cases hr : c.runVertex e1.dst none sched with
      | error k => simp only [hr] at h; cases h; exact ⟨_, _, hr⟩
      | ok r' => simp only [hr] at h; cases h
    | some tgt =>
      simp only at h
      cases he2 : c.edges[tgt]? with
      | none => simp only [he2] at h; cases h
      | some e2 =>
        simp only [he2] at h
        by_cases hst : source = tgt
        · simp only [hst, if_true] at h; cases h
        · simp only [hst, if_false] at h
          by_cases hadj : e1.dst = e2.src
          · simp only [hadj, if_true] at h
            split at h
            · rename_i k hk
              cases h
              exact absurd hk (hC.trav source none (initialState c.feats) ks)
            · rename_i ac1 tc1 st1 _
              split at h
              · rename_i k hk
                cases h
                exact absurd hk (hC.trav tgt (some source) st1 ks)
              · cases h
          · simp only [hadj, if_false] at h
            cases hr : c.runVertex e1.dst (some e2.src) sched with
            | error k => simp only [hr] at h; cases h; exact ⟨_, _, hr⟩
            | ok r' =>
              simp only [hr] at h
              exfalso
              split at h
              · cases h
              · split at h
                · rename_i k hk
                  cases h
                  have hfix := fixAll_error_internal _ (fun rt k' hf => by
                    split at hf
                    · cases hf; rfl
                    · cases hf) _ _ hk
                  cases hfix
                · cases h

end

/-! ### The search ends by itself: schedule existence and termination without any limit

Every other search theorem speaks about a pop schedule that is given and accepted.  Here: such
schedules exist, and a search under the Dijkstra discipline ends after at most |V| expansions
whatever limit is or is not configured.  `Ended r` (`Proofs/SearchTermination.lean`): `r` is a result,
"no path", the explicit `terminated` (or the frequency-0 panic), or the error of a component model —
the ways the code ends; the model's other two outcomes are the replay errors `scheduleExhausted`
("accepted so far, the loop wants another pop") and `badSchedule`. -/

section
open SearchLimits SearchTermination
variable {α : Type} [Field α] [LinearOrder α] [IsStrictOrderedRing α] [Lit α] [LawfulLit α]


/-- `edge_oriented_terminated_from_search` with the inner search **named** instead of `∃ s t`: a
`terminated` outcome of the wrapper is the outcome of the search from the origin edge's head — without
destination, or to the destination edge's tail when the two edges are distinct and not adjacent (the
only arms that run a search) -/
theorem edge_oriented_terminated_from_inner (c : Config α) {source : Nat} {target : Option Nat}
    {sched : List Nat} {ks : List TermKind}
    (h : c.runEdge source target sched = .error (.terminated ks)) :
    ∃ e1, c.edges[source]? = some e1 ∧
      ((target = none ∧ c.runVertex e1.dst none sched = .error (.terminated ks)) ∨
       ∃ tgt e2, target = some tgt ∧ c.edges[tgt]? = some e2 ∧ source ≠ tgt ∧ e1.dst ≠ e2.src ∧
         c.runVertex e1.dst (some e2.src) sched = .error (.terminated ks)) := by
  have hC := config_components_not_terminated ({ c with reverse := false } : Config α)
  unfold Config.runEdge at h
  simp only at h
  cases he : c.edges[source]? with
  | none => simp only [he] at h; cases h
  | some e1 =>
    simp only [he] at h
    refine ⟨e1, rfl, ?_⟩
    cases target with
    | none =>
      simp only at h
      cases hr : c.runVertex e1.dst none sched with
      | error k => simp only [hr] at h; cases h; exact Or.inl ⟨rfl, rfl⟩
      | ok r' => simp only [hr] at h; cases h
    | some tgt =>
      simp only at h
      cases he2 : c.edges[tgt]? with
      | none => simp only [he2] at h; cases h
      | some e2 =>
        simp only [he2] at h
        by_cases hst : source = tgt
        · simp only [hst, if_true] at h; cases h
        · simp only [hst, if_false] at h
          by_cases hadj : e1.dst = e2.src
          · simp only [hadj, if_true] at h
            split at h
            · rename_i k hk
              cases h
              exact absurd hk (hC.trav source none (initialState c.feats) ks)
            · rename_i ac1 tc1 st1 _
              split at h
              · rename_i k hk
                cases h
                exact absurd hk (hC.trav tgt (some source) st1 ks)
              · cases h
          · simp only [hadj, if_false] at h
            cases hr : c.runVertex e1.dst (some e2.src) sched with
            | error k =>
              simp only [hr] at h; cases h
              exact Or.inr ⟨tgt, e2, rfl, he2, hst, hadj, hr⟩
            | ok r' =>
              simp only [hr] at h
              exfalso
              split at h
              · cases h
              · split at h
                · rename_i k hk
                  cases h
                  have hfix := fixAll_error_internal _ (fun rt k' hf => by
                    split at hf
                    · cases hf; rfl
                    · cases hf) _ _ hk
                  cases hfix
                · cases h

/-- PROGRESS.  At every loop head a run can reach — any configuration, weight factor, schedule so
far — a non-empty frontier has an entry of minimal priority: some pop is accepted, the search is
never stuck. -/
theorem search_never_stuck (c : Config α) {source : Nat} {target : Option Nat} {pre : List Nat}
    {f0 : α} {h : SState α} (hr : Reach c.inst source target pre (initState source f0) h)
    (hne : h.queue.isEmpty = false) : ∃ v, popOk h.queue v = true :=
  progress hr hne

/-- the outcome `scheduleExhausted` of the model means exactly: every scheduled pop was accepted and
completed a turn, and the loop is not finished (limit test passed, frontier not empty) -/
theorem exhausted_means_accepted_unfinished (c : Config α) {source : Nat} {target : Option Nat}
    (sched : List Nat) (s : SState α) :
    runLoop c.inst source target sched s = .error .scheduleExhausted ↔
      ∃ h, Reach c.inst source target sched s h ∧ c.term.test h.solSize h.iters = .ok () ∧
        h.queue.isEmpty = false :=
  exhausted_iff_reach (config_noSchedErr c) sched s

/-- with the time budget exhausted from iteration `i₀` on, no loop head beyond `nextCheck freq i₀` is
ever reached — by a run that returns or by one that does not -/
theorem reach_le_nextCheck {I : Inst α} {freq i₀ : Nat} (hf : 0 < freq)
    (hR : RuntimeLimit I freq i₀) {source : Nat} {target : Option Nat} {pre : List Nat}
    {s h : SState α} (hr : Reach I source target pre s h) (hs : s.iters ≤ nextCheck freq i₀) :
    h.iters ≤ nextCheck freq i₀ := by
  obtain ⟨h1, h2, _⟩ := nextCheck_spec hf i₀
  induction hr with
  | here s => exact hs
  | @turn v rest s0 s1 h' ht _ ih =>
    apply ih
    have hne : ¬ (s0.iters = nextCheck freq i₀) := by
      intro heq
      obtain ⟨k, hk⟩ := hR s0.solSize s0.iters (heq ▸ h1) (heq ▸ h2)
      rw [ht.term_ok] at hk; cases hk
    have := ht.counters.1
    omega

/-- **loop-level form of "an exhausted budget stops at the next scheduled check"**: the runtime
theorems above speak of returned results (`hrun : … = .ok s`); this one of the loop itself — every
accepted, unfinished schedule (`scheduleExhausted`) has at most `nextCheck freq i₀` pops, so no
schedule, whatever ties it breaks, carries the search past that check -/
theorem runtime_unfinished_schedule_within_next_check (c : Config α)
    {limitNs freq baseNs perNs i₀ : Nat}
    (hl : Leaf (.runtime limitNs freq baseNs perNs) c.term) (hf : 0 < freq)
    (hex : ∀ i, i₀ ≤ i → limitNs < baseNs + perNs * i) {source : Nat} {target : Option Nat}
    {f0 : α} {sched : List Nat}
    (h : runLoop c.inst source target sched (initState source f0) = .error .scheduleExhausted) :
    sched.length ≤ nextCheck freq i₀ := by
  obtain ⟨hd, hr, _, _⟩ := (exhausted_means_accepted_unfinished c sched _).1 h
  have := reach_le_nextCheck hf (runtimeLimit_of_leaf (I := c.inst) rfl hl hex) hr
    (by simp [initState])
  have hc := hr.counters.1
  simp [initState] at hc
  omega

/-- TERMINATION, Dijkstra (`weight_factor = 0`), no limit needed.  Any traversal, access (turn
delays), cost, frontier (turn restrictions) and termination model, forward or reverse, with or
without destination; adjacency consistent with the edge list, all vertex ids below `c.nV`.
(1) There is a schedule of at most `|V| + 1` pops on which the search ends the way the code ends.
(2) Every accepted, unfinished schedule — whatever tie-breaking produced it — has at most `|V|`
pops and extends to a schedule of at most `|V| + 1` pops on which the search ends.
(3) A returned result performed at most `|V|` expansions. -/
theorem dijkstra_search_terminates (c : Config α) (hadj : c.AdjConsistent) (hwf : c.wf = some 0)
    {source : Nat} (hsrc : source < c.nV) (hV : c.VerticesBelow c.nV) (target : Option Nat) :
    (∃ sched, sched.length ≤ c.nV + 1 ∧ Ended (c.runVertex source target sched)) ∧
    (∀ pre, c.runVertex source target pre = .error .scheduleExhausted →
      pre.length ≤ c.nV ∧ ∃ ext, (pre ++ ext).length ≤ c.nV + 1 ∧
        Ended (c.runVertex source target (pre ++ ext))) ∧
    ∀ sched r, c.runVertex source target sched = .ok r → r.iterations ≤ c.nV :=
  config_dijkstra_terminates c hadj hwf hsrc hV target

/-- the same for a search without destination, any weight factor (the loop then adds `Cost::ZERO`
as estimate) -/
theorem tree_search_terminates (c : Config α) (hadj : c.AdjConsistent)
    {source : Nat} (hsrc : source < c.nV) (hV : c.VerticesBelow c.nV) :
    (∃ sched, sched.length ≤ c.nV + 1 ∧ Ended (c.runVertex source none sched)) ∧
    (∀ pre, c.runVertex source none pre = .error .scheduleExhausted →
      pre.length ≤ c.nV ∧ ∃ ext, (pre ++ ext).length ≤ c.nV + 1 ∧
        Ended (c.runVertex source none (pre ++ ext))) ∧
    ∀ sched r, c.runVertex source none sched = .ok r → r.iterations ≤ c.nV :=
  config_tree_search_terminates c hadj hsrc hV

/-- the same for A\* whenever the estimate is a consistent function `H` of the vertex
(`SearchDiscipline.Heur`: along every accepted traversal it drops by at most the cost charged) -/
theorem consistent_astar_search_terminates (c : Config α) (hadj : c.AdjConsistent) {H : Nat → α}
    {source : Nat} (hsrc : source < c.nV) (hV : c.VerticesBelow c.nV) {target : Option Nat}
    (hH : SearchDiscipline.Heur c.inst target.isSome H) :
    (∃ sched, sched.length ≤ c.nV + 1 ∧ Ended (c.runVertex source target sched)) ∧
    (∀ pre, c.runVertex source target pre = .error .scheduleExhausted →
      pre.length ≤ c.nV ∧ ∃ ext, (pre ++ ext).length ≤ c.nV + 1 ∧
        Ended (c.runVertex source target (pre ++ ext))) ∧
    ∀ sched r, c.runVertex source target sched = .ok r → r.iterations ≤ c.nV :=
  config_terminates_of_heur c hadj hsrc hV hH

/-- … which holds of the configuration's own estimate under the premises of C02's
`estimate_admissible`: distance model on a metrically consistent great-circle table, weight factor
in `[0, 1]`.  `_partial`: restricted to **`Config.EdgeLocal`** configurations — consistent adjacency,
**no access model and no turn-restriction frontier model** — because only there is the estimate the
vertex function `hOf` and the cost charged the edge function `costOf` (with turn delays the charge
depends on the previous edge and consistency of the estimate is not a statement about edges).
Termination itself is not lost outside the restriction: `astar_search_terminates` (any models, any
estimate) covers every other configuration, with the exponential bound instead of `|V| + 1`. -/
theorem astar_distance_search_terminates_partial (c : Config α) (h : c.EdgeLocal) {du : DistanceUnit}
    {t : Nat} (M : c.DistanceMetric du t) {source : Nat} (hsrc : source < c.nV)
    (hV : c.VerticesBelow c.nV) :
    (∃ sched, sched.length ≤ c.nV + 1 ∧ Ended (c.runVertex source (some t) sched)) ∧
    (∀ pre, c.runVertex source (some t) pre = .error .scheduleExhausted →
      pre.length ≤ c.nV ∧ ∃ ext, (pre ++ ext).length ≤ c.nV + 1 ∧
        Ended (c.runVertex source (some t) (pre ++ ext))) ∧
    ∀ sched r, c.runVertex source (some t) sched = .ok r → r.iterations ≤ c.nV :=
  config_astar_distance_terminates c h M hsrc hV

/-- … and speed-table model (`Config.SpeedMetric`); `_partial` for the same reason: restricted to
`Config.EdgeLocal` (no access model, no turn-restriction model), the general `astar_search_terminates`
covers the rest -/
theorem astar_speed_search_terminates_partial (c : Config α) (h : c.EdgeLocal)
    {su : SpeedUnit} {du : DistanceUnit} {tu : TimeUnit} {ms : α} {table : List α} {t : Nat}
    (M : c.SpeedMetric su du tu ms table t) {source : Nat} (hsrc : source < c.nV)
    (hV : c.VerticesBelow c.nV) :
    (∃ sched, sched.length ≤ c.nV + 1 ∧ Ended (c.runVertex source (some t) sched)) ∧
    (∀ pre, c.runVertex source (some t) pre = .error .scheduleExhausted →
      pre.length ≤ c.nV ∧ ∃ ext, (pre ++ ext).length ≤ c.nV + 1 ∧
        Ended (c.runVertex source (some t) (pre ++ ext))) ∧
    ∀ sched r, c.runVertex source (some t) sched = .ok r → r.iterations ≤ c.nV :=
  config_astar_speed_terminates c h M hsrc hV

/-- TERMINATION, general A\* (any weight factor, any estimate — inconsistent, above 1 — so vertices may
be re-opened; any traversal, access, cost, frontier and termination model): the search still ends by
itself, because every charged cost is strictly positive (C07).  `W = walks c.inst source c.nV` is the
finite list of walks of fewer than `|V|` edges from the origin along the adjacency lists; every label
the loop writes is the replayed cost of a vertex-simple one of them and a label only improves, so:
(1) some schedule of at most `|W| + 2` pops ends the way the code ends; (2) every accepted, unfinished
schedule has at most `|W| + 1` pops and extends to one of at most `|W| + 2` pops that ends; (3) a
returned result performed at most `|W| + 1` expansions; (4) `|W| ≤ Σ_{k<|V|} D^k` for a degree bound
`D`.  This bound is exponential in `|V|`: it proves termination, it does not bound the work in any
useful way — for such searches the configured iteration limit (`iterations_le_limit`) is the only
practical bound, and a search under the Dijkstra discipline needs at most `|V|` expansions
(`dijkstra_search_terminates`). -/
theorem astar_search_terminates (c : Config α) (hadj : c.AdjConsistent)
    {source : Nat} (hsrc : source < c.nV) (hV : c.VerticesBelow c.nV) (target : Option Nat) :
    (∃ sched, sched.length ≤ (walks c.inst source c.nV).length + 2 ∧
      Ended (c.runVertex source target sched)) ∧
    (∀ pre, c.runVertex source target pre = .error .scheduleExhausted →
      pre.length ≤ (walks c.inst source c.nV).length + 1 ∧
      ∃ ext, (pre ++ ext).length ≤ (walks c.inst source c.nV).length + 2 ∧
        Ended (c.runVertex source target (pre ++ ext))) ∧
    (∀ sched r, c.runVertex source target sched = .ok r →
      r.iterations ≤ (walks c.inst source c.nV).length + 1) ∧
    ∀ D, (∀ v, (c.inst.incident v).length ≤ D) →
      (walks c.inst source c.nV).length ≤ ((List.range c.nV).map (fun k => D ^ k)).sum := by
  obtain ⟨h1, h2, h3⟩ := config_terminates_general c hadj hsrc hV target
  exact ⟨h1, h2, h3, fun D hD => walks_length_le hD source c.nV⟩

end

/-! Non-vacuity: `exC` (five vertices, Dijkstra, a cycle, self loops, an isolated vertex) meets the
premises; the accepted schedule `[0, 1, 2, 3]` of its run to vertex 3 has 4 ≤ 5 + 1 pops, and the
unfinished schedule `[0, 1]` is of the kind clause (2) extends. -/
section
open ConfigUniform.Example SearchTermination

example : exC.VerticesBelow exC.nV := by decide

example : (∃ sched, sched.length ≤ 6 ∧ Ended (exC.runVertex 0 (some 3) sched)) ∧
    (∀ pre, exC.runVertex 0 (some 3) pre = .error .scheduleExhausted →
      pre.length ≤ 5 ∧ ∃ ext, (pre ++ ext).length ≤ 6 ∧ Ended (exC.runVertex 0 (some 3) (pre ++ ext))) ∧
    ∀ sched r, exC.runVertex 0 (some 3) sched = .ok r → r.iterations ≤ 5 :=
  dijkstra_search_terminates exC exC_edgeLocal.adj rfl (by decide) (by decide) (some 3)

example : ConfigUniform.Example.errOf (exC.runVertex 0 (some 3) [0, 1]) = some .scheduleExhausted := by
  decide +kernel

/-- the general theorem on `exA` (weight factor one, a non-zero estimate) -/
example : ∃ sched, Ended (exA.runVertex 0 (some 3) sched) :=
  let ⟨⟨sched, _, h⟩, _⟩ := astar_search_terminates exA exA_edgeLocal.adj (source := 0) (by decide)
    (by decide) (some 3)
  ⟨sched, h⟩

/-- `exC` under a runtime limit: 1000 ns, checked every second iteration, 600 ns per iteration -/
def exRt : Config ℚ := { exC with term := .runtime 1000 2 0 600 }

def loopErrOf (r : Except ErrKind (SState ℚ)) : Option ErrKind :=
  match r with
  | .ok _ => none
  | .error k => some k

/-- `runtime_unfinished_schedule_within_next_check` on `exRt`: the budget is exhausted from iteration 2
on, the next check is at iteration 2, an accepted unfinished schedule exists (`[0]`) and none has more
than 2 pops -/
example : (∃ sched, sched ≠ [] ∧
      runLoop exRt.inst 0 (some 3) sched (initState 0 0) = .error .scheduleExhausted) ∧
    ∀ sched, runLoop exRt.inst 0 (some 3) sched (initState 0 0) = .error .scheduleExhausted →
      sched.length ≤ 2 := by
  refine ⟨⟨[0], by simp, ?_⟩, ?_⟩
  · have h : loopErrOf (runLoop exRt.inst 0 (some 3) [0] (initState 0 0)) =
        some .scheduleExhausted := by decide +kernel
    cases hr : runLoop exRt.inst 0 (some 3) [0] (initState 0 0) with
    | ok s => rw [hr] at h; simp [loopErrOf] at h
    | error k => rw [hr] at h; simp only [loopErrOf, Option.some.injEq] at h; rw [h]
  · intro sched h
    have := runtime_unfinished_schedule_within_next_check exRt (i₀ := 2)
      (SearchLimits.Leaf.runtime 1000 2 0 600) (by decide) (by intro i hi; omega) h
    simpa [SearchLimits.nextCheck] using this

/-- `edge_oriented_terminated_from_inner` on `exC` under iterations limit 0, from edge 0 (0→1) to edge 2
(2→3): the wrapper's `terminated [iterations]` is that of the search from vertex 1 to vertex 2 -/
example : ∃ e1 e2, ({ exC with term := .iters 0 } : Config ℚ).edges[0]? = some e1 ∧
    ({ exC with term := .iters 0 } : Config ℚ).edges[2]? = some e2 ∧
    ({ exC with term := .iters 0 } : Config ℚ).runVertex e1.dst (some e2.src) [] =
      .error (.terminated [.iterations]) := by
  have h : errOf (({ exC with term := .iters 0 } : Config ℚ).runEdge 0 (some 2) []) =
      some (.terminated [.iterations]) := by decide +kernel
  cases hr : ({ exC with term := .iters 0 } : Config ℚ).runEdge 0 (some 2) [] with
  | ok r => rw [hr] at h; simp [errOf] at h
  | error k =>
    rw [hr] at h
    simp only [errOf, Option.some.injEq] at h
    subst h
    obtain ⟨e1, he1, ⟨hn, _⟩ | ⟨tgt, e2, ht, he2, _, _, hrun⟩⟩ :=
      edge_oriented_terminated_from_inner _ hr
    · cases hn
    · cases ht
      exact ⟨e1, e2, he1, he2, hrun⟩

/-- the two `_partial` theorems on `exA` (distance model) and `exSA` (speed-table model): edge-local
configurations with metrically consistent tables -/
example : ∃ sched, sched.length ≤ exA.nV + 1 ∧ Ended (exA.runVertex 0 (some 3) sched) :=
  (astar_distance_search_terminates_partial exA exA_edgeLocal exA_metric (source := 0) (by decide)
    (by decide)).1

example : ∃ sched, sched.length ≤ exSA.nV + 1 ∧ Ended (exSA.runVertex 0 (some 3) sched) :=
  (astar_speed_search_terminates_partial exSA exSA_edgeLocal exSA_metric (source := 0) (by decide)
    (by decide)).1

end

/-! Non-vacuity of the size clause and of the edge-oriented section, on `exC` (degree at most 3):
under a size limit of 1 the run to vertex 3 is stopped with `terminated [size]` after the second
expansion left a tree of 3 = 1 + 2 entries; the edge-oriented query from edge 0 to edge 4 under
`iterations` limit 100 reports 2 + 2 iterations; the adjacent query from edge 0 to edge 1 returns
with `iterations = 1` even under `iterations` limit 0. -/
section
open ConfigUniform.Example SearchTermination

def iterationsOf (r : Except ErrKind (AlgResult ℚ)) : Option Nat :=
  match r with
  | .ok res => some res.iterations
  | .error _ => none

example : ∀ v, (exC.inst.incident v).length ≤ 3 := by
  intro v
  match v with
  | 0 | 1 | 2 | 3 => decide
  | n + 4 => simp [Config.inst, exC]

example : ConfigUniform.Example.errOf (({ exC with term := .size 1 } : Config ℚ).runVertex 0 (some 3) [0, 1, 2, 3])
    = some (.terminated [.size]) := by decide +kernel
example : iterationsOf (exC.runEdge 0 (some 4) [1, 2, 3]) = some 4 := by decide +kernel
example : iterationsOf (({ exC with term := .iters 0 } : Config ℚ).runEdge 0 (some 1) []) = some 1 := by
  decide +kernel
example : ConfigUniform.Example.errOf (({ exC with term := .iters 1 } : Config ℚ).runEdge 0 (some 4) [1, 2, 3])
    = some (.terminated [.iterations]) := by decide +kernel

end

/-! ### The limits in force are the ones the configuration states

`TerminationModelBuilder::build` turns the `[termination]` section into the model the loop consults.
A limit that the builder silently changed would bound nothing: a negative limit cast to an
unsigned integer is a limit near 2^64, hours whose seconds overflow wrap to a short budget, and a
check frequency of zero makes `iteration % frequency` panic in every search.  All three are refused;
everything the builder accepts is the configured number. -/

section
open Build SearchLimits

/-- a model the builder returns never makes a search panic on its check frequency, at any counters -/
theorem built_model_never_divides_by_zero (j : Json) (t : TermM) (h : termBuild j = .ok t) (sz it : Nat) :
    t.test sz it ≠ .error (.panic "termination-frequency-zero") := by
  intro hp
  exact termOfJson_no_zeroFreq _ j t h ((test_panic_iff t sz it).1 hp)

/-- the recursion over nested `combined` sections always has fuel left: the answer is a model or one
of the configuration errors -/
theorem builder_total (j : Json) : termBuild j ≠ .error .fuel :=
  termOfJson_fuel _ j (Nat.le_succ _)

/-- a count (`limit` of iterations / solution_size, `frequency`) is accepted exactly when the field
holds an integer `0 ≤ z < 2^63`, and is then that integer; a negative one is refused -/
theorem count_read_exactly (j : Json) (key : String) :
    (∀ n, getCount j key = .ok n ↔ ∃ v z, j.get? key = some v ∧ i64OfJson v = some z ∧ 0 ≤ z ∧ n = z.toNat) ∧
    (∀ v z, j.get? key = some v → i64OfJson v = some z → z < 0 → getCount j key = .error .value) :=
  ⟨getCount_ok_iff j key, getCount_negative j key⟩

/-- section by section (`type` is matched case-insensitively): the three limits hold the configured
numbers, a runtime limit the parsed duration in whole seconds and a frequency of at least 1, a
`combined` section the models of its sub-sections in order; an unknown `type`, a missing one and one
that is not a string are errors -/
theorem builder_sections (fuel : Nat) (j : Json) :
    (∀ e, getString j "type" = .error e → termOfJson (fuel + 1) j = .error e ∧ (e = .missing ∨ e = .type)) ∧
    (∀ ty, getString j "type" = .ok ty →
      (lowerChars ty = "iterations".toList → termOfJson (fuel + 1) j =
        match getCount j "limit" with | .error e => .error e | .ok n => .ok (.iters n)) ∧
      (lowerChars ty = "solution_size".toList → termOfJson (fuel + 1) j =
        match getCount j "limit" with | .error e => .error e | .ok n => .ok (.size n)) ∧
      (lowerChars ty = "combined".toList → termOfJson (fuel + 1) j =
        match getArray j "models" with
        | .error e => .error e
        | .ok ms => match termsOfJson fuel ms with | .error e => .error e | .ok ts => .ok (.combined ts)) ∧
      (lowerChars ty = "query_runtime".toList → ∀ t, termOfJson (fuel + 1) j = .ok t →
        ∃ l s secs f, j.get? "limit" = some l ∧ l.asStr? = some s ∧ parseDuration s = some secs ∧
          getCount j "frequency" = .ok f ∧ 1 ≤ f ∧ t = .runtime (secs * 1000000000) f 0 0) ∧
      (lowerChars ty ≠ "iterations".toList → lowerChars ty ≠ "solution_size".toList → lowerChars ty ≠ "combined".toList →
        lowerChars ty ≠ "query_runtime".toList → termOfJson (fuel + 1) j = .error .unknown)) := by
  constructor
  · intro e he
    refine ⟨by simp [termOfJson, he], ?_⟩
    unfold getString at he
    split at he
    · injection he with he; exact Or.inl he.symm
    · split at he
      · cases he
      · injection he with he; exact Or.inr he.symm
  · intro ty hty
    refine ⟨fun h => ?_, fun h => ?_, fun h => ?_, fun h t ht => ?_, fun h1 h2 h3 h4 => ?_⟩
    · simp only [termOfJson, hty, h]
      rw [if_neg (by decide), if_pos (by decide)]
      cases getCount j "limit" <;> rfl
    · simp only [termOfJson, hty, h]
      rw [if_neg (by decide), if_neg (by decide), if_pos (by decide)]
      cases getCount j "limit" <;> rfl
    · simp only [termOfJson, hty, h]
      rw [if_neg (by decide), if_neg (by decide), if_neg (by decide), if_pos (by decide)]
      cases getArray j "models" with
      | error e => rfl
      | ok ms => simp only [termsOfJson]; cases allOk (termOfJson fuel) ms <;> rfl
    · simp only [termOfJson, hty, h] at ht
      rw [if_pos (by decide)] at ht
      split at ht
      · cases ht
      · rename_i l hl
        split at ht
        · cases ht
        · rename_i s hs
          split at ht
          · cases ht
          · rename_i secs hsecs
            split at ht
            · cases ht
            · rename_i f hf
              split at ht
              · cases ht
              · rename_i hf0
                injection ht with ht
                exact ⟨l, s, secs, f, hl, hs, hsecs, hf, Nat.one_le_iff_ne_zero.2 hf0, ht.symm⟩
    · simp only [termOfJson, hty, beq_iff_eq]
      rw [if_neg h4, if_neg h1, if_neg h2, if_neg h3]

/-- a duration is `h:mm:ss` with two-digit minutes and seconds, read as `h·3600 + m·60 + s` seconds —
the exact number, which must fit `u64`; it is never a wrapped product -/
theorem duration_read_exactly (s : String) (secs : Nat) (h : parseDuration s = some secs) :
    secs < 2 ^ 64 ∧ ∃ hs ms ss hv mv sv, splitOnChar ':' s.toList = [hs, ms, ss] ∧
      ms.length = 2 ∧ ss.length = 2 ∧ natOfDigits hs = some hv ∧ natOfDigits ms = some mv ∧
      natOfDigits ss = some sv ∧ secs = hv * 3600 + (mv * 60 + sv) := by
  unfold parseDuration at h
  split at h
  · rename_i hs ms ss hsplit
    split at h
    · rename_i hlen
      split at h
      · rename_i hv mv sv h1 h2 h3
        split at h
        · rename_i hb
          injection h with h
          subst h
          exact ⟨hb.2, hs, ms, ss, hv, mv, sv, hsplit, hlen.1, hlen.2, h1, h2, h3, rfl⟩
        · cases h
      · cases h
    · cases h
  · cases h

end

/-! Non-vacuity (and the witnesses of the repaired builder): sections as a user writes them. -/
def cfgIter (z : String) : Json := .obj [("type", .str "iterations"), ("limit", .num z 0)]
def cfgRuntime (limit : String) (freq : String) : Json :=
  .obj [("type", .str "QUERY_RUNTIME"), ("limit", .str limit), ("frequency", .num freq 0)]

def built (j : Json) : Option (List Nat) := (Build.termBuild j).toOption.map Build.termCode
def refused (j : Json) : Option Build.BErr := Build.errOf (Build.termBuild j)

example : built (cfgIter "25") = some (Build.termCode (.iters 25)) := by decide
example : refused (cfgIter "-1") = some .value := by decide
example : refused (.obj [("type", .str "solution_size"), ("limit", .num "-1" 0)]) = some .value := by decide
example : built (cfgRuntime "1:01:01" "2") = some (Build.termCode (.runtime 3661000000000 2 0 0)) := by decide +kernel
example : refused (cfgRuntime "0:00:05" "0") = some .value := by decide
example : refused (cfgRuntime "0:00:05" "-1") = some .value := by decide
example : refused (cfgRuntime "5124095576030432:00:00" "1") = some .duration := by decide +kernel
example : refused (cfgRuntime "1:2:3" "1") = some .duration := by decide
example : built (.obj [("type", .str "combined"), ("models", .arr [cfgIter "3",
    .obj [("type", .str "combined"), ("models", .arr [cfgRuntime "0:00:10" "4"])]])]) =
    some (Build.termCode (.combined [.iters 3, .combined [.runtime 10000000000 4 0 0]])) := by decide +kernel
example : refused (.obj [("type", .str "iteration"), ("limit", .num "3" 0)]) = some .unknown := by decide
example : refused (.obj [("limit", .num "3" 0)]) = some .missing := by decide

/-! ### Non-vacuity -/
example : (TermM.iters 3).test 0 2 = .ok () := by decide
example : (TermM.iters 3).test 0 3 = .error (.terminated [.iterations]) := by decide
example : (TermM.combined [.iters 3, .size 1]).test 2 3 = .error (.terminated [.iterations, .size]) := by decide
example : (TermM.runtime 1000 2 0 600).test 0 2 = .error (.terminated [.runtime]) := by decide
example : (TermM.runtime 1000 2 0 600).test 0 3 = .ok () := by decide

end C10
end Compass

namespace Compass
namespace C10
open Src

/-! ### Source decision ties

The relational operators at the named comparison sites of the Rust source are re-extracted on every run
by `tools/gen_model.py` into `Compass/Gen/Decisions.lean` (`Src.<site> : Src.Rel`).  Each theorem below
says that the hand-written model decides at that site by exactly the operator the source has there
(`Rel.nat` / `Rel.int` / `Rel.num` interpret the extracted operator; an unrecognised line is `none`).  A
source change that turns `<` into `<=`, `>` into `>=`, … at a site changes the generated constant and this
proof obligation stops checking, whether or not a generated case lands on the tie. -/

theorem src_term_solution_size (limit sz it : Nat) :
    (TermM.size limit).fires sz it = term_solution_size.nat sz limit := by
  simp [TermM.fires, term_solution_size, Rel.nat]

/-- (`it + 1` in `Nat`: no wrap at `u64::MAX`, unreachable from `run_a_star`) -/
theorem src_term_iterations (limit sz it : Nat) :
    (TermM.iters limit).fires sz it = term_iterations.nat (it + 1) limit := by
  simp [TermM.fires, term_iterations, Rel.nat]

theorem src_term_runtime (limitNs freq baseNs perNs sz it : Nat) (hf : freq ≠ 0) :
    (TermM.runtime limitNs freq baseNs perNs).fires sz it =
      (term_frequency.nat (it % freq) 0).bind fun due =>
        if due then term_runtime.nat (baseNs + perNs * it) limitNs else some false := by
  simp [TermM.fires, term_frequency, term_runtime, Rel.nat, hf]

/-- shared by every search property: the label test of `run_a_star`'s relaxation (`improves`) is the
source's `tentative_gscore < existing_gscore`; with `<=` an equal-cost arrival re-labels an expanded vertex -/
theorem src_relax_improves {α : Type} [Field α] [LinearOrder α] [IsStrictOrderedRing α] [Lit α] [LawfulLit α] (tent ex : α) :
    some (improves tent (some ex)) = relax_improves.num tent ex := by
  simp [improves, relax_improves, Rel.num]

/-! ### Generated function bodies

`tools/gen_fns.py` re-translates the body of the Rust function on every run into `Compass/Gen/FnsC10.lean`
(`Gen.<Type>_<fn>`; conventions in the header of the tool).  Each `gen_*_eq` theorem below says that the
generated definition *is* the hand-written model function the property theorems are about.  A source
change to the function changes the generated definition and the proof stops checking (a body the
translator no longer recognises is not emitted: the theorem no longer elaborates). -/

mutual
/-- What is regenerated and what is substituted: the elapsed time of the runtime arm is NOT translated — the
translator replaces `Instant::now().duration_since(*start_time)` (and the hook's `verif_clock::elapsed`) by the
model's virtual clock `baseNs + perNs * iteration` (`externs` in tools/gen_fns.py), drops `start_time` and adds the
model-only fields; of that arm only `iteration % frequency == 0` (with the `frequency = 0` guard) and
`dur > *limit` come from the source.  Counters are `Nat`: `iteration + 1` does not wrap at `u64::MAX` as the
release build does (unreachable: `run_a_star` counts its own iterations from 0). -/
theorem gen_terminate_search_eq (m : TermM) (sz it : Nat) :
    Gen.TerminationModel_terminate_search m sz it = m.fires sz it := by
  cases m with
  | runtime limitNs freq baseNs perNs => simp [Gen.TerminationModel_terminate_search, TermM.fires]
  | size limit => simp [Gen.TerminationModel_terminate_search, TermM.fires]
  | iters limit => simp [Gen.TerminationModel_terminate_search, TermM.fires]
  | combined ms =>
    simp only [Gen.TerminationModel_terminate_search, TermM.fires]
    exact gen_terminate_search_fold_eq ms sz it false
theorem gen_terminate_search_fold_eq (ms : List TermM) (sz it : Nat) (acc : Bool) :
    Gen.TerminationModel_terminate_search_fold1 sz it ms acc = TermM.fires.firesList ms sz it acc := by
  cases ms with
  | nil => simp [Gen.TerminationModel_terminate_search_fold1, TermM.fires.firesList]
  | cons m ms =>
    simp only [Gen.TerminationModel_terminate_search_fold1, TermM.fires.firesList]
    rw [gen_terminate_search_eq m sz it]
    cases h : m.fires sz it with
    | none => rfl
    | some r => exact gen_terminate_search_fold_eq ms sz it (acc || r)
end

end C10
end Compass
