/-
C02 — the returned route has least total cost under the query's own objective.

Setting: validity is edge-local, the cost of an edge is a strictly positive function `c e` of the
edge alone (no access model; see the harness for which configurations meet this), the heuristic is a
non-negative function of the vertex.  Walks are in the search direction, so the statements cover
forward and reverse search alike.  Every statement is for every instance, origin, destination and
every schedule the queue may take (ties, re-opened vertices).  A* needs admissibility (`hv v ≤` cost
of every walk from `v` to the target) — on metrically consistent networks with weight factor in
`[0, 1]` that is what the great-circle estimate provides; Dijkstra (`h = 0`) needs nothing.

The premises are taken only on the calls the search really makes and only of calls that answer
(`UniformOn` / `UniformCostOn`, relative to an invariant `S` of the (last edge, state) pairs; a call
that fails fails the run, and every theorem is about a run that returned).  The earlier form
`SearchOpt.Uniform` / `UniformCost` quantified over *every* state vector and previous edge and is met
by no concrete configuration (`valid` answers `network` on an edge id beyond the edge list); the
theorems stated with it were vacuous on configurations and have been removed from this file (the
lemmas remain in `Proofs/SearchOpt.lean`, where toy instances meet them).  The `config_…` theorems
discharge the `_on` premises for every *edge-local* configuration (`Config.EdgeLocal`: no access
model, no turn restrictions, consistent adjacency) — with the distance or the speed-table traversal
model, any weights, rates (offsets too), surcharges, aggregation and feature units: there the cost of
an edge is `Config.costOf c e`, the floor applied to the C07 formula of the edge's own state change.
Admissibility of the configuration's own estimate `Config.hOf` is a premise of
`config_astar_route_least_cost` and is proved (`config_distance_estimate_admissible`,
`config_speed_estimate_admissible`) on metrically consistent great-circle tables: sum aggregation,
rates from the property's list (`zero / raw / factor ≥ 0 / combined`, no offset), weights, surcharges
and lengths ≥ 0, `0 ≤ weight_factor ≤ 1`, `max_speed ≥` every table speed, and — speed-table model —
every table speed strictly positive.

Premises that the property text does not state, named here and in the manifest:
* `0 ≤ weight_factor` (the text says "at most 1"): every A* theorem assumes `0 ≤ c.wfOf`; a negative
  factor makes the estimate negative and is outside the theorems.
* speed-table model, A*: `0 < table speed` on every edge (`Config.SpeedMetric.edge`).  The engine the
  builder returns guarantees only `0 ≤ speed` (`speed_engine_estimate_premise`); an edge whose table
  speed is zero can never be traversed (`zero_speed_edge_never_traversed`: `create_time` refuses it,
  the search fails with a traversal error when it relaxes such an edge, it is not skipped), so a search
  that returns used positive speeds only (`returned_search_used_positive_speeds`) — but the
  admissibility proof compares with *all* walks, hence the premise on every edge.
* a route being returned at all: see `config_dijkstra_least_cost_route_returned` (schedule existence
  and termination, `Proofs/SearchTermination.lean`).
* **outside every theorem** (ordered fields have no +∞, NaN, overflow or underflow), tied by the
  correspondence run only — the oracles are silent on such cases: a tentative cost of +∞ (an
  overflowing sum) or NaN never improves on a *missing* label: the code tests
  `tentative < Cost::INFINITY`, the model `improves tent none = Lit.belowInf tent`, constantly true in
  an ordered field (`LawfulLit.belowInf_eq`, so no statement here changed) and the IEEE test at
  `Float`.  One generated case in six is pushed where the plain generator never goes (lengths,
  speeds, weights, rates, delays, initial values, weight factors, vehicle limits of 0, −0, negative,
  1e308, ±∞, NaN, subnormal; limits at the ends of `u64` / `usize`);
* **modelled rather than verified — the NaN-free domain**: the code orders `Cost`, `Distance`,
  `Weight`, `Speed` by `OrderedFloat`'s total order (NaN the greatest number, NaN = NaN), the model by
  IEEE `<` / `≤`.  They differ only on NaN operands (`push_increase` against a NaN priority; a NaN
  vehicle-restriction limit; `get_max_speed` of a table with a NaN), which no file or JSON document
  can supply — the readers refuse NaN — and which the extreme-value stream reaches only through
  values constructed in code, where model and code agreed on every generated case.
-/
import Compass.Gen.Decisions
import Compass.Proofs.Num
import Compass.Model.Search
import Compass.Model.Build
import Compass.Proofs.SearchOpt
import Compass.Proofs.SearchRoute
import Compass.Proofs.ConfigUniform
import Compass.Proofs.ConfigAdmissible
import Compass.Proofs.Build
import Compass.Proofs.SearchTermination
import Compass.Model.CostIO

namespace Compass
namespace C02

open SearchOpt

variable {α : Type} [Field α] [LinearOrder α] [IsStrictOrderedRing α] [Lit α] [LawfulLit α]

/-- A consistent heuristic (`hv v ≤ c e + hv (head e)` on every valid edge, `hv t ≤ 0`) is admissible;
a pointwise smaller heuristic of an admissible one (weight factor ≤ 1) is admissible. -/
theorem consistent_is_admissible {I : Inst α} {ok : Nat → Bool} {c hv : Nat → α} {t : Nat}
    (hcons : ∀ v, ∀ e ∈ I.incident v, ok e = true → hv v ≤ c e + hv (I.keyV e)) (ht : hv t ≤ 0) :
    Admissible I ok c hv t :=
  admissible_of_consistent hcons ht

theorem smaller_heuristic_admissible {I : Inst α} {ok : Nat → Bool} {c hv hv' : Nat → α} {t : Nat}
    (h : Admissible I ok c hv t) (hle : ∀ v, hv' v ≤ hv v) : Admissible I ok c hv' t :=
  h.mono hle

/-! ### The theorems, premises restricted to the calls the search makes (`UniformOn`) -/

/-- A*, label: premises only on the (last edge, state) pairs satisfying the invariant `S` -/
theorem astar_label_least_cost_on {I : Inst α} {S : Option Nat → List α → Prop} {ok : Nat → Bool}
    {c hv : Nat → α} (U : UniformOn I S ok c hv) {source t : Nat} (hts : t ≠ source)
    (hadm : Admissible I ok c hv t) {sched : List Nat} {s : SState α}
    (hrun : runAStar I source (some t) sched = .ok s) :
    ∃ d, s.g t = some d ∧ (∃ es, Walk I ok source es t ∧ cost c es = d) ∧
      ∀ es, Walk I ok source es t → d ≤ cost c es :=
  label_optimal_on U hts hadm hrun

/-- A*, route (`WF I`: every answered traversal charges a positive cost) -/
theorem astar_route_least_cost_on {I : Inst α} {S : Option Nat → List α → Prop} {ok : Nat → Bool}
    {c hv : Nat → α} (hI : SearchTree.WF I) (U : UniformOn I S ok c hv) {source t : Nat}
    (hts : t ≠ source) (hadm : Admissible I ok c hv t) {sched : List Nat} {res : SearchResult α}
    (h : runVertexOriented I source (some t) sched = .ok res) :
    ∃ route d, res.route = some route ∧ route ≠ [] ∧
      Walk I ok source (route.map (·.edge)) t ∧
      (route.map (fun b => b.access + b.traversal)).sum = cost c (route.map (·.edge)) ∧
      res.final.g t = some d ∧
      (route.map (fun b => b.access + b.traversal)).sum = d ∧
      ∀ es, Walk I ok source es t → (route.map (fun b => b.access + b.traversal)).sum ≤ cost c es :=
  SearchRoute.route_optimal_on hI U hts hadm h

/-- Dijkstra, route: whenever the heuristic answers, it answers 0 -/
theorem dijkstra_route_least_cost_on {I : Inst α} {S : Option Nat → List α → Prop}
    {ok : Nat → Bool} {c : Nat → α} (hI : SearchTree.WF I) (U : UniformCostOn I S ok c)
    (h0 : VertexHOn I S (fun _ => 0)) {source t : Nat} (hts : t ≠ source)
    {sched : List Nat} {res : SearchResult α}
    (h : runVertexOriented I source (some t) sched = .ok res) :
    ∃ route d, res.route = some route ∧ route ≠ [] ∧
      Walk I ok source (route.map (·.edge)) t ∧
      (route.map (fun b => b.access + b.traversal)).sum = cost c (route.map (·.edge)) ∧
      res.final.g t = some d ∧
      (route.map (fun b => b.access + b.traversal)).sum = d ∧
      ∀ es, Walk I ok source es t → (route.map (fun b => b.access + b.traversal)).sum ≤ cost c es :=
  SearchRoute.dijkstra_route_optimal_on hI U h0 hts h

/-- Dijkstra, label: the destination's label is the minimum total cost over all valid
origin–destination walks -/
theorem dijkstra_label_least_cost_on {I : Inst α} {S : Option Nat → List α → Prop}
    {ok : Nat → Bool} {c : Nat → α} (U : UniformCostOn I S ok c)
    (h0 : VertexHOn I S (fun _ => 0)) {source t : Nat} (hts : t ≠ source)
    {sched : List Nat} {s : SState α} (hrun : runAStar I source (some t) sched = .ok s) :
    ∃ d, s.g t = some d ∧ (∃ es, Walk I ok source es t ∧ cost c es = d) ∧
      ∀ es, Walk I ok source es t → d ≤ cost c es :=
  dijkstra_label_optimal_on U h0 hts hrun

/-- A destination-less search labels every reached vertex with its least cost. -/
theorem tree_labels_least_cost_on {I : Inst α} {S : Option Nat → List α → Prop} {ok : Nat → Bool}
    {c : Nat → α} (U : UniformCostOn I S ok c) {source : Nat} {sched : List Nat} {s : SState α}
    (hrun : runAStar I source none sched = .ok s) (v : Nat) (x : α) (hx : s.g v = some x) :
    (∃ es, Walk I ok source es v ∧ cost c es = x) ∧ ∀ es, Walk I ok source es v → x ≤ cost c es :=
  tree_labels_optimal_on U hrun v x hx

/-- Consequently Dijkstra and A* report the same route cost, whatever schedules they take:
`{ I with h := 0 }` is the same instance run as Dijkstra. -/
theorem astar_route_cost_eq_dijkstra_on {I : Inst α} {S : Option Nat → List α → Prop}
    {ok : Nat → Bool} {c hv : Nat → α} (hI : SearchTree.WF I) (U : UniformOn I S ok c hv)
    {source t : Nat} (hts : t ≠ source) (hadm : Admissible I ok c hv t)
    {sched sched' : List Nat} {res res' : SearchResult α}
    (h : runVertexOriented I source (some t) sched = .ok res)
    (h' : runVertexOriented { I with h := fun _ _ => .ok 0 } source (some t) sched' = .ok res') :
    ∃ route route', res.route = some route ∧ res'.route = some route' ∧
      (route.map (fun b => b.access + b.traversal)).sum
        = (route'.map (fun b => b.access + b.traversal)).sum := by
  obtain ⟨route, _, hr, _, hw, hsum, _, _, hmin⟩ := SearchRoute.route_optimal_on hI U hts hadm h
  have hI' : SearchTree.WF ({ I with h := fun _ _ => .ok 0 } : Inst α) :=
    ⟨hI.incident_term, hI.cost_pos⟩
  have U' : UniformCostOn ({ I with h := fun _ _ => .ok 0 } : Inst α) S ok c :=
    ⟨U.incident_term, U.init_ok, U.valid_eq, U.trav_eq, U.cost_pos⟩
  have h0 : VertexHOn ({ I with h := fun _ _ => .ok 0 } : Inst α) S (fun _ => 0) := by
    intro v le st x _ hx
    injection hx with hx
    exact hx.symm
  obtain ⟨route', _, hr', _, hw', hsum', _, _, hmin'⟩ :=
    SearchRoute.dijkstra_route_optimal_on hI' U' h0 hts h'
  have hwc := Walk.congr (I := I) (I' := { I with h := fun _ _ => .ok 0 }) (ok := ok) rfl rfl rfl
  refine ⟨route, route', hr, hr', le_antisymm ?_ ?_⟩
  · rw [hsum']
    exact hmin _ ((hwc _ _ _).1 hw')
  · rw [hsum]
    exact hmin' _ ((hwc _ _ _).2 hw)

/-! ### Concrete configurations -/

/-- `StateIndep`, proved: in an edge-local configuration, whenever the frontier models answer the
verdict is `okOf c e`, and whenever `forward_traversal` / `reverse_traversal` answers — from any
state, after any previous edge — the record's `access + traversal` is `costOf c e > 0` -/
theorem config_edge_cost_uniform (c : Config α) (h : c.EdgeLocal) :
    UniformCostOn c.inst (fun _ _ => True) c.okOf c.costOf :=
  c.uniformCostOn h

/-- what `costOf` is under sum aggregation: the floor applied to
`Σᵢ wᵢ·rateᵢ(Δᵢ e) + Σᵢ wᵢ·lookupᵢ(e)`, `Δ e` the state change of the edge
(`Config.edgeDelta_distance`, `Config.edgeDelta_speed`) -/
theorem config_edge_cost_formula (c : Config α) (hs : c.cost.agg = .sum) (e : Nat) :
    c.costOf e = enforceStrictlyPositive
      ((c.cost.indices.map fun i => c.cost.wt i * (c.cost.vr i).mapValue (c.edgeDelta e i)).sum
        + (c.cost.indices.map fun i => c.cost.wt i * (c.cost.nr i).traversalCost e).sum) :=
  c.costOf_sum hs e

/-- whenever `estimate_traversal_cost` answers it answers `hOf c v`, whatever the state -/
theorem config_estimate_vertex_function (c : Config α) (v : Nat) (st : List α) (x : α)
    (h : estimate c v st = .ok x) : x = c.hOf v :=
  estimate_eq c v st x h

/-- **Dijkstra on a concrete configuration** (`weight_factor = 0`): every edge-local configuration,
every origin, destination and schedule — the returned route is a valid walk whose summed cost is
`Σ costOf` over its edges and is the least over all valid walks -/
theorem config_dijkstra_route_least_cost (c : Config α) (h : c.EdgeLocal) (hwf : c.wf = some 0)
    {source t : Nat} (hts : t ≠ source)
    {sched : List Nat} {r : AlgResult α} (hrun : c.runVertex source (some t) sched = .ok r) :
    ∃ route, r.routes = [route] ∧ route ≠ [] ∧
      Walk c.inst c.okOf source (route.map (·.edge)) t ∧
      (route.map (fun b => b.access + b.traversal)).sum = cost c.costOf (route.map (·.edge)) ∧
      ∀ es, Walk c.inst c.okOf source es t →
        (route.map (fun b => b.access + b.traversal)).sum ≤ cost c.costOf es :=
  _root_.Compass.config_dijkstra_route_least_cost c h hwf hts hrun

/-- **A\* on a concrete configuration**: the same for any non-negative weight factor when the
configuration's estimate `hOf` is admissible for the destination (e.g. consistent,
`consistent_is_admissible`) -/
theorem config_astar_route_least_cost (c : Config α) (h : c.EdgeLocal) (hwf : 0 ≤ c.wfOf)
    {source t : Nat} (hts : t ≠ source) (hadm : Admissible c.inst c.okOf c.costOf c.hOf t)
    {sched : List Nat} {r : AlgResult α} (hrun : c.runVertex source (some t) sched = .ok r) :
    ∃ route, r.routes = [route] ∧ route ≠ [] ∧
      Walk c.inst c.okOf source (route.map (·.edge)) t ∧
      (route.map (fun b => b.access + b.traversal)).sum = cost c.costOf (route.map (·.edge)) ∧
      ∀ es, Walk c.inst c.okOf source es t →
        (route.map (fun b => b.access + b.traversal)).sum ≤ cost c.costOf es :=
  _root_.Compass.config_astar_route_least_cost c h hwf hts hadm hrun

/-- **through the edge-oriented wrapper** (`run_edge_oriented`, origin and destination edges not
adjacent): the returned route's summed cost is the least cost of a valid walk from the origin edge's
head to the destination edge's tail -/
theorem config_edge_oriented_route_least_cost (c : Config α) (h : c.EdgeLocal) (hwf : 0 ≤ c.wfOf)
    (source tgt : Nat) (sched : List Nat) (r : AlgResult α)
    (e1 e2 : EdgeRec α) (h1 : c.edges[source]? = some e1) (h2 : c.edges[tgt]? = some e2)
    (hne : source ≠ tgt) (hnadj : e1.dst ≠ e2.src)
    (hadm : Admissible c.inst c.okOf c.costOf c.hOf e2.src)
    (hrun : c.runEdge source (some tgt) sched = .ok r) :
    ∃ (route inner : List (Branch α)) (last : Branch α), r.routes = [route] ∧
      route = SearchRoute.originBranch c source e1 :: inner
        ++ [SearchRoute.destBranch tgt e2 last.state] ∧
      Walk c.inst c.okOf e1.dst (inner.map (·.edge)) e2.src ∧
      (route.map (fun b => b.access + b.traversal)).sum = cost c.costOf (inner.map (·.edge)) ∧
      ∀ es, Walk c.inst c.okOf e1.dst es e2.src →
        (route.map (fun b => b.access + b.traversal)).sum ≤ cost c.costOf es :=
  _root_.Compass.config_edge_oriented_route_least_cost c h hwf source tgt sched r e1 e2 h1 h2 hne
    hnadj hadm hrun

/-- the same wrapper when the destination edge starts where the origin edge ends (`e1.dst = e2.src`):
no search is run; the route is the two edges, both really traversed (`forward_traversal`, whatever the
direction) and both charged — origin edge `costOf source`, destination edge `costOf tgt`.  Every
origin-edge-to-destination-edge route begins and ends with these two edges and the empty walk between
them costs nothing, so there is no cheaper alternative; note the asymmetry with the non-adjacent case,
where by design of `run_edge_oriented` the two end edges are reported with zero cost. -/
theorem config_edge_oriented_adjacent_route_cost (c : Config α) (h : c.EdgeLocal)
    (source tgt : Nat) (sched : List Nat) (r : AlgResult α)
    (e1 e2 : EdgeRec α) (h1 : c.edges[source]? = some e1) (h2 : c.edges[tgt]? = some e2)
    (hne : source ≠ tgt) (hadj : e1.dst = e2.src)
    (hrun : c.runEdge source (some tgt) sched = .ok r) :
    ∃ b1 b2 : Branch α, r.routes = [[b1, b2]] ∧ b1.edge = source ∧ b2.edge = tgt ∧
      b1.access + b1.traversal = c.costOf source ∧ b2.access + b2.traversal = c.costOf tgt ∧
      (r.routes.map fun rt => (rt.map (fun b => b.access + b.traversal)).sum)
        = [c.costOf source + c.costOf tgt] := by
  obtain ⟨ac1, tc1, st1, ac2, tc2, st2, ht1, ht2, hroutes, _, _⟩ :=
    SearchRoute.runEdge_adjacent c source tgt sched r e1 e2 h1 h2 hne hadj hrun
  have hc1 : ac1 + tc1 = c.costOf source :=
    edgeTraversal_noAccess ({ c with reverse := false } : Config α) h.noAccess _ _ _ _ _ _ ht1
  have hc2 : ac2 + tc2 = c.costOf tgt :=
    edgeTraversal_noAccess ({ c with reverse := false } : Config α) h.noAccess _ _ _ _ _ _ ht2
  refine ⟨_, _, hroutes, rfl, rfl, hc1, hc2, ?_⟩
  rw [hroutes]
  simp only [List.map_cons, List.map_nil, List.sum_cons, List.sum_nil, add_zero]
  rw [hc1, hc2]

/-- **Dijkstra and A\* report the same route cost** on a concrete configuration: under the premises
of `config_astar_route_least_cost` for `c` (edge-local, `0 ≤ weight_factor`, admissible estimate) the
route `c` returns and the route the same configuration returns as Dijkstra
(`weight_factor = 0`, the premises of `config_dijkstra_route_least_cost` then hold by themselves)
have equal summed cost, whatever schedules the two runs take -/
theorem config_astar_cost_eq_dijkstra_cost (c : Config α) (h : c.EdgeLocal) (hwf : 0 ≤ c.wfOf)
    {source t : Nat} (hts : t ≠ source) (hadm : Admissible c.inst c.okOf c.costOf c.hOf t)
    {sched sched' : List Nat} {r r' : AlgResult α}
    (hrun : c.runVertex source (some t) sched = .ok r)
    (hrun' : ({ c with wf := some 0 } : Config α).runVertex source (some t) sched' = .ok r') :
    ∃ route route', r.routes = [route] ∧ r'.routes = [route'] ∧
      (route.map (fun b => b.access + b.traversal)).sum
        = (route'.map (fun b => b.access + b.traversal)).sum := by
  obtain ⟨route, hr, _, hw, hsum, hmin⟩ := config_astar_route_least_cost c h hwf hts hadm hrun
  have h' : ({ c with wf := some 0 } : Config α).EdgeLocal := ⟨h.adj, h.noAccess, h.noTurn⟩
  obtain ⟨route', hr', _, hw', hsum', hmin'⟩ :=
    config_dijkstra_route_least_cost ({ c with wf := some 0 } : Config α) h' rfl hts hrun'
  have hwc := Walk.congr (I := c.inst) (I' := ({ c with wf := some 0 } : Config α).inst)
    (ok := c.okOf) rfl rfl rfl
  have hw'' : Walk c.inst c.okOf source (route'.map (·.edge)) t := (hwc _ _ _).1 hw'
  have hmin'' : ∀ es, Walk c.inst c.okOf source es t →
      (route'.map (fun b => b.access + b.traversal)).sum ≤ cost c.costOf es :=
    fun es hes => hmin' es ((hwc _ _ _).2 hes)
  have hsum'' : (route'.map (fun b => b.access + b.traversal)).sum
      = cost c.costOf (route'.map (·.edge)) := hsum'
  refine ⟨route, route', hr, hr', le_antisymm ?_ ?_⟩
  · rw [hsum'']; exact hmin _ hw''
  · rw [hsum]; exact hmin'' _ hw

/-- **a least-cost route IS returned** (Dijkstra; schedule existence and termination): on a
well-formed configuration (`Config.WellFormedDistance`, `Config.GraphOK`: **distance traversal
model, no access model, no turn restrictions, every vertex in the coordinate range**, no call of a
component fails) over the vertices `< c.nV`, whose termination model does **not fire within `|V|`
iterations and `|V| · D` tree entries** (`D` a bound on the number of incident edges of a vertex —
more than any Dijkstra run reaches, so a configured iterations / solution-size / runtime limit above
that is inside the premise, the empty combined model trivially; until the second review the premise
was `∀ sz it, c.term.test sz it = .ok ()`, which the empty combined model alone meets), for every
destination that is reachable from the origin through permitted edges there is a schedule of at most
`|V| + 1` pops on which the search returns a route, and that route has least summed cost; moreover
*every* accepted schedule that ends (`IsFinal`: the outcome is not one of the two replay errors of the
model) ends in such a route -/
theorem config_dijkstra_least_cost_route_returned (c : Config α) {du : DistanceUnit}
    (W : c.WellFormedDistance du) {source t : Nat} (G : c.GraphOK source true)
    (hwf : c.wf = some 0) {D : Nat} (hD : ∀ v, (c.inst.incident v).length ≤ D)
    (hlim : ∀ sz it, it ≤ c.nV → sz ≤ c.nV * D → c.term.test sz it = .ok ())
    (hsrc : source < c.nV)
    (hV : c.VerticesBelow c.nV) (hts : t ≠ source)
    (hreach : ∃ es, Walk c.inst c.okOf source es t) :
    (∃ sched r route, sched.length ≤ c.nV + 1 ∧ c.runVertex source (some t) sched = .ok r ∧
      r.routes = [route] ∧
      ∀ es, Walk c.inst c.okOf source es t →
        (route.map (fun b => b.access + b.traversal)).sum ≤ cost c.costOf es) ∧
    ∀ sched, SearchTermination.IsFinal (c.runVertex source (some t) sched) →
      ∃ r route, c.runVertex source (some t) sched = .ok r ∧ r.routes = [route] ∧
        Walk c.inst c.okOf source (route.map (·.edge)) t ∧
        ∀ es, Walk c.inst c.okOf source es t →
          (route.map (fun b => b.access + b.traversal)).sum ≤ cost c.costOf es := by
  have hEL := SearchTermination.edgeLocal_of_wellFormed c W G
  have hall : ∀ sched, SearchTermination.IsFinal (c.runVertex source (some t) sched) →
      ∃ r route, c.runVertex source (some t) sched = .ok r ∧ r.routes = [route] ∧
        Walk c.inst c.okOf source (route.map (·.edge)) t ∧
        ∀ es, Walk c.inst c.okOf source es t →
          (route.map (fun b => b.access + b.traversal)).sum ≤ cost c.costOf es := by
    intro sched hfin
    obtain ⟨_, hiff, _⟩ := SearchTermination.config_final_decides c W G
      (SearchTermination.config_dijkstra_bound c G.adj hwf hsrc hV (some t)) hD hlim hfin
    obtain ⟨r, hr⟩ := hiff.2 hreach
    obtain ⟨route, h1, _, h3, _, h5⟩ := config_dijkstra_route_least_cost c hEL hwf hts hr
    exact ⟨r, route, hr, h1, h3, h5⟩
  refine ⟨?_, hall⟩
  obtain ⟨⟨sched, hlen, hend⟩, _, _⟩ :=
    SearchTermination.config_dijkstra_terminates c G.adj hwf hsrc hV (some t)
  obtain ⟨r, route, hr, h1, _, h5⟩ := hall sched hend.isFinal
  exact ⟨sched, r, route, hlen, hr, h1, h5⟩

/-- **`estimate_admissible`** (distance model): sum aggregation, rates in use linear and
non-decreasing (the property's list `zero / raw / factor ≥ 0 / combined`, no offset:
`CostModel.rates_of_offsetFree`), weights, surcharges, lengths ≥ 0, weight factor in `[0, 1]`, and a
great-circle table that is ≥ 0, zero at the destination and consistent with the lengths of the
permitted edges (`Config.DistanceMetric`): the configuration's own estimate is admissible -/
theorem config_distance_estimate_admissible (c : Config α) (hadj : c.AdjConsistent)
    {du : DistanceUnit} {t : Nat} (M : c.DistanceMetric du t) :
    Admissible c.inst c.okOf c.costOf c.hOf t :=
  c.distance_estimate_admissible hadj M

/-- **A\* on a concrete configuration with its own estimate** (distance model): no premise on the
heuristic is left -/
theorem config_astar_distance_route_least_cost (c : Config α) (h : c.EdgeLocal)
    {du : DistanceUnit} {source t : Nat} (M : c.DistanceMetric du t) (hts : t ≠ source)
    {sched : List Nat} {r : AlgResult α} (hrun : c.runVertex source (some t) sched = .ok r) :
    ∃ route, r.routes = [route] ∧ route ≠ [] ∧
      Walk c.inst c.okOf source (route.map (·.edge)) t ∧
      (route.map (fun b => b.access + b.traversal)).sum = cost c.costOf (route.map (·.edge)) ∧
      ∀ es, Walk c.inst c.okOf source es t →
        (route.map (fun b => b.access + b.traversal)).sum ≤ cost c.costOf es :=
  _root_.Compass.config_astar_distance_route_least_cost c h M hts hrun

/-- **`estimate_admissible`** (speed-table model): as for the distance model, with positive
lengths, positive table speeds and `max_speed ≥` every table speed (`Config.SpeedMetric`) -/
theorem config_speed_estimate_admissible (c : Config α) (hadj : c.AdjConsistent)
    {su : SpeedUnit} {du : DistanceUnit} {tu : TimeUnit} {ms : α} {table : List α} {t : Nat}
    (M : c.SpeedMetric su du tu ms table t) : Admissible c.inst c.okOf c.costOf c.hOf t :=
  c.speed_estimate_admissible hadj M

/-- **A\* on a concrete configuration with its own estimate** (speed-table model) -/
theorem config_astar_speed_route_least_cost (c : Config α) (h : c.EdgeLocal)
    {su : SpeedUnit} {du : DistanceUnit} {tu : TimeUnit} {ms : α} {table : List α}
    {source t : Nat} (M : c.SpeedMetric su du tu ms table t) (hts : t ≠ source)
    {sched : List Nat} {r : AlgResult α} (hrun : c.runVertex source (some t) sched = .ok r) :
    ∃ route, r.routes = [route] ∧ route ≠ [] ∧
      Walk c.inst c.okOf source (route.map (·.edge)) t ∧
      (route.map (fun b => b.access + b.traversal)).sum = cost c.costOf (route.map (·.edge)) ∧
      ∀ es, Walk c.inst c.okOf source es t →
        (route.map (fun b => b.access + b.traversal)).sum ≤ cost c.costOf es :=
  _root_.Compass.config_astar_speed_route_least_cost c h M hts hrun

/-- the premise on the rates is the property's own list: rates built from
`zero / raw / factor f ≥ 0 / combined` of those are linear and non-decreasing -/
theorem listed_rates_linear (m : CostModel α)
    (h : ∀ i ∈ m.indices, (m.vr i).offsetFree = true ∧ 0 ≤ m.wt i) :
    m.LinearRates ∧ m.NonnegRates :=
  m.rates_of_offsetFree h

/-! ### Non-vacuity of the generalisation itself: `Example.exInstS` prices malformed states wrongly, so
it is outside `UniformCost`, and inside `UniformOn` with the invariant "the state has one slot" -/

example : ¬ UniformCost Example.exInstS Example.exOk Example.exCost := Example.ex_not_uniformCost
example : UniformOn Example.exInstS (fun _ st => st.length = 1) Example.exOk Example.exCost
    Example.exH := Example.ex_uniform_on

/-! ### Non-vacuity on concrete configurations (`ConfigUniform.Example`): an offset rate, an edge
surcharge, a unit conversion, a forbidden shortcut, a cycle and self loops; the speed-table model;
A* with a non-zero admissible estimate; a reverse search. -/

section
open ConfigUniform.Example SearchRoute.Example

/-- Dijkstra on `exC`: the run returns `[0, 7]` (not the shortest-by-length `[0, 1, 2]`, not the
forbidden shortcut `[6]`), and the theorem bounds every valid walk `0 ⇝ 3` by its cost -/
example : ∃ r route, exC.runVertex 0 (some 3) [0, 1, 2, 3] = .ok r ∧ r.routes = [route] ∧
    route.map (·.edge) = [0, 7] ∧
    ∀ es, Walk exC.inst exC.okOf 0 es 3 →
      (route.map (fun b => b.access + b.traversal)).sum ≤ cost exC.costOf es := by
  obtain ⟨r, hr⟩ := ok_of_routeEdgesOf exC_run
  obtain ⟨route, h1, _, _, _, h5⟩ :=
    config_dijkstra_route_least_cost exC exC_edgeLocal rfl (by decide) hr
  refine ⟨r, route, hr, h1, ?_, h5⟩
  have := exC_run
  rw [hr] at this
  simpa [routeEdgesOf, h1] using this

/-- the quantifier over walks is not empty, and the cheaper shortcut is indeed excluded -/
example : Walk exC.inst exC.okOf 0 [0, 1, 2] 3 ∧ ¬ Walk exC.inst exC.okOf 0 [6] 3 ∧
    cost exC.costOf [6] < cost exC.costOf [0, 7] ∧
    cost exC.costOf [0, 7] < cost exC.costOf [0, 1, 2] := by
  simp only [Walk]
  decide +kernel

/-- the speed-table model (`exS`), A* with a non-zero estimate (`exA`), a reverse search (`exR`) -/
example : ∃ r route, exS.runVertex 0 (some 3) [0, 1, 2, 3] = .ok r ∧ r.routes = [route] ∧
    ∀ es, Walk exS.inst exS.okOf 0 es 3 →
      (route.map (fun b => b.access + b.traversal)).sum ≤ cost exS.costOf es := by
  obtain ⟨r, hr⟩ := ok_of_routeEdgesOf exS_run
  obtain ⟨route, h1, _, _, _, h5⟩ :=
    config_dijkstra_route_least_cost exS exS_edgeLocal rfl (by decide) hr
  exact ⟨r, route, hr, h1, h5⟩

example : exA.hOf 0 ≠ 0 ∧ ∃ r route, exA.runVertex 0 (some 3) [0, 1, 2, 3] = .ok r ∧
    r.routes = [route] ∧
    ∀ es, Walk exA.inst exA.okOf 0 es 3 →
      (route.map (fun b => b.access + b.traversal)).sum ≤ cost exA.costOf es := by
  refine ⟨by rw [exA_h0]; norm_num, ?_⟩
  obtain ⟨r, hr⟩ := ok_of_routeEdgesOf exA_run
  obtain ⟨route, h1, _, _, _, h5⟩ :=
    config_astar_route_least_cost exA exA_edgeLocal (by simp [Config.wfOf, exA]) (by decide)
      exA_admissible hr
  exact ⟨r, route, hr, h1, h5⟩

example : ∃ r route, exR.runVertex 3 (some 0) [3, 2, 1, 0] = .ok r ∧ r.routes = [route] ∧
    ∀ es, Walk exR.inst exR.okOf 3 es 0 →
      (route.map (fun b => b.access + b.traversal)).sum ≤ cost exR.costOf es := by
  obtain ⟨r, hr⟩ := ok_of_routeEdgesOf exR_run
  obtain ⟨route, h1, _, _, _, h5⟩ :=
    config_dijkstra_route_least_cost exR exR_edgeLocal rfl (by decide) hr
  exact ⟨r, route, hr, h1, h5⟩

/-- the edge-oriented wrapper on `exC`: origin edge 0 (0→1), destination edge 4 (3→1); the inner
route is `[7]` -/
example : ∃ r route, exC.runEdge 0 (some 4) [1, 2, 3] = .ok r ∧ r.routes = [route] ∧
    route.map (·.edge) = [0, 7, 4] ∧
    ∀ es, Walk exC.inst exC.okOf 1 es 3 →
      (route.map (fun b => b.access + b.traversal)).sum ≤ cost exC.costOf es := by
  have hobs : routeEdgesOf (exC.runEdge 0 (some 4) [1, 2, 3]) = some [[0, 7, 4]] := by
    decide +kernel
  obtain ⟨r, hr⟩ := ok_of_routeEdgesOf hobs
  obtain ⟨route, inner, last, h1, _, _, _, h5⟩ :=
    config_edge_oriented_route_least_cost exC exC_edgeLocal (by simp [Config.wfOf, exC]) 0 4
      [1, 2, 3] r ⟨0, 1, 1000⟩ ⟨3, 1, 700⟩ rfl rfl (by decide) (by decide)
      (exC.admissible_dijkstra rfl 3) hr
  refine ⟨r, route, hr, h1, ?_, h5⟩
  rw [hr] at hobs
  simpa [routeEdgesOf, h1] using hobs

/-- why the property excludes offset rates *for A\**: with an offset the estimate at the destination
itself is positive (`exC` with weight factor one: `hOf 3 = 2`), so it is not admissible.  Dijkstra
(weight factor 0, the examples above) is not affected: the cost of an edge is still a function of the
edge alone. -/
example : ¬ Admissible ({ exC with wf := none } : Config ℚ).inst ({ exC with wf := none } : Config ℚ).okOf
    ({ exC with wf := none } : Config ℚ).costOf ({ exC with wf := none } : Config ℚ).hOf 3 := by
  intro h
  have h3 := h 3 [] rfl
  revert h3
  simp only [cost]
  decide +kernel

/-- `exA` meets `DistanceMetric`, so its A* run needs no premise on the estimate -/
example : ∃ r route, exA.runVertex 0 (some 3) [0, 1, 2, 3] = .ok r ∧ r.routes = [route] ∧
    ∀ es, Walk exA.inst exA.okOf 0 es 3 →
      (route.map (fun b => b.access + b.traversal)).sum ≤ cost exA.costOf es := by
  obtain ⟨r, hr⟩ := ok_of_routeEdgesOf exA_run
  obtain ⟨route, h1, _, _, _, h5⟩ :=
    config_astar_distance_route_least_cost exA exA_edgeLocal exA_metric (by decide) hr
  exact ⟨r, route, hr, h1, h5⟩

/-- `exSA` (speed table, time cost, weight factor one) meets `SpeedMetric` -/
example : exSA.hOf 0 ≠ 0 ∧ ∃ r route, exSA.runVertex 0 (some 3) [0, 1, 2, 3] = .ok r ∧
    r.routes = [route] ∧
    ∀ es, Walk exSA.inst exSA.okOf 0 es 3 →
      (route.map (fun b => b.access + b.traversal)).sum ≤ cost exSA.costOf es := by
  refine ⟨exSA_h0, ?_⟩
  obtain ⟨r, hr⟩ := ok_of_routeEdgesOf exSA_run
  obtain ⟨route, h1, _, _, _, h5⟩ :=
    config_astar_speed_route_least_cost exSA exSA_edgeLocal exSA_metric (by decide) hr
  exact ⟨r, route, hr, h1, h5⟩

/-- Dijkstra and A* agree on the cost: `exA` (weight factor one, estimate 3000 at the origin) and its
Dijkstra twin both return a route, of equal summed cost -/
example : ∃ r r' route route', exA.runVertex 0 (some 3) [0, 1, 2, 3] = .ok r ∧
    ({ exA with wf := some 0 } : Config ℚ).runVertex 0 (some 3) [0, 1, 2, 3] = .ok r' ∧
    r.routes = [route] ∧ r'.routes = [route'] ∧
    (route.map (fun b => b.access + b.traversal)).sum
      = (route'.map (fun b => b.access + b.traversal)).sum := by
  obtain ⟨r, hr⟩ := ok_of_routeEdgesOf exA_run
  have hobs : (routeEdgesOf (({ exA with wf := some 0 } : Config ℚ).runVertex 0 (some 3) [0, 1, 2, 3])).isSome
      = true := by decide +kernel
  cases hr' : ({ exA with wf := some 0 } : Config ℚ).runVertex 0 (some 3) [0, 1, 2, 3] with
  | error k => rw [hr'] at hobs; simp [routeEdgesOf] at hobs
  | ok r' =>
    obtain ⟨route, route', h1, h2, h3⟩ :=
      config_astar_cost_eq_dijkstra_cost exA exA_edgeLocal (by simp [Config.wfOf, exA]) (by decide)
        exA_admissible hr hr'
    exact ⟨r, r', route, route', hr, rfl, h1, h2, h3⟩

/-- the adjacent case of the edge-oriented wrapper on `exC`: origin edge 0 (0→1), destination edge 1
(1→2); both edges are charged -/
example : ∃ r, exC.runEdge 0 (some 1) [] = .ok r ∧
    (r.routes.map fun rt => (rt.map (fun b => b.access + b.traversal)).sum)
      = [exC.costOf 0 + exC.costOf 1] := by
  have hobs : routeEdgesOf (exC.runEdge 0 (some 1) []) = some [[0, 1]] := by decide +kernel
  obtain ⟨r, hr⟩ := ok_of_routeEdgesOf hobs
  obtain ⟨_, _, _, _, _, _, _, h6⟩ :=
    config_edge_oriented_adjacent_route_cost exC exC_edgeLocal 0 1 [] r ⟨0, 1, 1000⟩ ⟨1, 2, 2000⟩
      rfl rfl (by decide) rfl hr
  exact ⟨r, hr, h6⟩

/-- `exC` without any limit -/
def exC0 : Config ℚ := { exC with term := .combined [] }

/-- a least-cost route is returned: `exC0` is well formed, vertex 3 is reachable -/
example : ∃ sched r route, sched.length ≤ 6 ∧ exC0.runVertex 0 (some 3) sched = .ok r ∧
    r.routes = [route] ∧
    ∀ es, Walk exC0.inst exC0.okOf 0 es 3 →
      (route.map (fun b => b.access + b.traversal)).sum ≤ cost exC0.costOf es := by
  have W : exC0.WellFormedDistance .meters :=
    ⟨exC_wellFormed.trav, exC_wellFormed.noAccess, exC_wellFormed.noTurn, exC_wellFormed.slot,
      exC_wellFormed.cost_range, exC_wellFormed.frontier_total, exC_wellFormed.gc_nonneg⟩
  have G : exC0.GraphOK 0 true :=
    ⟨(exC_graphOK 0 (by decide) true).adj, (exC_graphOK 0 (by decide) true).inc_range,
      (exC_graphOK 0 (by decide) true).gc_source, (exC_graphOK 0 (by decide) true).gc_range⟩
  have hw : Walk exC0.inst exC0.okOf 0 [0, 7] 3 := by simp only [Walk]; decide +kernel
  have hD : ∀ v, (exC0.inst.incident v).length ≤ 3 := by
    intro v
    match v with
    | 0 | 1 | 2 | 3 => simp [Config.inst, exC0, exC]
    | n + 4 => simp [Config.inst, exC0, exC]
  exact (config_dijkstra_least_cost_route_returned exC0 W (source := 0) (t := 3) G rfl hD
    (fun sz it _ _ => SearchLimits.combined_nil_test sz it) (by decide) (by decide) (by decide)
    ⟨[0, 7], hw⟩).1

/-- the same under a **configured limit**: `exC` itself carries an iterations limit of 100, which does
not fire within the 5 iterations (and 15 tree entries) a Dijkstra run on its 5 vertices can reach —
the premise `hlim` is met by a real limit, and the least-cost route is returned -/
example : ∃ sched r route, sched.length ≤ 6 ∧ exC.runVertex 0 (some 3) sched = .ok r ∧
    r.routes = [route] ∧
    ∀ es, Walk exC.inst exC.okOf 0 es 3 →
      (route.map (fun b => b.access + b.traversal)).sum ≤ cost exC.costOf es := by
  have hw : Walk exC.inst exC.okOf 0 [0, 7] 3 := by simp only [Walk]; decide +kernel
  have hD : ∀ v, (exC.inst.incident v).length ≤ 3 := by
    intro v
    match v with
    | 0 | 1 | 2 | 3 => simp [Config.inst, exC]
    | n + 4 => simp [Config.inst, exC]
  have hlim : ∀ sz it, it ≤ exC.nV → sz ≤ exC.nV * 3 → exC.term.test sz it = .ok () := by
    intro sz it hit _
    have hit' : it ≤ 5 := hit
    have h1 : ¬ (it + 1 > 100) := by omega
    show (TermM.iters 100).test sz it = .ok ()
    rw [SearchLimits.test_ok_iff]
    simp [TermM.fires, h1]
  exact (config_dijkstra_least_cost_route_returned exC exC_wellFormed (source := 0) (t := 3)
    (exC_graphOK 0 (by decide) true) rfl hD hlim (by decide) (by decide) (by decide)
    ⟨[0, 7], hw⟩).1

/-- a zero table speed: the search that relaxes such an edge fails with a traversal error, it does
not skip the edge (here edge 7 of `exS`, relaxed when vertex 1 is expanded) -/
example : ConfigUniform.Example.errOf (({ exS with
      trav := .speed .kilometersPerHour .meters .seconds 72 [36, 36, 36, 36, 36, 36, 36, 0] } : Config ℚ).runVertex
      0 (some 3) [0, 1, 2, 3]) = some .traversal := by decide +kernel

end

/-! ### The maximum speed the time estimate divides by, and the weight factor of the query

`SpeedTraversalEngine::new` reads the speed table from a file and hands `get_max_speed` of it to the
model; `SpeedMetric` (the premise of `config_speed_estimate_admissible`) asks `0 < max_speed` and
`table speed ≤ max_speed` on every edge.  Both hold of every engine the constructor returns, for
every file. -/

open Build

/-- `get_max_speed` answers `m` exactly when `m` is an entry of the table, positive, and no entry is
larger: the maximum, never anything else -/
theorem max_speed_is_table_maximum (table : List α) (m : α) :
    getMaxSpeed table = .ok m ↔ (m ∈ table ∧ 0 < m ∧ ∀ s ∈ table, s ≤ m) :=
  getMaxSpeed_ok_iff table m

/-- … and it refuses exactly the tables that have no maximum to offer: no entry at all, or no
positive entry (nothing could be traversed, and the estimate would divide by zero) -/
theorem max_speed_refused_iff (table : List α) :
    (getMaxSpeed table = .error .empty ↔ table = []) ∧
    (getMaxSpeed table = .error .zero ↔ (table ≠ [] ∧ ∀ s ∈ table, s ≤ 0)) ∧
    (∀ k, getMaxSpeed table = .error k → k = .empty ∨ k = .zero) :=
  ⟨getMaxSpeed_empty_iff table, getMaxSpeed_zero_iff table, fun _ h => getMaxSpeed_error_kind h⟩

/-- Every engine `SpeedTraversalEngine::new` returns — whatever the file, the units given or left
to their defaults — carries a positive `max_speed` that is a table entry and bounds every table
entry, and no negative entry: the `ms_pos` and `sp ≤ ms` premises of `SpeedMetric`. -/
theorem speed_engine_estimate_premise (file : Option (List (NumRow α))) (su : SpeedUnit)
    (duOpt : Option DistanceUnit) (tuOpt : Option TimeUnit) (e : SpeedEngine α)
    (h : speedEngineNew file su duOpt tuOpt = .ok e) :
    0 < e.maxSpeed ∧ e.maxSpeed ∈ e.table ∧
      ∀ (i : Nat) (sp : α), e.table[i]? = some sp → 0 ≤ sp ∧ sp ≤ e.maxSpeed := by
  obtain ⟨rows, _, hrows, hmax, _⟩ := (speedEngineNew_ok_iff file su duOpt tuOpt e).1 h
  obtain ⟨hm, hpos, hall⟩ := (getMaxSpeed_ok_iff _ _).1 hmax
  refine ⟨hpos, hm, fun i sp hsp => ⟨?_, hall sp (List.mem_of_getElem? hsp)⟩⟩
  obtain ⟨x, _, hx⟩ := (allSome_getElem? hrows i).2 sp hsp
  exact ((parseSpeed_iff x sp).1 hx).2

/-- what the engine guarantees of a table entry that is not zero: it is strictly positive and at
most `max_speed` — the per-edge speed premise of `Config.SpeedMetric` (`0 < sp ∧ sp ≤ max_speed`).  The
builder accepts a zero row (`speed_row_accepted_iff`), so `0 < sp` is a premise on the table, not a
consequence of building it. -/
theorem speed_engine_nonzero_entry_premise (file : Option (List (NumRow α))) (su : SpeedUnit)
    (duOpt : Option DistanceUnit) (tuOpt : Option TimeUnit) (e : SpeedEngine α)
    (h : speedEngineNew file su duOpt tuOpt = .ok e) (i : Nat) (sp : α)
    (hsp : e.table[i]? = some sp) (hne : sp ≠ 0) : 0 < sp ∧ sp ≤ e.maxSpeed := by
  obtain ⟨h0, h1⟩ := (speed_engine_estimate_premise file su duOpt tuOpt e h).2.2 i sp hsp
  exact ⟨lt_of_le_of_ne h0 (Ne.symm hne), h1⟩

/-- **a table speed that is not positive is never used**: `create_time` refuses it, so every
`forward_traversal` / `reverse_traversal` of that edge fails — from any state, after any edge, with
any access, cost and frontier model.  (The search does not skip such an edge: relaxing it fails the
search with a traversal error.) -/
theorem zero_speed_edge_never_traversed (c : Config α) {su : SpeedUnit} {du : DistanceUnit}
    {tu : TimeUnit} {ms : α} {table : List α} (ht : c.trav = .speed su du tu ms table)
    {e : Nat} {sp : α} (hsp : table[e]? = some sp) (h0 : sp ≤ 0) (le : Option Nat) (st : List α)
    (r : α × α × List α) : c.inst.trav e le st ≠ .ok r := by
  intro h
  simp only [Config.inst, edgeTraversal] at h
  split at h
  · cases h
  · rename_i er her
    split at h
    · cases h
    · rename_i ac st1 _
      have hnone : c.trav.traverse c.feats c.edges e st1 = none := by
        simp only [TravModel.traverse, her, ht, hsp,
          (C09.createTime_none_iff sp su _ du tu).2 (Or.inl h0)]
      rw [hnone] at h
      cases h

/-- every traversal that answers used a strictly positive table speed -/
theorem traversed_edge_speed_pos (c : Config α) {su : SpeedUnit} {du : DistanceUnit}
    {tu : TimeUnit} {ms : α} {table : List α} (ht : c.trav = .speed su du tu ms table)
    {e : Nat} {le : Option Nat} {st : List α} {r : α × α × List α}
    (h : c.inst.trav e le st = .ok r) : ∃ sp, table[e]? = some sp ∧ 0 < sp := by
  cases hsp : table[e]? with
  | none =>
    exfalso
    simp only [Config.inst, edgeTraversal] at h
    split at h
    · cases h
    · rename_i er her
      split at h
      · cases h
      · have hnone : ∀ st1, c.trav.traverse c.feats c.edges e st1 = none := by
          intro st1
          simp only [TravModel.traverse, her, ht, hsp]
        rw [hnone] at h
        cases h
  | some sp =>
    refine ⟨sp, rfl, ?_⟩
    by_contra hle
    exact zero_speed_edge_never_traversed c ht hsp (not_lt.1 hle) le st r h

/-- **a search that returns used positive speeds only** (speed-table model; any access, cost and
frontier model, weight factor, direction, schedule): every entry of the returned tree and every
element of the returned route carries an edge whose table speed is strictly positive -/
theorem returned_search_used_positive_speeds (c : Config α) {su : SpeedUnit} {du : DistanceUnit}
    {tu : TimeUnit} {ms : α} {table : List α} (ht : c.trav = .speed su du tu ms table)
    {source : Nat} {target : Option Nat} {sched : List Nat} {res : SearchResult α}
    (hrun : runVertexOriented c.inst source target sched = .ok res) :
    (∀ v b, res.final.sol v = some b → ∃ sp, table[b.edge]? = some sp ∧ 0 < sp) ∧
    ∀ route, res.route = some route → ∀ b ∈ route, ∃ sp, table[b.edge]? = some sp ∧ 0 < sp := by
  have htree : ∀ v b, res.final.sol v = some b → ∃ sp, table[b.edge]? = some sp ∧ 0 < sp := by
    intro v b hb
    have hra : runAStar c.inst source target sched = .ok res.final := by
      unfold runVertexOriented at hrun
      split at hrun
      · cases hrun
      · rename_i s hs
        cases target with
        | none => cases hrun; exact hs
        | some t =>
          simp only at hrun
          split at hrun
          · cases hrun
          · cases hrun; exact hs
    obtain ⟨st, le, _, htr⟩ := SearchRoute.runAStar_validInv c.inst source target sched _ hra v b hb
    exact traversed_edge_speed_pos c ht htr
  refine ⟨htree, ?_⟩
  intro route hroute b hb
  cases target with
  | none =>
    unfold runVertexOriented at hrun
    split at hrun
    · cases hrun
    · cases hrun; cases hroute
  | some t =>
    obtain ⟨_, route', hr', hbt⟩ := SearchRoute.runVertexOriented_some hrun
    rw [hroute] at hr'
    cases hr'
    obtain ⟨v, _, hv⟩ := SearchTree.pathTo_mem (SearchTree.backtrack_sound hbt) b hb
    exact htree v b hv

/-- the same through the application's builder (`SpeedLookupBuilder::build`): whatever the
configuration and the file, a service that is built estimates with the table's maximum -/
theorem speed_builder_estimate_premise (cfg : Json) (file : Option (List (NumRow α))) (e : SpeedEngine α)
    (h : speedLookupBuild cfg file = .ok e) :
    0 < e.maxSpeed ∧ ∀ (i : Nat) (sp : α), e.table[i]? = some sp → sp ≤ e.maxSpeed := by
  unfold speedLookupBuild at h
  split at h
  · cases h
  · split at h
    · cases h
    · split at h
      · cases h
      · split at h
        · cases h
        · have := speed_engine_estimate_premise _ _ _ _ e h
          exact ⟨this.1, fun i sp hsp => (this.2.2 i sp hsp).2⟩

/-- a speed table file with a row that is not a number, is negative or is NaN, a file without rows,
a file without a positive row, and a file that cannot be read are all refused -/
theorem speed_engine_refuses (su : SpeedUnit) (duOpt : Option DistanceUnit) (tuOpt : Option TimeUnit) :
    (speedEngineNew (α := α) none su duOpt tuOpt = .error .read) ∧
    (∀ rows : List (NumRow α), (∃ r ∈ rows, parseSpeed r = none) →
      speedEngineNew (some rows) su duOpt tuOpt = .error .read) ∧
    (speedEngineNew (α := α) (some []) su duOpt tuOpt = .error .empty) ∧
    (∀ (rows : List (NumRow α)) (table : List α), Build.allSome parseSpeed rows = some table → table ≠ [] →
      (∀ s ∈ table, s ≤ 0) → speedEngineNew (some rows) su duOpt tuOpt = .error .zero) :=
  speedEngineNew_errors su duOpt tuOpt

theorem speed_row_accepted_iff (r : NumRow α) (x : α) : parseSpeed r = some x ↔ (r = .val x ∧ 0 ≤ x) :=
  parseSpeed_iff r x

omit [Field α] [LinearOrder α] [IsStrictOrderedRing α] [Lit α] [LawfulLit α] in
/-- The weight factor in force is the query's own number whenever the query has the field —
whatever is configured, Dijkstra's zero included —, the configured one otherwise; a field that is
not a number is an error response (`BuildError`), never a default. -/
theorem weight_factor_of_query (dec : Nat → α) (q : Json) (configured : Option α) :
    (q.get? "weight_factor" = none → weightFactorOfQuery dec q configured = .ok configured) ∧
    (∀ l b, q.get? "weight_factor" = some (.num l b) →
      weightFactorOfQuery dec q configured = .ok (some (dec b))) ∧
    (∀ v, q.get? "weight_factor" = some v → v.isNumber = false →
      weightFactorOfQuery dec q configured = .error .build) := by
  refine ⟨fun h => by simp [weightFactorOfQuery, h], fun l b h => by simp [weightFactorOfQuery, h, Json.asF64Bits?], ?_⟩
  intro v h hv
  cases v <;> simp_all [weightFactorOfQuery, Json.asF64Bits?, Json.isNumber]

/-! ### The objective in force: the query's weights, vehicle rates and aggregation where the query
gives them, the configuration's otherwise

`CostModelService::build(query, state_model)` (`CostService.build`, `Model/CostIO.lean`; the parsing
and the error arms are C07's, `Props/C07.lean` §14). -/

omit [Field α] [LinearOrder α] [IsStrictOrderedRing α] [Lit α] [LawfulLit α] in
theorem optField_some {β : Type} {p : Json → Option β} {j : Json} {key : String} {o : Option β}
    (h : optField p j key = some o) :
    (j.get? key = none → o = none) ∧ (∀ v, j.get? key = some v → ∃ b, p v = some b ∧ o = some b) := by
  unfold optField at h
  cases hg : j.get? key with
  | none =>
    simp only [hg, Option.some.injEq] at h
    exact ⟨fun _ => h.symm, fun v hv => (by cases hv)⟩
  | some v =>
    simp only [hg] at h
    refine ⟨fun h0 => (by cases h0), fun v' hv' => ?_⟩
    cases hv'
    cases hp : p v with
    | none => simp [hp] at h
    | some b =>
      simp only [hp, Option.map_some, Option.some.injEq] at h
      exact ⟨b, rfl, h.symm⟩

/-- **the objective in force**.  Whenever the service builds a cost model for a query there are a
weight mapping `w`, a vehicle-rate mapping `vr` and an aggregation `ag` *in force* such that
* `w` is the query's `weights` object when the query has that field (deserialised as it stands) and
  the configured mapping otherwise — a query field replaces the configured mapping as a whole, it is
  not merged with it; likewise `vr` for `vehicle_rates` and `ag` for `cost_aggregation`;
* the cost model iterates over the state features `0 … n-1`, aggregates with `ag`, and feature `i`
  (named `names[i]`) carries the weight `w` holds for its name (absent: `0`), the vehicle rate `vr`
  holds for its name (absent: `Zero`) and the *configured* network rate for its name (network rates
  cannot be overridden by a query).
The cost model is the `c.cost` of the configuration every search theorem above speaks about, so
"least cost" is least cost for the query's own weights and rates where it states them. -/
theorem query_objective_in_force (s : CostService α) (num : Json → Option α) (query : Json)
    (names : List String) (m : CostModel α) (h : s.build num query names = .ok m) :
    ∃ (w : List (String × α)) (vr : List (String × VehicleCostRate α)) (ag : CostAggregation),
      (query.get? "weights" = none → w = s.weights) ∧
      (∀ v, query.get? "weights" = some v → parseMap num v = some w) ∧
      (query.get? "vehicle_rates" = none → vr = s.vehicleRates) ∧
      (∀ v, query.get? "vehicle_rates" = some v → parseMap (parseVehicleRate num) v = some vr) ∧
      (query.get? "cost_aggregation" = none → ag = s.agg) ∧
      (∀ v, query.get? "cost_aggregation" = some v → parseAggregation v = some ag) ∧
      m.agg = ag ∧ m.indices = List.range names.length ∧
      ∀ i (hi : i < names.length),
        m.wt i = (assocGet w names[i]).getD 0 ∧
        m.vr i = (assocGet vr names[i]).getD .zero ∧
        m.nr i = (assocGet s.networkRates names[i]).getD .zero := by
  unfold CostService.build at h
  cases hw : optField (parseMap num) query "weights" with
  | none => simp [hw] at h
  | some wq =>
    simp only [hw] at h
    split at h
    · cases h
    · cases hv : optField (parseMap (parseVehicleRate num)) query "vehicle_rates" with
      | none => simp [hv] at h
      | some vq =>
        simp only [hv] at h
        cases ha : optField parseAggregation query "cost_aggregation" with
        | none => simp [ha] at h
        | some aq =>
          simp only [ha] at h
          split at h
          · cases h
          · rename_i m' hm'
            simp only [Except.ok.injEq] at h
            subst h
            obtain ⟨w1, w2⟩ := optField_some hw
            obtain ⟨v1, v2⟩ := optField_some hv
            obtain ⟨a1, a2⟩ := optField_some ha
            obtain ⟨hind, _, _, _, hagg⟩ := CostModel.new_eq_some _ _ _ hm'
            refine ⟨wq.getD s.weights, vq.getD s.vehicleRates, aq.getD s.agg,
              fun h0 => by rw [w1 h0]; rfl,
              fun v hq => by obtain ⟨b, hb, rfl⟩ := w2 v hq; exact hb,
              fun h0 => by rw [v1 h0]; rfl,
              fun v hq => by obtain ⟨b, hb, rfl⟩ := v2 v hq; exact hb,
              fun h0 => by rw [a1 h0]; rfl,
              fun v hq => by obtain ⟨b, hb, rfl⟩ := a2 v hq; exact hb,
              hagg, by simpa using hind, ?_⟩
            intro i hi
            have hi' : i < (names.map fun n => (assocGet (wq.getD s.weights) n,
                assocGet (vq.getD s.vehicleRates) n, assocGet s.networkRates n)).length := by
              simpa using hi
            obtain ⟨e1, e2, e3, _⟩ := C07.new_accessors _ _ _ hm' i hi'
            rw [e1, e2, e3]
            simp only [List.getElem_map, FeatureConfig.weight, FeatureConfig.vehicleRate,
              FeatureConfig.networkRate]
            refine ⟨?_, ?_, ?_⟩
            · cases assocGet (wq.getD s.weights) names[i] <;> simp [zero_eq]
            · cases assocGet (vq.getD s.vehicleRates) names[i] <;> simp
            · cases assocGet s.networkRates names[i] <;> simp

/-- a query field that is present and does not deserialise is an error response, never a silent
fall-back to the configured objective -/
theorem query_objective_malformed_is_error (s : CostService α) (num : Json → Option α) (query v : Json)
    (names : List String) :
    (query.get? "weights" = some v → parseMap num v = none →
      s.build num query names = .error .serde) ∧
    (query.get? "vehicle_rates" = some v → parseMap (parseVehicleRate num) v = none →
      ∀ m, s.build num query names ≠ .ok m) ∧
    (query.get? "cost_aggregation" = some v → parseAggregation v = none →
      ∀ m, s.build num query names ≠ .ok m) := by
  refine ⟨fun hq hp => ?_, fun hq hp m hm => ?_, fun hq hp m hm => ?_⟩
  · simp [CostService.build, optField, hq, hp]
  · obtain ⟨w, vr, ag, _, _, _, h4, _⟩ := query_objective_in_force s num query names m hm
    have := h4 v hq
    rw [hp] at this
    cases this
  · obtain ⟨w, vr, ag, _, _, _, _, _, h6, _⟩ := query_objective_in_force s num query names m hm
    have := h6 v hq
    rw [hp] at this
    cases this

/-! Non-vacuity: the service of C07's example configuration (weight 2 on `distance`, raw rate) and a
query that states its own weights and aggregation: the model carries the query's weight 5 on
`distance`, weight 1 on `time` (which the configuration does not weigh at all), `mul` aggregation,
and still the configured rate; without the fields it carries the configured values. -/
example : ((buildCostService C07.numQ C07.exConfig).map fun s =>
      ((s.build C07.numQ (.obj [("weights", .obj [("distance", .num "5" 5), ("time", .num "1" 1)]),
          ("cost_aggregation", .str "mul")]) ["distance", "time"]).toOption.map fun m =>
        (m.weights, m.agg, m.vehicleRates.map (fun r => r.mapValue 3)),
       (s.build C07.numQ (.obj []) ["distance", "time"]).toOption.map fun m =>
        (m.weights, m.agg, m.vehicleRates.map (fun r => r.mapValue 3))))
    = some (some ([5, 1], .mul, [3, 0]), some ([2, 0], .sum, [3, 0])) := by decide +kernel

/-! Non-vacuity: a three-row file (36, 72, 18 km/h) gives the engine with maximum 72; files with a
negative row, a junk row, no row and only zero rows are refused. -/
example : (speedEngineNew (some [.val (36 : ℚ), .val 72, .val 18]) .kilometersPerHour none none).toOption.map
      (fun e => (e.maxSpeed, e.table, e.timeUnit, e.distanceUnit)) =
    some (72, [36, 72, 18], baseTimeUnit, baseDistanceUnit) := by decide +kernel
example : errOf (speedEngineNew (α := ℚ) (some [.val 36, .val (-1)]) .kilometersPerHour none none) = some .read := by decide +kernel
example : errOf (speedEngineNew (α := ℚ) (some [.val 36, .junk]) .kilometersPerHour none none) = some .read := by decide +kernel
example : errOf (speedEngineNew (α := ℚ) (some [.val 36, .nan]) .kilometersPerHour none none) = some .read := by decide +kernel
example : errOf (speedEngineNew (α := ℚ) (some []) .kilometersPerHour none none) = some .empty := by decide +kernel
example : errOf (speedEngineNew (α := ℚ) (some [.val 0, .val 0]) .kilometersPerHour none none) = some .zero := by decide +kernel
example : weightFactorOfQuery (fun b => (b : ℚ)) (.obj [("weight_factor", .str "1.0")]) (some 1) = .error .build := by decide +kernel

end C02
end Compass

namespace Compass
namespace C02
open Src

/-! ### Source decision ties

The relational operators at the named comparison sites of the Rust source are re-extracted on every run
by `tools/gen_model.py` into `Compass/Gen/Decisions.lean` (`Src.<site> : Src.Rel`).  Each theorem below
says that the hand-written model decides at that site by exactly the operator the source has there
(`Rel.nat` / `Rel.int` / `Rel.num` interpret the extracted operator; an unrecognised line is `none`).  A
source change that turns `<` into `<=`, `>` into `>=`, … at a site changes the generated constant and this
proof obligation stops checking, whether or not a generated case lands on the tie. -/

theorem src_relax_improves {α : Type} [Field α] [LinearOrder α] [IsStrictOrderedRing α] [Lit α] [LawfulLit α] (tent ex : α) :
    some (improves tent (some ex)) = relax_improves.num tent ex := by
  simp [improves, relax_improves, Rel.num]

/-- A SYNTACTIC tie: in a linear order the running maximum is the same under `>` and `>=` (only which of two
equal rows is kept differs, and they are equal), so the statement with `.ge` in place of `.gt` is also true — it
is this proof script that stops checking when the extracted operator changes.  In `f64` the two differ only on
NaN rows, which `Speed::from_str` refuses. -/
theorem src_max_speed_fold {α : Type} [Field α] [LinearOrder α] [IsStrictOrderedRing α] [Lit α] [LawfulLit α] (table : List α) :
    Build.maxFold table =
      table.foldl (fun acc row => (if max_speed_fold.num acc.1 row = some true then acc.1 else row, acc.2 + 1))
        ((zero : α), 0) := by
  simp [Build.maxFold, max_speed_fold, Rel.num]

theorem src_speed_from_str_negative {α : Type} [Field α] [LinearOrder α] [IsStrictOrderedRing α] [Lit α] [LawfulLit α] (x : α) :
    Build.parseSpeed (.val x) = if speed_from_str_negative.num x (zero : α) = some true then none else some x := by
  simp [Build.parseSpeed, speed_from_str_negative, Rel.num]

end C02
end Compass
